(* C09, the healthy side: [Valid.Healthy] is an invariant of the fault-free operations.

   - [init_healthy]: a fault-free init of an empty place gives a healthy archive;
   - [backup_uh] / [backup_healthy] / [backup_killed_healthy]: from a healthy archive a
     backup (ANY source, ANY configuration) under ANY fault list without a torn write
     ([no_torn]: storage failures, a kill at any point) passes only through states that are
     healthy up to a file-less newest band directory ([HealthyUH]); every such state in which
     the new band has its BANDHEAD is healthy; the end state of the fault-free run is healthy;
   - [delete_healthy_all] / [delete_healthy]: from a healthy archive, delete / gc under EVERY
     fault list (failures, kills, torn writes) passes only through healthy states;
   - [history_healthy], [history_validates], [history_final_validates]: every state reached
     from [init] by fault-free backups, backups killed after their band header was written,
     deletes and gcs is healthy, and validates silently (full or quick, any hint);
   - [headless_band_reported]: a [HealthyUH] state with a head-less band is NOT silent (the
     documented exclusion); [healthy_uh_b_sound]: the checker of [HealthyUH];
   - examples on the states of SafeP.SafeExamples, and [backup_from_uh_refuted]: [HealthyUH]
     is not kept by a further backup.
   Not proved: that validation of a [HealthyUH] state that is not healthy reports EXACTLY one
   error (at least one: [headless_band_reported]; exactly one on the examples, by computation).

   The proof for backup uses a weakest-precondition predicate [fsafe] like [Inv.safe] but
   without the torn-write clause, with the invariant [KI]: the only new band directory is
   the one of [new_band a0], and that band is either file-less or healthy.  Everything else
   of [Healthy] comes from the theorems about all fault lists proved elsewhere
   ([backup_ainv], [backup_write_once], [backup_frame], [any_run_WFparents],
   [any_run_FilesND]).  The proof for delete instantiates the phase lemmas of DeleteP.v with
   the invariant [DI] (nothing created; a band directory still there has all it had; kept
   bands keep their blocks; no block is removed before all bands to delete are gone). *)
From Coq Require Import Lia List Bool NArith Permutation.
From CV Require Import Base.Str Base.StrP Apath Entry Stitch Tree Codec Store StitchProg Backup Ops Delete Read
  SafeP Inv RefIntP FrameP Valid ValidP Truth TruthP DeleteP Conf ConfP Healthy.
Import ListNotations.
Local Open Scope N_scope.

Notation arch := Store.arch.

(* ------------------------------------------------------------------------- *)
(** * 0. The store: one operation                                             *)
(* ------------------------------------------------------------------------- *)

Lemma has_dir_add (a : arch) d x :
  has_dir {| dirs := dirs a ++ [d]; files := files a |} x = has_dir a x || dpath_eqb x d.
Proof. unfold has_dir. cbn [dirs]. rewrite existsb_app. cbn [existsb]. rewrite orb_false_r. reflexivity. Qed.

Lemma has_dir_false_notin (a : arch) d : has_dir a d = false -> ~ In d (dirs a).
Proof. intros H Hin. apply has_dir_In in Hin. congruence. Qed.

Section OneOp.
  Variable pre : bytes -> N.

  Lemma exec_mkdir_cases (a : arch) d flt :
    fst (exec pre a (OpMkdir d) flt) = a
    \/ (has_dir a d = false
        /\ fst (exec pre a (OpMkdir d) flt) = {| dirs := dirs a ++ [d]; files := files a |}).
  Proof.
    assert (H : fst (exec_ok pre a (OpMkdir d)) = a
                \/ (has_dir a d = false
                    /\ fst (exec_ok pre a (OpMkdir d)) = {| dirs := dirs a ++ [d]; files := files a |})).
    { cbn [exec_ok]. destruct (has_dir a d) eqn:Hd; [left; reflexivity|].
      destruct (parent_d d) as [p|]; [destruct (has_dir a p)|]; cbn [fst]; auto. }
    destruct flt; cbn [exec]; auto.
  Qed.

  Lemma exec_mkdir_ok (a : arch) d flt :
    is_ok (snd (exec pre a (OpMkdir d) flt)) = true -> has_dir (fst (exec pre a (OpMkdir d) flt)) d = true.
  Proof.
    assert (H : is_ok (snd (exec_ok pre a (OpMkdir d))) = true -> has_dir (fst (exec_ok pre a (OpMkdir d))) d = true).
    { cbn [exec_ok]. destruct (has_dir a d) eqn:Hd; [intros _; exact Hd|].
      destruct (parent_d d) as [p|]; [destruct (has_dir a p)|]; cbn [fst snd is_ok]; try discriminate;
        intros _; rewrite has_dir_add, dpath_eqb_refl; apply orb_true_r. }
    destruct flt; cbn [exec]; auto. cbn [snd is_ok]. discriminate.
  Qed.

  (* a create-new write either changes nothing and fails, or succeeds on a path that was
     absent (or a zero-length leftover) in an existing directory *)
  Lemma exec_create_cases (a : arch) f p flt :
    (fst (exec pre a (OpWrite f p CreateNew) flt) = a
     /\ is_ok (snd (exec pre a (OpWrite f p CreateNew) flt)) = false)
    \/ ((get a f = None \/ get a f = Some Empty)
        /\ has_dir a (parent_f pre f) = true
        /\ exec pre a (OpWrite f p CreateNew) flt
           = ({| dirs := dirs a; files := set_file f (Good p) (files a) |}, ROk)).
  Proof.
    assert (H : (fst (exec_ok pre a (OpWrite f p CreateNew)) = a
                 /\ is_ok (snd (exec_ok pre a (OpWrite f p CreateNew))) = false)
                \/ ((get a f = None \/ get a f = Some Empty)
                    /\ has_dir a (parent_f pre f) = true
                    /\ exec_ok pre a (OpWrite f p CreateNew)
                       = ({| dirs := dirs a; files := set_file f (Good p) (files a) |}, ROk))).
    { cbn [exec_ok]. destruct (has_dir a (parent_f pre f)); [|left; split; reflexivity].
      destruct (get a f) as [[q| |]|]; cbn [fst snd is_ok]; auto. }
    destruct flt; cbn [exec]; auto.
  Qed.

  Lemma exec_list_reply (a : arch) d flt ds fs :
    snd (exec pre a (OpList d) flt) = RList ds fs ->
    ds = children_dirs a d /\ fs = children_files pre a d /\ has_dir a d = true.
  Proof.
    intros H.
    assert (Hok : snd (exec_ok pre a (OpList d)) = RList ds fs).
    { destruct flt; cbn [exec] in H; auto; discriminate. }
    cbn [exec_ok] in Hok. destruct (has_dir a d); cbn [snd] in Hok; [|discriminate].
    inversion Hok; subst. auto.
  Qed.

  (* ---- no directory is ever listed twice ---- *)
  Lemma exec_NoDup_dirs (a : arch) o flt : NoDup (dirs a) -> NoDup (dirs (fst (exec pre a o flt))).
  Proof.
    intros ND.
    assert (Hok : NoDup (dirs (fst (exec_ok pre a o)))).
    { destruct o as [f|f p m|d|d|f|f|d]; cbn [exec_ok].
      - destruct (get a f); exact ND.
      - destruct (has_dir a (parent_f pre f)); [|exact ND].
        destruct (get a f) as [[q| |]|]; destruct m; cbn [fst dirs]; exact ND.
      - destruct (has_dir a d); exact ND.
      - destruct (has_dir a d) eqn:Hd; [exact ND|].
        assert (ND' : NoDup (dirs a ++ [d])).
        { apply (Permutation_NoDup (Permutation_cons_append (dirs a) d)).
          constructor; [apply has_dir_false_notin; exact Hd | exact ND]. }
        destruct (parent_d d) as [p|]; [destruct (has_dir a p)|]; cbn [fst dirs]; auto.
      - destruct (get a f); exact ND.
      - destruct (get a f); cbn [fst dirs]; exact ND.
      - destruct (has_dir a d); cbn [fst dirs]; [apply NoDup_filter|]; exact ND. }
    destruct flt; cbn [exec fst]; auto.
  Qed.

  Lemma exec_empty_dirs (a : arch) o : dirs (exec_empty pre a o) = dirs a.
  Proof.
    destruct o as [f|f p m|d|d|f|f|d]; cbn [exec_empty]; try reflexivity.
    destruct (has_dir a (parent_f pre f)); [|reflexivity]. destruct (get a f); reflexivity.
  Qed.

  Theorem any_run_NoDup_dirs {R} (p : prog R) (a : arch) phi :
    NoDup (dirs a) ->
    Forall (fun x => NoDup (dirs x)) (run_states pre p a phi) /\ NoDup (dirs (snd (fst (run pre p a phi)))).
  Proof.
    apply (run_invariant pre (fun _ => True) (fun x => NoDup (dirs x))).
    - intros x o f _. apply exec_NoDup_dirs.
    - intros x o _ H. rewrite exec_empty_dirs. exact H.
    - apply emits_anything.
  Qed.
End OneOp.

(* ------------------------------------------------------------------------- *)
(** * 1. [Healthy] = list structure + a part that only looks through [get]/[has_dir] *)
(* ------------------------------------------------------------------------- *)

Section Split.
  Variable pre : bytes -> N.

  (* the part of [Healthy] that is a function of [get] and [has_dir] *)
  Definition HG (a : arch) : Prop :=
    has_dir a DRoot = true /\ has_dir a DBlocks = true
    /\ WFparents pre a
    /\ (forall b, has_dir a (DBand b) = true -> has_dir a (DIndex b) = true)
    /\ RefInt a /\ BlocksWF a
    /\ get a PHeader = Some (Good PlJson)
    /\ (forall b, has_dir a (DBand b) = true -> BandHealthy a b).

  Lemma WFdirs0_parents a : WFdirs0 pre a -> FilesND a -> WFparents pre a.
  Proof.
    intros (_ & _ & _ & HF & HD) _. split.
    - intros f c G. apply has_dir_In. apply (HF f c). apply get_In_files. exact G.
    - intros d p Hd Hp. apply has_dir_In. eapply HD; eauto.
  Qed.

  Lemma parents_WFdirs0 a :
    NoDup (dirs a) -> FilesND a -> has_dir a DRoot = true -> has_dir a DBlocks = true ->
    WFparents pre a -> WFdirs0 pre a.
  Proof.
    intros ND NF HR HB [HF HD]. split; [exact ND|]. split; [apply has_dir_In; exact HR|].
    split; [apply has_dir_In; exact HB|]. split.
    - intros f x Hin. apply has_dir_In. apply (HF f x). apply lookup_In_nodup; assumption.
    - intros d p Hd Hp. apply has_dir_In. eapply HD; eauto.
  Qed.

  Lemma WFdirs_split a :
    Valid.WFdirs pre a <-> WFdirs0 pre a /\ (forall b, In (DBand b) (dirs a) -> In (DIndex b) (dirs a)).
  Proof.
    unfold Valid.WFdirs, WFdirs0. split.
    - intros (H1 & H2 & H3 & H4 & H5 & H6). repeat split; assumption.
    - intros ((H1 & H2 & H3 & H4 & H5) & H6). repeat split; assumption.
  Qed.

  Lemma Healthy_HG a : Healthy pre a -> NoDup (dirs a) /\ FilesND a /\ HG a.
  Proof.
    intros (W & A & Hh & HB). apply WFdirs_split in W. destruct W as [W0 Wi].
    pose proof A as (RI & BW & NF). pose proof W0 as (ND & HR & HBl & _).
    split; [exact ND|]. split; [exact NF|].
    split; [apply has_dir_In; exact HR|]. split; [apply has_dir_In; exact HBl|].
    split; [apply WFdirs0_parents; assumption|].
    split; [intros b Hb; apply has_dir_In, Wi, has_dir_In; exact Hb|].
    split; [exact RI|]. split; [exact BW|]. split; [exact Hh|].
    intros b Hb. apply HB. apply has_dir_In. exact Hb.
  Qed.

  Lemma HG_Healthy a : NoDup (dirs a) -> FilesND a -> HG a -> Healthy pre a.
  Proof.
    intros ND NF (HR & HBl & WP & Hi & RI & BW & Hh & HB).
    split; [|split; [split; [exact RI|split; [exact BW|exact NF]]|split; [exact Hh|]]].
    - apply WFdirs_split. split; [apply parents_WFdirs0; assumption|].
      intros b Hb. apply has_dir_In, Hi, has_dir_In. exact Hb.
    - intros b Hb. apply HB. apply has_dir_In. exact Hb.
  Qed.

  (* ---- [HealthyUH] and [Healthy] ---- *)
  Lemma Healthy_UH a : Healthy pre a -> HealthyUH pre a.
  Proof.
    intros (W & A & Hh & HB). apply WFdirs_split in W. destruct W as [W0 Wi].
    split; [exact W0|]. split; [exact A|]. split; [exact Hh|].
    intros b Hb. left. auto.
  Qed.

  (* a state that is healthy up to a file-less newest band, and in which every band has its
     head, is healthy *)
  Lemma UH_Healthy a :
    HealthyUH pre a -> (forall b, In (DBand b) (dirs a) -> get a (PHead b) <> None) -> Healthy pre a.
  Proof.
    intros (W0 & A & Hh & HB) Hheads.
    assert (Hb : forall b, In (DBand b) (dirs a) -> In (DIndex b) (dirs a) /\ BandHealthy a b).
    { intros b Hin. destruct (HB b Hin) as [H|[(Hc & _) _]]; [exact H|].
      exfalso. exact (Hheads b Hin Hc). }
    split; [apply WFdirs_split; split; [exact W0 | intros b Hin; apply (Hb b Hin)]|].
    split; [exact A|]. split; [exact Hh|]. intros b Hin. apply (Hb b Hin).
  Qed.
End Split.

(* ------------------------------------------------------------------------- *)
(** * 2. The logic [fsafe]: [Inv.safe] without torn writes                    *)
(* ------------------------------------------------------------------------- *)

Section FSafe.
  Variable pre : bytes -> N.
  Variable K : arch -> Prop.

  (* from state [a], whatever the storage answers (every failure on every operation), every
     state passed through satisfies [K], and a result [r] returned in state [a'] satisfies
     [Q r a'].  ([exec] under [Crash]/[CrashEmpty] is [exec_ok]: harmless here.) *)
  Fixpoint fsafe {R} (Q : R -> arch -> Prop) (p : prog R) (a : arch) : Prop :=
    match p with
    | Ret r => Q r a
    | Panic => True
    | Do o k =>
        forall f, K (fst (exec pre a o f))
                  /\ fsafe Q (k (snd (exec pre a o f))) (fst (exec pre a o f))
    end.

  Lemma fsafe_weaken {R} (Q Q' : R -> arch -> Prop) (p : prog R) :
    (forall r a, Q r a -> Q' r a) -> forall a, fsafe Q p a -> fsafe Q' p a.
  Proof.
    intros HQ. induction p as [r|o k IH|]; intros a H; cbn [fsafe] in *; auto.
    intros f. destruct (H f) as [Hi Hs]. split; [exact Hi|]. apply IH. exact Hs.
  Qed.

  Lemma fsafe_bind {A B} (Q : A -> arch -> Prop) (Q' : B -> arch -> Prop) (p : prog A) (g : A -> prog B) :
    (forall r a, Q r a -> fsafe Q' (g r) a) -> forall a, fsafe Q p a -> fsafe Q' (bind p g) a.
  Proof.
    intros Hg. induction p as [r|o k IH|]; intros a H; cbn [fsafe bind] in *; auto.
    intros f. destruct (H f) as [Hi Hs]. split; [exact Hi|]. apply IH. exact Hs.
  Qed.

  (* soundness, for every fault list without a torn write *)
  Lemma fsafe_sound {R} (Q : R -> arch -> Prop) (p : prog R) :
    forall a phi, no_torn phi -> K a -> fsafe Q p a ->
      Forall K (run_states pre p a phi)
      /\ K (snd (fst (run pre p a phi)))
      /\ (forall r, snd (run pre p a phi) = Done r -> Q r (snd (fst (run pre p a phi)))).
  Proof.
    induction p as [r|o k IH|]; intros a phi Hphi Ha H.
    - cbn. split; [constructor|]. split; [exact Ha|]. intros r' E. inversion E; subst. exact H.
    - cbn [fsafe] in H. rewrite run_Do, run_states_Do.
      assert (Htl : no_torn (tl phi)) by (destruct Hphi; cbn [tl]; [constructor | assumption]).
      destruct (hdf phi) as [|e| |] eqn:Eh; cbn [fst snd].
      + destruct (H NoFault) as [Hi Hs].
        destruct (IH _ _ (tl phi) Htl Hi Hs) as (F1 & F2 & F3). split; [constructor; assumption|]. split; assumption.
      + destruct (H (Fail e)) as [Hi Hs].
        destruct (IH _ _ (tl phi) Htl Hi Hs) as (F1 & F2 & F3). split; [constructor; assumption|]. split; assumption.
      + split; [constructor|]. split; [exact Ha|]. intros r E. discriminate E.
      + exfalso. destruct Hphi as [|x l Hx _]; cbn [hdf] in Eh; [discriminate|]. exact (Hx Eh).
    - cbn. split; [constructor|]. split; [exact Ha|]. intros r E. discriminate E.
  Qed.

  Lemma fsafe_read {R} (Q : R -> arch -> Prop) o (k : reply -> prog R) a :
    reads_only o -> K a -> (forall flt, fsafe Q (k (snd (exec pre a o flt))) a) -> fsafe Q (Do o k) a.
  Proof.
    intros Ho Ha Hk. cbn [fsafe]. intros f. rewrite (exec_read_same pre a o f Ho). split; [exact Ha | apply Hk].
  Qed.

  Lemma fsafe_reads_only {R} (p : prog R) :
    emits_only reads_only p -> forall a, K a -> fsafe (fun _ a' => a' = a) p a.
  Proof.
    intros H. induction H as [r| |o k Ho _ IH]; intros a Ha; cbn [fsafe]; auto.
    intros f. rewrite (exec_read_same pre a o f Ho). split; [exact Ha | apply IH; exact Ha].
  Qed.

  (* a program all of whose operations step along a relation under which [K] is closed *)
  Variable Rel : arch -> arch -> Prop.
  Hypothesis Rel_refl : forall a, Rel a a.
  Hypothesis Rel_trans : forall a b c, Rel a b -> Rel b c -> Rel a c.
  Hypothesis K_Rel : forall a a', Rel a a' -> K a -> K a'.

  Lemma fsafe_ep {R} (P : op -> Prop) (Qr : R -> Prop) (p : prog R) :
    (forall a o f, P o -> Rel a (fst (exec pre a o f))) ->
    emits_post P Qr p ->
    forall a, K a -> fsafe (fun r a' => Rel a a' /\ Qr r) p a.
  Proof.
    intros HP H a Ha.
    assert (G : forall a1, Rel a a1 -> fsafe (fun r a' => Rel a a' /\ Qr r) p a1).
    { induction H as [r Hr| |o k Ho _ IH]; intros a1 H1; cbn [fsafe]; auto.
      intros f. pose proof (Rel_trans _ _ _ H1 (HP a1 o f Ho)) as H2.
      split; [eapply K_Rel; eauto | apply IH; exact H2]. }
    apply G. apply Rel_refl.
  Qed.
End FSafe.

(* ------------------------------------------------------------------------- *)
(** * 3. The backup: the new band                                             *)
(* ------------------------------------------------------------------------- *)

(* the band id is kept by the writer-state transformers, and so are the index counters *)
Definition hsidx (w w' : wst) : Prop :=
  w_band w' = w_band w /\ w_seq w' = w_seq w /\ w_hunks w' = w_hunks w.

Lemma hsidx_refl w : hsidx w w.
Proof. repeat split. Qed.
Lemma hsidx_trans w w1 w2 : hsidx w w1 -> hsidx w1 w2 -> hsidx w w2.
Proof. intros (A & B & C) (D & E & F). unfold hsidx. repeat split; congruence. Qed.

(* operations that touch neither a band directory nor an index directory nor a band file *)
Definition nop (o : op) : Prop :=
  match o with
  | OpRead _ | OpList _ | OpMeta _ => True
  | OpMkdir (DBlockSub _) | OpMkdir (DHunkSub _ _) => True
  | OpWrite (PBlock _) _ CreateNew => True
  | _ => False
  end.

Lemma reads_nop o : reads_only o -> nop o.
Proof. destruct o; cbn; tauto. Qed.

Section NopProgs.
  Variable pre : bytes -> N.

  Definition hkeeps {A} (w : wst) (rw : A * wst) : Prop := hsidx w (snd rw).

  Ltac hret := apply ep_ret; unfold hkeeps, hsidx in *; cbn in *; intuition congruence.

  Lemma store_block_nop w c : emits_post nop (hkeeps w) (store_block pre w c).
  Proof.
    unfold store_block. destruct (mem_bytes c (w_exists w)); [hret|].
    apply ep_do; [exact I|]. intros r. destruct (is_ok r); [|hret].
    apply ep_do; [exact I|]. intros r2. destruct (is_ok r2); hret.
  Qed.

  Lemma comb_flush_nop w : emits_post nop (hkeeps w) (comb_flush pre w).
  Proof.
    unfold comb_flush. destruct (w_queue w) as [|q0 q]; [hret|].
    eapply ep_bind; [apply store_block_nop|].
    intros [ok w'] Hw'. destruct ok; hret.
  Qed.

  Lemma comb_push_nop c w e data : emits_post nop (hkeeps w) (comb_push pre c w e data).
  Proof.
    unfold comb_push. destruct data as [|x data]; [hret|].
    match goal with |- emits_post _ _ (if ?x then _ else _) => destruct x end; [|hret].
    eapply ep_weaken; [intros o H; exact H | | apply comb_flush_nop].
    intros rw H. unfold hkeeps, hsidx in *. cbn in H. exact H.
  Qed.

  Lemma store_chunks_nop cs : forall w acc, emits_post nop (hkeeps w) (store_chunks pre w cs acc).
  Proof.
    induction cs as [|c cs IH]; intros w acc; cbn [store_chunks]; [hret|].
    eapply ep_bind; [apply store_block_nop|].
    intros [ok w'] Hw'. destruct ok; [|hret].
    eapply ep_weaken; [intros o H; exact H | | apply IH].
    intros rw H. unfold hkeeps in *. cbn [snd] in Hw'. eapply hsidx_trans; eauto.
  Qed.

  Lemma copy_entry_nop c w basis it : emits_post nop (hkeeps w) (copy_entry pre c w basis it).
  Proof.
    unfold copy_entry.
    destruct (s_kind (si_e it)); try hret.
    match goal with |- emits_post _ _ (match ?x with _ => _ end) => destruct x end; [hret|].
    destruct (s_size (si_e it) =? 0); [hret|].
    destruct (s_size (si_e it) <=? c_sfc c); [apply comb_push_nop|].
    eapply ep_bind; [apply store_chunks_nop|].
    intros [o w'] Hw'. destruct o; hret.
  Qed.
End NopProgs.

Section Bk.
  Variable pre : bytes -> N.
  Variable a0 : arch.
  Variable id : N.                       (* the band the backup creates *)

  Definition bfile (f : fpath) : Prop :=
    match f with PHead n | PTail n | PHunk n _ => n = id | _ => False end.

  (* the same band directories, the same index directory and files of band [id] *)
  Definition BSame (a a' : arch) : Prop :=
    (forall n, has_dir a' (DBand n) = has_dir a (DBand n))
    /\ has_dir a' (DIndex id) = has_dir a (DIndex id)
    /\ (forall f, bfile f -> get a' f = get a f).

  Lemma BSame_refl a : BSame a a.
  Proof. repeat split. Qed.
  Lemma BSame_trans a b c : BSame a b -> BSame b c -> BSame a c.
  Proof.
    intros (A1 & A2 & A3) (B1 & B2 & B3). split; [|split].
    - intros n. rewrite B1. apply A1.
    - rewrite B2. exact A2.
    - intros f Hf. rewrite B3 by exact Hf. apply A3. exact Hf.
  Qed.

  (* no band directory appears but that of [id] *)
  Definition KD (a : arch) : Prop :=
    forall n, has_dir a (DBand n) = true -> has_dir a0 (DBand n) = true \/ n = id.
  Definition NewOK (a : arch) : Prop :=
    has_dir a (DBand id) = true /\ has_dir a (DIndex id) = true /\ BandHealthy a id.
  (* THE invariant of the states a backup passes through *)
  Definition KI (a : arch) : Prop := KD a /\ (band_clear a id \/ NewOK a).

  Lemma BandHealthy_BSame a a' : BSame a a' -> BandHealthy a id -> BandHealthy a' id.
  Proof.
    intros (_ & _ & HF) (Hh & n & H1 & H2 & H3).
    split; [rewrite HF by reflexivity; exact Hh|]. exists n. split; [|split].
    - intros h. rewrite HF by reflexivity. apply H1.
    - intros h Hh'. rewrite HF by reflexivity. apply H2. exact Hh'.
    - rewrite HF by reflexivity. exact H3.
  Qed.

  Lemma KI_BSame a a' : BSame a a' -> KI a -> KI a'.
  Proof.
    intros HS [HD HB]. pose proof HS as (S1 & S2 & S3). split.
    - intros n Hn. rewrite S1 in Hn. apply HD. exact Hn.
    - destruct HB as [(C1 & C2 & C3)|(N1 & N2 & N3)].
      + left. split; [|split]; [rewrite S3 by reflexivity; exact C1
                               | intros h; rewrite S3 by reflexivity; apply C2
                               | rewrite S3 by reflexivity; exact C3].
      + right. split; [rewrite S1; exact N1|]. split; [rewrite S2; exact N2|].
        eapply BandHealthy_BSame; eauto.
  Qed.

  Lemma exec_nop_BSame a o flt : nop o -> BSame a (fst (exec pre a o flt)).
  Proof.
    intros Ho. destruct o as [f|f p m|d|d|f|f|d]; cbn in Ho; try contradiction.
    - rewrite exec_read_same by exact I. apply BSame_refl.
    - destruct f as [| | | | |c]; try contradiction. destruct m; [|contradiction].
      destruct (exec_create_cases pre a (PBlock c) p flt) as [[E _]|(_ & _ & E)]; rewrite E;
        [apply BSame_refl|]. cbn [fst].
      split; [reflexivity|]. split; [reflexivity|].
      intros g Hg. apply get_set_other. intros ->. exact Hg.
    - rewrite exec_read_same by exact I. apply BSame_refl.
    - assert (Hd : forall n, dpath_eqb (DBand n) d = false /\ dpath_eqb (DIndex id) d = false)
        by (destruct d; try contradiction; intros n; split; reflexivity).
      destruct (exec_mkdir_cases pre a d flt) as [E|[_ E]]; rewrite E; [apply BSame_refl|].
      split; [|split].
      + intros n. rewrite has_dir_add, (proj1 (Hd n)). apply orb_false_r.
      + rewrite has_dir_add, (proj2 (Hd 0)). apply orb_false_r.
      + intros g _. reflexivity.
    - rewrite exec_read_same by exact I. apply BSame_refl.
  Qed.

  Notation fsafe := (fsafe pre KI).

  (* a [nop]-program with a postcondition on its result *)
  Lemma fsafe_nop {R} (Qr : R -> Prop) (p : prog R) a :
    emits_post nop Qr p -> KI a -> fsafe (fun r a' => BSame a a' /\ Qr r) p a.
  Proof.
    intros H Ha.
    apply (fsafe_ep pre KI BSame BSame_refl BSame_trans KI_BSame nop); [|exact H | exact Ha].
    intros x o f Ho. apply exec_nop_BSame. exact Ho.
  Qed.

  (* ---- the writer state and the new band ---- *)
  Definition WI (a : arch) (w : wst) : Prop :=
    KD a /\ w_band w = id /\ w_hunks w = w_seq w
    /\ has_dir a (DBand id) = true /\ has_dir a (DIndex id) = true
    /\ get a (PHead id) = Some (Good (PlHead HvOk))
    /\ (forall h, w_seq w <= h -> get a (PHunk id h) = None)
    /\ (forall h, h < w_seq w -> exists es, get a (PHunk id h) = Some (Good (PlHunk es)))
    /\ get a (PTail id) = None.

  Lemma WI_KI a w : WI a w -> KI a.
  Proof.
    intros (HD & _ & _ & H1 & H2 & H3 & H4 & H5 & H6). split; [exact HD|]. right.
    split; [exact H1|]. split; [exact H2|]. split; [exact H3|]. exists (w_seq w).
    split; [|split; [exact H5 | left; exact H6]].
    intros h Hh. destruct (N.lt_ge_cases h (w_seq w)) as [L|L]; [exact L|]. exfalso. apply Hh. apply H4. exact L.
  Qed.

  Lemma WI_BSame a a' w w' : BSame a a' -> hsidx w w' -> WI a w -> WI a' w'.
  Proof.
    intros (S1 & S2 & S3) (I1 & I2 & I3) (HD & H0 & H00 & H1 & H2 & H3 & H4 & H5 & H6).
    unfold WI. rewrite I1, I2, I3, S1, S2, !S3 by reflexivity.
    split; [intros n Hn; rewrite S1 in Hn; apply HD; exact Hn|].
    repeat (split; [assumption|]).
    split; [intros h Hh; rewrite S3 by reflexivity; apply H4; exact Hh|].
    split; [intros h Hh; rewrite S3 by reflexivity; apply H5; exact Hh | exact H6].
  Qed.

  Lemma WI_idx a w w' : hsidx w w' -> WI a w -> WI a w'.
  Proof. apply WI_BSame. apply BSame_refl. Qed.

  Definition WQ' {A} (rw : A * wst) (a' : arch) : Prop := WI a' (snd rw).

  (* a [nop]-program that keeps the index counters keeps [WI] *)
  Lemma fsafe_nop_WI {A} (p : prog (A * wst)) a w :
    emits_post nop (hkeeps w) p -> WI a w -> fsafe WQ' p a.
  Proof.
    intros H HW. eapply fsafe_weaken; [|apply (fsafe_nop _ p a H); eapply WI_KI; eauto].
    intros rw a' [HS Hi]. unfold WQ'. eapply WI_BSame; eauto.
  Qed.

  Lemma set_file_dirs (a : arch) f x d :
    has_dir {| dirs := dirs a; files := set_file f x (files a) |} d = has_dir a d.
  Proof. reflexivity. Qed.

  (* IndexWriter::finish_hunk *)
  Lemma finish_hunk_h w a : WI a w -> fsafe WQ' (finish_hunk w) a.
  Proof.
    intros HW. unfold finish_hunk. destruct (w_entries w) as [|e0 es] eqn:Ee; [exact HW|].
    pose proof HW as (_ & Hb & _). rewrite Hb.
    assert (Hwrite : forall a1, WI a1 w ->
      fsafe WQ'
        (Do (OpWrite (PHunk id (w_seq w)) (PlHunk (sort_entries (e0 :: es))) CreateNew) (fun r =>
           if is_ok r then Ret (true, upd_index w [] (w_seq w + 1) (w_hunks w + 1)) else Ret (false, w))) a1).
    { intros a1 HW1. cbn [HealthyP.fsafe]. intros f.
      pose proof HW1 as (HD & H0 & H00 & H1 & H2 & H3 & H4 & H5 & H6).
      destruct (exec_create_cases pre a1 (PHunk id (w_seq w)) (PlHunk (sort_entries (e0 :: es))) f)
        as [[E1 E2]|(_ & _ & E)].
      - rewrite E1, E2. split; [eapply WI_KI; eauto | exact HW1].
      - rewrite E. cbn [fst snd is_ok].
        set (a2 := {| dirs := dirs a1;
                      files := set_file (PHunk id (w_seq w)) (Good (PlHunk (sort_entries (e0 :: es)))) (files a1) |}).
        assert (HW2 : WI a2 (upd_index w [] (w_seq w + 1) (w_hunks w + 1))).
        { unfold WI. cbn [upd_index w_band w_seq w_hunks].
          split; [exact HD|]. split; [exact H0|]. split; [lia|].
          split; [exact H1|]. split; [exact H2|].
          split; [unfold a2; rewrite get_set_other by discriminate; exact H3|].
          split; [|split].
          - intros h Hh. unfold a2. rewrite get_set_other by (intros E'; inversion E'; lia). apply H4. lia.
          - intros h Hh. destruct (N.eq_dec h (w_seq w)) as [->|Hne].
            + eexists. unfold a2. apply get_set_same.
            + unfold a2. rewrite get_set_other by (intros E'; inversion E'; contradiction). apply H5. lia.
          - unfold a2. rewrite get_set_other by discriminate. exact H6. }
        split; [eapply WI_KI; eauto | exact HW2]. }
    destruct (w_seq w mod HUNKS_PER_SUBDIR =? 0); [|apply Hwrite; exact HW].
    cbn [HealthyP.fsafe]. intros f.
    pose proof (exec_nop_BSame a (OpMkdir (DHunkSub id (w_seq w / HUNKS_PER_SUBDIR))) f I) as HS.
    assert (HW1 : WI (fst (exec pre a (OpMkdir (DHunkSub id (w_seq w / HUNKS_PER_SUBDIR))) f)) w)
      by (eapply WI_BSame; [exact HS | apply hsidx_refl | exact HW]).
    split; [eapply WI_KI; eauto|].
    destruct (is_ok _); [apply Hwrite; exact HW1 | exact HW1].
  Qed.

  (* BackupWriter::flush_group *)
  Lemma flush_group_h w a : WI a w -> fsafe WQ' (flush_group pre w) a.
  Proof.
    intros HW. unfold flush_group.
    eapply fsafe_bind; [|apply (fsafe_nop_WI _ a w (comb_flush_nop pre w) HW)].
    intros [ok w1] a1 HW1. unfold WQ' in HW1. cbn [snd] in HW1.
    destruct ok; [|exact HW1].
    apply finish_hunk_h. eapply WI_idx; [|exact HW1]. repeat split.
  Qed.

  Definition QTrue (_ : bres) (_ : arch) : Prop := True.

  Lemma snext_h keep skip st last merr a (Q : sres -> arch -> Prop) :
    KI a -> (forall r, Q r a) -> fsafe Q (snext keep skip st last merr) a.
  Proof.
    intros Ha HQ. eapply fsafe_weaken; [|apply fsafe_reads_only; [apply snext_eo; auto | exact Ha]].
    intros r a' ->. apply HQ.
  Qed.

  (* the merge loop, BackupWriter::finish and Band::close *)
  Lemma merge_loop_h c src : forall peek st last w a,
    WI a w -> fsafe QTrue (merge_loop pre c src peek st last w) a.
  Proof.
    induction src as [|it src IH]; intros peek st last w a HW; cbn [merge_loop].
    - eapply fsafe_bind; [|apply (snext_h _ _ _ _ _ a (fun _ a' => a' = a)); [eapply WI_KI; eauto | reflexivity]].
      intros [[[[skipped na] st'] last'] merr] a' ->.
      eapply fsafe_bind; [|apply flush_group_h; eapply WI_idx; [|exact HW]; repeat split].
      intros [ok w2] a2 HW2. unfold WQ' in HW2. cbn [snd] in HW2.
      destruct ok; [|exact I].
      cbn [HealthyP.fsafe]. intros f.
      pose proof HW2 as (HD & H0 & H00 & H1 & H2 & H3 & H4 & H5 & H6).
      destruct (exec_create_cases pre a2 (PTail (w_band w2)) (PlTail (Some (w_hunks w2))) f) as [[E1 E2]|(_ & _ & E)].
      + rewrite E1, E2. split; [eapply WI_KI; eauto | exact I].
      + rewrite E. cbn [fst snd is_ok]. split; [|exact I].
        rewrite H0, H00. split; [exact HD|]. right.
        split; [exact H1|]. split; [exact H2|].
        split; [rewrite get_set_other by discriminate; exact H3|].
        exists (w_seq w2). split; [|split].
        * intros h. rewrite get_set_other by discriminate. intros Hh.
          destruct (N.lt_ge_cases h (w_seq w2)) as [L|L]; [exact L|]. exfalso. apply Hh. apply H4. exact L.
        * intros h Hh. rewrite get_set_other by discriminate. apply H5. exact Hh.
        * right. apply get_set_same.
    - assert (Hk : forall (skipped : list entry) na st' last' merr,
        fsafe QTrue
          (let w0 := upd_counts w (w_errors w) merr (w_deleted w + N.of_nat (length skipped)) in
           let '(basis, na') :=
             match na with
             | Some e => match apath_cmp (e_apath e) (s_apath (si_e it)) with
                         | Eq => (Some e, None) | _ => (None, na) end
             | None => (None, None)
             end in
           bind (copy_entry pre c w0 basis it) (fun rw =>
             let '(ok, w1) := rw in
             let w2 := if ok then w1 else upd_counts w1 (w_errors w1 + 1) (w_merr w1 + 1) (w_deleted w1) in
             if ok && (c_meph c <=? N.of_nat (length (w_entries w2)) + N.of_nat (length (w_queue w2))) then
               bind (flush_group pre w2) (fun rw2 =>
                 let '(ok2, w3) := rw2 in
                 if ok2 then merge_loop pre c src na' st' last' w3 else Ret (fail w3))
             else merge_loop pre c src na' st' last' w2)) a).
      { intros skipped na st' last' merr. cbv zeta.
        match goal with |- HealthyP.fsafe _ _ _ (let '(_, _) := ?x in _) _ => destruct x as [basis na'] end.
        eapply fsafe_bind;
          [|apply (fsafe_nop_WI _ a _ (copy_entry_nop pre c _ basis it)); eapply WI_idx; [|exact HW]; repeat split].
        intros [ok w1] a1 HW1. unfold WQ' in HW1. cbn [snd] in HW1.
        assert (HW2 : WI a1 (if ok then w1 else upd_counts w1 (w_errors w1 + 1) (w_merr w1 + 1) (w_deleted w1)))
          by (destruct ok; [exact HW1 | eapply WI_idx; [|exact HW1]; repeat split]).
        match goal with |- HealthyP.fsafe _ _ _ (if ?x then _ else _) _ => destruct x end.
        - eapply fsafe_bind; [|apply flush_group_h; exact HW2].
          intros [ok2 w3] a2 HW3. unfold WQ' in HW3. cbn [snd] in HW3.
          destruct ok2; [|exact I]. apply IH. exact HW3.
        - apply IH. exact HW2. }
      assert (Hsn : forall (before : entry -> bool) (kk : sres -> prog bres),
                (forall r, fsafe QTrue (kk r) a) ->
                fsafe QTrue (bind (snext keep_all before st last (w_merr w)) kk) a).
      { intros before kk Hkk.
        eapply fsafe_bind; [|apply (snext_h _ _ _ _ _ a (fun _ a' => a' = a)); [eapply WI_KI; eauto | reflexivity]].
        intros r a' ->. apply Hkk. }
      destruct peek as [e|].
      + match goal with |- HealthyP.fsafe _ _ _ (if ?x then _ else _) _ => destruct x end.
        * apply Hsn. intros [[[[skipped na] st'] last'] merr]. apply Hk.
        * exact (Hk [] (Some e) st last (w_merr w)).
      + apply Hsn. intros [[[[skipped na] st'] last'] merr]. apply Hk.
  Qed.

  Lemma list_blocks_h subs : forall acc failed k a,
    KI a -> (forall o, fsafe QTrue (k o) a) -> fsafe QTrue (list_blocks subs acc failed k) a.
  Proof.
    induction subs as [|s subs IH]; intros acc failed k a Ha Hk; cbn [list_blocks]; [apply Hk|].
    apply fsafe_read; [exact I | exact Ha|]. intros flt.
    destruct (snd (exec pre a (OpList (DBlockSub s)) flt)); apply IH; assumption.
  Qed.
End Bk.

Section BkTop.
  Variable pre : bytes -> N.
  Variable a0 : arch.
  Notation id := (new_band a0).
  Notation KI := (KI a0 id).
  Notation KD := (KD a0 id).
  Notation WI := (WI a0 id).
  Notation fsafe := (fsafe pre KI).

  Lemma new_band_fresh : has_dir a0 (DBand id) = false.
  Proof.
    destruct (has_dir a0 (DBand id)) eqn:Hd; [|reflexivity]. exfalso.
    assert (Hin : In (DBand id) (children_dirs a0 DRoot)).
    { unfold children_dirs. apply filter_In. split; [apply has_dir_In; exact Hd | reflexivity]. }
    pose proof (next_id_fresh _ _ Hin) as L. unfold new_band in L at 1. unfold new_band in Hin. lia.
  Qed.

  Hypothesis HWP : WFparents pre a0.

  Lemma new_band_clear : band_clear a0 id.
  Proof.
    destruct (WFparents_NoOrphans pre a0 HWP id new_band_fresh) as [Hh Ht].
    split; [|split; assumption].
    destruct (get a0 (PHead id)) as [x|] eqn:G; [|reflexivity].
    apply (proj1 HWP) in G. cbn [parent_f] in G. rewrite new_band_fresh in G. discriminate.
  Qed.

  (* before the BANDHEAD is written: the files of [a0], perhaps the new band directory *)
  Definition PreH (a : arch) : Prop := (forall g, get a g = get a0 g) /\ KD a.

  Lemma PreH_KI a : PreH a -> KI a.
  Proof.
    intros [HG HD]. split; [exact HD|]. left.
    destruct new_band_clear as (C1 & C2 & C3). unfold band_clear. rewrite !HG.
    split; [exact C1|]. split; [intros h; rewrite HG; apply C2 | exact C3].
  Qed.

  Lemma PreH_mkdir a d flt :
    (d = DBand id \/ d = DIndex id) -> PreH a -> PreH (fst (exec pre a (OpMkdir d) flt)).
  Proof.
    intros Hd [HG HD]. destruct (exec_mkdir_cases pre a d flt) as [E|[_ E]]; rewrite E; [split; assumption|].
    split; [exact HG|]. intros n Hn. rewrite has_dir_add in Hn. apply orb_true_iff in Hn.
    destruct Hn as [Hn|Hn]; [apply HD; exact Hn|].
    destruct Hd as [-> | ->]; [|discriminate].
    destruct (dpath_eqb_spec (DBand n) (DBand id)) as [E'|]; [|discriminate]. inversion E'. auto.
  Qed.

  Lemma mkdir_mono a d flt x : has_dir a x = true -> has_dir (fst (exec pre a (OpMkdir d) flt)) x = true.
  Proof.
    intros Hx. destruct (exec_mkdir_cases pre a d flt) as [E|[_ E]]; rewrite E; [exact Hx|].
    rewrite has_dir_add, Hx. reflexivity.
  Qed.

  Theorem backup_h c src : fsafe (QTrue) (backup_prog pre c src) a0.
  Proof.
    assert (HP0 : PreH a0) by (split; [reflexivity | intros n Hn; left; exact Hn]).
    pose proof (PreH_KI a0 HP0) as HK0.
    unfold backup_prog, open_archive.
    apply fsafe_read; [exact I | exact HK0|]. intros f0.
    destruct (snd (exec pre a0 (OpRead PHeader) f0)) as [| |[[| | | |]| |]| |]; try exact I.
    apply fsafe_read; [exact I | exact HK0|]. intros f1.
    destruct (snd (exec pre a0 (OpMeta PLock) f1)) as [|[| | |]| | |]; try exact I.
    apply fsafe_read; [exact I | exact HK0|]. intros f2.
    destruct (snd (exec pre a0 (OpList DRoot) f2)) as [| | |ds1 fs1|]; try exact I.
    apply fsafe_read; [exact I | exact HK0|]. intros f3.
    destruct (snd (exec pre a0 (OpList DRoot) f3)) as [| | |ds2 fs2|] eqn:E3; try exact I.
    cbv zeta.
    destruct (exec_list_reply pre a0 DRoot f3 ds2 fs2 E3) as (-> & _ & _).
    change (match max_id (band_ids (children_dirs a0 DRoot)) with Some m => m + 1 | None => 0 end) with id.
    (* Band::create: mkdir bNNNN *)
    cbn [HealthyP.fsafe]. intros g3.
    pose proof (PreH_mkdir a0 (DBand id) g3 (or_introl eq_refl) HP0) as HP3.
    split; [apply PreH_KI; exact HP3|].
    destruct (is_ok (snd (exec pre a0 (OpMkdir (DBand id)) g3))) eqn:O3; [|exact I].
    pose proof (exec_mkdir_ok pre a0 (DBand id) g3 O3) as D3.
    set (a3 := fst (exec pre a0 (OpMkdir (DBand id)) g3)) in *.
    (* mkdir bNNNN/i *)
    cbn [HealthyP.fsafe]. intros g4.
    pose proof (PreH_mkdir a3 (DIndex id) g4 (or_intror eq_refl) HP3) as HP4.
    split; [apply PreH_KI; exact HP4|].
    destruct (is_ok (snd (exec pre a3 (OpMkdir (DIndex id)) g4))) eqn:O4; [|exact I].
    pose proof (exec_mkdir_ok pre a3 (DIndex id) g4 O4) as D4.
    pose proof (mkdir_mono a3 (DIndex id) g4 _ D3) as D3'.
    set (a4 := fst (exec pre a3 (OpMkdir (DIndex id)) g4)) in *.
    (* BANDHEAD *)
    cbn [HealthyP.fsafe]. intros g5.
    destruct (exec_create_cases pre a4 (PHead id) (PlHead HvOk) g5) as [[E1 E2]|(_ & _ & E)].
    { rewrite E1, E2. split; [apply PreH_KI; exact HP4 | exact I]. }
    rewrite E. cbn [fst snd is_ok].
    set (a5 := {| dirs := dirs a4; files := set_file (PHead id) (Good (PlHead HvOk)) (files a4) |}).
    assert (HW5 : forall ex, WI a5 {| w_band := id; w_entries := []; w_seq := 0; w_hunks := 0;
                                       w_buf := []; w_queue := []; w_fin := []; w_exists := ex;
                                       w_errors := 0; w_merr := 0; w_written := 0; w_deleted := 0 |}).
    { intros ex. destruct HP4 as [HG4 HD4]. destruct new_band_clear as (C1 & C2 & C3).
      unfold HealthyP.WI. cbn [w_band w_seq w_hunks].
      split; [exact HD4|]. split; [reflexivity|]. split; [reflexivity|].
      split; [exact D3'|]. split; [exact D4|].
      split; [apply get_set_same|]. split; [|split].
      - intros h _. unfold a5. rewrite get_set_other by discriminate. rewrite HG4. apply C2.
      - intros h Hh. lia.
      - unfold a5. rewrite get_set_other by discriminate. rewrite HG4. exact C3. }
    assert (HK5 : KI a5) by (eapply WI_KI; apply (HW5 [])).
    split; [exact HK5|].
    apply fsafe_read; [exact I | exact HK5|]. intros f5b.
    destruct (snd (exec pre a5 (OpList DRoot) f5b)) as [| | |ds5 fs5|]; try exact I.
    destruct (existsb (fun p => fpath_eqb (fst p) PLock) fs5); [exact I|].
    apply fsafe_read; [exact I | exact HK5|]. intros f6.
    destruct (snd (exec pre a5 (OpList DBlocks) f6)) as [| | |ds3 fs3|]; try exact I.
    apply list_blocks_h; [exact HK5|].
    intros [ex|]; [|exact I].
    apply merge_loop_h. apply HW5.
  Qed.
End BkTop.

(* ------------------------------------------------------------------------- *)
(** * 4. The backup: assembling [Healthy]                                     *)
(* ------------------------------------------------------------------------- *)

Section BkAssemble.
  Variable pre : bytes -> N.
  Variable a0 : arch.
  Notation id := (new_band a0).
  Hypothesis HH0 : Healthy pre a0.

  Lemma lt_new_band b : has_dir a0 (DBand b) = true -> b < id.
  Proof.
    intros Hd.
    assert (Hin : In (DBand b) (children_dirs a0 DRoot)).
    { unfold children_dirs. apply filter_In. split; [apply has_dir_In; exact Hd | reflexivity]. }
    exact (next_id_fresh _ _ Hin).
  Qed.

  Lemma BandHealthy_same a b :
    (forall f, FrameP.band_file b f -> get a f = get a0 f) -> BandHealthy a0 b -> BandHealthy a b.
  Proof.
    intros HF (Hh & n & H1 & H2 & H3).
    split; [rewrite HF by reflexivity; exact Hh|]. exists n. split; [|split].
    - intros h. rewrite HF by reflexivity. apply H1.
    - intros h Hh'. rewrite HF by reflexivity. apply H2. exact Hh'.
    - rewrite HF by reflexivity. exact H3.
  Qed.

  (* what the theorems about all fault lists give, plus the invariant of section 3 *)
  Lemma assemble a :
    KI a0 id a -> AInv a -> Old a0 a -> WFparents pre a -> NoDup (dirs a) ->
    (forall b, has_dir a0 (DBand b) = true -> Frame b a0 a) ->
    HealthyUH pre a /\ (get a (PHead id) <> None -> Healthy pre a).
  Proof.
    intros [HD HB] HA [OD OF] HWP ND HFR.
    destruct (Healthy_HG pre a0 HH0) as (ND0 & NF0 & HR0 & HBl0 & WP0 & Hi0 & _ & _ & Hh0 & HB0).
    assert (HW0 : WFdirs0 pre a).
    { apply parents_WFdirs0; [exact ND | apply HA | | | exact HWP].
      - apply OD. apply has_dir_In. exact HR0.
      - apply OD. apply has_dir_In. exact HBl0. }
    assert (Hhdr : get a PHeader = Some (Good PlJson)) by (apply OF; [exact Hh0 | discriminate]).
    assert (Hbands : forall b, In (DBand b) (dirs a) ->
              (In (DIndex b) (dirs a) /\ BandHealthy a b) \/ (b = id /\ HeadlessTop a b)).
    { intros b Hin. apply has_dir_In in Hin.
      assert (Hold : has_dir a0 (DBand b) = true -> In (DIndex b) (dirs a) /\ BandHealthy a b).
      { intros H0. split.
        - apply has_dir_In. apply OD. apply has_dir_In. apply Hi0. exact H0.
        - apply BandHealthy_same; [|apply HB0; exact H0].
          apply (frame_same_band b a0 a (HFR b H0) b). lia. }
      destruct (HD b Hin) as [H0| ->]; [left; apply Hold; exact H0|].
      destruct HB as [HC|(N1 & N2 & N3)].
      - right. split; [reflexivity|]. split; [exact HC|].
        intros b' Hb'. apply has_dir_In in Hb'. destruct (HD b' Hb') as [H0'| ->]; [|lia].
        pose proof (lt_new_band b' H0'). lia.
      - left. split; [apply has_dir_In; exact N2 | exact N3]. }
    split.
    - split; [exact HW0|]. split; [exact HA|]. split; [exact Hhdr|].
      intros b Hin. destruct (Hbands b Hin) as [H|[_ H]]; auto.
    - intros Hhead.
      assert (Hall : forall b, In (DBand b) (dirs a) -> In (DIndex b) (dirs a) /\ BandHealthy a b).
      { intros b Hin. destruct (Hbands b Hin) as [H|[-> ((Hc & _) & _)]]; [exact H|]. contradiction. }
      split; [apply WFdirs_split; split; [exact HW0 | intros b Hin; apply (Hall b Hin)]|].
      split; [exact HA|]. split; [exact Hhdr|]. intros b Hin. apply (Hall b Hin).
  Qed.

  (* the property of one state a backup from [a0] can leave *)
  Definition BkGood (a : arch) : Prop :=
    HealthyUH pre a /\ (get a (PHead id) <> None -> Healthy pre a).

  Theorem backup_good c src phi :
    no_torn phi ->
    Forall BkGood (run_states pre (backup_prog pre c src) a0 phi)
    /\ BkGood (snd (fst (run pre (backup_prog pre c src) a0 phi))).
  Proof.
    intros Hphi.
    destruct (Healthy_HG pre a0 HH0) as (ND0 & NF0 & HR0 & HBl0 & WP0 & Hi0 & RI0 & BW0 & Hh0 & HB0).
    assert (HA0 : AInv a0) by (split; [exact RI0 | split; [exact BW0 | exact NF0]]).
    assert (HK0 : KI a0 id a0).
    { split; [intros n Hn; left; exact Hn|]. left. apply new_band_clear with (pre := pre). exact WP0. }
    destruct (fsafe_sound pre (KI a0 id) (@QTrue) (backup_prog pre c src) a0 phi Hphi HK0
                (backup_h pre a0 WP0 c src)) as (K1 & K2 & _).
    destruct (backup_ainv pre c src a0 phi HA0) as [A1 A2].
    destruct (backup_write_once pre c src a0 phi) as [O1 O2].
    destruct (any_run_WFparents pre (backup_prog pre c src) a0 phi WP0) as [W1 W2].
    destruct (any_run_NoDup_dirs pre (backup_prog pre c src) a0 phi ND0) as [N1 N2].
    assert (F : forall b, has_dir a0 (DBand b) = true ->
              Forall (Frame b a0) (run_states pre (backup_prog pre c src) a0 phi)
              /\ Frame b a0 (snd (fst (run pre (backup_prog pre c src) a0 phi)))).
    { intros b Hb. apply backup_frame. exact Hb. }
    split.
    - rewrite Forall_forall in *. intros a Hin. apply assemble; auto.
      intros b Hb. destruct (F b Hb) as [F1 _]. rewrite Forall_forall in F1. auto.
    - apply assemble; auto. intros b Hb. apply (F b Hb).
  Qed.
End BkAssemble.

(* ---- the fault-free run: it either gives up before creating anything, or writes the
        BANDHEAD of the new band ---- *)
Section FaultFree.
  Variable pre : bytes -> N.
  Variable a0 : arch.
  Notation id := (new_band a0).
  Hypothesis Hhdr : get a0 PHeader = Some (Good PlJson).
  Hypothesis Hroot : has_dir a0 DRoot = true.
  Hypothesis HWP : WFparents pre a0.

  Lemma backup_ff_head c src :
    let af := snd (fst (run pre (backup_prog pre c src) a0 [])) in
    af = a0 \/ get af (PHead id) = Some (Good (PlHead HvOk)).
  Proof.
    cbv zeta. change (snd (fst (run pre (backup_prog pre c src) a0 []))) with (fst (fin pre (backup_prog pre c src) a0)).
    unfold backup_prog, open_archive.
    assert (Erd : rd a0 PHeader = RData (Good PlJson)) by (unfold rd; rewrite Hhdr; reflexivity).
    assert (Els : ls pre a0 DRoot = RList (children_dirs a0 DRoot) (children_files pre a0 DRoot))
      by (unfold ls; rewrite Hroot; reflexivity).
    rewrite fin_read, Erd. cbv beta iota.
    rewrite fin_meta. unfold mt. destruct (get a0 PLock) as [x|] eqn:GL; [left; reflexivity|].
    cbv beta iota.
    rewrite fin_list, Els. cbv beta iota.
    rewrite fin_list, Els. cbv beta iota zeta.
    change (match max_id (band_ids (children_dirs a0 DRoot)) with Some m => m + 1 | None => 0 end) with id.
    right.
    (* mkdir bNNNN *)
    rewrite fin_Do. cbn [exec_ok]. rewrite (new_band_fresh a0). cbn [parent_d]. rewrite Hroot. cbn [fst snd is_ok].
    set (a3 := {| dirs := dirs a0 ++ [DBand id]; files := files a0 |}).
    assert (D3 : has_dir a3 (DBand id) = true) by (unfold a3; rewrite has_dir_add, dpath_eqb_refl; apply orb_true_r).
    (* mkdir bNNNN/i *)
    rewrite fin_Do.
    assert (E4 : exists a4, exec_ok pre a3 (OpMkdir (DIndex id)) = (a4, ROk)
                            /\ files a4 = files a0 /\ has_dir a4 (DBand id) = true).
    { cbn [exec_ok]. destruct (has_dir a3 (DIndex id)); [exists a3; auto|].
      cbn [parent_d]. rewrite D3. eexists. split; [reflexivity|]. split; [reflexivity|].
      rewrite has_dir_add, D3. reflexivity. }
    destruct E4 as (a4 & -> & F4 & D4). cbn [fst snd is_ok].
    (* BANDHEAD *)
    rewrite fin_Do.
    assert (G4 : get a4 (PHead id) = None).
    { unfold get. rewrite F4. apply (new_band_clear pre a0 HWP). }
    cbn [exec_ok parent_f]. rewrite D4, G4. cbn [fst snd is_ok].
    set (a5 := {| dirs := dirs a4; files := set_file (PHead id) (Good (PlHead HvOk)) (files a4) |}).
    match goal with |- get (fst (fin pre ?p a5)) _ = _ =>
      assert (Hadd : emits_only add_only p)
    end.
    { repeat eo_step. apply list_blocks_add. intros [ex|]; [|constructor]. apply merge_loop_add. }
    match goal with |- get (fst (fin pre ?p a5)) _ = _ =>
      destruct (add_only_write_once pre p Hadd a5 a5 [] (Old_refl a5)) as [_ [_ HO]]
    end.
    unfold fin. cbn [fst]. apply HO; [apply get_set_same | discriminate].
  Qed.
End FaultFree.

(* ------------------------------------------------------------------------- *)
(** * 5. Delete / gc                                                          *)
(* ------------------------------------------------------------------------- *)

Lemma BandHealthy_ext (a a' : arch) b :
  get a' (PHead b) = get a (PHead b) -> (forall h, get a' (PHunk b h) = get a (PHunk b h)) ->
  get a' (PTail b) = get a (PTail b) -> BandHealthy a b -> BandHealthy a' b.
Proof.
  intros E1 E2 E3 (Hh & n & H1 & H2 & H3).
  split; [rewrite E1; exact Hh|]. exists n. split; [|split].
  - intros h. rewrite E2. apply H1.
  - intros h Hh'. rewrite E2. apply H2. exact Hh'.
  - rewrite E3. exact H3.
Qed.

Lemma wp_inv_mono (pre : bytes -> N) {R} (F : fault -> Prop) (I1 I2 : arch -> Prop) (Q : arch -> R -> Prop)
      (p : prog R) :
  (forall a, I1 a -> I2 a) -> forall a, wp pre F I1 Q p a -> wp pre F I2 Q p a.
Proof.
  intros H12. induction p as [r|o k IH|]; intros a H; cbn [wp] in *; auto.
  destruct H as [H1 H2]. split; [auto|]. intros f Hf. destruct (H2 f Hf) as [H3 H4]. split; auto.
Qed.

Lemma band_file_not_under pre b b' f :
  b <> b' -> DeleteP.band_file b' f -> file_under pre (DBand b) f = false.
Proof.
  intros Hne Hf. destruct (file_under pre (DBand b) f) eqn:E; [|reflexivity]. exfalso.
  unfold file_under in E. apply dir_under_band in E.
  destruct Hf as [->|[->|[h ->]]]; cbn [parent_f] in E; destruct E as [E|[E|[s E]]];
    try discriminate; inversion E; congruence.
Qed.

Section Del.
  Variable pre : bytes -> N.
  Variable ids : list N.
  Variable a0 : arch.

  (* nothing is created or changed (the lock aside) *)
  Definition DSub (a : arch) : Prop :=
    (forall f x, get a f = Some x -> f = PLock \/ get a0 f = Some x)
    /\ (forall d, has_dir a d = true -> has_dir a0 d = true).
  Definition DHR (a : arch) : Prop :=
    has_dir a DRoot = true /\ has_dir a DBlocks = true /\ get a PHeader = Some (Good PlJson).
  (* a band directory that is still there has everything it had *)
  Definition DIntact (a : arch) : Prop :=
    forall b, has_dir a (DBand b) = true -> band_files_same a0 a b.
  (* no block has been removed yet / all the bands to delete are gone *)
  Definition DBlocksAll (a : arch) : Prop := forall c, get a (PBlock c) = get a0 (PBlock c).
  Definition DGone (a : arch) : Prop := forall b, In b ids -> has_dir a (DBand b) = false.

  (* THE invariant of the states a delete passes through *)
  Definition DI (a : arch) : Prop :=
    DSub a /\ DHR a /\ Kept ids a0 a /\ DIntact a /\ (DBlocksAll a \/ DGone a).
  Definition DIG (a : arch) : Prop := DI a /\ DGone a.

  Lemma DI_start : DHR a0 -> DI a0.
  Proof.
    intros H. split; [split; auto|]. split; [exact H|]. split; [apply Kept_refl|].
    split; [intros b _; repeat split; reflexivity | left; intros c; reflexivity].
  Qed.

  Lemma DI_lock a a' : DI a -> same_but_lock a a' -> DI a'.
  Proof.
    intros ((S1 & S2) & (R1 & R2 & R3) & HK & HI & HD) [ED EF].
    assert (Edir : forall d, has_dir a' d = has_dir a d) by (intros d; apply has_dir_dirs_eq; exact ED).
    split; [split|split; [split; [|split]|split; [|split]]].
    - intros f x G. destruct (fpath_eqb_spec f PLock) as [->|Hne]; [left; reflexivity|].
      rewrite EF in G by exact Hne. apply S1. exact G.
    - intros d Hd. rewrite Edir in Hd. apply S2. exact Hd.
    - rewrite Edir. exact R1.
    - rewrite Edir. exact R2.
    - rewrite EF by discriminate. exact R3.
    - eapply Kept_lock; [exact HK | split; assumption].
    - intros b Hb. rewrite Edir in Hb. destruct (HI b Hb) as (E1 & E2 & E3). split; [|split].
      + rewrite Edir. exact E1.
      + intros f Hf. rewrite EF; [apply E2; exact Hf|]. destruct Hf as [->|[->|[h ->]]]; discriminate.
      + intros d Hd. rewrite Edir. apply E3. exact Hd.
    - destruct HD as [HD|HD]; [left | right].
      + intros c. rewrite EF by discriminate. apply HD.
      + intros b Hb. rewrite Edir. apply HD. exact Hb.
  Qed.

  Lemma DGone_lock a a' : DGone a -> same_but_lock a a' -> DGone a'.
  Proof. intros HG [ED _] b Hb. rewrite (has_dir_dirs_eq a a') by exact ED. apply HG. exact Hb. Qed.

  Lemma DI_rm_band a b : In b ids -> DI a -> DI (rm_dir pre a (DBand b)).
  Proof.
    intros Hb ((S1 & S2) & (R1 & R2 & R3) & HK & HI & HD).
    split; [split|split; [split; [|split]|split; [|split]]].
    - intros f x G. rewrite get_rm_dir in G. destruct (file_under pre (DBand b) f); [discriminate|]. apply S1. exact G.
    - intros d Hd. rewrite has_dir_rm_dir in Hd. apply andb_true_iff in Hd. apply S2. apply Hd.
    - rewrite has_dir_rm_dir, R1. reflexivity.
    - rewrite has_dir_rm_dir, R2. reflexivity.
    - rewrite get_rm_dir. exact R3.
    - apply Kept_rm_band; assumption.
    - intros b' Hb'. rewrite has_dir_rm_dir in Hb'. apply andb_true_iff in Hb'. destruct Hb' as [H1 H2].
      apply negb_true_iff in H2.
      assert (Hne : b <> b').
      { intros ->. assert (E : dir_under (DBand b') (DBand b') = true) by (apply dir_under_band; auto). congruence. }
      destruct (HI b' H1) as (E1 & E2 & E3). split; [|split].
      + rewrite has_dir_rm_dir, H2, andb_true_r. exact E1.
      + intros f Hf. rewrite get_rm_dir, (band_file_not_under pre b b' f Hne Hf). apply E2. exact Hf.
      + intros d Hd. rewrite has_dir_rm_dir.
        assert (Hu : dir_under (DBand b) d = false).
        { destruct (dir_under (DBand b) d) eqn:E; [|reflexivity]. exfalso. apply Hne.
          apply (dir_under_band_inj b b' d E Hd). }
        rewrite Hu, andb_true_r. apply E3. exact Hd.
    - destruct HD as [HD|HD]; [left | right].
      + intros c. rewrite get_rm_dir. apply HD.
      + intros b' Hb'. rewrite has_dir_rm_dir, (HD b' Hb'). reflexivity.
  Qed.

  Lemma DIG_rm_block a c : unreferenced ids a0 c -> DIG a -> DIG (rm_file a (PBlock c)).
  Proof.
    intros Hc (((S1 & S2) & (R1 & R2 & R3) & HK & HI & _) & HG).
    split; [|exact HG].
    split; [split|split; [split; [|split]|split; [|split]]].
    - intros f x G. rewrite get_rm_file in G. destruct (fpath_eqb f (PBlock c)); [discriminate|]. apply S1. exact G.
    - exact S2.
    - exact R1.
    - exact R2.
    - rewrite get_rm_file. exact R3.
    - apply Kept_rm_block; assumption.
    - intros b Hb. destruct (HI b Hb) as (E1 & E2 & E3). split; [exact E1|]. split; [|exact E3].
      intros f Hf. rewrite get_rm_file.
      destruct (fpath_eqb_spec f (PBlock c)) as [->|_]; [|apply E2; exact Hf].
      destruct Hf as [H|[H|[h H]]]; discriminate.
    - right. exact HG.
  Qed.

  (* ---- the program ---- *)
  Notation FA := (fun _ : fault => True).
  Notation QA := (fun (_ : arch) (_ : dres) => True).
  Notation wpD := (wp pre FA DI QA).
  Notation wpG := (wp pre FA DIG QA).

  Hypothesis HWF : WFhunks a0.

  Lemma QA_fail : forall (a : arch) (r : dres), d_ok r = false -> True.
  Proof. auto. Qed.

  Lemma DIG_lock a a' : DIG a -> same_but_lock a a' -> DIG a'.
  Proof. intros [H1 H2] Hs. split; [eapply DI_lock | eapply DGone_lock]; eauto. Qed.

  Lemma d_tail_wp dry hint last unref a1 :
    same_but_lock a0 a1 -> good_unref pre ids hint a1 unref -> DI a1 -> wpD (tail_p ids dry last unref) a1.
  Proof.
    intros Hs Hg Ha. unfold tail_p. cbv zeta. destruct dry.
    - apply (finish_wp pre FA DI QA QA_fail DI_lock); auto.
    - apply wp_read; [exact I | exact Ha | intros e; apply (release_fail_wp pre FA DI QA QA_fail DI_lock); exact Ha|].
      rewrite exec_ok_list. destruct (has_dir a1 DRoot); cbn [snd];
        [|apply (release_fail_wp pre FA DI QA QA_fail DI_lock); exact Ha].
      destruct (optid_eqb (max_id (band_ids (children_dirs a1 DRoot))) last);
        [|apply (release_fail_wp pre FA DI QA QA_fail DI_lock); exact Ha].
      apply (delete_the_bands_wp pre FA DI QA ids QA_fail DI_lock DI_rm_band); [apply incl_refl | exact Ha|].
      intros a2 [BD _] Ha2.
      assert (HG2 : DGone a2).
      { intros b Hb. rewrite BD, (forallb_band_false ids b (DBand b) Hb); [apply andb_false_r|].
        apply dir_under_band. auto. }
      (* from here on every band to delete is gone: a stronger invariant *)
      apply (wp_inv_mono pre FA DIG DI QA); [intros x [Hx _]; exact Hx|].
      apply (delete_blocks_wp pre FA DIG QA (unreferenced ids a0) DIG_rm_block).
      + intros c Hc. apply (good_unref_unreferenced pre ids a0 hint a1 unref c HWF Hs Hg Hc).
      + split; assumption.
      + intros errs a3 _ Ha3. apply (finish_wp pre FA DIG QA QA_fail DIG_lock); auto.
  Qed.

  Lemma d_body_wp dry hint a : same_but_lock a0 a -> DI a -> wpD (body_p ids dry hint) a.
  Proof.
    intros Hs Ha. unfold body_p.
    apply (acquire_wp pre FA DI QA QA_fail DI_lock); [exact Ha|]. intros last a1 Hs1 Ha1. unfold after_acq.
    assert (Hs01 : same_but_lock a0 a1) by (eapply same_but_lock_trans; eassumption).
    assert (Hrf : wpD release_fail a1) by (apply (release_fail_wp pre FA DI QA QA_fail DI_lock); exact Ha1).
    apply wp_read; [exact I | exact Ha1 | intros e; exact Hrf|].
    rewrite exec_ok_list. destruct (has_dir a1 DRoot); cbn [snd]; [|exact Hrf].
    cbv zeta. apply (ref_bands_wp pre FA DI QA QA_fail DI_lock); [exact Ha1|]. intros referenced Hsound _ Hcompl.
    apply wp_read; [exact I | exact Ha1 | intros e; exact Hrf|].
    rewrite exec_ok_list. destruct (has_dir a1 DBlocks) eqn:DB; cbn [snd]; [|exact Hrf].
    apply (list_blocks_d_wp pre FA DI QA QA_fail DI_lock); [exact Ha1|]. intros present _ _ Hpres.
    assert (Hg : good_unref pre ids hint a1 (unref_of hint referenced present)).
    { exists referenced, present. split; [reflexivity|]. split; [|split].
      - intros c Hc. destruct (Hsound c Hc) as [[]|[b [h [es [Hb [Hg Hin]]]]]].
        exists b, h, es. split; [|auto]. apply keep_In in Hb. destruct Hb as [Hb Hn].
        split; [|exact Hn]. apply has_dir_In. apply children_dirs_In in Hb. apply Hb.
      - intros b h es [Hb Hn] Hg Hd. apply (Hcompl b h es); auto. apply keep_In. split; [|exact Hn].
        apply children_dirs_In. split; [apply has_dir_In; exact Hb | reflexivity].
      - intros c x Hd Hg Hne. apply (Hpres c x); auto. apply block_subdirs_In. apply children_dirs_In.
        split; [apply has_dir_In; exact Hd | reflexivity]. }
    apply (measure_wp pre FA DI QA QA_fail DI_lock); [exact Ha1|]. apply (d_tail_wp dry hint); assumption.
  Qed.

  Lemma d_prog_wp dry brk hint : DI a0 -> wpD (delete_prog ids dry brk hint) a0.
  Proof.
    intros Ha. rewrite delete_prog_eq.
    assert (Hbody : wpD (body_p ids dry hint) a0) by (apply d_body_wp; [apply same_but_lock_refl | exact Ha]).
    apply wp_read; [exact I | exact Ha | intros e; exact I|].
    cbn [exec_ok]. destruct (get a0 PHeader) as [[[| | | |]| |]|]; cbn [snd]; try exact I.
    destruct brk; [|exact Hbody].
    apply wp_read; [exact I | exact Ha | intros e; destruct e; try exact I; exact Hbody|].
    cbn [exec_ok]. destruct (get a0 PLock) eqn:G; cbn [snd]; [|exact Hbody].
    apply wp_do; [exact Ha | intros e _; split; [exact Ha | exact I] |].
    rewrite exec_ok_rmfile, G. cbn [fst snd is_ok].
    assert (Ha1 : DI (rm_file a0 PLock)) by (apply (DI_lock a0); [exact Ha | apply same_but_lock_rm]).
    split; [exact Ha1|]. apply d_body_wp; [apply same_but_lock_rm | exact Ha1].
  Qed.

  (* ---- from the invariant to [Healthy] ---- *)
  Hypothesis HH0 : Healthy pre a0.

  Lemma DI_Healthy a : DI a -> WFparents pre a -> NoDup (dirs a) -> FilesND a -> Healthy pre a.
  Proof.
    intros ((S1 & S2) & (R1 & R2 & R3) & HK & HI & HD) HWP ND NF.
    destruct (Healthy_HG pre a0 HH0) as (ND0 & NF0 & HR0 & HBl0 & WP0 & Hi0 & RI0 & BW0 & Hh0 & HB0).
    apply HG_Healthy; [exact ND | exact NF|].
    split; [exact R1|]. split; [exact R2|]. split; [exact HWP|].
    split; [|split; [|split; [|split]]].
    - intros b Hb. destruct (HI b Hb) as (_ & _ & E3). rewrite E3 by (apply dir_under_band; auto).
      apply Hi0. apply S2. exact Hb.
    - (* referential integrity *)
      intros b h es G.
      assert (G0 : get a0 (PHunk b h) = Some (Good (PlHunk es))).
      { destruct (S1 _ _ G) as [E|E]; [discriminate | exact E]. }
      assert (Hb : has_dir a (DBand b) = true).
      { destruct HWP as [HF HDp]. pose proof (HF _ _ G) as H1. cbn [parent_f] in H1.
        apply has_dir_In in H1. pose proof (HDp _ (DIndex b) H1 eq_refl) as H2.
        apply has_dir_In in H2. exact (HDp _ (DBand b) H2 eq_refl). }
      pose proof (RI0 b h es G0) as HE.
      rewrite Forall_forall in *. intros e He. specialize (HE e He). unfold entry_ok in *.
      rewrite Forall_forall in *. intros ad Had. destruct (HE ad Had) as [Hbk Hlen]. split; [|exact Hlen].
      unfold block_ok in *. destruct HD as [HD|HD]; [rewrite HD; exact Hbk|].
      assert (Hn : ~ In b ids) by (intros Hin; rewrite (HD b Hin) in Hb; discriminate).
      destruct (HK b (S2 _ Hb) Hn) as [_ HKb]. rewrite HKb; [exact Hbk|].
      exists h, es, e, ad. auto.
    - intros c x G. destruct (S1 _ _ G) as [E|E]; [discriminate|]. exact (BW0 c x E).
    - exact R3.
    - intros b Hb. destruct (HI b Hb) as (_ & E2 & _).
      apply (BandHealthy_ext a0 a b).
      + apply E2. left. reflexivity.
      + intros h. apply E2. right. right. eauto.
      + apply E2. right. left. reflexivity.
      + apply HB0. apply S2. exact Hb.
  Qed.
End Del.

(** DELETE / GC KEEP THE ARCHIVE HEALTHY: for every set of band ids (none = gc, ids that do
    not exist, ids repeated), dry-run or not, breaking the lock or not, every iteration order,
    and EVERY fault list (failures, a kill anywhere, a torn lock file), every state the
    archive passes through and the final state are healthy. *)
Theorem delete_healthy_all : forall pre ids dry brk hint a0 phi,
  Healthy pre a0 ->
  Forall (Healthy pre) (run_states pre (delete_prog ids dry brk hint) a0 phi)
  /\ Healthy pre (snd (fst (run pre (delete_prog ids dry brk hint) a0 phi))).
Proof.
  intros pre ids dry brk hint a0 phi HH0.
  destruct (Healthy_HG pre a0 HH0) as (ND0 & NF0 & HR0 & HBl0 & WP0 & Hi0 & RI0 & BW0 & Hh0 & HB0).
  assert (HWF : WFhunks a0).
  { intros b h Hg. destruct (get a0 (PHunk b h)) as [x|] eqn:G; [|congruence]. apply (proj1 WP0 _ _ G). }
  assert (HD0 : DI ids a0 a0) by (apply DI_start; repeat split; assumption).
  assert (Hphi : Forall (fun _ : fault => True) phi) by (apply Forall_forall; auto).
  destruct (wp_sound pre (fun _ => True) (DI ids a0) (fun _ _ => True)
              (delete_prog ids dry brk hint) a0 phi I Hphi HD0
              (d_prog_wp pre ids a0 HWF dry brk hint HD0)) as (D1 & D2 & _).
  destruct (any_run_WFparents pre (delete_prog ids dry brk hint) a0 phi WP0) as [W1 W2].
  destruct (any_run_NoDup_dirs pre (delete_prog ids dry brk hint) a0 phi ND0) as [N1 N2].
  destruct (any_run_FilesND pre (delete_prog ids dry brk hint) a0 phi NF0) as [F1 F2].
  split.
  - rewrite Forall_forall in *. intros a Hin. apply (DI_Healthy pre ids a0 HH0); auto.
  - apply (DI_Healthy pre ids a0 HH0); auto.
Qed.

(* ------------------------------------------------------------------------- *)
(** * 6. Init                                                                 *)
(* ------------------------------------------------------------------------- *)

Definition arch_init : arch := {| dirs := [DRoot; DBlocks]; files := [(PHeader, Good PlJson)] |}.
(* an existing, empty directory *)
Definition arch_root : arch := {| dirs := [DRoot]; files := [] |}.

Lemma init_state_eq pre : init_state pre = arch_init.
Proof. reflexivity. Qed.

Lemma init_from_root_eq pre : final pre init_prog arch_root [] = arch_init.
Proof. reflexivity. Qed.

Lemma arch_init_healthy pre : Healthy pre arch_init.
Proof. apply healthy_b_sound. vm_compute. reflexivity. Qed.

(* ------------------------------------------------------------------------- *)
(** * 7. Histories                                                            *)
(* ------------------------------------------------------------------------- *)

Lemma no_torn_nil : no_torn [].
Proof. constructor. Qed.

Lemma no_torn_killed k : no_torn (killed k).
Proof.
  unfold no_torn, killed. apply Forall_app. split.
  - apply Forall_forall. intros f Hf. apply repeat_spec in Hf. subst. discriminate.
  - constructor; [discriminate | constructor].
Qed.

Lemma history_states_last pre l : forall a, In (run_history pre a l) (history_states pre a l).
Proof.
  induction l as [|o l IH]; intros a; cbn [history_states run_history fold_left]; [left; reflexivity|].
  right. apply IH.
Qed.

(* ------------------------------------------------------------------------- *)
(** * 8. MAIN THEOREMS                                                        *)
(* ------------------------------------------------------------------------- *)

(** 1. INIT.  A fault-free [init] of an empty place (nothing there, or an existing empty
    directory) gives a healthy archive. *)
Theorem init_healthy : forall pre,
  Healthy pre (final pre init_prog arch0 []) /\ Healthy pre (final pre init_prog arch_root []).
Proof.
  intros pre. change (final pre init_prog arch0 []) with (init_state pre).
  rewrite init_state_eq, init_from_root_eq. split; apply arch_init_healthy.
Qed.

(** 2/3, general form.  From a healthy archive, a backup of ANY source under ANY
    configuration and ANY fault list without a torn write (storage failures on any
    operations, a kill at any point): every state passed through, and the final state, is
    healthy up to a file-less newest band directory, and is healthy as soon as the new band
    has its BANDHEAD. *)
Theorem backup_uh : forall pre c src a0 phi,
  Healthy pre a0 -> no_torn phi ->
  Forall (fun a => HealthyUH pre a /\ (get a (PHead (new_band a0)) <> None -> Healthy pre a))
         (run_states pre (backup_prog pre c src) a0 phi)
  /\ HealthyUH pre (final pre (backup_prog pre c src) a0 phi)
  /\ (get (final pre (backup_prog pre c src) a0 phi) (PHead (new_band a0)) <> None ->
      Healthy pre (final pre (backup_prog pre c src) a0 phi)).
Proof.
  intros pre c src a0 phi HH0 Hphi.
  destruct (backup_good pre a0 HH0 c src phi Hphi) as [H1 [H2 H3]].
  split; [exact H1|]. split; assumption.
Qed.

(** 2. BACKUP.  A fault-free backup of any source under any configuration keeps a healthy
    archive healthy (also when it gives up at once because the archive is locked).  No
    hypothesis on the source is needed. *)
Theorem backup_healthy : forall pre c src a0,
  Healthy pre a0 -> Healthy pre (final pre (backup_prog pre c src) a0 []).
Proof.
  intros pre c src a0 HH0.
  destruct (backup_uh pre c src a0 [] HH0 no_torn_nil) as (_ & _ & H3).
  destruct (Healthy_HG pre a0 HH0) as (_ & _ & HR0 & _ & WP0 & _ & _ & _ & Hh0 & _).
  destruct (backup_ff_head pre a0 Hh0 HR0 WP0 c src) as [E|E].
  - unfold final. rewrite E. exact HH0.
  - apply H3. unfold final. rewrite E. discriminate.
Qed.

(** 3. KILLED BACKUP.  A backup killed after ANY number [k] of operations leaves an archive
    that is healthy up to a file-less newest band directory; if the kill came after the
    BANDHEAD of the new band was written, the archive is healthy. *)
Theorem backup_killed_healthy : forall pre c src a0 k,
  Healthy pre a0 ->
  HealthyUH pre (final pre (backup_prog pre c src) a0 (killed k))
  /\ (get (final pre (backup_prog pre c src) a0 (killed k)) (PHead (new_band a0)) <> None ->
      Healthy pre (final pre (backup_prog pre c src) a0 (killed k))).
Proof.
  intros pre c src a0 k HH0.
  destruct (backup_uh pre c src a0 (killed k) HH0 (no_torn_killed k)) as (_ & H2 & H3). split; assumption.
Qed.

(** 4. DELETE / GC.  Fault-free delete of any set of band ids (none = gc; ids that do not
    exist; dry-run; break-lock), with any iteration order, keeps a healthy archive healthy.
    ([delete_healthy_all] above: the same for every fault list and every intermediate
    state.) *)
Theorem delete_healthy : forall pre ids dry brk hint a0,
  Healthy pre a0 -> Healthy pre (final pre (delete_prog ids dry brk hint) a0 []).
Proof. intros pre ids dry brk hint a0 HH0. apply (delete_healthy_all pre ids dry brk hint a0 [] HH0). Qed.

(* one step of a history *)
Lemma hop_healthy pre a o : Healthy pre a -> hop_ok pre a o -> Healthy pre (run_hop pre a o).
Proof.
  intros HH Hok. destruct o as [c src|c src k|ids dry brk hint]; cbn [run_hop].
  - apply backup_healthy. exact HH.
  - cbn [hop_ok] in Hok. destruct Hok as [Hhead|Esame].
    + apply (backup_killed_healthy pre c src a k HH). exact Hhead.
    + cbn [run_hop] in Esame. rewrite Esame. exact HH.
  - apply delete_healthy. exact HH.
Qed.

(** 5. HISTORIES.  From a healthy archive, every state reached by any sequence of
    fault-free backups, backups killed after their BANDHEAD was written (or before anything
    was created), deletes and gcs is healthy. *)
Theorem history_healthy_from : forall pre l a,
  Healthy pre a -> history_ok pre a l -> Forall (Healthy pre) (history_states pre a l).
Proof.
  intros pre l. induction l as [|o l IH]; intros a HH Hok; cbn [history_states].
  - constructor; [exact HH | constructor].
  - cbn [history_ok] in Hok. destruct Hok as [Ho Hl]. constructor; [exact HH|].
    apply IH; [apply hop_healthy; assumption | exact Hl].
Qed.

Theorem history_healthy : forall pre l,
  history_ok pre (init_state pre) l ->
  Forall (Healthy pre) (history_states pre (init_state pre) l)
  /\ Healthy pre (run_history pre (init_state pre) l).
Proof.
  intros pre l Hok.
  assert (H : Forall (Healthy pre) (history_states pre (init_state pre) l)).
  { apply history_healthy_from; [|exact Hok]. rewrite init_state_eq. apply arch_init_healthy. }
  split; [exact H|]. rewrite Forall_forall in H. apply H. apply history_states_last.
Qed.

(** C09, healthy side.  Validation -- full or quick, whatever the iteration order -- of every
    archive state reached from [init] by such a history reports no error. *)
Theorem history_validates : forall pre l a skip hint,
  history_ok pre (init_state pre) l ->
  In a (history_states pre (init_state pre) l) ->
  exists tr, run pre (validate_prog skip hint) a [] = (tr, a, Done {| v_ok := true; v_errors := 0 |}).
Proof.
  intros pre l a skip hint Hok Hin. apply validate_healthy_silent.
  destruct (history_healthy pre l Hok) as [H _]. rewrite Forall_forall in H. apply H. exact Hin.
Qed.

Corollary history_final_validates : forall pre l skip hint,
  history_ok pre (init_state pre) l ->
  exists tr, run pre (validate_prog skip hint) (run_history pre (init_state pre) l) []
             = (tr, run_history pre (init_state pre) l, Done {| v_ok := true; v_errors := 0 |}).
Proof.
  intros pre l skip hint Hok. apply (history_validates pre l _ skip hint Hok). apply history_states_last.
Qed.

(* ------------------------------------------------------------------------- *)
(** * 9. The excluded case is really excluded; the checker of [HealthyUH]      *)
(* ------------------------------------------------------------------------- *)

(** A state that is healthy only up to a file-less band directory is NOT silent: validation
    reports (at least) the band that cannot be opened.  This is the documented exclusion
    "interrupted before the band header was written". *)
Theorem headless_band_reported : forall pre a b skip hint,
  HealthyUH pre a -> In (DBand b) (dirs a) -> get a (PHead b) = None ->
  1 <= v_errors (validate_pure pre a skip hint).
Proof.
  intros pre a b skip hint (W0 & _ & Hh & _) Hb Hnone.
  apply (validate_detects_missing_head pre a skip hint b); [exact Hh | apply W0 | exact Hb|].
  unfold opens_b, rd. rewrite Hnone. reflexivity.
Qed.

Section CheckerUH.
  Variable pre : bytes -> N.

  Lemma wfdirs0_b_sound a : wfdirs0_b pre a = true -> WFdirs0 pre a.
  Proof.
    unfold wfdirs0_b. rewrite !andb_true_iff. intros [[[[H1 H2] H3] H4] H5].
    rewrite forallb_forall in H4, H5.
    split; [apply nodup_dirs_sound; exact H1|].
    split; [apply has_dir_In; exact H2|]. split; [apply has_dir_In; exact H3|]. split.
    - intros f x Hin. apply has_dir_In. apply (H4 (f, x) Hin).
    - intros d p Hd Hp. specialize (H5 d Hd). rewrite Hp in H5. apply has_dir_In. exact H5.
  Qed.

  Lemma band_clear_b_sound a b : band_clear_b a b = true -> band_clear a b.
  Proof.
    unfold band_clear_b. rewrite forallb_forall. intros H.
    assert (G : forall f, (match f with PHead n | PTail n | PHunk n _ => n = b | _ => False end) -> get a f = None).
    { intros f Hf. destruct (get a f) as [x|] eqn:E; [|reflexivity]. exfalso.
      apply get_In_files in E. specialize (H _ E). cbn [fst] in H.
      destruct f; try contradiction; subst; rewrite N.eqb_refl in H; discriminate. }
    split; [apply G; reflexivity|]. split; [intros h; apply G; reflexivity | apply G; reflexivity].
  Qed.

  Lemma headless_top_b_sound a b : headless_top_b a b = true -> HeadlessTop a b.
  Proof.
    unfold headless_top_b. rewrite andb_true_iff, forallb_forall. intros [H1 H2].
    split; [apply band_clear_b_sound; exact H1|].
    intros b' Hb'. specialize (H2 _ Hb'). apply N.leb_le. exact H2.
  Qed.

  Theorem healthy_uh_b_sound a : healthy_uh_b pre a = true -> HealthyUH pre a.
  Proof.
    unfold healthy_uh_b. rewrite !andb_true_iff. intros [[[H1 H2] H3] H4].
    split; [apply wfdirs0_b_sound; exact H1|]. split; [apply ainv_b_sound; exact H2|].
    split.
    - destruct (get a PHeader) as [[[| | | |]| |]|]; try discriminate. reflexivity.
    - intros b Hb. rewrite forallb_forall in H4. specialize (H4 (DBand b) Hb). cbn beta iota in H4.
      apply orb_true_iff in H4. destruct H4 as [H4|H4].
      + apply andb_true_iff in H4. destruct H4 as [H5 H6]. left.
        split; [apply has_dir_In; exact H5 | apply band_healthy_b_sound; exact H6].
      + right. apply headless_top_b_sound. exact H4.
  Qed.
End CheckerUH.

(* ------------------------------------------------------------------------- *)
(** * 10. Examples (non-vacuity), on the states of [SafeP.SafeExamples]        *)
(* ------------------------------------------------------------------------- *)
Module HealthyExamples.
  Import SafeExamples.

  (* (the states are written out as runs, and identified with [ex_a1], [ex_a2], [ex_a3] of
     SafeExamples by [vm_compute], so that the kernel never has to evaluate a run lazily) *)
  Notation bk x := (backup_prog ex_pre ex_cfg (ex_src x)).
  Lemma a1_eq : init_state ex_pre = ex_a1.
  Proof. vm_compute. reflexivity. Qed.
  Lemma a2_eq : Healthy.final ex_pre (bk 6) ex_a1 [] = ex_a2.
  Proof. vm_compute. reflexivity. Qed.
  Lemma a3_eq : Healthy.final ex_pre (bk 7) ex_a2 [] = ex_a3.
  Proof. vm_compute. reflexivity. Qed.

  (* 1. init: [ex_a1] is the state after init; it is healthy BY THE THEOREM *)
  Example ex_init : Healthy ex_pre ex_a1.
  Proof. rewrite <- a1_eq. unfold init_state. exact (proj1 (init_healthy ex_pre)). Qed.

  (* 2. [ex_a2], [ex_a3] (one, two backups) are healthy by [backup_healthy] *)
  Example ex_backup_1 : Healthy ex_pre ex_a2.
  Proof. rewrite <- a2_eq. apply backup_healthy. exact ex_init. Qed.
  Example ex_backup_2 : Healthy ex_pre ex_a3.
  Proof. rewrite <- a3_eq. apply backup_healthy. exact ex_backup_1. Qed.
  Example ex_backup_nontrivial :
    length (files ex_a3) = 13%nat /\ band_ids (dirs ex_a3) = [0; 1] /\ new_band ex_a2 = 1
    /\ healthy_b ex_pre ex_a3 = true.
  Proof. vm_compute. repeat split; reflexivity. Qed.
  (* a locked archive: the backup gives up at once, the state is unchanged (and healthy) *)
  Definition ex_locked : arch := fst (exec ex_pre ex_a2 (OpWrite PLock PlJson CreateNew) NoFault).
  Example ex_backup_locked :
    Healthy ex_pre ex_locked
    /\ Healthy.final ex_pre (bk 7) ex_locked [] = ex_locked
    /\ Healthy ex_pre (Healthy.final ex_pre (bk 7) ex_locked []).
  Proof.
    assert (H : Healthy ex_pre ex_locked) by (apply healthy_b_sound; vm_compute; reflexivity).
    split; [exact H|]. split; [vm_compute; reflexivity | apply backup_healthy; exact H].
  Qed.

  (* 3. the second backup killed after k operations *)
  Notation exk k := (Healthy.final ex_pre (bk 7) ex_a2 (killed k)).
  (* by the theorem: every one of them is healthy up to a file-less newest band *)
  Example ex_killed_uh k : HealthyUH ex_pre (exk k).
  Proof. exact (proj1 (backup_killed_healthy ex_pre ex_cfg (ex_src 7) ex_a2 k ex_backup_1)). Qed.
  (* killed after the band directory (k = 5) or also its index directory (k = 6) was made:
     the BANDHEAD is missing, the archive is NOT healthy, and validation reports exactly the
     one band that cannot be opened *)
  Lemma headless_not_healthy a b : In (DBand b) (dirs a) -> get a (PHead b) = None -> ~ Healthy ex_pre a.
  Proof. intros Hd Hg (_ & _ & _ & HB). destruct (HB b Hd) as [Hh _]. congruence. Qed.
  Ltac in_list := vm_compute; repeat (first [left; reflexivity | right]).
  Example ex_killed_headless :
    dirs (exk 5) = dirs ex_a2 ++ [DBand 1]
    /\ dirs (exk 6) = dirs ex_a2 ++ [DBand 1; DIndex 1]
    /\ files (exk 5) = files ex_a2 /\ files (exk 6) = files ex_a2
    /\ ~ Healthy ex_pre (exk 5) /\ ~ Healthy ex_pre (exk 6)
    /\ validate_pure ex_pre (exk 5) false [] = {| v_ok := true; v_errors := 1 |}
    /\ validate_pure ex_pre (exk 6) true [] = {| v_ok := true; v_errors := 1 |}.
  Proof.
    split; [vm_compute; reflexivity|]. split; [vm_compute; reflexivity|].
    split; [vm_compute; reflexivity|]. split; [vm_compute; reflexivity|].
    split; [apply (headless_not_healthy _ 1); [in_list | vm_compute; reflexivity]|].
    split; [apply (headless_not_healthy _ 1); [in_list | vm_compute; reflexivity]|].
    split; vm_compute; reflexivity.
  Qed.
  Example ex_killed_headless_reported :
    1 <= v_errors (validate_pure ex_pre (exk 5) false [[5;6]]).
  Proof.
    apply (headless_band_reported ex_pre (exk 5) 1); [apply ex_killed_uh | in_list | vm_compute; reflexivity].
  Qed.
  (* killed at any later point (here: right after the BANDHEAD, k = 7; in the middle of the
     index, k = 18; before the tail, k = 23): healthy, by the theorem *)
  Example ex_killed_healthy k : k = 7%nat \/ k = 18%nat \/ k = 23%nat -> Healthy ex_pre (exk k).
  Proof.
    intros Hk. apply (proj2 (backup_killed_healthy ex_pre ex_cfg (ex_src 7) ex_a2 k ex_backup_1)).
    destruct Hk as [->|[->| ->]]; vm_compute; discriminate.
  Qed.
  Example ex_killed_shapes :
    get (exk 18) (PHunk 1 0) <> None /\ get (exk 18) (PTail 1) = None
    /\ get (exk 23) (PHunk 1 1) <> None /\ get (exk 23) (PTail 1) = None
    /\ exk 24 = ex_a3 /\ exk 3 = ex_a2.
  Proof. vm_compute. repeat split; try reflexivity; discriminate. Qed.
  (* a storage failure instead of a kill (mkdir of the index directory fails): same conclusion *)
  Example ex_failed_uh :
    HealthyUH ex_pre (Healthy.final ex_pre (bk 7) ex_a2 (repeat NoFault 5 ++ [Fail EOther]))
    /\ snd (run ex_pre (bk 7) ex_a2 (repeat NoFault 5 ++ [Fail EOther])) = Done (fail0).
  Proof.
    split; [|vm_compute; reflexivity].
    apply (backup_uh ex_pre ex_cfg (ex_src 7) ex_a2 _ ex_backup_1).
    unfold no_torn. repeat constructor; discriminate.
  Qed.
  (* the checker of [HealthyUH] agrees *)
  Example ex_killed_checked :
    map (fun k => (healthy_b ex_pre (exk k), healthy_uh_b ex_pre (exk k))) [4; 5; 6; 7]%nat
    = [(true, true); (false, true); (false, true); (true, true)].
  Proof. vm_compute. reflexivity. Qed.

  (* [HealthyUH] is NOT kept by a further backup: the file-less band directory is then no longer
     the newest (and validation keeps reporting it until it is removed by hand).  The full
     statement  forall a c src, HealthyUH pre a -> HealthyUH pre (final (backup_prog pre c src) a [])
     is false: *)
  Theorem backup_from_uh_refuted :
    exists a c src, HealthyUH ex_pre a
                    /\ ~ HealthyUH ex_pre (Healthy.final ex_pre (backup_prog ex_pre c src) a []).
  Proof.
    exists (exk 5), ex_cfg, (ex_src 7). split; [apply ex_killed_uh|].
    intros (_ & _ & _ & HB).
    destruct (HB 1) as [[_ [Hh _]]|[_ Htop]].
    - in_list.
    - revert Hh. vm_compute. intros Hh. discriminate Hh.
    - assert (H2 : In (DBand 2) (dirs (Healthy.final ex_pre (bk 7) (exk 5) []))) by in_list.
      apply Htop in H2. lia.
  Qed.

  (* 4. delete: band 0 of [ex_a3] deleted (its directory, head, hunks, tail and the block
     [5;6] only it referenced are gone); gc; a band that does not exist; dry run *)
  Notation exd ids dry := (Healthy.final ex_pre (delete_prog ids dry false [[5;6]]) ex_a3 []).
  Example ex_delete_healthy ids dry : Healthy ex_pre (exd ids dry).
  Proof. apply delete_healthy. exact ex_backup_2. Qed.
  Example ex_delete_nontrivial :
    map fst (files (exd [0] false))
    = [PHeader; PBlock [1;2]; PBlock [1;2;3;4]; PHead 1; PHunk 1 0; PBlock [5;7]; PHunk 1 1; PTail 1]
    /\ band_ids (dirs (exd [0] false)) = [1]
    /\ exd [] false = ex_a3 /\ exd [5] false = ex_a3 /\ exd [0] true = ex_a3
    /\ length (files (exd [0; 1] false)) = 1%nat.
  Proof. vm_compute. repeat split; reflexivity. Qed.
  (* a delete killed in the middle (after the band was removed, before the block was): healthy *)
  Example ex_delete_killed k :
    Healthy ex_pre (Healthy.final ex_pre (delete_prog [0] false false []) ex_a3 (killed k)).
  Proof. apply delete_healthy_all. exact ex_backup_2. Qed.

  (* 5. a history: two backups, delete of the first version, a backup killed after 19
     operations, another backup, a gc *)
  Definition ex_history : list hop :=
    [HBackup ex_cfg (ex_src 6); HBackup ex_cfg (ex_src 7); HDelete [0] false false [];
     HBackupKilled ex_cfg (ex_src 8) 19; HBackup ex_cfg (ex_src 8); HDelete [] false false [[5;6]]].
  Example ex_history_ok : history_ok ex_pre (init_state ex_pre) ex_history.
  Proof.
    unfold ex_history. cbn [history_ok hop_ok].
    repeat (split; [exact I|]). split; [|repeat split].
    left. vm_compute. discriminate.
  Qed.
  Example ex_history_healthy :
    Forall (Healthy ex_pre) (history_states ex_pre (init_state ex_pre) ex_history).
  Proof. apply history_healthy. exact ex_history_ok. Qed.
  Example ex_history_validates skip hint :
    exists tr, run ex_pre (validate_prog skip hint) (run_history ex_pre (init_state ex_pre) ex_history) []
               = (tr, run_history ex_pre (init_state ex_pre) ex_history, Done {| v_ok := true; v_errors := 0 |}).
  Proof. apply history_final_validates. exact ex_history_ok. Qed.
  Example ex_history_nontrivial :
    map (fun a => (length (files a), band_ids (dirs a))) (history_states ex_pre (init_state ex_pre) ex_history)
    = [(1%nat, []); (8%nat, [0]); (13%nat, [0; 1]); (8%nat, [1]); (10%nat, [1; 2]); (15%nat, [1; 2; 3]); (15%nat, [1; 2; 3])]
    /\ snd (run ex_pre (validate_prog false []) (run_history ex_pre (init_state ex_pre) ex_history) [])
       = Done {| v_ok := true; v_errors := 0 |}.
  Proof. vm_compute. split; reflexivity. Qed.
End HealthyExamples.

Print Assumptions init_healthy.
Print Assumptions backup_uh.
Print Assumptions backup_healthy.
Print Assumptions backup_killed_healthy.
Print Assumptions delete_healthy_all.
Print Assumptions delete_healthy.
Print Assumptions history_healthy_from.
Print Assumptions history_healthy.
Print Assumptions history_validates.
Print Assumptions history_final_validates.
Print Assumptions headless_band_reported.
Print Assumptions healthy_uh_b_sound.
