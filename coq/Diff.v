(* Model of the tree diff and of the backup's change report (C18).
   Mirrors src/merge.rs (MergeTrees::next), src/diff.rs (Diff::next),
   src/change.rs (EntryChange, EntryMetadata, KindMetadata) and the change
   classification of src/backup.rs (backup() loop, copy_entry, copy_file,
   content_heuristically_unchanged).
   Model file: executable definitions only. *)
From Coq Require Import List NArith ZArith Bool.
From CV Require Import Base.Str Apath Entry.
Import ListNotations.

(* Outcome of a computation that may hit a Rust `panic!` / `unwrap()` / `assert!`. *)
Inductive dres (A : Type) : Type := DOk (a : A) | DPanic.
Arguments DOk {A} a.
Arguments DPanic {A}.

Definition dmap {A B} (f : A -> B) (r : dres A) : dres B :=
  match r with DOk a => DOk (f a) | DPanic => DPanic end.

(* Run [f] over a list; any panic makes the whole run panic; [None] items are dropped. *)
Fixpoint collect {A B} (f : A -> dres (option B)) (l : list A) : dres (list B) :=
  match l with
  | [] => DOk []
  | x :: l' =>
      match f x with
      | DPanic => DPanic
      | DOk o =>
          match collect f l' with
          | DPanic => DPanic
          | DOk r => DOk (match o with Some y => y :: r | None => r end)
          end
      end
  end.

(* ------------------------------------------------------------------ *)
(* merge.rs: MatchedEntries and MergeTrees::next iterated to exhaustion *)

Inductive matched :=
| MLeft (a : entry)
| MRight (b : sentry)
| MBoth (a : entry) (b : sentry).

(* One call of `next` looks at the two peeked heads:
   (None, None) => end; (Some a, None) => Left; (None, Some b) => Right;
   (Some a, Some b) => by `a.apath().cmp(b.apath())`: Equal => Both (both taken),
   Less => Left (only a taken), Greater => Right (only b taken). *)
Fixpoint merge (la : list entry) : list sentry -> list matched :=
  fix merge_aux (lb : list sentry) : list matched :=
    match la, lb with
    | [], [] => []
    | a :: la', [] => MLeft a :: merge la' []
    | [], b :: lb' => MRight b :: merge_aux lb'
    | a :: la', b :: lb' =>
        match apath_cmp (e_apath a) (s_apath b) with
        | Eq => MBoth a b :: merge la' lb'
        | Lt => MLeft a :: merge la' lb
        | Gt => MRight b :: merge_aux lb'
        end
    end.

(* ------------------------------------------------------------------ *)
(* change.rs: KindMetadata, EntryMetadata, Change *)

Inductive kindmeta := KMFile (size : N) | KMDir | KMSymlink (target : str).

Record emeta := {
  m_kind : kindmeta;
  m_mtime : Z;                (* Timestamp as total nanoseconds *)
  m_user : option str;
  m_group : option str;
  m_mode : N
}.

Inductive change :=
| Unchanged (m : emeta)
| Added (m : emeta)
| Deleted (m : emeta)
| Changed (old new : emeta).

Definition is_unchanged (c : change) : bool :=
  match c with Unchanged _ => true | _ => false end.

Definition is_file_meta (m : emeta) : bool :=
  match m_kind m with KMFile _ => true | _ => false end.

(* EntryTrait accessors of source::Entry (src/source/entry.rs): `size()` is Some only
   for files, `symlink_target()` is Some only for symlinks. *)
Definition s_size_opt (b : sentry) : option N :=
  match s_kind b with KFile => Some (s_size b) | _ => None end.
Definition s_symlink_target (b : sentry) : option str :=
  match s_kind b with KSymlink => s_target b | _ => None end.

(* EntryTrait accessors of IndexEntry (src/index/entry.rs): `size()` is always
   Some(sum of address lengths); `symlink_target()` is the `target` field whatever the
   kind; `mtime()` is Timestamp::new(mtime, mtime_nanos).expect(..), which panics when
   mtime_nanos is outside 0..=999_999_999 (u32 -> i32 conversion or jiff's range check).
   NOT modelled: jiff's range check on the seconds (-377705023201..=253402207200). *)
Definition e_size_opt (a : entry) : option N := Some (e_size a).
Definition entry_mtime (a : entry) : dres Z :=
  if (e_nanos a <? 1000000000)%N then DOk (e_ts a) else DPanic.

Definition optN_eqb (x y : option N) : bool :=
  match x, y with
  | None, None => true
  | Some n, Some m => N.eqb n m
  | _, _ => false
  end.

(* impl From<&dyn EntryTrait> for KindMetadata: Unknown panics, `size().unwrap()`,
   `symlink_target().unwrap()`. *)
Definition kindmeta_of_entry (a : entry) : dres kindmeta :=
  match e_kind a with
  | KFile => match e_size_opt a with Some n => DOk (KMFile n) | None => DPanic end
  | KDir => DOk KMDir
  | KSymlink => match e_target a with Some t => DOk (KMSymlink t) | None => DPanic end
  | KUnknown => DPanic
  end.

Definition kindmeta_of_sentry (b : sentry) : dres kindmeta :=
  match s_kind b with
  | KFile => match s_size_opt b with Some n => DOk (KMFile n) | None => DPanic end
  | KDir => DOk KMDir
  | KSymlink => match s_symlink_target b with Some t => DOk (KMSymlink t) | None => DPanic end
  | KUnknown => DPanic
  end.

(* impl From<&dyn EntryTrait> for EntryMetadata *)
Definition meta_of_entry (a : entry) : dres emeta :=
  match kindmeta_of_entry a with
  | DPanic => DPanic
  | DOk k =>
      match entry_mtime a with
      | DPanic => DPanic
      | DOk t => DOk {| m_kind := k; m_mtime := t; m_user := e_user a;
                        m_group := e_group a; m_mode := e_mode a |}
      end
  end.

Definition meta_of_sentry (b : sentry) : dres emeta :=
  match kindmeta_of_sentry b with
  | DPanic => DPanic
  | DOk k => DOk {| m_kind := k; m_mtime := s_mtime b; m_user := s_user b;
                    m_group := s_group b; m_mode := s_mode b |}
  end.

(* EntryChange::{added, deleted, unchanged, changed}: apath of the (old) entry + metadata *)
Definition ec_added (b : sentry) : dres (str * change) :=
  dmap (fun m => (s_apath b, Added m)) (meta_of_sentry b).
Definition ec_deleted (a : entry) : dres (str * change) :=
  dmap (fun m => (e_apath a, Deleted m)) (meta_of_entry a).
Definition ec_unchanged (a : entry) : dres (str * change) :=
  dmap (fun m => (e_apath a, Unchanged m)) (meta_of_entry a).
Definition ec_changed (a : entry) (b : sentry) : dres (str * change) :=
  match meta_of_entry a with
  | DPanic => DPanic
  | DOk mo =>
      match meta_of_sentry b with
      | DPanic => DPanic
      | DOk mn => DOk (e_apath a, Changed mo mn)
      end
  end.

(* The condition of EntryChange::diff_metadata, clause by clause:
     ak != b.kind() || a.owner() != b.owner() || a.unix_mode() != b.unix_mode()
     || (ak == File && (a.size() != b.size() || a.mtime() != b.mtime()))
     || (ak == Symlink && a.symlink_target() != b.symlink_target())
   `a.mtime()` is evaluated here with the total [e_ts]; when it would panic,
   EntryMetadata::from(a), which every branch evaluates next, panics as well, so
   the outcome of [diff_metadata] below is the same. *)
Definition owner_eqb (u1 g1 u2 g2 : option str) : bool :=
  opt_str_eqb u1 u2 && opt_str_eqb g1 g2.

Definition meta_differs (a : entry) (b : sentry) : bool :=
  negb (kind_eqb (e_kind a) (s_kind b))
  || negb (owner_eqb (e_user a) (e_group a) (s_user b) (s_group b))
  || negb (N.eqb (e_mode a) (s_mode b))
  || (kind_eqb (e_kind a) KFile
      && (negb (optN_eqb (e_size_opt a) (s_size_opt b)) || negb (Z.eqb (e_ts a) (s_mtime b))))
  || (kind_eqb (e_kind a) KSymlink
      && negb (opt_str_eqb (e_target a) (s_symlink_target b))).

Definition diff_metadata (a : entry) (b : sentry) : dres (str * change) :=
  if meta_differs a b then ec_changed a b else ec_unchanged a.

(* MatchedEntries::to_entry_change *)
Definition to_entry_change (m : matched) : dres (str * change) :=
  match m with
  | MBoth a b => diff_metadata a b
  | MLeft a => ec_deleted a
  | MRight b => ec_added b
  end.

(* ------------------------------------------------------------------ *)
(* diff.rs: Diff::next / collect.  Every merged item is converted (and may panic)
   before the `include_unchanged || !is_unchanged()` test. *)
Definition diff_item (include_unchanged : bool) (m : matched) : dres (option (str * change)) :=
  match to_entry_change m with
  | DPanic => DPanic
  | DOk ec =>
      DOk (if include_unchanged || negb (is_unchanged (snd ec)) then Some ec else None)
  end.

Definition diff (include_unchanged : bool) (idx : list entry) (src : list sentry)
  : dres (list (str * change)) :=
  collect (diff_item include_unchanged) (merge idx src).

(* ------------------------------------------------------------------ *)
(* backup.rs: what the change callback receives. *)

(* IndexEntry::metadata_from, with the source mtime split by floor division (the
   repaired code; the code at the pinned commit uses jiff's truncating
   as_second()/subsec_nanosecond() and panics on the negative sub-second part; both
   agree for mtimes >= 0).  `assert_eq!(target.is_some(), kind == Symlink)`. *)
Definition metadata_from (b : sentry) : dres entry :=
  if Bool.eqb (match s_symlink_target b with Some _ => true | None => false end)
              (kind_eqb (s_kind b) KSymlink)
  then DOk {| e_apath := s_apath b;
              e_kind := s_kind b;
              e_mtime := (s_mtime b / NANOS)%Z;
              e_nanos := Z.to_N (s_mtime b mod NANOS)%Z;
              e_mode := s_mode b;
              e_user := s_user b;
              e_group := s_group b;
              e_addrs := [];
              e_target := s_symlink_target b |}
  else DPanic.

(* `IndexEntry { addrs, ..e }` *)
Definition set_addrs (e : entry) (addrs : list addr) : entry :=
  {| e_apath := e_apath e; e_kind := e_kind e; e_mtime := e_mtime e; e_nanos := e_nanos e;
     e_mode := e_mode e; e_user := e_user e; e_group := e_group e;
     e_addrs := addrs; e_target := e_target e |}.

(* content_heuristically_unchanged(new_entry = source, basis_entry).  As above the
   basis mtime is read with the total [e_ts]; if it would panic, so does the
   EntryMetadata::from(basis) that every branch of copy_file evaluates. *)
Definition content_heuristically_unchanged (b : sentry) (a : entry) : bool :=
  kind_eqb (e_kind a) (s_kind b)
  && Z.eqb (e_ts a) (s_mtime b)
  && optN_eqb (e_size_opt a) (s_size_opt b).

(* The `result`/early return value of BackupWriter::copy_file (I/O errors not modelled). *)
Definition copy_file_change (present : bytes -> bool) (basis : option entry) (b : sentry)
  : dres (str * change) :=
  match basis with
  | Some a =>
      if content_heuristically_unchanged b a then
        if forallb (fun ad => present (a_hash ad)) (e_addrs a) then
          match metadata_from b with
          | DPanic => DPanic
          | DOk nb =>
              let new_entry := set_addrs nb (e_addrs a) in
              if entry_eqb new_entry a then ec_unchanged a else ec_changed a b
          end
        else ec_changed a b
      else ec_changed a b
  | None => ec_added b
  end.

(* BackupWriter::copy_entry, reduced to the Option<EntryChange> it returns
   (with `options.owner = true`; for `false` clear s_user/s_group of [src] first). *)
Definition copy_entry (present : bytes -> bool) (basis : option entry) (b : sentry)
  : dres (option (str * change)) :=
  match s_kind b with
  | KDir => dmap (fun _ => None) (metadata_from b)
  | KFile => dmap Some (copy_file_change present basis b)
  | KSymlink =>
      match s_symlink_target b with
      | None => DPanic                                  (* assert!(target.is_some()) *)
      | Some _ => dmap (fun _ => None) (metadata_from b)
      end
  | KUnknown => DOk None
  end.

(* One turn of the loop in backup(): `into_options`, then copy_entry if there is a
   source entry, else the Deleted callback. *)
Definition backup_item (present : bytes -> bool) (m : matched) : dres (option (str * change)) :=
  match m with
  | MLeft a => dmap Some (ec_deleted a)
  | MRight b => copy_entry present None b
  | MBoth a b => copy_entry present (Some a) b
  end.

Definition backup_changes (present : bytes -> bool) (idx : list entry) (src : list sentry)
  : dres (list (str * change)) :=
  collect (backup_item present) (merge idx src).

(* ------------------------------------------------------------------ *)
(* Inputs on which nothing panics. *)
Definition entry_okb (a : entry) : bool :=
  (e_nanos a <? 1000000000)%N
  && match e_kind a with
     | KUnknown => false
     | KSymlink => match e_target a with Some _ => true | None => false end
     | _ => true
     end.

Definition sentry_okb (b : sentry) : bool :=
  match s_kind b with
  | KUnknown => false
  | KSymlink => match s_target b with Some _ => true | None => false end
  | _ => true
  end.
