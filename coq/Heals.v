(* C10, "when the damage was a deleted or emptied file, a new backup of the source completes
   and restores exactly": definitions.  Model file: definitions only (lemmas and theorems:
   HealsP.v).

   1. [lost a f a']: ONE file [f] of [a], not the archive header, not GC_LOCK, was deleted or
      truncated to zero length (the two cases of [Valid.damaged] that lose the content
      without putting other bytes in its place);
   2. [Usable pre a]: what a fault-free backup started in [a] needs in order to succeed and
      to restore exactly.  It is weaker than [E2E.Ready]: nothing is asked of the old bands'
      numbering, order, tails, heads, nor that the blocks their entries name exist;
   3. [item_healed]: what restoring the new band returns for one source item. *)
From Coq Require Import List NArith ZArith Bool.
From CV Require Import Base.Str Apath Entry Stitch Store StitchProg Codec Backup Read Inv Conf Truth Valid E2E.
Import ListNotations.
Local Open Scope N_scope.

(* ------------------------------------------------------------------------- *)
(** * 1. One file deleted or emptied                                           *)
(* ------------------------------------------------------------------------- *)
Inductive lost (a : arch) (f : fpath) : arch -> Prop :=
| lost_removed : get a f <> None -> f <> PHeader -> f <> PLock -> lost a f (remove_path a f)
| lost_emptied : get a f <> None -> f <> PHeader -> f <> PLock -> lost a f (replace_path a f Empty).

(* ------------------------------------------------------------------------- *)
(** * 2. The start state of a backup that heals                                *)
(* ------------------------------------------------------------------------- *)

(* An address lies inside the block it names.  (A block is named by its content, so this is a
   property of the address alone: it is what is left of [Inv.addr_ok] when the block file
   itself may be gone.) *)
Definition InRangeA (ad : addr) : Prop := a_start ad + a_len ad <= N.of_nat (length (a_hash ad)).
Definition InRangeE (e : entry) : Prop := Forall InRangeA (e_addrs e).

(* every entry of every index hunk that still decodes has its addresses inside the blocks
   they name -- whether or not those blocks are still there *)
Definition HunksInRange (a : arch) : Prop :=
  forall b h es, get a (PHunk b h) = Some (Good (PlHunk es)) -> Forall InRangeE es.

(* The weaker, conditional form -- "every address whose block file is there, non-empty, lies
   inside it" -- is NOT enough (HealsP.usable_present_only_refuted): a block that is absent
   when the backup starts can be stored again by the same backup before an entry naming it is
   reused. *)
Definition RefIntPresent (a : arch) : Prop :=
  forall b h es e ad,
    get a (PHunk b h) = Some (Good (PlHunk es)) -> In e es -> In ad (e_addrs e) ->
    (exists x, get a (PBlock (a_hash ad)) = Some x /\ nonempty x = true) -> InRangeA ad.

(* [Startable]: the archive header, no GC_LOCK file, the block directory, every file and
   directory inside an existing directory.  No directory is listed twice, no file path twice.
   [BlocksWF]: a block file that is not zero-length holds its own content (zero-length block
   files are allowed: they are not listed as present, and a create-new write completes them).
   [HunksInRange]: see above.
   NOT required: anything about band heads, band tails, hunk numbering, the order of entries
   in old hunks, their well-formedness, or the existence of the blocks they name. *)
Definition Usable (pre : bytes -> N) (a : arch) : Prop :=
  Startable pre a /\ NoDup (dirs a) /\ FilesND a /\ BlocksWF a /\ HunksInRange a.

(* ---- boolean checker (sound: HealsP.v) ---- *)
Definition inrange_a_b (ad : addr) : bool := a_start ad + a_len ad <=? N.of_nat (length (a_hash ad)).
Definition inrange_e_b (e : entry) : bool := forallb inrange_a_b (e_addrs e).
Definition hunksinrange_b (a : arch) : bool :=
  forallb (fun p => match p with
                    | (PHunk _ _, Good (PlHunk es)) => forallb inrange_e_b es
                    | _ => true
                    end) (files a).
(* every entry of every index hunk that decodes *)
Definition all_entries (a : arch) : list entry :=
  flat_map (fun p => match snd p with Good (PlHunk es) => es | _ => [] end) (files a).
Definition refintpresent_b (a : arch) : bool :=
  forallb (fun e =>
    forallb (fun ad =>
      negb (match get a (PBlock (a_hash ad)) with Some x => nonempty x | None => false end)
      || inrange_a_b ad) (e_addrs e)) (all_entries a).
Definition usable_b (pre : bytes -> N) (a : arch) : bool :=
  startable_b pre a && nodup_dirs (dirs a) && filesnd_b a && blockswf_b a && hunksinrange_b a.

(* ------------------------------------------------------------------------- *)
(** * 3. What restore returns for one source item                              *)
(* ------------------------------------------------------------------------- *)

(* the bytes the addresses of [e] denote (a block is named by its content) *)
Definition denoted (e : entry) : option bytes := read_addrs (fun h => Some h) (e_addrs e).

(* [E2E.item_restored] with the reuse case adapted to a start state whose old entries may
   name lost blocks: the restored entry carries the item's metadata; a directory or symlink
   has no content; a file's content is the bytes read from the source, or -- when the backup
   reused the addresses of the basis entry [be] (same path, kind, mtime and size, every block
   it names listed as present when the backup looked) -- the bytes those addresses denote,
   which is what [be] restored to in [a0] if it could be restored there at all. *)
Definition item_healed (c : cfg) (a0 : arch) (it : sitem) (rf : rfile) : Prop :=
  exists e d,
    rf = RFile e (Some d)
    /\ meta_of c it e
    /\ match s_kind (si_e it) with
       | KFile =>
           d = si_data it
           \/ exists be, basis_match a0 it be /\ e_addrs e = e_addrs be
                         /\ denoted be = Some d
                         /\ (forall d', content_of a0 be = Some d' -> d' = d)
       | _ => d = []
       end.

(* ---- the invariants of the two extra passes over the backup (HealsP.v) ---- *)

(* the part of [Conf.ConfBand] the restore of the new band needs: apaths strictly increase
   inside and across the hunks, and the tail counts exactly the hunks there are *)
Definition SortedBand (a : arch) (b : N) : Prop := HunksSorted a b /\ TailTrue a b.

(* ... of every band that did not exist in [a0] *)
Definition NewSorted (a0 a : arch) : Prop :=
  forall b, has_dir a0 (DBand b) = false -> SortedBand a b.

(* referential integrity of the bands that did not exist in [a0] *)
Definition NewRefInt (a0 a : arch) : Prop :=
  forall b h es, has_dir a0 (DBand b) = false ->
    get a (PHunk b h) = Some (Good (PlHunk es)) -> Forall (entry_ok a) es.
