(* C02 / C03, the reading side: every version that was listed / restored before a later
   backup started is listed / restored exactly as before, whatever that backup (complete,
   failed, or killed at any point) did.  Also C14 (a present block is never rewritten).

   0.  [evals]: fault-free evaluation of reading programs.
   1.  ABSTRACTION.  [view a] is the pure listing view (a [Stitch.arch entry]) of a storage
       state; [lview pre a] is the same thing computed the way the reader sees it (through
       directory listings); [lview_eq_view] on well-formed states ([WFidx]).
   2-4. REFINEMENT.  The stitched reader program ([snext] run to completion, hence
       [list_prog (Specified b)]) computes exactly the pure [stitch_keep] of the view
       ([snext_refines], [list_refines], [list_complete_band]).
   5.  FRAME.  A backup never touches anything in or below a band that already exists:
       [Frame b a0 a] holds at every state of every run ([backup_frame], [backup_same_band]).
   6.  STABILITY of listing (any existing band, also under read faults: [listing_stable])
       and restore ([restore_char], [restore_stable]) across a later backup; the statements
       for complete bands ([complete_band_listing_stable], [complete_band_restore_stable]).
   7.  [latest_closed_is_newest].
   8.  C14: [backup_never_rewrites_present] (all faults); 8b: [unchanged_tree_no_block_writes]
       (fault-free; via [snext_spec], the lazy basis reader with the merge's [skip]).
   9.  Boolean checkers for the hypotheses and examples on [SafeP.SafeExamples] states.

   What is NOT modelled / proved here: the monitor-error count [l_merr]/[r_merr] of a listing
   is left existential in the refinement theorems (it is nevertheless shown stable, being
   part of the outcome in [listing_stable]/[restore_stable]); restore stability is for
   fault-free restores (listing stability holds under read faults too). *)
From Coq Require Import Lia Sorted Permutation.
From CV Require Import Base.Str Base.StrP Base.Order Apath ApathP Entry Stitch StitchInst StitchP Tree TreeP Codec CodecP Store
  StitchProg Backup Ops Delete Read SafeP Inv RefIntP.
Local Open Scope N_scope.

Notation arch := Store.arch.
Notation sview := (Stitch.arch entry).
Notation pstitch_keep := (stitch_keep str apath_cmp entry e_apath).
Notation pstitch_from := (stitch_from str apath_cmp entry e_apath).
Notation pstitch_below := (stitch_below str apath_cmp entry e_apath).
Notation pvisit_band := (visit_band str apath_cmp entry e_apath).
Notation pread_band := (read_band str apath_cmp entry e_apath).
Notation pband_loop := (band_loop str apath_cmp entry e_apath).
Notation phstep := (hunk_step str apath_cmp entry e_apath).
Notation pnlast := (newlast str entry e_apath).

(* ------------------------------------------------------------------------- *)
(** * 0. Fault-free evaluation of reading programs                            *)
(* ------------------------------------------------------------------------- *)

Section Evals.
  Variable pre : bytes -> N.

  (* [evals a p q]: without faults, in state [a], [p] issues reading operations only (which
     leave [a] unchanged) and then continues as [q] *)
  Inductive evals {R : Type} (a : arch) : prog R -> prog R -> Prop :=
  | ev_refl : forall p, evals a p p
  | ev_read : forall o k q, reads_only o -> evals a (k (snd (exec_ok pre a o))) q -> evals a (Do o k) q.

  Lemma evals_trans {R} a (p q r : prog R) : evals a p q -> evals a q r -> evals a p r.
  Proof. intros H. induction H; intros Hr; [exact Hr|]. apply ev_read; auto. Qed.

  Lemma evals_bind {A B} a (p q : prog A) (f : A -> prog B) :
    evals a p q -> evals a (bind p f) (bind q f).
  Proof. intros H. induction H; cbn [bind]; [apply ev_refl|]. apply ev_read; auto. Qed.

  Lemma evals_step {R} a o (k : reply -> prog R) :
    reads_only o -> evals a (Do o k) (k (snd (exec_ok pre a o))).
  Proof. intros Ho. apply ev_read; [exact Ho | apply ev_refl]. Qed.

  Lemma exec_ok_read_same a o : reads_only o -> fst (exec_ok pre a o) = a.
  Proof. intros Ho. apply (exec_read_same pre a o NoFault Ho). Qed.

  Lemma evals_run {R} a (p q : prog R) :
    evals a p q ->
    exists tr, run pre p a [] = (tr ++ fst (fst (run pre q a [])), snd (fst (run pre q a [])), snd (run pre q a [])).
  Proof.
    intros H. induction H as [p|o k q Ho _ IH].
    - exists []. cbn [app]. apply triple_eta.
    - destruct IH as [tr IH]. exists ((o, snd (exec_ok pre a o)) :: tr).
      rewrite run_Do. cbn [hdf tl exec]. rewrite (exec_ok_read_same a o Ho). rewrite IH.
      cbn [fst snd app]. reflexivity.
  Qed.

  Lemma evals_run_ret {R} a (p : prog R) r :
    evals a p (Ret r) -> exists tr, run pre p a [] = (tr, a, Done r).
  Proof.
    intros H. destruct (evals_run _ _ _ H) as [tr E]. exists (tr ++ []). rewrite E. reflexivity.
  Qed.

  (* replies of the reading operations, without faults *)
  Lemma reply_read a f : snd (exec_ok pre a (OpRead f)) = match get a f with Some c => RData c | None => RErr ENotFound end.
  Proof. cbn [exec_ok]. destruct (get a f); reflexivity. Qed.
  Lemma reply_meta a f : snd (exec_ok pre a (OpMeta f)) = match get a f with Some c => RMeta (nonempty c) | None => RErr ENotFound end.
  Proof. cbn [exec_ok]. destruct (get a f); reflexivity. Qed.
  Lemma reply_list a d : snd (exec_ok pre a (OpList d))
    = if has_dir a d then RList (children_dirs a d) (children_files pre a d) else RErr ENotFound.
  Proof. cbn [exec_ok]. destruct (has_dir a d); reflexivity. Qed.
End Evals.

(* ------------------------------------------------------------------------- *)
(** * 1. The view of a storage state                                          *)
(* ------------------------------------------------------------------------- *)

Definition is_some {A} (o : option A) : bool := match o with Some _ => true | None => false end.

(* BANDHEAD exists / opens; BANDTAIL exists and is not zero-length *)
Definition head_present (a : arch) (n : N) : bool := is_some (get a (PHead n)).
Definition head_opens (a : arch) (n : N) : bool :=
  match get a (PHead n) with
  | Some c => match head_status (RData c) with HOk => true | _ => false end
  | None => false
  end.
Definition tail_closed (a : arch) (n : N) : bool :=
  match get a (PTail n) with Some c => nonempty c | None => false end.

(* what a hunk file decodes to: [None] = present but not a readable hunk *)
Definition hunk_content (a : arch) (n h : N) : option (list entry) :=
  match get a (PHunk n h) with Some (Good (PlHunk es)) => Some es | _ => None end.

(* the hunk files of band [n], in increasing hunk number *)
Definition hunk_files (a : arch) (n : N) : list N :=
  isort_by N.compare (fun x => x)
    (flat_map (fun p => match fst p with PHunk b h => if N.eqb b n then [h] else [] | _ => [] end) (files a)).

Definition mk_view (a : arch) (hunks : N -> list N) : sview :=
  fun n =>
    let b := N.of_nat n in
    if has_dir a (DBand b) then
      Some {| b_head := head_present a b; b_opens := head_opens a b; b_closed := tail_closed a b;
              b_hunks := map (hunk_content a b) (hunks b) |}
    else None.

(** THE ABSTRACTION *)
Definition view (a : arch) : sview := mk_view a (hunk_files a).

(* a band that can be restored on its own *)
Definition complete (a : arch) (b : N) : Prop := head_opens a b = true /\ tail_closed a b = true.

Section LView.
  Variable pre : bytes -> N.

  (* the hunk numbers IndexRead::hunks_available finds: the sub-directories of i/ in
     number order, and in each the files in number order *)
  Definition listed_hunks (a : arch) (n : N) : list N :=
    if has_dir a (DIndex n) then
      flat_map (fun s => hunk_numbers (children_files pre a (DHunkSub n s)))
               (subdir_numbers (children_dirs a (DIndex n)))
    else [].

  (* the view as the reader computes it *)
  Definition lview (a : arch) : sview := mk_view a (listed_hunks a).
End LView.

(* band files lie in their band directory *)
Definition WFbands (a : arch) : Prop :=
  forall n, (get a (PHead n) <> None -> has_dir a (DBand n) = true)
         /\ (get a (PTail n) <> None -> has_dir a (DBand n) = true).
(* Band::open never panics (an unparsable version is an unsupported version) *)
Lemma head_status_no_panic r : head_status r <> HPanic.
Proof. destruct r as [| |[[|[]| | |]| |]| |]; discriminate. Qed.

(* ------------------------------------------------------------------------- *)
(** * 2. Refinement: the stitched reader computes [stitch_keep] of [lview]    *)
(* ------------------------------------------------------------------------- *)

Definition skT (e : entry) : bool := true.

Section Refine.
  Variable pre : bytes -> N.
  Variable keep : entry -> bool.
  Variable a : arch.

  Notation evals := (evals pre a).
  Notation v := (lview pre a).

  Lemma scan_buf_all buf : forall acc, scan_buf keep skT buf acc = (acc ++ filter keep buf, None).
  Proof.
    induction buf as [|e buf IH]; intros acc; cbn [scan_buf filter]; [rewrite app_nil_r; reflexivity|].
    destruct (keep e); cbn [skT]; [|apply IH]. rewrite IH, <- app_assoc. reflexivity.
  Qed.

  Definition count_none {A} (l : list (option A)) : N :=
    N.of_nat (length (filter (fun o => negb (is_some o)) l)).
  Lemma count_none_none {A} (l : list (option A)) : count_none (None :: l) = 1 + count_none l.
  Proof. unfold count_none. cbn [filter is_some negb length]. lia. Qed.
  Lemma count_none_some {A} (x : A) l : count_none (Some x :: l) = count_none l.
  Proof. reflexivity. Qed.

  Lemma hl_good n h hs es after last acc merr k :
    get a (PHunk (N.of_nat n) h) = Some (Good (PlHunk es)) ->
    evals (hunks_loop keep skT n (h :: hs) after last acc merr k)
          (match phstep (Some es) after with
           | (None, after') => hunks_loop keep skT n hs after' last acc merr k
           | (Some out, after') => hunks_loop keep skT n hs after' (pnlast out last) (acc ++ filter keep out) merr k
           end).
  Proof.
    intros G. cbn [hunks_loop]. apply ev_read; [exact I|]. rewrite reply_read, G.
    destruct (phstep (Some es) after) as [[out|] after']; [|apply ev_refl].
    rewrite scan_buf_all. apply ev_refl.
  Qed.

  Lemma hl_bad n h hs c after last acc merr k :
    get a (PHunk (N.of_nat n) h) = Some c -> (forall es, c <> Good (PlHunk es)) ->
    evals (hunks_loop keep skT n (h :: hs) after last acc merr k)
          (hunks_loop keep skT n hs after last acc (merr + 1) k).
  Proof.
    intros G Hc. cbn [hunks_loop]. apply ev_read; [exact I|]. rewrite reply_read, G.
    destruct c as [[|hv|t|es|c]| |]; try apply ev_refl. exfalso. apply (Hc es). reflexivity.
  Qed.

  (* IndexHunkIter::next + the InBand arm over listed hunks that exist = [band_loop] *)
  Lemma hunks_loop_refines n hs : forall after last acc merr k,
    (forall h, In h hs -> get a (PHunk (N.of_nat n) h) <> None) ->
    evals (hunks_loop keep skT n hs after last acc merr k)
          (k (snd (pband_loop keep (map (hunk_content a (N.of_nat n)) hs) after last))
             (acc ++ fst (pband_loop keep (map (hunk_content a (N.of_nat n)) hs) after last))
             (merr + count_none (map (hunk_content a (N.of_nat n)) hs))).
  Proof.
    induction hs as [|h hs IH]; intros after last acc merr k Hex.
    - cbn [hunks_loop map band_loop fst snd]. rewrite app_nil_r. unfold count_none. cbn. rewrite N.add_0_r. apply ev_refl.
    - assert (Hex' : forall h', In h' hs -> get a (PHunk (N.of_nat n) h') <> None)
        by (intros h' Hh'; apply Hex; right; exact Hh').
      destruct (get a (PHunk (N.of_nat n) h)) as [c|] eqn:G; [|exfalso; apply (Hex h); [left; reflexivity | exact G]].
      cbn [map band_loop].
      destruct (hunk_content a (N.of_nat n) h) as [es|] eqn:Hc.
      + assert (G' : get a (PHunk (N.of_nat n) h) = Some (Good (PlHunk es))).
        { unfold hunk_content in Hc. rewrite G in *. destruct c as [[|hv|t|es'|c]| |]; try discriminate. congruence. }
        eapply evals_trans; [apply hl_good; exact G'|]. rewrite count_none_some.
        destruct (phstep (Some es) after) as [[out|] after']; [|apply IH; exact Hex'].
        destruct (pband_loop keep (map (hunk_content a (N.of_nat n)) hs) after' (pnlast out last)) as [rest last'] eqn:Eb.
        cbn [fst snd]. rewrite app_assoc.
        pose proof (IH after' (pnlast out last) (acc ++ filter keep out) merr k Hex') as H.
        rewrite Eb in H. cbn [fst snd] in H. exact H.
      + eapply evals_trans; [eapply hl_bad; [exact G|]|].
        { intros es ->. unfold hunk_content in Hc. rewrite G in Hc. discriminate. }
        rewrite count_none_none. cbn [hunk_step]. rewrite N.add_assoc. apply IH. exact Hex'.
  Qed.

  (* hunks_available: every listed sub-directory exists *)
  Lemma list_subdirs_refines b subs : forall acc kfail k,
    (forall s, In s subs -> has_dir a (DHunkSub b s) = true) ->
    evals (list_subdirs b subs acc kfail k)
          (k (acc ++ flat_map (fun s => hunk_numbers (children_files pre a (DHunkSub b s))) subs)).
  Proof.
    induction subs as [|s subs IH]; intros acc kfail k Hs; cbn [list_subdirs flat_map].
    - rewrite app_nil_r. apply ev_refl.
    - apply ev_read; [exact I|]. rewrite reply_list, (Hs s (or_introl eq_refl)).
      rewrite app_assoc. apply IH. intros s' Hs'. apply Hs. right. exact Hs'.
  Qed.

  Lemma in_isort_N x l : In x (isort_by N.compare (fun y => y) l) <-> In x l.
  Proof. apply in_isort. Qed.

  (* a listed sub-directory of i/ is a DHunkSub of this band, and exists *)
  Lemma subdir_listed b s :
    In s (subdir_numbers (children_dirs a (DIndex b))) -> has_dir a (DHunkSub b s) = true.
  Proof.
    unfold subdir_numbers. rewrite in_isort_N, in_flat_map. intros [d [Hd Hs]].
    unfold children_dirs in Hd. apply filter_In in Hd. destruct Hd as [Hd Hp].
    destruct d as [| |b'|b'|b' s'|s']; try contradiction. destruct Hs as [->|[]].
    cbn [parent_d] in Hp. destruct (dpath_eqb_spec (DIndex b') (DIndex b)) as [E|]; [|discriminate].
    inversion E; subst. apply has_dir_In. exact Hd.
  Qed.

  (* a listed hunk number is the number of a hunk file of this band *)
  Lemma hunk_listed b s h :
    In h (hunk_numbers (children_files pre a (DHunkSub b s))) ->
    In (PHunk b h) (map fst (files a)) /\ h / HUNKS_PER_SUBDIR = s.
  Proof.
    unfold hunk_numbers. rewrite in_isort_N, in_flat_map. intros [[f ne] [Hf Hh]].
    unfold children_files in Hf. apply in_map_iff in Hf. destruct Hf as [[g x] [E Hg]].
    cbn [fst snd] in E. inversion E; subst f ne. clear E.
    apply filter_In in Hg. destruct Hg as [Hg Hp]. cbn [fst] in Hp, Hh.
    destruct g as [| |b'|b'|b' h'|c]; try contradiction. destruct Hh as [->|[]].
    cbn [parent_f] in Hp. destruct (dpath_eqb_spec (DHunkSub b' (h / HUNKS_PER_SUBDIR)) (DHunkSub b s)) as [E|]; [|discriminate].
    inversion E; subst. split; [|reflexivity]. apply in_map_iff. exists (PHunk b h, x). auto.
  Qed.

  Lemma In_keys_get f : In f (map fst (files a)) -> get a f <> None.
  Proof. intros Hin E. apply (lookup_None_notin _ _ E). exact Hin. Qed.

  Lemma listed_hunks_exist b h : In h (listed_hunks pre a b) -> get a (PHunk b h) <> None.
  Proof.
    unfold listed_hunks. destruct (has_dir a (DIndex b)); [|intros []].
    rewrite in_flat_map. intros [s [_ Hh]]. apply In_keys_get. apply (hunk_listed b s h Hh).
  Qed.

  Hypothesis WB : WFbands a.

  Lemma v_opens n : band_opens v n = head_opens a (N.of_nat n).
  Proof.
    unfold band_opens, lview, mk_view. destruct (has_dir a (DBand (N.of_nat n))) eqn:Hd; [reflexivity|].
    unfold head_opens. destruct (get a (PHead (N.of_nat n))) eqn:G; [|reflexivity].
    destruct (WB (N.of_nat n)) as [H _]. rewrite H in Hd; [discriminate | congruence].
  Qed.
  Lemma v_exists n : band_exists v n = head_present a (N.of_nat n).
  Proof.
    unfold band_exists, lview, mk_view. destruct (has_dir a (DBand (N.of_nat n))) eqn:Hd; [reflexivity|].
    unfold head_present. destruct (get a (PHead (N.of_nat n))) eqn:G; [|reflexivity].
    destruct (WB (N.of_nat n)) as [H _]. rewrite H in Hd; [discriminate | congruence].
  Qed.
  Lemma v_closed n : band_closed v n = tail_closed a (N.of_nat n).
  Proof.
    unfold band_closed, lview, mk_view. destruct (has_dir a (DBand (N.of_nat n))) eqn:Hd; [reflexivity|].
    unfold tail_closed. destruct (get a (PTail (N.of_nat n))) eqn:G; [|reflexivity].
    destruct (WB (N.of_nat n)) as [_ H]. rewrite H in Hd; [discriminate | congruence].
  Qed.
  Lemma v_hunks n : head_opens a (N.of_nat n) = true ->
    band_hunks v n = map (hunk_content a (N.of_nat n)) (listed_hunks pre a (N.of_nat n)).
  Proof.
    intros Ho. unfold band_hunks, lview, mk_view. destruct (has_dir a (DBand (N.of_nat n))) eqn:Hd; [reflexivity|].
    unfold head_opens in Ho. destruct (get a (PHead (N.of_nat n))) eqn:G; [|discriminate].
    destruct (WB (N.of_nat n)) as [H _]. rewrite H in Hd; [discriminate | congruence].
  Qed.

  (* State::BeforeBand then InBand to the end of the band = [read_band] *)
  Lemma open_band_refines n last acc merr k :
    exists merr',
      evals (open_band keep skT n last acc merr k)
            (k (snd (pread_band keep v n last)) (acc ++ fst (pread_band keep v n last)) merr').
  Proof.
    unfold read_band. rewrite v_opens. unfold open_band.
    destruct (head_opens a (N.of_nat n)) eqn:Ho.
    - rewrite (v_hunks n Ho). unfold head_opens in Ho.
      destruct (get a (PHead (N.of_nat n))) as [c|] eqn:G; [|discriminate].
      destruct (head_status (RData c)) eqn:Hs; try discriminate.
      unfold listed_hunks. destruct (has_dir a (DIndex (N.of_nat n))) eqn:Hi.
      + eexists. apply ev_read; [exact I|]. rewrite reply_read, G, Hs.
        apply ev_read; [exact I|]. rewrite reply_list, Hi.
        eapply evals_trans; [apply list_subdirs_refines; intros s Hs'; apply subdir_listed; exact Hs'|].
        apply ev_read; [exact I|]. cbn [app].
        apply hunks_loop_refines. intros h Hh. apply listed_hunks_exist.
        unfold listed_hunks. rewrite Hi. exact Hh.
      + eexists. apply ev_read; [exact I|]. rewrite reply_read, G, Hs.
        apply ev_read; [exact I|]. rewrite reply_list, Hi. cbn [map band_loop fst snd].
        rewrite app_nil_r. apply ev_refl.
    - cbn [fst snd]. rewrite app_nil_r. eexists. apply ev_read; [exact I|]. rewrite reply_read.
      unfold head_opens in Ho. destruct (get a (PHead (N.of_nat n))) as [c|] eqn:G; [|apply ev_refl].
      destruct (head_status (RData c)) eqn:Hs; try discriminate; [apply ev_refl|].
      exfalso. exact (head_status_no_panic _ Hs).
  Qed.

  Lemma after_band_refines n blw last acc merr :
    evals (after_band n blw last acc merr)
          (if band_closed v n then Ret (acc, None, SDone, last, merr) else blw last acc merr).
  Proof.
    rewrite v_closed. unfold after_band, tail_closed. apply ev_read; [exact I|]. rewrite reply_meta.
    destruct (get a (PTail (N.of_nat n))) as [c|]; [|apply ev_refl].
    cbn [meta_is_closed]. destruct (nonempty c); apply ev_refl.
  Qed.

  (* BeforeBand n ... AfterBand n, given what the search below n does *)
  Lemma visit_refines n (blw : option str -> list entry -> N -> prog sres) (pblw : option str -> list entry) :
    (band_closed v n = false -> forall last acc merr, exists lastf merrf,
        evals (blw last acc merr) (Ret (acc ++ pblw last, None, SDone, lastf, merrf))) ->
    forall last acc merr, exists lastf merrf,
      evals (open_band keep skT n last acc merr (after_band n blw))
            (Ret (acc ++ pvisit_band keep v n last pblw, None, SDone, lastf, merrf)).
  Proof.
    intros Hb last acc merr. destruct (open_band_refines n last acc merr (after_band n blw)) as [merr' H1].
    unfold visit_band. destruct (pread_band keep v n last) as [out last'] eqn:Er. cbn [fst snd] in H1.
    pose proof (after_band_refines n blw last' (acc ++ out) merr') as H2.
    destruct (band_closed v n).
    - exists last', merr'. rewrite app_nil_r. eapply evals_trans; eassumption.
    - destruct (Hb eq_refl last' (acc ++ out) merr') as [lastf [merrf H3]]. exists lastf, merrf.
      rewrite app_assoc. eapply evals_trans; [exact H1|]. eapply evals_trans; eassumption.
  Qed.

  (* previous_existing_band fused with what follows = [stitch_below] *)
  Lemma below_refines n :
    forall last acc merr, exists lastf merrf,
    evals (below keep skT n last acc merr) (Ret (acc ++ pstitch_below keep v n last, None, SDone, lastf, merrf)).
  Proof.
    induction n as [|m IH]; intros last acc merr; cbn [below stitch_below].
    - exists last, merr. rewrite app_nil_r. apply ev_refl.
    - rewrite v_exists.
      assert (E : meta_is_file (snd (exec_ok pre a (OpMeta (PHead (N.of_nat m))))) = head_present a (N.of_nat m)).
      { rewrite reply_meta. unfold head_present. destruct (get a (PHead (N.of_nat m))); reflexivity. }
      assert (IH' := IH).
      destruct (head_present a (N.of_nat m)).
      + destruct (visit_refines m (below keep skT m) (pstitch_below keep v m) (fun _ => IH') last acc merr)
          as [lastf [merrf H]].
        exists lastf, merrf. apply ev_read; [exact I|]. rewrite E. exact H.
      + destruct (IH' last acc merr) as [lastf [merrf H]]. exists lastf, merrf.
        apply ev_read; [exact I|]. rewrite E. exact H.
  Qed.

  (** Stitch::new(n) run to the end = the pure [stitch_keep] of the view *)
  Theorem snext_refines n merr :
    exists lastf merrf,
    evals (snext keep skT (SBefore n) None merr)
          (Ret (pstitch_keep keep v n, None, SDone, lastf, merrf)).
  Proof.
    unfold snext, stitch_keep, stitch_from.
    destruct (visit_refines n (below keep skT n) (pstitch_below keep v n)
                (fun _ => below_refines n) None [] merr)
      as [lastf [merrf H]].
    exists lastf, merrf. exact H.
  Qed.

  (* a closed band: nothing below it is looked at *)
  Theorem snext_refines_closed n merr :
    band_closed v n = true ->
    exists lastf merrf,
    evals (snext keep skT (SBefore n) None merr)
          (Ret (pstitch_keep keep v n, None, SDone, lastf, merrf)).
  Proof.
    intros Hc. unfold snext, stitch_keep, stitch_from.
    destruct (visit_refines n (below keep skT n) (pstitch_below keep v n)
                (fun H => False_ind _ (eq_true_false_abs _ Hc H)) None [] merr)
      as [lastf [merrf H]].
    exists lastf, merrf. exact H.
  Qed.
End Refine.

Section ListRefines.
  Variable pre : bytes -> N.
  Variable keep : entry -> bool.

  Definition lfail : lres := {| l_ok := false; l_entries := []; l_merr := 0 |}.

  Lemma head_opens_status a b :
    head_status (snd (exec_ok pre a (OpRead (PHead b)))) = if head_opens a b then HOk else HErr.
  Proof.
    rewrite reply_read. unfold head_opens.
    destruct (get a (PHead b)) as [c|] eqn:G; [|reflexivity].
    destruct (head_status (RData c)) eqn:Hs; try reflexivity.
    exfalso. exact (head_status_no_panic _ Hs).
  Qed.

  Lemma list_prog_evals a b (r : sres) :
    get a PHeader = Some (Good PlJson) -> head_opens a b = true ->
    evals pre a (snext keep skT (SBefore (N.to_nat b)) None 0) (Ret r) ->
    evals pre a (list_prog (Specified b) keep)
      (let '(es, _, _, _, merr) := r in Ret {| l_ok := true; l_entries := es; l_merr := merr |}).
  Proof.
    intros Hh Ho Hs. unfold list_prog. apply ev_read; [exact I|]. rewrite reply_read, Hh.
    unfold open_tree, resolve. apply ev_read; [exact I|].
    rewrite (head_opens_status a b), Ho.
    apply (evals_bind pre a _ _ (fun r => let '(es, _, _, _, merr) := r in
             Ret {| l_ok := true; l_entries := es; l_merr := merr |})) in Hs.
    cbn [bind] in Hs. exact Hs.
  Qed.

  (** REFINEMENT (listing view): listing band [b] yields the pure stitch of the view *)
  Theorem list_refines_lview a b :
    get a PHeader = Some (Good PlJson) -> WFbands a -> head_opens a b = true ->
    exists tr merr,
      run pre (list_prog (Specified b) keep) a []
      = (tr, a, Done {| l_ok := true;
                        l_entries := pstitch_keep keep (lview pre a) (N.to_nat b);
                        l_merr := merr |}).
  Proof.
    intros Hh WB Ho.
    destruct (snext_refines pre keep a WB (N.to_nat b) 0) as [lastf [merrf Hs]].
    pose proof (list_prog_evals a b _ Hh Ho Hs) as E. cbv beta iota in E.
    destruct (evals_run_ret pre a _ _ E) as [tr Hr]. exists tr, merrf. exact Hr.
  Qed.

  (* the same for a closed band, whatever lies below it *)
  Theorem list_refines_lview_closed a b :
    get a PHeader = Some (Good PlJson) -> WFbands a -> complete a b ->
    exists tr merr,
      run pre (list_prog (Specified b) keep) a []
      = (tr, a, Done {| l_ok := true;
                        l_entries := pstitch_keep keep (lview pre a) (N.to_nat b);
                        l_merr := merr |}).
  Proof.
    intros Hh WB [Ho Hc].
    destruct (snext_refines_closed pre keep a WB (N.to_nat b) 0) as [lastf [merrf Hs]].
    { rewrite v_closed by exact WB. rewrite N2Nat.id. exact Hc. }
    pose proof (list_prog_evals a b _ Hh Ho Hs) as E. cbv beta iota in E.
    destruct (evals_run_ret pre a _ _ E) as [tr Hr]. exists tr, merrf. exact Hr.
  Qed.

  Theorem list_unopenable a b :
    get a PHeader = Some (Good PlJson) -> head_opens a b = false ->
    exists tr, run pre (list_prog (Specified b) keep) a [] = (tr, a, Done lfail).
  Proof.
    intros Hh Ho. apply evals_run_ret.
    unfold list_prog. apply ev_read; [exact I|]. rewrite reply_read, Hh.
    unfold open_tree, resolve. apply ev_read; [exact I|]. rewrite (head_opens_status a b), Ho.
    apply ev_refl.
  Qed.
End ListRefines.

(* ------------------------------------------------------------------------- *)
(** * 3. The abstract view equals the listing view on well-formed states      *)
(* ------------------------------------------------------------------------- *)

(* index files lie in their directories, no path / directory is repeated *)
Definition WFidx (a : arch) : Prop :=
  NoDup (dirs a) /\ FilesND a
  /\ (forall n h, get a (PHunk n h) <> None -> has_dir a (DHunkSub n (h / HUNKS_PER_SUBDIR)) = true)
  /\ (forall n s, has_dir a (DHunkSub n s) = true -> has_dir a (DIndex n) = true)
  /\ WFbands a.

Lemma N_order : CmpOrder N.compare.
Proof.
  constructor.
  - intros x y. apply N.compare_eq_iff.
  - intros x y. apply N.compare_antisym.
  - intros x y z. rewrite !N.compare_lt_iff. lia.
Qed.

Lemma sorted_lt_ext (l1 : list N) : forall l2,
  StronglySorted N.lt l1 -> StronglySorted N.lt l2 -> (forall x, In x l1 <-> In x l2) -> l1 = l2.
Proof.
  induction l1 as [|x l1 IH]; intros l2 S1 S2 Hin.
  - destruct l2 as [|y l2]; [reflexivity|]. exfalso. apply (proj2 (Hin y)). left. reflexivity.
  - destruct l2 as [|y l2]; [exfalso; apply (proj1 (Hin x)); left; reflexivity|].
    inversion S1 as [|? ? S1' F1]; subst. inversion S2 as [|? ? S2' F2]; subst.
    rewrite Forall_forall in F1, F2.
    assert (x = y).
    { destruct (proj1 (Hin x) (or_introl eq_refl)) as [E|Hx]; [congruence|].
      destruct (proj2 (Hin y) (or_introl eq_refl)) as [E|Hy]; [congruence|].
      pose proof (F1 _ Hy). pose proof (F2 _ Hx). lia. }
    subst y. f_equal. apply IH; auto. intros z. split; intros Hz.
    + destruct (proj1 (Hin z) (or_intror Hz)) as [E|H]; [|exact H]. subst z. pose proof (F1 _ Hz). lia.
    + destruct (proj2 (Hin z) (or_intror Hz)) as [E|H]; [|exact H]. subst z. pose proof (F2 _ Hz). lia.
Qed.

Lemma isort_N_sorted_lt l : NoDup l -> StronglySorted N.lt (isort_by N.compare (fun x => x) l).
Proof.
  intros ND.
  assert (ND' : NoDup (isort_by N.compare (fun x => x) l)).
  { eapply Permutation_NoDup; [symmetry; apply isort_perm | exact ND]. }
  pose proof (isort_sorted N.compare (fun x : N => x) N_order l) as S.
  induction S as [|x l' S' IH F]; [constructor|].
  inversion ND' as [|? ? Hni ND'']; subst. constructor; [apply IH; exact ND''|].
  rewrite Forall_forall in *. intros y Hy. pose proof (F y Hy) as Hle.
  rewrite N.compare_gt_iff in Hle. assert (x <> y) by (intros ->; contradiction). lia.
Qed.

(* at most one output per element, outputs determine the key *)
Lemma NoDup_flat_map_single {A B K} (key : A -> K) (g : A -> list B) l :
  NoDup (map key l) ->
  (forall p, In p l -> (length (g p) <= 1)%nat) ->
  (forall p q h, In p l -> In q l -> In h (g p) -> In h (g q) -> key p = key q) ->
  NoDup (flat_map g l).
Proof.
  induction l as [|x l IH]; intros ND H1 Hinj; cbn [flat_map]; [constructor|].
  inversion ND as [|? ? Hni ND']; subst.
  assert (IH' : NoDup (flat_map g l)).
  { apply IH; auto. - intros p Hp. apply H1. right. exact Hp.
    - intros p q h Hp Hq. apply Hinj; right; assumption. }
  pose proof (H1 x (or_introl eq_refl)) as Hl.
  destruct (g x) as [|h [|h' t]] eqn:Eg; cbn [app]; [exact IH' | | cbn [length] in Hl; lia].
  constructor; [|exact IH']. intros Hh. apply in_flat_map in Hh. destruct Hh as [q [Hq Hhq]].
  apply Hni. rewrite (Hinj x q h); [apply in_map; exact Hq | left; reflexivity | right; exact Hq | rewrite Eg; left; reflexivity | exact Hhq].
Qed.

Section ViewEq.
  Variable pre : bytes -> N.
  Variable a : arch.
  Hypothesis WF : WFidx a.

  Let NDd : NoDup (dirs a) := proj1 WF.
  Let NDf : FilesND a := proj1 (proj2 WF).

  Definition hsel (n : N) (p : fpath * fcontent) : list N :=
    match fst p with PHunk b h => if N.eqb b n then [h] else [] | _ => [] end.

  Lemma hsel_In n p h : In h (hsel n p) <-> fst p = PHunk n h.
  Proof.
    unfold hsel. destruct (fst p) as [| |b|b|b h'|c]; try (split; [intros [] | discriminate]).
    destruct (N.eqb_spec b n) as [->|Hne].
    - split; [intros [->|[]]; reflexivity | intros E; inversion E; left; reflexivity].
    - split; [intros [] | intros E; inversion E; contradiction].
  Qed.

  Lemma hunk_files_In n h : In h (hunk_files a n) <-> In (PHunk n h) (map fst (files a)).
  Proof.
    unfold hunk_files. rewrite in_isort_N, in_flat_map. fold (hsel n). split.
    - intros [p [Hp Hh]]. apply hsel_In in Hh. rewrite <- Hh. apply in_map. exact Hp.
    - intros Hin. apply in_map_iff in Hin. destruct Hin as [p [E Hp]]. exists p. split; [exact Hp|].
      apply hsel_In. exact E.
  Qed.

  Lemma hunk_files_sorted n : StronglySorted N.lt (hunk_files a n).
  Proof.
    unfold hunk_files. apply isort_N_sorted_lt. fold (hsel n).
    apply (NoDup_flat_map_single fst (hsel n)); [exact NDf | |].
    - intros p _. unfold hsel. destruct (fst p); cbn; try lia. destruct (N.eqb _ _); cbn; lia.
    - intros p q h _ _ Hp Hq. apply hsel_In in Hp, Hq. congruence.
  Qed.

  Definition hnum (p : fpath * bool) : list N := match fst p with PHunk _ h => [h] | _ => [] end.

  Lemma sub_hunks_sorted n s : StronglySorted N.lt (hunk_numbers (children_files pre a (DHunkSub n s))).
  Proof.
    unfold hunk_numbers. apply isort_N_sorted_lt. fold hnum.
    apply (NoDup_flat_map_single fst hnum).
    - unfold children_files. rewrite map_map. cbn [fst].
      apply (filter_keys_nodup (fun f => dpath_eqb (parent_f pre f) (DHunkSub n s))). exact NDf.
    - intros p _. unfold hnum. destruct (fst p); cbn; lia.
    - intros p q h Hp Hq Hhp Hhq.
      assert (X : forall r, In r (children_files pre a (DHunkSub n s)) -> In h (hnum r) -> fst r = PHunk n h).
      { intros r Hr Hh. unfold children_files in Hr. apply in_map_iff in Hr. destruct Hr as [[g x] [E Hg]].
        apply filter_In in Hg. destruct Hg as [_ Hpar]. subst r. cbn [fst snd] in *.
        unfold hnum in Hh. cbn [fst] in Hh. destruct g as [| |b'|b'|b' h'|c]; try contradiction.
        destruct Hh as [->|[]]. cbn [parent_f] in Hpar.
        destruct (dpath_eqb_spec (DHunkSub b' (h / HUNKS_PER_SUBDIR)) (DHunkSub n s)) as [E|]; [|discriminate].
        inversion E; subst. reflexivity. }
      rewrite (X p Hp Hhp), (X q Hq Hhq). reflexivity.
  Qed.

  Definition dnum (d : dpath) : list N := match d with DHunkSub _ s => [s] | _ => [] end.

  Lemma subdirs_sorted n : StronglySorted N.lt (subdir_numbers (children_dirs a (DIndex n))).
  Proof.
    unfold subdir_numbers. apply isort_N_sorted_lt. fold dnum.
    apply (NoDup_flat_map_single (fun d => d) dnum).
    - rewrite map_id. unfold children_dirs. apply NoDup_filter. exact NDd.
    - intros p _. destruct p; cbn; lia.
    - intros p q s Hp Hq Hsp Hsq.
      assert (X : forall r, In r (children_dirs a (DIndex n)) -> In s (dnum r) -> r = DHunkSub n s).
      { intros r Hr Hs. unfold children_dirs in Hr. apply filter_In in Hr. destruct Hr as [_ Hpar].
        destruct r as [| |b'|b'|b' s'|s']; try contradiction. destruct Hs as [->|[]].
        cbn [parent_d] in Hpar. destruct (dpath_eqb_spec (DIndex b') (DIndex n)) as [E|]; [|discriminate].
        inversion E; subst. reflexivity. }
      rewrite (X p Hp Hsp), (X q Hq Hsq). reflexivity.
  Qed.

  Lemma flat_map_sorted (F : N -> list N) subs :
    StronglySorted N.lt subs ->
    (forall s, StronglySorted N.lt (F s)) ->
    (forall s h, In h (F s) -> h / HUNKS_PER_SUBDIR = s) ->
    StronglySorted N.lt (flat_map F subs).
  Proof.
    intros S HF Hdiv. induction S as [|s subs S' IH Fs]; cbn [flat_map]; [constructor|].
    apply SS_app; [apply HF | exact IH|].
    intros x y Hx Hy. apply in_flat_map in Hy. destruct Hy as [s' [Hs' Hy]].
    rewrite Forall_forall in Fs. pose proof (Fs s' Hs') as Hlt.
    apply Hdiv in Hx, Hy. subst s s'.
    destruct (N.lt_ge_cases x y) as [H|H]; [exact H|].
    apply (N.div_le_mono _ _ HUNKS_PER_SUBDIR) in H; [lia | discriminate].
  Qed.

  Lemma listed_hunks_sorted n : StronglySorted N.lt (listed_hunks pre a n).
  Proof.
    unfold listed_hunks. destruct (has_dir a (DIndex n)); [|constructor].
    apply flat_map_sorted; [apply subdirs_sorted | intros s; apply sub_hunks_sorted|].
    intros s h Hh. apply (hunk_listed pre a n s h Hh).
  Qed.

  Lemma listed_hunks_In n h : In h (listed_hunks pre a n) <-> In (PHunk n h) (map fst (files a)).
  Proof.
    split.
    - unfold listed_hunks. destruct (has_dir a (DIndex n)); [|intros []].
      rewrite in_flat_map. intros [s [_ Hh]]. apply (hunk_listed pre a n s h Hh).
    - intros Hin. destruct WF as (W1 & W2 & W3 & W4 & W5).
      pose proof (W3 n h (In_keys_get a _ Hin)) as Hsub. pose proof (W4 _ _ Hsub) as Hidx.
      unfold listed_hunks. rewrite Hidx. apply in_flat_map. exists (h / HUNKS_PER_SUBDIR). split.
      + unfold subdir_numbers. rewrite in_isort_N, in_flat_map. exists (DHunkSub n (h / HUNKS_PER_SUBDIR)).
        split; [|left; reflexivity]. unfold children_dirs. apply filter_In. split; [apply has_dir_In; exact Hsub|].
        cbn [parent_d]. destruct (dpath_eqb_spec (DIndex n) (DIndex n)); congruence.
      + unfold hunk_numbers. rewrite in_isort_N, in_flat_map.
        apply in_map_iff in Hin. destruct Hin as [[g x] [E Hg]]. cbn [fst] in E. subst g.
        exists (PHunk n h, nonempty x). split; [|left; reflexivity].
        unfold children_files. apply in_map_iff. exists (PHunk n h, x). split; [reflexivity|].
        apply filter_In. split; [exact Hg|]. cbn [fst parent_f].
        destruct (dpath_eqb_spec (DHunkSub n (h / HUNKS_PER_SUBDIR)) (DHunkSub n (h / HUNKS_PER_SUBDIR))); congruence.
  Qed.

  Theorem listed_hunks_eq n : listed_hunks pre a n = hunk_files a n.
  Proof.
    apply sorted_lt_ext; [apply listed_hunks_sorted | apply hunk_files_sorted|].
    intros h. rewrite listed_hunks_In, hunk_files_In. reflexivity.
  Qed.

  (** on a well-formed state the reader sees exactly the abstract view *)
  Theorem lview_eq_view : forall n, lview pre a n = view a n.
  Proof. intros n. unfold lview, view, mk_view. rewrite listed_hunks_eq. reflexivity. Qed.
End ViewEq.

(* ------------------------------------------------------------------------- *)
(** * 4. Refinement stated on the abstract view                               *)
(* ------------------------------------------------------------------------- *)

Section StitchExt.
  Variable keep : entry -> bool.

  Lemma visit_band_ext (v1 v2 : sview) n last b1 b2 :
    v1 n = v2 n -> (forall l, b1 l = b2 l) -> pvisit_band keep v1 n last b1 = pvisit_band keep v2 n last b2.
  Proof.
    intros E Hb. unfold visit_band, read_band, band_opens, band_hunks, band_closed. rewrite E.
    destruct (match v2 n with Some b => b_opens b | None => false end);
      [destruct (pband_loop keep _ last last) as [out last']|];
      (destruct (match v2 n with Some b => b_closed b | None => false end); [reflexivity | rewrite Hb; reflexivity]).
  Qed.

  Lemma stitch_below_ext (v1 v2 : sview) n :
    (forall m, (m < n)%nat -> v1 m = v2 m) ->
    forall last, pstitch_below keep v1 n last = pstitch_below keep v2 n last.
  Proof.
    induction n as [|m IH]; intros Hv last; cbn [stitch_below]; [reflexivity|].
    assert (IH' : forall l, pstitch_below keep v1 m l = pstitch_below keep v2 m l)
      by (apply IH; intros k Hk; apply Hv; lia).
    unfold band_exists. rewrite (Hv m) by lia.
    destruct (match v2 m with Some b => b_head b | None => false end); [|apply IH'].
    apply visit_band_ext; [apply Hv; lia | exact IH'].
  Qed.

  (* the stitch from band [n] depends on the bands up to [n] only *)
  Lemma stitch_from_ext (v1 v2 : sview) n last :
    (forall m, (m <= n)%nat -> v1 m = v2 m) ->
    pstitch_from keep v1 n last = pstitch_from keep v2 n last.
  Proof.
    intros Hv. unfold stitch_from. apply visit_band_ext; [apply Hv; lia|].
    apply stitch_below_ext. intros m Hm. apply Hv. lia.
  Qed.
End StitchExt.

Section ListRefinesView.
  Variable pre : bytes -> N.
  Variable keep : entry -> bool.

  Lemma WFidx_bands a : WFidx a -> WFbands a.
  Proof. intros WF. exact (proj2 (proj2 (proj2 (proj2 WF)))). Qed.

  Lemma stitch_lview_view a n : WFidx a -> pstitch_keep keep (lview pre a) n = pstitch_keep keep (view a) n.
  Proof.
    intros WF. unfold stitch_keep. apply stitch_from_ext. intros m _. apply lview_eq_view. exact WF.
  Qed.

  (** REFINEMENT.  On a well-formed state, without faults, listing band [b] (whose head
      opens) returns exactly the pure stitch of the abstract view of the state. *)
  Theorem list_refines a b :
    get a PHeader = Some (Good PlJson) -> WFidx a -> head_opens a b = true ->
    exists tr merr,
      run pre (list_prog (Specified b) keep) a []
      = (tr, a, Done {| l_ok := true; l_entries := pstitch_keep keep (view a) (N.to_nat b); l_merr := merr |}).
  Proof.
    intros Hh WF Ho.
    destruct (list_refines_lview pre keep a b Hh (WFidx_bands a WF) Ho) as [tr [merr H]].
    exists tr, merr. rewrite H, stitch_lview_view by exact WF. reflexivity.
  Qed.

  (* the entries of band [b] as far as they can be read, in hunk order *)
  Definition band_entries (a : arch) (b : N) : list entry :=
    hunks_entries entry (map (hunk_content a b) (hunk_files a b)).

  Lemma complete_has_dir a b : WFbands a -> head_opens a b = true -> has_dir a (DBand b) = true.
  Proof.
    intros WB Ho. apply (proj1 (WB b)). unfold head_opens in Ho.
    destruct (get a (PHead b)); [discriminate | discriminate].
  Qed.

  Lemma stitch_view_complete a b :
    WFbands a -> complete a b -> pstitch_keep keep (view a) (N.to_nat b) = filter keep (band_entries a b).
  Proof.
    intros WB [Ho Hc]. pose proof (complete_has_dir a b WB Ho) as Hd.
    rewrite (stitch_complete_band_keep str apath_cmp entry e_apath).
    - unfold entries, band_opens, band_hunks, view, mk_view. rewrite N2Nat.id, Hd. cbn [b_opens b_hunks].
      rewrite Ho. reflexivity.
    - unfold band_opens, view, mk_view. rewrite N2Nat.id, Hd. exact Ho.
    - unfold band_closed, view, mk_view. rewrite N2Nat.id, Hd. exact Hc.
  Qed.

  (* a complete band is listed as its own index, in hunk order, whatever else is there *)
  Theorem list_complete_band a b :
    get a PHeader = Some (Good PlJson) -> WFidx a -> complete a b ->
    exists tr merr,
      run pre (list_prog (Specified b) keep) a []
      = (tr, a, Done {| l_ok := true; l_entries := filter keep (band_entries a b); l_merr := merr |}).
  Proof.
    intros Hh WF Hc.
    destruct (list_refines_lview_closed pre keep a b Hh (WFidx_bands a WF) Hc) as [tr [merr H]].
    exists tr, merr. rewrite H, stitch_lview_view by exact WF.
    rewrite stitch_view_complete by (try apply WFidx_bands; assumption). reflexivity.
  Qed.
End ListRefinesView.

(* ------------------------------------------------------------------------- *)
(** * 5. Frame: a backup touches nothing at or below an existing band         *)
(* ------------------------------------------------------------------------- *)

(* the archive header and the files / directories of the bands up to [b] *)
Definition low_file (b : N) (f : fpath) : bool :=
  match f with
  | PHeader => true
  | PHead n | PTail n | PHunk n _ => n <=? b
  | PLock | PBlock _ => false
  end.
Definition low_dir (b : N) (d : dpath) : bool :=
  match d with
  | DRoot | DBlocks => true
  | DBand n | DIndex n | DHunkSub n _ => n <=? b
  | DBlockSub _ => false
  end.
Definition band_dir (b : N) (d : dpath) : bool :=
  match d with DBand n | DIndex n | DHunkSub n _ => n <=? b | _ => false end.

(* the low part of [a] is literally that of [a0] *)
Definition Frame (b : N) (a0 a : arch) : Prop :=
  filter (fun p => low_file b (fst p)) (files a) = filter (fun p => low_file b (fst p)) (files a0)
  /\ filter (low_dir b) (dirs a) = filter (low_dir b) (dirs a0).

Lemma Frame_refl b a : Frame b a a.
Proof. split; reflexivity. Qed.

(* the files of band [b] are the same in both states (the hypothesis of the frame lemma) *)
Definition band_file (b : N) (f : fpath) : Prop :=
  match f with PHead n | PTail n | PHunk n _ => n = b | _ => False end.
Definition SameBand (a a' : arch) (b : N) : Prop := forall f, band_file b f -> get a' f = get a f.

Lemma lookup_filter (g : fpath -> bool) f l :
  lookup f (filter (fun p => g (fst p)) l) = if g f then lookup f l else None.
Proof.
  induction l as [|[h c] l IH]; cbn [filter lookup fst]; [destruct (g f); reflexivity|].
  destruct (g h) eqn:Gh; cbn [lookup].
  - destruct (fpath_eqb_spec f h) as [->|]; [rewrite Gh; reflexivity | exact IH].
  - rewrite IH. destruct (fpath_eqb_spec f h) as [->|]; [rewrite Gh; reflexivity | reflexivity].
Qed.

Lemma filter_filter_sub {A} (p q : A -> bool) l :
  (forall x, p x = true -> q x = true) -> filter p (filter q l) = filter p l.
Proof.
  intros H. induction l as [|x l IH]; cbn [filter]; [reflexivity|].
  destruct (q x) eqn:Q; cbn [filter]; [rewrite IH; reflexivity|].
  destruct (p x) eqn:P; [rewrite (H x P) in Q; discriminate | exact IH].
Qed.

Lemma existsb_filter_sub {A} (p q : A -> bool) l :
  (forall x, p x = true -> q x = true) -> existsb p (filter q l) = existsb p l.
Proof.
  intros H. induction l as [|x l IH]; cbn [filter existsb]; [reflexivity|].
  destruct (q x) eqn:Q; cbn [existsb]; [rewrite IH; reflexivity|].
  destruct (p x) eqn:P; [rewrite (H x P) in Q; discriminate | exact IH].
Qed.

Lemma flat_map_filter_sub {A B} (g : A -> list B) (q : A -> bool) l :
  (forall x, q x = false -> g x = []) -> flat_map g (filter q l) = flat_map g l.
Proof.
  intros H. induction l as [|x l IH]; cbn [filter flat_map]; [reflexivity|].
  destruct (q x) eqn:Q; cbn [flat_map]; [rewrite IH; reflexivity | rewrite (H x Q), IH; reflexivity].
Qed.

Section FrameFacts.
  Variable pre : bytes -> N.
  Variables (b : N) (a0 a : arch).
  Hypothesis FR : Frame b a0 a.

  Lemma frame_get f : low_file b f = true -> get a f = get a0 f.
  Proof.
    intros Hf. unfold get.
    pose proof (lookup_filter (low_file b) f (files a)) as E1.
    pose proof (lookup_filter (low_file b) f (files a0)) as E2.
    rewrite Hf in E1, E2. rewrite <- E1, <- E2, (proj1 FR). reflexivity.
  Qed.

  Lemma frame_has_dir d : low_dir b d = true -> has_dir a d = has_dir a0 d.
  Proof.
    intros Hd. unfold has_dir.
    rewrite <- (existsb_filter_sub (dpath_eqb d) (low_dir b) (dirs a)),
            <- (existsb_filter_sub (dpath_eqb d) (low_dir b) (dirs a0)), (proj2 FR); [reflexivity| |];
      intros x E; destruct (dpath_eqb_spec d x); [subst; exact Hd | discriminate | subst; exact Hd | discriminate].
  Qed.

  Lemma band_dir_low d : band_dir b d = true -> low_dir b d = true.
  Proof. destruct d; cbn; auto; discriminate. Qed.

  Lemma frame_children_dirs d : band_dir b d = true -> children_dirs a d = children_dirs a0 d.
  Proof.
    intros Hd. unfold children_dirs.
    set (p := fun x => match parent_d x with Some q => dpath_eqb q d | None => false end).
    rewrite <- (filter_filter_sub p (low_dir b) (dirs a)), <- (filter_filter_sub p (low_dir b) (dirs a0)), (proj2 FR);
      [reflexivity| |];
      (intros x; unfold p; destruct x as [| |n|n|n s|s]; cbn [parent_d]; try discriminate;
       intros E; match type of E with dpath_eqb ?q d = true => destruct (dpath_eqb_spec q d) as [<-|] end;
       try discriminate; try exact Hd; discriminate Hd).
  Qed.

  Lemma frame_children_files d : band_dir b d = true -> children_files pre a d = children_files pre a0 d.
  Proof.
    intros Hd. unfold children_files. f_equal.
    set (p := fun x : fpath * fcontent => dpath_eqb (parent_f pre (fst x)) d).
    rewrite <- (filter_filter_sub p (fun x => low_file b (fst x)) (files a)),
            <- (filter_filter_sub p (fun x => low_file b (fst x)) (files a0)), (proj1 FR);
      [reflexivity| |];
      (intros [f c]; unfold p; cbn [fst]; destruct f as [| |n|n|n h|c']; cbn [parent_f];
       intros E; match type of E with dpath_eqb ?q d = true => destruct (dpath_eqb_spec q d) as [<-|] end;
       try discriminate; try exact Hd; discriminate Hd).
  Qed.

  Lemma frame_same_band n : n <= b -> SameBand a0 a n.
  Proof.
    intros Hn f Hf. apply frame_get. destruct f; cbn in Hf |- *; try contradiction; subst; apply N.leb_le; exact Hn.
  Qed.
End FrameFacts.

(* reading operations on the header and on the bands up to [b] *)
Definition low_op (b : N) (o : op) : Prop :=
  match o with
  | OpRead f | OpMeta f => low_file b f = true
  | OpList d => band_dir b d = true
  | _ => False
  end.

Lemma low_reads b o : low_op b o -> reads_only o.
Proof. destruct o; cbn; auto. Qed.

Section LowSim.
  Variable pre : bytes -> N.
  Variables (b : N) (a0 a : arch).
  Hypothesis FR : Frame b a0 a.

  (* a low operation is answered identically in both states, under every fault *)
  Lemma low_reply o flt : low_op b o -> snd (exec pre a o flt) = snd (exec pre a0 o flt).
  Proof.
    intros Ho. destruct flt; cbn [exec]; try reflexivity;
      (destruct o as [f|f p m|d|d|f|f|d]; cbn in Ho; try contradiction; cbn [exec_ok];
       [ rewrite (frame_get b a0 a FR f Ho); destruct (get a0 f); reflexivity
       | rewrite (frame_has_dir b a0 a FR d (band_dir_low b d Ho)), (frame_children_dirs b a0 a FR d Ho),
                 (frame_children_files pre b a0 a FR d Ho); destruct (has_dir a0 d); reflexivity
       | rewrite (frame_get b a0 a FR f Ho); destruct (get a0 f); reflexivity ]).
  Qed.

  (* hence a program that emits only low operations runs identically, under EVERY fault
     list: same trace, same outcome *)
  Lemma low_run {R} (p : prog R) :
    emits_only (low_op b) p ->
    forall psi, fst (fst (run pre p a psi)) = fst (fst (run pre p a0 psi))
                /\ snd (run pre p a psi) = snd (run pre p a0 psi).
  Proof.
    intros H. induction H as [r| |o k Ho _ IH]; intros psi; try (cbn; split; reflexivity).
    pose proof (low_reads b o Ho) as Hr.
    rewrite !run_Do. destruct (hdf psi) as [|e| |] eqn:Ef; cbn [fst snd]; try (split; reflexivity).
    - rewrite !(exec_read_same pre _ o NoFault Hr), (low_reply o NoFault Ho).
      destruct (IH (snd (exec pre a0 o NoFault)) (tl psi)) as [H1 H2]. rewrite H1, H2. split; reflexivity.
    - rewrite !(exec_read_same pre _ o (Fail e) Hr), (low_reply o (Fail e) Ho).
      destruct (IH (snd (exec pre a0 o (Fail e))) (tl psi)) as [H1 H2]. rewrite H1, H2. split; reflexivity.
  Qed.
End LowSim.

(* ---- the stitched reader started at band [n <= b] emits low operations only ---- *)
Section LowStitch.
  Variable b : N.
  Variables keep skip : entry -> bool.
  Notation P := (low_op b).

  Lemma list_subdirs_low n subs : forall acc kfail k,
    n <= b -> emits_only P kfail -> (forall hs, emits_only P (k hs)) -> emits_only P (list_subdirs n subs acc kfail k).
  Proof.
    induction subs as [|s subs IH]; intros acc kfail k Hn Hf Hk; cbn [list_subdirs]; auto.
    apply eo_do; [cbn; apply N.leb_le; exact Hn|]. intros rep. destruct rep; auto.
  Qed.

  Lemma hunks_loop_low n hs : forall after last acc merr k,
    N.of_nat n <= b -> (forall l x m, emits_only P (k l x m)) ->
    emits_only P (hunks_loop keep skip n hs after last acc merr k).
  Proof.
    induction hs as [|h hs IH]; intros after last acc merr k Hn Hk; cbn [hunks_loop]; auto.
    apply eo_do; [cbn; apply N.leb_le; exact Hn|]. intros rep.
    repeat eo_step; auto.
  Qed.

  Lemma open_band_low n last acc merr k :
    N.of_nat n <= b -> (forall l x m, emits_only P (k l x m)) ->
    emits_only P (open_band keep skip n last acc merr k).
  Proof.
    intros Hn Hk. assert (Hb : (N.of_nat n <=? b) = true) by (apply N.leb_le; exact Hn).
    unfold open_band. apply eo_do; [exact Hb|]. intros r.
    destruct (head_status r); [|apply Hk|constructor].
    apply eo_do; [exact Hb|]. intros r2. destruct r2; try apply Hk.
    apply list_subdirs_low; [exact Hn | apply Hk|]. intros hs.
    apply eo_do; [exact Hb|]. intros r3. apply hunks_loop_low; assumption.
  Qed.

  Lemma after_band_low n blw last acc merr :
    N.of_nat n <= b -> (forall l x m, emits_only P (blw l x m)) ->
    emits_only P (after_band n blw last acc merr).
  Proof.
    intros Hn Hb. unfold after_band. apply eo_do; [cbn; apply N.leb_le; exact Hn|].
    intros r. destruct (meta_is_closed r); [constructor | apply Hb].
  Qed.

  Lemma below_low n : N.of_nat n <= b + 1 -> forall last acc merr, emits_only P (below keep skip n last acc merr).
  Proof.
    induction n as [|m IH]; intros Hn last acc merr; cbn [below]; [constructor|].
    assert (Hm : N.of_nat m <= b) by lia.
    apply eo_do; [cbn; apply N.leb_le; exact Hm|]. intros r.
    destruct (meta_is_file r); [|apply IH; lia].
    apply open_band_low; [exact Hm|]. intros l x m'. apply after_band_low; [exact Hm|]. apply IH. lia.
  Qed.

  Lemma snext_low n last merr :
    N.of_nat n <= b -> emits_only P (snext keep skip (SBefore n) last merr).
  Proof.
    intros Hn. unfold snext. apply open_band_low; [exact Hn|]. intros l x m.
    apply after_band_low; [exact Hn|]. apply below_low. lia.
  Qed.
End LowStitch.

Theorem list_specified_low b keep : emits_only (low_op b) (list_prog (Specified b) keep).
Proof.
  unfold list_prog. apply eo_do; [reflexivity|]. intros r0.
  destruct r0 as [| |[[| | | |]| |]| |]; try apply eo_ret.
  unfold open_tree, resolve. apply eo_do; [cbn; apply N.leb_refl|]. intros r.
  destruct (head_status r); [|apply eo_ret|apply eo_panic].
  apply eo_bind; [apply snext_low; rewrite N2Nat.id; lia|].
  intros [[[[es o] st] last] merr]. constructor.
Qed.

(* ---- a generic invariant rule for [Inv.safe] ---- *)
Section GSafe.
  Variable pre : bytes -> N.
  Variable J : arch -> Prop.
  Notation gsafe := (Inv.safe pre J).

  Lemma gsafe_sound {R} (Q : R -> arch -> Prop) (p : prog R) :
    forall a phi, J a -> gsafe Q p a ->
      Forall J (run_states pre p a phi) /\ J (snd (fst (run pre p a phi))).
  Proof.
    induction p as [r|o k IH|]; intros a phi Ha H; try (cbn; split; [constructor | exact Ha]).
    cbn [Inv.safe] in H. destruct H as [H1 H2].
    rewrite run_Do, run_states_Do.
    destruct (hdf phi) as [|e| |]; cbn [fst snd].
    - destruct (H1 NoFault) as [Hi Hs]. destruct (IH _ _ (tl phi) Hi Hs) as [F1 F2]. split; [constructor|]; assumption.
    - destruct (H1 (Fail e)) as [Hi Hs]. destruct (IH _ _ (tl phi) Hi Hs) as [F1 F2]. split; [constructor|]; assumption.
    - split; [constructor | exact Ha].
    - split; [constructor; [exact H2 | constructor] | exact H2].
  Qed.

  Lemma gsafe_eo {R} (P : op -> Prop) (p : prog R) :
    (forall a o f, P o -> J a -> J (fst (exec pre a o f))) ->
    (forall a o, P o -> J a -> J (exec_empty pre a o)) ->
    emits_only P p -> forall a, J a -> gsafe (fun _ _ => True) p a.
  Proof.
    intros Hex Hem H. induction H as [r| |o k Ho _ IH]; intros a Ha; cbn [Inv.safe]; [exact I | exact I|].
    split; [|apply Hem; assumption]. intros f. split; [apply Hex; assumption|].
    apply IH. apply Hex; assumption.
  Qed.

  Lemma gsafe_read {R} (Q : R -> arch -> Prop) o (k : reply -> prog R) a :
    reads_only o -> J a -> (forall flt, gsafe Q (k (snd (exec pre a o flt))) a) -> gsafe Q (Do o k) a.
  Proof.
    intros Ho Ha Hk. cbn [Inv.safe]. split.
    - intros f. rewrite (exec_read_same pre a o f Ho). split; [exact Ha | apply Hk].
    - rewrite (exec_empty_read_same pre a o Ho). exact Ha.
  Qed.
End GSafe.

(* ---- what a backup whose new band is above [b] does ---- *)
Definition high_op (b : N) (o : op) : Prop :=
  match o with
  | OpRead _ | OpList _ | OpMeta _ => True
  | OpMkdir d => match d with DBand n | DIndex n | DHunkSub n _ => b < n | DBlockSub _ => True | _ => False end
  | OpWrite f _ _ => match f with PHead n | PTail n | PHunk n _ => b < n | PBlock _ | PLock => True | PHeader => False end
  | _ => False
  end.

Lemma body_high b id o : b < id -> body_op id o -> high_op b o.
Proof.
  intros Hid. destruct o as [f|f p m|d|d|f|f|d]; cbn; auto.
  - destruct f, p, m; auto; intros H; try contradiction; subst; auto.
  - destruct d; auto; intros H; try contradiction; subst; auto.
Qed.

Section FrameKept.
  Variable pre : bytes -> N.
  Variables (b : N) (a0 : arch).

  Lemma filter_set_file_high f c l :
    low_file b f = false ->
    filter (fun p => low_file b (fst p)) (set_file f c l) = filter (fun p => low_file b (fst p)) l.
  Proof.
    intros Hf. induction l as [|[g d] l IH]; cbn [set_file filter fst]; [rewrite Hf; reflexivity|].
    destruct (fpath_eqb_spec f g) as [<-|]; cbn [filter fst]; [rewrite Hf; reflexivity|].
    rewrite IH. reflexivity.
  Qed.

  Lemma high_write_low f p m : high_op b (OpWrite f p m) -> low_file b f = false.
  Proof. destruct f; cbn; try reflexivity; try contradiction; intros H; apply N.leb_gt; exact H. Qed.
  Lemma high_mkdir_low d : high_op b (OpMkdir d) -> low_dir b d = false.
  Proof. destruct d; cbn; try reflexivity; try contradiction; intros H; apply N.leb_gt; exact H. Qed.

  Lemma Frame_set_file a f c :
    low_file b f = false -> Frame b a0 a -> Frame b a0 {| dirs := dirs a; files := set_file f c (files a) |}.
  Proof. intros Hf [F1 F2]. split; cbn [files dirs]; [rewrite filter_set_file_high; assumption | exact F2]. Qed.

  Lemma Frame_add_dir a d :
    low_dir b d = false -> Frame b a0 a -> Frame b a0 {| dirs := dirs a ++ [d]; files := files a |}.
  Proof.
    intros Hd [F1 F2]. split; cbn [files dirs]; [exact F1|].
    rewrite filter_app. cbn [filter]. rewrite Hd, app_nil_r. exact F2.
  Qed.

  Lemma exec_high_frame a o flt : high_op b o -> Frame b a0 a -> Frame b a0 (fst (exec pre a o flt)).
  Proof.
    intros Ho FR.
    assert (Hok : Frame b a0 (fst (exec_ok pre a o))).
    { destruct o as [f|f p m|d|d|f|f|d]; cbn in Ho; try contradiction; cbn [exec_ok].
      - destruct (get a f); exact FR.
      - pose proof (high_write_low f p m Ho) as Hf.
        destruct (has_dir a (parent_f pre f)); [|exact FR].
        destruct (get a f) as [[q| |]|]; destruct m; cbn [fst]; auto using Frame_set_file.
      - destruct (has_dir a d); exact FR.
      - pose proof (high_mkdir_low d Ho) as Hd.
        destruct (has_dir a d); [exact FR|].
        destruct (parent_d d) as [q|]; [destruct (has_dir a q)|]; cbn [fst]; auto using Frame_add_dir.
      - destruct (get a f); exact FR. }
    destruct flt; cbn [exec fst]; auto.
  Qed.

  Lemma exec_empty_high_frame a o : high_op b o -> Frame b a0 a -> Frame b a0 (exec_empty pre a o).
  Proof.
    intros Ho FR. destruct o as [f|f p m|d|d|f|f|d]; cbn [exec_empty]; auto.
    pose proof (high_write_low f p m Ho) as Hf.
    destruct (has_dir a (parent_f pre f)); [|exact FR].
    destruct (get a f); [exact FR|]. apply Frame_set_file; assumption.
  Qed.

  Hypothesis Hb : has_dir a0 (DBand b) = true.

  Lemma frame_band_dir a : Frame b a0 a -> has_dir a (DBand b) = true.
  Proof. intros FR. rewrite (frame_has_dir b a0 a FR); [exact Hb|]. cbn. apply N.leb_refl. Qed.

  (* the backup, from any state whose low part is that of [a0] *)
  Lemma backup_frame_safe c src a :
    Frame b a0 a -> Inv.safe pre (Frame b a0) (fun _ _ => True) (backup_prog pre c src) a.
  Proof.
    intros FR. unfold backup_prog, open_archive.
    apply gsafe_read; [exact I | exact FR|]. intros f0.
    destruct (snd (exec pre a (OpRead PHeader) f0)) as [| |[[| | | |]| |]| |]; try exact I.
    apply gsafe_read; [exact I | exact FR|]. intros f1.
    destruct (snd (exec pre a (OpMeta PLock) f1)) as [|[| | |]| | |]; try exact I.
    apply gsafe_read; [exact I | exact FR|]. intros f2.
    destruct (snd (exec pre a (OpList DRoot) f2)) as [| | |ds1 fs1|]; try exact I.
    apply gsafe_read; [exact I | exact FR|]. intros f3.
    destruct (snd (exec pre a (OpList DRoot) f3)) as [| | |ds2 fs2|] eqn:E3; try exact I.
    cbv zeta.
    set (id := match max_id (band_ids ds2) with Some m => m + 1 | None => 0 end).
    assert (Hid : b < id).
    { apply next_id_fresh. eapply (list_root_complete pre a f3); [exact E3 | apply frame_band_dir; exact FR]. }
    apply (gsafe_eo pre (Frame b a0) (high_op b)).
    - intros x o f Ho Hx. apply exec_high_frame; assumption.
    - intros x o Ho Hx. apply exec_empty_high_frame; assumption.
    - apply (eo_mono (fun o => high_op b o)); [auto|].
      apply eo_do; [exact Hid|]. intros r3. destruct (is_ok r3); [|constructor].
      apply eo_do; [exact Hid|]. intros r4. destruct (is_ok r4); [|constructor].
      apply eo_do; [exact Hid|]. intros r5. destruct (is_ok r5); [|constructor].
      apply (eo_mono (body_op id)); [intros o; apply body_high; exact Hid|].
      repeat eo_step. apply list_blocks_eo; [apply reads_body|].
      intros [ex|]; [|constructor]. apply merge_loop_eo. reflexivity.
    - exact FR.
  Qed.

  (** FRAME.  Whatever the source, the configuration and the faults (failures, a crash
      anywhere, a crash leaving a zero-length file), every state a backup passes through,
      and the state it ends in, has literally the same header, the same files and the same
      directories in every band up to [b] as the initial state, for every band [b] whose
      directory exists initially. *)
  Theorem backup_frame : forall c src phi,
    Forall (Frame b a0) (run_states pre (backup_prog pre c src) a0 phi)
    /\ Frame b a0 (snd (fst (run pre (backup_prog pre c src) a0 phi))).
  Proof.
    intros c src phi.
    apply (gsafe_sound pre (Frame b a0) (fun _ _ => True)); [apply Frame_refl|].
    apply backup_frame_safe. apply Frame_refl.
  Qed.

  Theorem backup_same_band : forall c src phi,
    Forall (fun a => SameBand a0 a b) (run_states pre (backup_prog pre c src) a0 phi)
    /\ SameBand a0 (snd (fst (run pre (backup_prog pre c src) a0 phi))) b.
  Proof.
    intros c src phi. destruct (backup_frame c src phi) as [H1 H2]. split.
    - eapply Forall_impl; [|exact H1]. intros a FR. apply (frame_same_band b a0 a FR). lia.
    - apply (frame_same_band b a0 _ H2). lia.
  Qed.
End FrameKept.

(* ------------------------------------------------------------------------- *)
(** * 6. Stability of listing and restore across a later backup               *)
(* ------------------------------------------------------------------------- *)

(* the frame lemma on views: the bands up to [b] look the same *)
Section ViewFrame.
  Variable pre : bytes -> N.
  Variables (b : N) (a0 a : arch).
  Hypothesis FR : Frame b a0 a.

  Lemma frame_hunk_files n : n <= b -> hunk_files a n = hunk_files a0 n.
  Proof.
    intros Hn. unfold hunk_files. f_equal. fold (hsel n).
    rewrite <- (flat_map_filter_sub (hsel n) (fun p => low_file b (fst p)) (files a)),
            <- (flat_map_filter_sub (hsel n) (fun p => low_file b (fst p)) (files a0)), (proj1 FR); [reflexivity| |];
      (intros [f c]; unfold hsel; cbn [fst]; destruct f as [| |m|m|m h|c']; try reflexivity;
       cbn [low_file]; intros Hm; destruct (N.eqb_spec m n) as [->|]; [|reflexivity];
       apply N.leb_gt in Hm; lia).
  Qed.

  Theorem frame_view n : N.of_nat n <= b -> view a n = view a0 n.
  Proof.
    intros Hn. assert (Hl : (N.of_nat n <=? b) = true) by (apply N.leb_le; exact Hn).
    unfold view, mk_view. rewrite (frame_has_dir b a0 a FR (DBand (N.of_nat n)) Hl).
    destruct (has_dir a0 (DBand (N.of_nat n))); [|reflexivity].
    unfold head_present, head_opens, tail_closed.
    rewrite (frame_get b a0 a FR (PHead (N.of_nat n)) Hl), (frame_get b a0 a FR (PTail (N.of_nat n)) Hl),
            (frame_hunk_files _ Hn).
    do 2 f_equal. apply map_ext. intros h. unfold hunk_content.
    rewrite (frame_get b a0 a FR (PHunk (N.of_nat n) h) Hl). reflexivity.
  Qed.

  Theorem frame_stitch keep n : N.of_nat n <= b -> pstitch_keep keep (view a) n = pstitch_keep keep (view a0) n.
  Proof.
    intros Hn. unfold stitch_keep. apply stitch_from_ext. intros m Hm. apply frame_view. lia.
  Qed.
End ViewFrame.

(* the frame lemma from its pointwise hypotheses (task statement): [Old] and [SameBand] *)
Section ViewFrameSameBand.
  Variables (a a' : arch) (b : N).
  Hypothesis ND : FilesND a.
  Hypothesis ND' : FilesND a'.
  Hypothesis HO : Old a a'.
  Hypothesis SB : SameBand a a' b.
  Hypothesis Hd : has_dir a (DBand b) = true.

  Lemma keys_get_iff (x : arch) f : In f (map fst (files x)) <-> get x f <> None.
  Proof.
    split; [apply In_keys_get|]. intros H. unfold get in H.
    destruct (lookup f (files x)) as [c|] eqn:E; [|contradiction].
    destruct (lookup_Some_In _ _ _ E) as [g [Hin [-> _]]]. apply in_map_iff. exists (g, c). auto.
  Qed.

  Lemma hunk_files_sorted_nd (x : arch) n : FilesND x -> StronglySorted N.lt (hunk_files x n).
  Proof.
    intros NDx. unfold hunk_files. apply isort_N_sorted_lt. fold (hsel n).
    apply (NoDup_flat_map_single fst (hsel n)); [exact NDx | |].
    - intros p _. unfold hsel. destruct (fst p); cbn; try lia. destruct (N.eqb _ _); cbn; lia.
    - intros p q h _ _ Hp Hq. apply hsel_In in Hp, Hq. congruence.
  Qed.

  Lemma hunk_files_In_nd (x : arch) n h : In h (hunk_files x n) <-> In (PHunk n h) (map fst (files x)).
  Proof.
    unfold hunk_files. rewrite in_isort_N, in_flat_map. fold (hsel n). split.
    - intros [p [Hp Hh]]. apply hsel_In in Hh. rewrite <- Hh. apply in_map. exact Hp.
    - intros Hin. apply in_map_iff in Hin. destruct Hin as [p [E Hp]]. exists p. split; [exact Hp|].
      apply hsel_In. exact E.
  Qed.

  (** FRAME (pointwise form).  If nothing that existed was changed ([Old]) and the files of
      band [b] are the same, the two states have the same view of band [b]. *)
  Theorem view_frame : view a' (N.to_nat b) = view a (N.to_nat b).
  Proof.
    unfold view, mk_view. rewrite N2Nat.id, Hd.
    rewrite (proj1 HO (DBand b)) by (apply has_dir_In; exact Hd).
    unfold head_present, head_opens, tail_closed.
    rewrite (SB (PHead b) eq_refl), (SB (PTail b) eq_refl).
    assert (E : hunk_files a' b = hunk_files a b).
    { apply sorted_lt_ext; [apply hunk_files_sorted_nd; exact ND' | apply hunk_files_sorted_nd; exact ND|].
      intros h. rewrite !hunk_files_In_nd, !keys_get_iff, (SB (PHunk b h) eq_refl). reflexivity. }
    rewrite E. do 2 f_equal. apply map_ext. intros h. unfold hunk_content.
    rewrite (SB (PHunk b h) eq_refl). reflexivity.
  Qed.
End ViewFrameSameBand.

Section Stable.
  Variable pre : bytes -> N.
  Variables (c : cfg) (src : list sitem).
  Variable keep : entry -> bool.

  (* every state of a backup run: the intermediate ones, what a crash leaves, the last *)
  Definition backup_states (a0 : arch) (phi : list fault) : list arch :=
    run_states pre (backup_prog pre c src) a0 phi ++ [snd (fst (run pre (backup_prog pre c src) a0 phi))].

  Lemma backup_states_frame a0 b phi a :
    has_dir a0 (DBand b) = true -> In a (backup_states a0 phi) -> Frame b a0 a.
  Proof.
    intros Hb Hin. destruct (backup_frame pre b a0 Hb c src phi) as [H1 H2].
    apply in_app_or in Hin. destruct Hin as [Hin|[<-|[]]]; [|exact H2].
    rewrite Forall_forall in H1. apply H1. exact Hin.
  Qed.

  Lemma backup_states_old a0 phi a : In a (backup_states a0 phi) -> Old a0 a.
  Proof.
    intros Hin. destruct (backup_write_once pre c src a0 phi) as [H1 H2].
    apply in_app_or in Hin. destruct Hin as [Hin|[<-|[]]]; [|exact H2].
    rewrite Forall_forall in H1. apply H1. exact Hin.
  Qed.

  Lemma backup_states_ainv a0 phi a : AInv a0 -> In a (backup_states a0 phi) -> AInv a.
  Proof.
    intros HI Hin. destruct (backup_ainv pre c src a0 phi HI) as [H1 H2].
    apply in_app_or in Hin. destruct Hin as [Hin|[<-|[]]]; [|exact H2].
    rewrite Forall_forall in H1. apply H1. exact Hin.
  Qed.

  (** LISTING IS STABLE.  For every band [b] that exists when a backup starts, at every state
      of the backup (any source, any faults, any crash point) listing [b] performs the same
      operations with the same replies and returns the same result as in the initial state
      -- also when the listing itself meets storage failures [psi]. *)
  Theorem listing_stable a0 b :
    has_dir a0 (DBand b) = true ->
    forall phi a, In a (backup_states a0 phi) ->
    forall psi,
      fst (fst (run pre (list_prog (Specified b) keep) a psi)) = fst (fst (run pre (list_prog (Specified b) keep) a0 psi))
      /\ snd (run pre (list_prog (Specified b) keep) a psi) = snd (run pre (list_prog (Specified b) keep) a0 psi).
  Proof.
    intros Hb phi a Hin psi.
    apply (low_run pre b a0 a (backup_states_frame a0 b phi a Hb Hin)). apply list_specified_low.
  Qed.

  (** C02/C03, listing side, as specified: a complete band of a well-formed archive is listed
      after (and during) any later backup exactly as before: its own index. *)
  Theorem complete_band_listing_stable a0 b :
    get a0 PHeader = Some (Good PlJson) -> WFidx a0 -> complete a0 b ->
    forall phi a, In a (backup_states a0 phi) ->
      snd (run pre (list_prog (Specified b) keep) a []) = snd (run pre (list_prog (Specified b) keep) a0 [])
      /\ exists merr, snd (run pre (list_prog (Specified b) keep) a [])
                      = Done {| l_ok := true; l_entries := filter keep (band_entries a0 b); l_merr := merr |}.
  Proof.
    intros Hh WF Hc phi a Hin.
    pose proof (complete_has_dir a0 b (WFidx_bands a0 WF) (proj1 Hc)) as Hb.
    destruct (listing_stable a0 b Hb phi a Hin []) as [_ E]. split; [exact E|].
    destruct (list_complete_band pre keep a0 b Hh WF Hc) as [tr [merr H]].
    exists merr. rewrite E, H. reflexivity.
  Qed.
End Stable.

(* ---- restore ---- *)
Section RestoreChar.
  Variable pre : bytes -> N.
  Variable keep : entry -> bool.

  Lemma run_bind_nil {A B} (p : prog A) (f : A -> prog B) : forall a,
    run pre (bind p f) a []
    = match run pre p a [] with
      | (tr, a', Done r) => (tr ++ fst (fst (run pre (f r) a' [])), snd (fst (run pre (f r) a' [])), snd (run pre (f r) a' []))
      | (tr, a', Crashed) => (tr, a', Crashed)
      | (tr, a', Panicked) => (tr, a', Panicked)
      end.
  Proof.
    induction p as [r|o k IH|]; intros a; cbn [bind].
    - cbn [run app]. apply triple_eta.
    - rewrite !run_Do. cbn [hdf tl]. rewrite IH.
      destruct (run pre (k (snd (exec pre a o NoFault))) (fst (exec pre a o NoFault)) []) as [[tr a'] [r| |]];
        reflexivity.
    - reflexivity.
  Qed.

  Lemma list_blocks_r_evals a subs : forall ok k,
    (forall s, In s subs -> has_dir a (DBlockSub s) = true) ->
    evals pre a (list_blocks_r subs ok k) (k ok).
  Proof.
    induction subs as [|s subs IH]; intros ok k Hs; cbn [list_blocks_r]; [apply ev_refl|].
    apply ev_read; [exact I|]. rewrite reply_list, (Hs s (or_introl eq_refl)).
    apply IH. intros s' Hs'. apply Hs. right. exact Hs'.
  Qed.

  Lemma block_subdir_listed a s :
    In s (block_subdirs (children_dirs a DBlocks)) -> has_dir a (DBlockSub s) = true.
  Proof.
    unfold block_subdirs. rewrite in_isort_N, in_flat_map. intros [d [Hd Hs]].
    unfold children_dirs in Hd. apply filter_In in Hd. destruct Hd as [Hd _].
    destruct d; try contradiction. destruct Hs as [->|[]]. apply has_dir_In. exact Hd.
  Qed.

  (* what restore returns, as a function of what it reads *)
  Definition restore_result (hdr hd : option fcontent) (dblocks : bool) (sn : outcome sres) : outcome rres :=
    match hdr with
    | Some (Good PlJson) =>
        match head_status (match hd with Some x => RData x | None => RErr ENotFound end) with
        | HPanic => Panicked
        | HErr => Done rfail
        | HOk =>
            if dblocks then
              match sn with
              | Done (es, _, _, _, merr) =>
                  Done {| r_ok := true; r_files := map restored es;
                          r_merr := merr + N.of_nat (length (filter (fun e => kind_eqb (e_kind e) KUnknown) es)) |}
              | Crashed => Crashed
              | Panicked => Panicked
              end
            else Done rfail
        end
    | _ => Done rfail
    end.

  (** Without faults, on a state with referential integrity, restoring band [b] returns, for
      every entry of the stitched listing, its complete content *)
  Theorem restore_char a b :
    AInv a ->
    snd (run pre (restore_prog (Specified b) keep) a [])
    = restore_result (get a PHeader) (get a (PHead b)) (has_dir a DBlocks)
        (snd (run pre (snext keep skT (SBefore (N.to_nat b)) None 0) a [])).
  Proof.
    intros HI.
    set (body := bind (snext keep (fun _ => true) (SBefore (N.to_nat b)) None 0)
                   (fun r => let '(es, _, _, _, merr) := r in restore_entries es [] [] merr)).
    assert (E : evals pre a (restore_prog (Specified b) keep)
      (match get a PHeader with
       | Some (Good PlJson) =>
           match head_status (match get a (PHead b) with Some x => RData x | None => RErr ENotFound end) with
           | HPanic => Panic
           | HErr => Ret rfail
           | HOk => if has_dir a DBlocks then body else Ret rfail
           end
       | _ => Ret rfail
       end)).
    { unfold restore_prog. apply ev_read; [exact I|]. rewrite reply_read.
      destruct (get a PHeader) as [[[| | | |]| |]|]; try apply ev_refl.
      unfold open_tree, resolve. apply ev_read; [exact I|]. rewrite reply_read.
      destruct (head_status (match get a (PHead b) with Some x => RData x | None => RErr ENotFound end));
        try apply ev_refl.
      apply ev_read; [exact I|]. rewrite reply_list.
      destruct (has_dir a DBlocks); [|apply ev_refl].
      eapply evals_trans; [apply list_blocks_r_evals; intros s Hs; apply block_subdir_listed; exact Hs|].
      apply ev_refl. }
    destruct (evals_run pre a _ _ E) as [tr Hr]. rewrite Hr. cbn [snd]. clear E Hr.
    unfold restore_result.
    destruct (get a PHeader) as [[[| | | |]| |]|]; try reflexivity.
    destruct (head_status (match get a (PHead b) with Some x => RData x | None => RErr ENotFound end));
      try reflexivity.
    destruct (has_dir a DBlocks); [|reflexivity].
    unfold body. rewrite run_bind_nil.
    pose proof (snext_safe pre keep (fun _ => true) a HI (SBefore (N.to_nat b)) None 0 I) as Hsafe.
    destruct (safe_sound pre _ _ a [] HI Hsafe) as (_ & _ & HQ).
    unfold skT.
    destruct (run pre (snext keep (fun _ => true) (SBefore (N.to_nat b)) None 0) a []) as [[tr1 a1] out] eqn:Es.
    cbn [fst snd] in HQ |- *.
    destruct out as [[[[[es o] st] last] merr]| |]; try reflexivity.
    destruct (HQ _ eq_refl) as [-> [Hes _]].
    destruct (restore_entries_ok pre a es [] [] merr Hes) as (tr2 & r & Hrun & R1 & R2 & R3).
    { intros h x []. }
    rewrite Hrun. cbn [snd]. destruct r as [rok rfiles rmerr]. cbn [r_ok r_files r_merr app] in *. subst. reflexivity.
  Qed.
End RestoreChar.

Section RestoreStable.
  Variable pre : bytes -> N.
  Variables (c : cfg) (src : list sitem).
  Variable keep : entry -> bool.

  Lemma snext_low_run a0 a b :
    Frame b a0 a ->
    snd (run pre (snext keep skT (SBefore (N.to_nat b)) None 0) a [])
    = snd (run pre (snext keep skT (SBefore (N.to_nat b)) None 0) a0 []).
  Proof.
    intros FR. apply (low_run pre b a0 a FR). apply snext_low. rewrite N2Nat.id. lia.
  Qed.

  (** RESTORE IS STABLE.  From an archive with referential integrity, for every band [b]
      that exists when a backup starts, at every state of the backup (any source, any
      faults, any crash point) restoring [b] returns what it returned in the initial
      state: the same entries, each with the same content. *)
  Theorem restore_stable a0 b :
    AInv a0 -> has_dir a0 (DBand b) = true ->
    forall phi a, In a (backup_states pre c src a0 phi) ->
      snd (run pre (restore_prog (Specified b) keep) a [])
      = snd (run pre (restore_prog (Specified b) keep) a0 []).
  Proof.
    intros HI Hb phi a Hin.
    pose proof (backup_states_frame pre c src a0 b phi a Hb Hin) as FR.
    pose proof (backup_states_ainv pre c src a0 phi a HI Hin) as HIa.
    rewrite (restore_char pre keep a b HIa), (restore_char pre keep a0 b HI).
    rewrite (frame_get b a0 a FR PHeader eq_refl).
    rewrite (frame_get b a0 a FR (PHead b)) by (cbn; apply N.leb_refl).
    rewrite (frame_has_dir b a0 a FR DBlocks eq_refl).
    rewrite (snext_low_run a0 a b FR). reflexivity.
  Qed.

  (** C02/C03, restore side, as specified: a complete band of a well-formed archive with
      referential integrity restores, after (and during) any later backup, exactly as
      before: every entry of its own index, each file with its complete content. *)
  Theorem complete_band_restore_stable a0 b :
    get a0 PHeader = Some (Good PlJson) -> has_dir a0 DBlocks = true ->
    WFidx a0 -> AInv a0 -> complete a0 b ->
    forall phi a, In a (backup_states pre c src a0 phi) ->
      snd (run pre (restore_prog (Specified b) keep) a [])
      = snd (run pre (restore_prog (Specified b) keep) a0 [])
      /\ exists merr,
           snd (run pre (restore_prog (Specified b) keep) a [])
           = Done {| r_ok := true; r_files := map restored (filter keep (band_entries a0 b)); r_merr := merr |}.
  Proof.
    intros Hh Hbl WF HI Hc phi a Hin.
    pose proof (complete_has_dir a0 b (WFidx_bands a0 WF) (proj1 Hc)) as Hb.
    pose proof (restore_stable a0 b HI Hb phi a Hin) as E. split; [exact E|].
    rewrite E, (restore_char pre keep a0 b HI), Hh, Hbl. unfold restore_result.
    destruct Hc as [Ho Hcl].
    assert (Hs : head_status (match get a0 (PHead b) with Some x => RData x | None => RErr ENotFound end) = HOk).
    { unfold head_opens in Ho. destruct (get a0 (PHead b)) as [x|]; [|discriminate].
      destruct (head_status (RData x)); [reflexivity | discriminate | discriminate]. }
    rewrite Hs.
    destruct (snext_refines_closed pre keep a0 (WFidx_bands a0 WF) (N.to_nat b) 0) as [lastf [merrf Hev]].
    { rewrite v_closed by (apply WFidx_bands; exact WF). rewrite N2Nat.id. exact Hcl. }
    destruct (evals_run_ret pre a0 _ _ Hev) as [tr Hr]. rewrite Hr. cbn [snd].
    rewrite (stitch_lview_view pre keep a0 _ WF), (stitch_view_complete keep a0 b (WFidx_bands a0 WF) (conj Ho Hcl)).
    eexists. reflexivity.
  Qed.
End RestoreStable.

(* ------------------------------------------------------------------------- *)
(** * 7. LatestClosed resolves to the newest closed band                      *)
(* ------------------------------------------------------------------------- *)

Lemma SS_rev {A} (R : A -> A -> Prop) l :
  StronglySorted R l -> StronglySorted (fun x y => R y x) (rev l).
Proof.
  induction 1 as [|x l S IH F]; cbn [rev]; [constructor|].
  apply SS_app; [exact IH | repeat constructor|].
  intros y z Hy [<-|[]]. rewrite Forall_forall in F. apply F. apply in_rev. exact Hy.
Qed.

Lemma find_first_sorted {A} (R : A -> A -> Prop) (p : A -> bool) l x :
  StronglySorted R l -> find p l = Some x -> forall y, In y l -> p y = true -> y = x \/ R x y.
Proof.
  induction 1 as [|z l S IH F]; cbn [find]; [discriminate|].
  destruct (p z) eqn:Pz.
  - intros E y [<-|Hy] _; inversion E; subst; [left; reflexivity|].
    right. rewrite Forall_forall in F. apply F. exact Hy.
  - intros E y [<-|Hy] Py; [congruence|]. apply IH; assumption.
Qed.

Section LatestClosed.
  Variable pre : bytes -> N.
  Variable a : arch.
  Context {R : Type}.

  (* a band that opens and whose tail exists and is not zero-length *)
  Definition open_closed (b : N) : bool := head_opens a b && tail_closed a b.

  Lemma last_complete_evals ids : forall (k : option N -> prog R),
    evals pre a (last_complete ids k) (k (find open_closed ids)).
  Proof.
    induction ids as [|b ids IH]; intros k; cbn [last_complete find]; [apply ev_refl|].
    apply ev_read; [exact I|].
    rewrite (head_opens_status pre a b). unfold open_closed at 1.
    destruct (head_opens a b); cbn [andb]; [|apply IH].
    apply ev_read; [exact I|]. rewrite reply_meta. unfold tail_closed.
    destruct (get a (PTail b)) as [x|].
    - destruct (nonempty x); [apply ev_refl|]. apply IH.
    - apply IH.
  Qed.

  Lemma root_band_ids b : In b (band_ids (children_dirs a DRoot)) <-> has_dir a (DBand b) = true.
  Proof.
    unfold band_ids. rewrite in_flat_map. split.
    - intros [d [Hd Hb]]. unfold children_dirs in Hd. apply filter_In in Hd. destruct Hd as [Hd _].
      destruct d; try contradiction. destruct Hb as [->|[]]. apply has_dir_In. exact Hd.
    - intros Hd. exists (DBand b). split; [|left; reflexivity].
      unfold children_dirs. apply filter_In. split; [apply has_dir_In; exact Hd | reflexivity].
  Qed.

  (** Without faults, [LatestClosed] resolves to the largest band id whose head opens and
      whose tail exists and is not zero-length (a band that cannot be opened is skipped);
      to nothing iff there is no such band *)
  Theorem latest_closed_is_newest (k : option N -> prog R) :
    has_dir a DRoot = true ->
    exists o,
      evals pre a (resolve LatestClosed k) (k o)
      /\ match o with
         | Some b => has_dir a (DBand b) = true /\ open_closed b = true
                     /\ forall b', has_dir a (DBand b') = true -> open_closed b' = true -> b' <= b
         | None => forall b', has_dir a (DBand b') = true -> open_closed b' = false
         end.
  Proof.
    intros Hroot.
    set (ids := rev (sorted_N (band_ids (children_dirs a DRoot)))).
    assert (Hin : forall b, In b ids <-> has_dir a (DBand b) = true).
    { intros b. unfold ids, sorted_N. rewrite <- in_rev, in_isort_N. apply root_band_ids. }
    exists (find open_closed ids). split.
    - unfold resolve. apply ev_read; [exact I|]. rewrite reply_list, Hroot.
      apply last_complete_evals.
    - destruct (find open_closed ids) as [b|] eqn:Ef.
      + destruct (find_some _ _ Ef) as [Hb Hc]. split; [apply Hin; exact Hb|]. split; [exact Hc|].
        intros b' Hb' Hc'.
        assert (S : StronglySorted (fun x y => N.compare y x <> Gt) ids).
        { unfold ids, sorted_N. apply SS_rev. apply (isort_sorted N.compare (fun x : N => x) N_order). }
        destruct (find_first_sorted _ _ _ _ S Ef b' (proj2 (Hin b') Hb') Hc') as [->|Hle]; [lia|].
        apply N.compare_le_iff. exact Hle.
      + intros b' Hb'. apply (find_none _ _ Ef). apply Hin. exact Hb'.
  Qed.
End LatestClosed.

(* ------------------------------------------------------------------------- *)
(** * 8. C14: a block that is present is never written again                  *)
(* ------------------------------------------------------------------------- *)

Section Wps.
  Variable pre : bytes -> N.
  Variable Pre : arch -> op -> Prop.

  (* weakest precondition with a precondition on every operation issued, in the state it
     is issued in, for every fault *)
  Fixpoint wps {R} (Q : R -> arch -> Prop) (p : prog R) (a : arch) : Prop :=
    match p with
    | Ret r => Q r a
    | Panic => True
    | Do o k => Pre a o /\ forall f, wps Q (k (snd (exec pre a o f))) (fst (exec pre a o f))
    end.

  Lemma wps_weaken {R} (Q Q' : R -> arch -> Prop) (p : prog R) :
    (forall r a, Q r a -> Q' r a) -> forall a, wps Q p a -> wps Q' p a.
  Proof.
    intros HQ. induction p as [r|o k IH|]; intros a H; cbn [wps] in *; auto.
    destruct H as [H1 H2]. split; [exact H1|]. intros f. apply IH. apply H2.
  Qed.

  Lemma wps_bind {A B} (Q : A -> arch -> Prop) (Q' : B -> arch -> Prop) (p : prog A) (g : A -> prog B) :
    (forall r a, Q r a -> wps Q' (g r) a) -> forall a, wps Q p a -> wps Q' (bind p g) a.
  Proof.
    intros Hg. induction p as [r|o k IH|]; intros a H; cbn [wps bind] in *; auto.
    destruct H as [H1 H2]. split; [exact H1|]. intros f. apply IH. apply H2.
  Qed.

  (* soundness: every operation of every run was issued in a state satisfying [Pre] *)
  Lemma wps_sound {R} (Q : R -> arch -> Prop) (p : prog R) : forall a phi i o rep,
    wps Q p a ->
    nth_error (fst (fst (run pre p a phi))) i = Some (o, rep) ->
    exists ab, state_before pre p a phi i = Some ab /\ Pre ab o.
  Proof.
    induction p as [r|o k IH|]; intros a phi i o' rep H Hi; try (cbn in Hi; destruct i; discriminate).
    cbn [wps] in H. destruct H as [H1 H2]. destruct i as [|i].
    - pose proof (trace_0 pre _ _ _ _ _ Hi) as E. inversion E; subst. exists a. split; [reflexivity | exact H1].
    - destruct (state_before_S pre _ _ _ _ _ _ Hi) as [Hi' Hs]. rewrite Hs. eapply IH; [apply H2 | exact Hi'].
  Qed.

  Hypothesis PreRead : forall a o, reads_only o -> Pre a o.

  Lemma wps_reads {R} (Q : R -> arch -> Prop) (p : prog R) a :
    emits_only reads_only p -> (forall r, Q r a) -> wps Q p a.
  Proof.
    intros H HQ. induction H as [r| |o k Ho _ IH]; cbn [wps]; auto.
    split; [apply PreRead; exact Ho|]. intros f. rewrite (exec_read_same pre a o f Ho). apply IH.
  Qed.

  Lemma wps_read {R} (Q : R -> arch -> Prop) o (k : reply -> prog R) a :
    reads_only o -> (forall f, wps Q (k (snd (exec pre a o f))) a) -> wps Q (Do o k) a.
  Proof.
    intros Ho Hk. cbn [wps]. split; [apply PreRead; exact Ho|].
    intros f. rewrite (exec_read_same pre a o f Ho). apply Hk.
  Qed.
End Wps.

(* how an operation can make a block present *)
Lemma exec_block_ok pre (a : arch) o flt c :
  block_ok (fst (exec pre a o flt)) c ->
  block_ok a c \/ (exists p m, o = OpWrite (PBlock c) p m /\ snd (exec pre a o flt) = ROk).
Proof.
  unfold block_ok.
  assert (Hok : get (fst (exec_ok pre a o)) (PBlock c) = Some (Good (PlBlock c)) ->
                get a (PBlock c) = Some (Good (PlBlock c))
                \/ (exists p m, o = OpWrite (PBlock c) p m /\ snd (exec_ok pre a o) = ROk)).
  { destruct o as [f|f p m|d|d|f|f|d]; cbn [exec_ok].
    - destruct (get a f); auto.
    - destruct (has_dir a (parent_f pre f)); [|auto].
      assert (Hset : get {| dirs := dirs a; files := set_file f (Good p) (files a) |} (PBlock c) = Some (Good (PlBlock c)) ->
                     get a (PBlock c) = Some (Good (PlBlock c)) \/ f = PBlock c).
      { unfold get. cbn [files]. rewrite lookup_set_file.
        destruct (fpath_eqb_spec (PBlock c) f) as [<-|]; auto. }
      destruct (get a f) as [[q| |]|]; destruct m; cbn [fst snd]; auto;
        (intros H; destruct (Hset H) as [H' | -> ]; [left; exact H' | right; eauto]).
    - destruct (has_dir a d); auto.
    - destruct (has_dir a d); [auto|].
      destruct (parent_d d) as [q|]; [destruct (has_dir a q)|]; cbn [fst]; auto.
    - destruct (get a f); auto.
    - destruct (get a f); [|auto]. cbn [fst]. unfold get. cbn [files]. rewrite lookup_remove_file.
      destruct (fpath_eqb (PBlock c) f); [discriminate | auto].
    - destruct (has_dir a d); [|auto]. cbn [fst]. unfold get. cbn [files].
      change (fun p : fpath * fcontent => negb (file_under pre d (fst p)))
        with (fun p : fpath * fcontent => (fun g => negb (file_under pre d g)) (fst p)).
      rewrite lookup_filter. destruct (negb (file_under pre d (PBlock c))); [auto | discriminate]. }
  destruct flt; cbn [exec fst snd]; auto.
Qed.

Definition is_block_write (o : op) : Prop := match o with OpWrite (PBlock _) _ _ => True | _ => False end.

Lemma exec_block_ok_other pre (a : arch) o flt c :
  ~ is_block_write o -> block_ok (fst (exec pre a o flt)) c -> block_ok a c.
Proof.
  intros Hn H. destruct (exec_block_ok pre a o flt c H) as [H'|[p [m [-> _]]]]; [exact H'|].
  exfalso. apply Hn. exact I.
Qed.

(* a block file lies in its sub-directory *)
Definition BlocksInDirs (pre : bytes -> N) (a : arch) : Prop :=
  forall c, get a (PBlock c) <> None -> has_dir a (DBlockSub (pre c)) = true.

Section NeverRewrites.
  Variable pre : bytes -> N.

  (* never issue a write of a block that is there *)
  Definition NRPre (a : arch) (o : op) : Prop :=
    match o with OpWrite (PBlock c) _ _ => ~ block_ok a c | _ => True end.

  Lemma NRPre_read a o : reads_only o -> NRPre a o.
  Proof. destruct o; cbn; tauto. Qed.

  Notation wps := (wps pre NRPre).

  (* the writer knows every block that is present *)
  Definition KN (a : arch) (w : wst) : Prop := forall c, block_ok a c -> mem_bytes c (w_exists w) = true.
  Definition KQ {A} (rw : A * wst) (a : arch) : Prop := KN a (snd rw).

  Lemma KN_ext a w w' : w_exists w' = w_exists w -> KN a w -> KN a w'.
  Proof. intros E H c Hc. rewrite E. apply H. exact Hc. Qed.

  Lemma KN_step a w o flt : ~ is_block_write o -> KN a w -> KN (fst (exec pre a o flt)) w.
  Proof. intros Hn H c Hc. apply H. eapply exec_block_ok_other; eassumption. Qed.

  Lemma mem_bytes_cons c d l : mem_bytes c (d :: l) = str_eqb c d || mem_bytes c l.
  Proof. reflexivity. Qed.

  Lemma store_block_wps w c a : KN a w -> wps KQ (store_block pre w c) a.
  Proof.
    intros HK. unfold store_block. destruct (mem_bytes c (w_exists w)) eqn:Em; [exact HK|].
    cbn [FrameP.wps]. split; [exact I|]. intros f1.
    pose proof (KN_step a w (OpMkdir (DBlockSub (pre c))) f1 (fun x => x) HK) as HK1.
    destruct (is_ok (snd (exec pre a (OpMkdir (DBlockSub (pre c))) f1))); [|exact HK1].
    cbn [FrameP.wps]. split.
    - cbn [NRPre]. intros Hc. rewrite (HK1 c Hc) in Em. discriminate.
    - intros f2. set (a1 := fst (exec pre a (OpMkdir (DBlockSub (pre c))) f1)) in *.
      destruct (is_ok (snd (exec pre a1 (OpWrite (PBlock c) (PlBlock c) CreateNew) f2))) eqn:Eok;
        cbn [FrameP.wps]; unfold KQ; cbn [snd]; intros c' Hc';
        destruct (exec_block_ok pre a1 _ f2 c' Hc') as [H|[p [m [E Er]]]].
      + cbn [upd_blocks w_exists]. rewrite mem_bytes_cons, (HK1 c' H). apply orb_true_r.
      + inversion E; subst. cbn [upd_blocks w_exists]. rewrite mem_bytes_cons, str_eqb_refl. reflexivity.
      + apply HK1. exact H.
      + rewrite Er in Eok. discriminate.
  Qed.

  Lemma comb_flush_wps w a : KN a w -> wps KQ (comb_flush pre w) a.
  Proof.
    intros HK. unfold comb_flush. destruct (w_queue w) as [|q0 q]; [exact HK|].
    eapply wps_bind; [|apply store_block_wps; eapply KN_ext; [|exact HK]; reflexivity].
    intros [ok w'] a' HK'. unfold KQ in HK'. cbn [snd] in HK'.
    destruct ok; cbn [FrameP.wps]; unfold KQ; cbn [snd]; [|exact HK'].
    eapply KN_ext; [|exact HK']. reflexivity.
  Qed.

  Lemma comb_push_wps c w e data a : KN a w -> wps KQ (comb_push pre c w e data) a.
  Proof.
    intros HK. unfold comb_push. destruct data as [|x data].
    - cbn [FrameP.wps]. unfold KQ. cbn [snd]. eapply KN_ext; [|exact HK]. reflexivity.
    - match goal with |- wps _ (if ?x then _ else _) _ => destruct x end.
      + apply comb_flush_wps. eapply KN_ext; [|exact HK]. reflexivity.
      + cbn [FrameP.wps]. unfold KQ. cbn [snd]. eapply KN_ext; [|exact HK]. reflexivity.
  Qed.

  Lemma finish_hunk_wps w a : KN a w -> wps KQ (finish_hunk w) a.
  Proof.
    intros HK. unfold finish_hunk. destruct (w_entries w) as [|e0 es]; [exact HK|].
    assert (Hw : forall a1, KN a1 w ->
      wps KQ (Do (OpWrite (PHunk (w_band w) (w_seq w)) (PlHunk (sort_entries (e0 :: es))) CreateNew)
                (fun r => if is_ok r then Ret (true, upd_index w [] (w_seq w + 1) (w_hunks w + 1)) else Ret (false, w))) a1).
    { intros a1 HK1. cbn [FrameP.wps]. split; [exact I|]. intros f.
      pose proof (KN_step a1 w (OpWrite (PHunk (w_band w) (w_seq w)) (PlHunk (sort_entries (e0 :: es))) CreateNew) f (fun x => x) HK1) as HK2.
      destruct (is_ok _); cbn [FrameP.wps]; unfold KQ; cbn [snd]; [|exact HK2].
      eapply KN_ext; [|exact HK2]. reflexivity. }
    destruct (w_seq w mod HUNKS_PER_SUBDIR =? 0); [|apply Hw; exact HK].
    cbn [FrameP.wps]. split; [exact I|]. intros f.
    pose proof (KN_step a w (OpMkdir (DHunkSub (w_band w) (w_seq w / HUNKS_PER_SUBDIR))) f (fun x => x) HK) as HK1.
    destruct (is_ok _); [apply Hw; exact HK1 | exact HK1].
  Qed.

  Lemma flush_group_wps w a : KN a w -> wps KQ (flush_group pre w) a.
  Proof.
    intros HK. unfold flush_group. eapply wps_bind; [|apply comb_flush_wps; exact HK].
    intros [ok w1] a1 HK1. unfold KQ in HK1. cbn [snd] in HK1.
    destruct ok; [|exact HK1]. apply finish_hunk_wps. eapply KN_ext; [|exact HK1]. reflexivity.
  Qed.

  Lemma store_chunks_wps cs : forall w acc a, KN a w -> wps KQ (store_chunks pre w cs acc) a.
  Proof.
    induction cs as [|c cs IH]; intros w acc a HK; cbn [store_chunks]; [exact HK|].
    eapply wps_bind; [|apply store_block_wps; exact HK].
    intros [ok w'] a' HK'. unfold KQ in HK'. cbn [snd] in HK'.
    destruct ok; [apply IH; exact HK' | exact HK'].
  Qed.

  Lemma copy_entry_wps c w basis it a : KN a w -> wps KQ (copy_entry pre c w basis it) a.
  Proof.
    intros HK. unfold copy_entry.
    assert (Hpush : forall e, KN a (push_entry w e)) by (intros e; eapply KN_ext; [|exact HK]; reflexivity).
    destruct (s_kind (si_e it)); try (cbn [FrameP.wps]; unfold KQ; cbn [snd]; auto; fail).
    match goal with |- wps _ (match ?x with _ => _ end) _ => destruct x end; [apply Hpush|].
    destruct (s_size (si_e it) =? 0); [apply Hpush|].
    destruct (s_size (si_e it) <=? c_sfc c); [apply comb_push_wps; exact HK|].
    eapply wps_bind; [|apply store_chunks_wps; exact HK].
    intros [o w'] a' HK'. unfold KQ in HK'. cbn [snd] in HK'.
    destruct o; cbn [FrameP.wps]; unfold KQ; cbn [snd]; [|exact HK'].
    eapply KN_ext; [|exact HK']. reflexivity.
  Qed.

  Definition QT' (_ : bres) (_ : arch) : Prop := True.

  Lemma snext_wps keep skip st last merr a (Q : sres -> arch -> Prop) :
    (forall r, Q r a) -> wps Q (snext keep skip st last merr) a.
  Proof. intros HQ. apply wps_reads; [apply NRPre_read | apply snext_eo; auto | exact HQ]. Qed.

  Lemma merge_loop_wps c src : forall peek st last w a,
    KN a w -> wps QT' (merge_loop pre c src peek st last w) a.
  Proof.
    induction src as [|it src IH]; intros peek st last w a HK; cbn [merge_loop].
    - eapply wps_bind; [|apply (snext_wps _ _ _ _ _ a (fun _ a' => a' = a)); reflexivity].
      intros [[[[skipped na] st'] last'] merr] a' ->.
      eapply wps_bind; [|apply flush_group_wps; eapply KN_ext; [|exact HK]; reflexivity].
      intros [ok w2] a2 _. destruct ok; [|exact I].
      cbn [FrameP.wps]. split; [exact I|]. intros f. destruct (is_ok _); exact I.
    - assert (Hk : forall (skipped : list entry) na st' last' merr,
        wps QT'
          (let w0 := upd_counts w (w_errors w) merr (w_deleted w + N.of_nat (length skipped)) in
           let '(basis, na') :=
             match na with
             | Some e => match apath_cmp (e_apath e) (s_apath (si_e it)) with
                         | Eq => (Some e, None) | _ => (None, na) end
             | None => (None, None)
             end in
           bind (copy_entry pre c w0 basis it) (fun rw =>
             let '(ok, w1) := rw in
             let w2 := if ok then w1 else upd_counts w1 (w_errors w1 + 1) (w_merr w1 + 1) (w_deleted w1) in
             if ok && (c_meph c <=? N.of_nat (length (w_entries w2)) + N.of_nat (length (w_queue w2))) then
               bind (flush_group pre w2) (fun rw2 =>
                 let '(ok2, w3) := rw2 in
                 if ok2 then merge_loop pre c src na' st' last' w3 else Ret (fail w3))
             else merge_loop pre c src na' st' last' w2)) a).
      { intros skipped na st' last' merr. cbv zeta.
        match goal with |- wps _ (let '(_, _) := ?x in _) _ => destruct x as [basis na'] end.
        eapply wps_bind; [|apply copy_entry_wps; eapply KN_ext; [|exact HK]; reflexivity].
        intros [ok w1] a1 HK1. unfold KQ in HK1. cbn [snd] in HK1.
        assert (HK2 : KN a1 (if ok then w1 else upd_counts w1 (w_errors w1 + 1) (w_merr w1 + 1) (w_deleted w1)))
          by (destruct ok; [exact HK1 | eapply KN_ext; [|exact HK1]; reflexivity]).
        match goal with |- wps _ (if ?x then _ else _) _ => destruct x end.
        - eapply wps_bind; [|apply flush_group_wps; exact HK2].
          intros [ok2 w3] a3 HK3. unfold KQ in HK3. cbn [snd] in HK3.
          destruct ok2; [apply IH; exact HK3 | exact I].
        - apply IH. exact HK2. }
      destruct peek as [e|].
      + match goal with |- wps _ (if ?x then _ else _) _ => destruct x end.
        * eapply wps_bind; [|apply (snext_wps _ _ _ _ _ a (fun _ a' => a' = a)); reflexivity].
          intros [[[[skipped na] st'] last'] merr] a' ->. apply Hk.
        * exact (Hk [] (Some e) st last (w_merr w)).
      + eapply wps_bind; [|apply (snext_wps _ _ _ _ _ a (fun _ a' => a' = a)); reflexivity].
        intros [[[[skipped na] st'] last'] merr] a' ->. apply Hk.
  Qed.

  Definition listed_blocks (fs : list (fpath * bool)) : list bytes :=
    flat_map (fun p => match p with (PBlock c, true) => [c] | _ => [] end) fs.

  Lemma block_ok_listed a c : block_ok a c -> In c (listed_blocks (children_files pre a (DBlockSub (pre c)))).
  Proof.
    intros Hc. unfold block_ok, get in Hc. destruct (lookup_Some_In _ _ _ Hc) as [g [Hin [<- _]]].
    unfold listed_blocks. apply in_flat_map. exists (PBlock c, true). split; [|left; reflexivity].
    unfold children_files. apply in_map_iff. exists (PBlock c, Good (PlBlock c)). split; [reflexivity|].
    apply filter_In. split; [exact Hin|]. cbn [fst parent_f].
    destruct (dpath_eqb_spec (DBlockSub (pre c)) (DBlockSub (pre c))); congruence.
  Qed.

  Lemma list_blocks_wps subs : forall acc failed k a,
    wps QT' (k None) a ->
    (failed = false -> forall ex,
       (forall c, block_ok a c -> In c acc \/ In (pre c) subs -> In c ex) -> wps QT' (k (Some ex)) a) ->
    wps QT' (list_blocks subs acc failed k) a.
  Proof.
    induction subs as [|s subs IH]; intros acc failed k a HN HS; cbn [list_blocks].
    - destruct failed; [exact HN|]. apply HS; [reflexivity|]. intros c _ [H|[]]. exact H.
    - apply wps_read; [apply NRPre_read | exact I|]. intros f.
      destruct (snd (exec pre a (OpList (DBlockSub s)) f)) as [| | |ds fs|] eqn:Er;
        try (apply IH; [exact HN | discriminate]).
      apply IH; [exact HN|]. intros Hf ex Hex. apply HS; [exact Hf|].
      intros c Hc [H|[E|H]]; [| subst s |]; apply Hex; auto.
      + left. apply in_or_app. left. exact H.
      + left. apply in_or_app. right.
        pose proof (exec_read_reply pre a (OpList (DBlockSub (pre c))) f I) as Hr.
        rewrite Er in Hr. cbn [reply_ok] in Hr. subst fs. apply block_ok_listed. exact Hc.
  Qed.

  Lemma In_mem_bytes c l : In c l -> mem_bytes c l = true.
  Proof.
    intros H. unfold mem_bytes. apply existsb_exists. exists c. split; [exact H | apply str_eqb_refl].
  Qed.

  (* before the block listing: nothing has made a block present, nothing has been removed *)
  Definition PJ (a0 a : arch) : Prop := (forall c, block_ok a c -> block_ok a0 c) /\ Old a0 a.

  Lemma PJ_step a0 a o flt : add_only o -> ~ is_block_write o -> PJ a0 a -> PJ a0 (fst (exec pre a o flt)).
  Proof.
    intros Ho Hn [H1 H2]. split.
    - intros c Hc. apply H1. eapply exec_block_ok_other; eassumption.
    - eapply Old_trans; [exact H2 | apply exec_add_Old; exact Ho].
  Qed.

  Lemma backup_wps c src a0 : BlocksInDirs pre a0 -> wps QT' (backup_prog pre c src) a0.
  Proof.
    intros BD. unfold backup_prog, open_archive.
    assert (HJ0 : PJ a0 a0) by (split; [auto | apply Old_refl]).
    revert HJ0. generalize a0 at 2 3 as a. intros a HJ.
    apply wps_read; [apply NRPre_read | exact I|]. intros f0.
    destruct (snd (exec pre a (OpRead PHeader) f0)) as [| |[[| | | |]| |]| |]; try exact I.
    apply wps_read; [apply NRPre_read | exact I|]. intros f1.
    destruct (snd (exec pre a (OpMeta PLock) f1)) as [|[| | |]| | |]; try exact I.
    apply wps_read; [apply NRPre_read | exact I|]. intros f2.
    destruct (snd (exec pre a (OpList DRoot) f2)) as [| | |ds1 fs1|]; try exact I.
    apply wps_read; [apply NRPre_read | exact I|]. intros f3.
    destruct (snd (exec pre a (OpList DRoot) f3)) as [| | |ds2 fs2|]; try exact I.
    cbv zeta. set (id := match max_id (band_ids ds2) with Some m => m + 1 | None => 0 end).
    cbn [FrameP.wps]. split; [exact I|]. intros f4.
    pose proof (PJ_step a0 a (OpMkdir (DBand id)) f4 I (fun x => x) HJ) as HJ4. set (a4 := fst (exec pre a (OpMkdir (DBand id)) f4)) in *.
    destruct (is_ok _); [|exact I].
    cbn [FrameP.wps]. split; [exact I|]. intros f5.
    pose proof (PJ_step a0 a4 (OpMkdir (DIndex id)) f5 I (fun x => x) HJ4) as HJ5. set (a5 := fst (exec pre a4 (OpMkdir (DIndex id)) f5)) in *.
    destruct (is_ok _); [|exact I].
    cbn [FrameP.wps]. split; [exact I|]. intros f6.
    pose proof (PJ_step a0 a5 (OpWrite (PHead id) (PlHead HvOk) CreateNew) f6 I (fun x => x) HJ5) as HJ6.
    set (a6 := fst (exec pre a5 (OpWrite (PHead id) (PlHead HvOk) CreateNew) f6)) in *.
    destruct (is_ok _); [|exact I].
    apply wps_read; [apply NRPre_read | exact I|]. intros f7.
    destruct (snd (exec pre a6 (OpList DRoot) f7)) as [| | |ds5 fs5|]; try exact I.
    destruct (existsb (fun p => fpath_eqb (fst p) PLock) fs5); [exact I|].
    apply wps_read; [apply NRPre_read | exact I|]. intros f8.
    destruct (snd (exec pre a6 (OpList DBlocks) f8)) as [| | |ds3 fs3|] eqn:E8; try exact I.
    apply list_blocks_wps; [exact I|]. intros _ ex Hex.
    apply merge_loop_wps. intros c' Hc'. cbn [w_exists]. apply In_mem_bytes. apply Hex; [exact Hc'|].
    right. destruct HJ6 as [HB HO].
    assert (Hd : has_dir a6 (DBlockSub (pre c')) = true).
    { apply (proj1 HO). apply has_dir_In. apply BD. pose proof (HB c' Hc') as H0. unfold block_ok in H0.
      rewrite H0. discriminate. }
    pose proof (exec_read_reply pre a6 (OpList DBlocks) f8 I) as Hr. rewrite E8 in Hr.
    assert (Hds : ds3 = children_dirs a6 DBlocks).
    { destruct f8; cbn [exec] in E8; try discriminate;
        (cbn [exec_ok] in E8; destruct (has_dir a6 DBlocks); cbn [snd] in E8; [inversion E8; reflexivity | discriminate]). }
    subst ds3. unfold block_subdirs. apply in_isort_N. apply in_flat_map.
    exists (DBlockSub (pre c')). split; [|left; reflexivity].
    unfold children_dirs. apply filter_In. split; [apply has_dir_In; exact Hd | reflexivity].
  Qed.

  (** C14.  In every run of a backup (every source, configuration and fault list) from an
      archive whose block files lie in their sub-directories, every write of a block file --
      successful or not -- is issued in a state in which that block is not present. *)
  Theorem backup_never_rewrites_present : forall c src a0 phi i c' p m rep,
    BlocksInDirs pre a0 ->
    nth_error (fst (fst (run pre (backup_prog pre c src) a0 phi))) i = Some (OpWrite (PBlock c') p m, rep) ->
    exists ab, state_before pre (backup_prog pre c src) a0 phi i = Some ab /\ ~ block_ok ab c'.
  Proof.
    intros c src a0 phi i c' p m rep BD Hi.
    destruct (wps_sound pre NRPre QT' _ a0 phi i _ _ (backup_wps c src a0 BD) Hi) as [ab [Hs Hp]].
    exists ab. split; [exact Hs | exact Hp].
  Qed.
End NeverRewrites.

(* ------------------------------------------------------------------------- *)
(** * 8b. C14, second half: backing up an unchanged tree writes no block      *)
(* ------------------------------------------------------------------------- *)

Section Wpn.
  Variable pre : bytes -> N.
  Variable Pre : arch -> op -> Prop.

  (* the fault-free weakest precondition *)
  Fixpoint wpn {R} (Q : R -> arch -> Prop) (p : prog R) (a : arch) : Prop :=
    match p with
    | Ret r => Q r a
    | Panic => True
    | Do o k => Pre a o /\ wpn Q (k (snd (exec_ok pre a o))) (fst (exec_ok pre a o))
    end.

  Lemma wpn_bind {A B} (Q : A -> arch -> Prop) (Q' : B -> arch -> Prop) (p : prog A) (g : A -> prog B) :
    (forall r a, Q r a -> wpn Q' (g r) a) -> forall a, wpn Q p a -> wpn Q' (bind p g) a.
  Proof.
    intros Hg. induction p as [r|o k IH|]; intros a H; cbn [wpn bind] in *; auto.
    destruct H as [H1 H2]. split; [exact H1|]. apply IH. exact H2.
  Qed.

  Lemma wpn_sound {R} (Q : R -> arch -> Prop) (p : prog R) : forall a i o rep,
    wpn Q p a ->
    nth_error (fst (fst (run pre p a []))) i = Some (o, rep) ->
    exists ab, state_before pre p a [] i = Some ab /\ Pre ab o.
  Proof.
    induction p as [r|o k IH|]; intros a i o' rep H Hi; try (cbn in Hi; destruct i; discriminate).
    cbn [wpn] in H. destruct H as [H1 H2]. destruct i as [|i].
    - pose proof (trace_0 pre _ _ _ _ _ Hi) as E. inversion E; subst. exists a. split; [reflexivity | exact H1].
    - destruct (state_before_S pre _ _ _ _ _ _ Hi) as [Hi' Hs]. rewrite Hs. cbn [hdf exec] in *.
      eapply IH; [exact H2 | exact Hi'].
  Qed.

  Hypothesis PreRead : forall a o, reads_only o -> Pre a o.

  (* a reading program: the state does not change, the result is that of [run] *)
  Lemma wpn_reads_run {R} (Q : R -> arch -> Prop) (p : prog R) a :
    emits_only reads_only p -> (forall r, snd (run pre p a []) = Done r -> Q r a) -> wpn Q p a.
  Proof.
    intros H. induction H as [r| |o k Ho _ IH]; intros HQ; cbn [wpn]; [apply HQ; reflexivity | exact I|].
    split; [apply PreRead; exact Ho|]. rewrite (exec_ok_read_same pre a o Ho). apply IH.
    intros r Hr. apply HQ. rewrite run_Do. cbn [hdf tl exec snd]. rewrite (exec_ok_read_same pre a o Ho). exact Hr.
  Qed.
End Wpn.

Definition opt_list {A} (o : option A) : list A := match o with Some x => [x] | None => [] end.
Definition asorted (l : list str) : Prop := StronglySorted (fun x y => apath_cmp x y = Lt) l.

(* content_heuristically_unchanged (Backup.unchanged ignores its writer-state argument) *)
Definition same_file (s : sentry) (e : entry) : bool :=
  kind_eqb (e_kind e) (s_kind s) && Z.eqb (e_ts e) (s_mtime s) && N.eqb (e_size e) (s_size s).

Section LazyReader.
  Variable pre : bytes -> N.
  Variables (a0 : arch) (b : N).
  Hypothesis WF : WFidx a0.
  Hypothesis Hcomp : complete a0 b.
  Variable skip : entry -> bool.

  Notation evals := (evals pre a0).
  Notation n := (N.to_nat b).

  Definition rem_hunks (hs : list N) : list entry := hunks_entries entry (map (hunk_content a0 b) hs).

  (* what the basis reader still has to yield *)
  Definition rem (st : sstate) : list entry :=
    match st with
    | SBefore _ => band_entries a0 b
    | SInBand _ hs buf _ => buf ++ rem_hunks hs
    | _ => []
    end.

  (* the states the basis reader of a complete band [b] goes through *)
  Definition SV (st : sstate) : Prop :=
    match st with
    | SDone => True
    | SBefore m => m = n
    | SInBand m hs buf after => m = n /\ after = None /\ forall h, In h hs -> get a0 (PHunk b h) <> None
    | SAfter _ => False
    end.
  Definition not_before (st : sstate) : Prop := match st with SBefore _ => False | _ => True end.

  Lemma scan_buf_spec buf : forall acc acc' o,
    scan_buf keep_all skip buf acc = (acc', o) ->
    exists pr, acc' = acc ++ pr /\ forallb skip pr = true
               /\ match o with Some (e, buf') => buf = pr ++ e :: buf' /\ skip e = false | None => buf = pr end.
  Proof.
    induction buf as [|e buf IH]; intros acc acc' o E; cbn [scan_buf keep_all] in E.
    - inversion E; subst. exists []. rewrite app_nil_r. auto.
    - destruct (skip e) eqn:Se.
      + destruct (IH _ _ _ E) as [pr [-> [Hs Ho]]]. exists (e :: pr). rewrite <- app_assoc. cbn [app forallb].
        rewrite Se, Hs. split; [reflexivity|]. split; [reflexivity|].
        destruct o as [[e' buf']|]; [destruct Ho as [-> Hs']; auto | subst; reflexivity].
      + inversion E; subst. exists []. rewrite app_nil_r. auto.
  Qed.

  Lemma rem_hunks_cons h hs :
    rem_hunks (h :: hs) = match hunk_content a0 b h with Some es => es | None => [] end ++ rem_hunks hs.
  Proof. unfold rem_hunks, hunks_entries. cbn [map concat]. reflexivity. Qed.

  Lemma nid : N.of_nat n = b.
  Proof. apply N2Nat.id. Qed.

  Lemma closed_after blw last acc merr :
    evals (after_band n blw last acc merr) (Ret (acc, None, SDone, last, merr)).
  Proof.
    unfold after_band. apply ev_read; [exact I|]. rewrite reply_meta, nid.
    destruct Hcomp as [_ Hc]. unfold tail_closed in Hc.
    destruct (get a0 (PTail b)) as [x|]; [|discriminate]. rewrite Hc. apply ev_refl.
  Qed.

  (* the InBand arm with an arbitrary [skip], up to the next entry that is not skipped or
     to the end of the (closed) band *)
  Lemma hunks_loop_spec hs : forall last acc merr,
    (forall h, In h hs -> get a0 (PHunk b h) <> None) ->
    exists sk na st' last' merr',
      evals (hunks_loop keep_all skip n hs None last acc merr (after_band n (below keep_all skip n)))
            (Ret (acc ++ sk, na, st', last', merr'))
      /\ forallb skip sk = true /\ SV st' /\ not_before st'
      /\ match na with
         | Some e => skip e = false /\ rem_hunks hs = sk ++ e :: rem st'
         | None => st' = SDone /\ rem_hunks hs = sk
         end.
  Proof.
    induction hs as [|h hs IH]; intros last acc merr Hex.
    - exists [], None, SDone, last, merr. rewrite app_nil_r. cbn [hunks_loop].
      split; [apply closed_after|]. cbn. auto.
    - assert (Hex' : forall h', In h' hs -> get a0 (PHunk b h') <> None) by (intros h' Hh'; apply Hex; right; exact Hh').
      rewrite rem_hunks_cons.
      destruct (get a0 (PHunk b h)) as [x|] eqn:G; [|exfalso; apply (Hex h); [left; reflexivity | exact G]].
      assert (Hbad : (forall es, x <> Good (PlHunk es)) ->
        exists sk na st' last' merr',
          evals (hunks_loop keep_all skip n (h :: hs) None last acc merr (after_band n (below keep_all skip n)))
                (Ret (acc ++ sk, na, st', last', merr'))
          /\ forallb skip sk = true /\ SV st' /\ not_before st'
          /\ match na with
             | Some e => skip e = false /\ [] ++ rem_hunks hs = sk ++ e :: rem st'
             | None => st' = SDone /\ [] ++ rem_hunks hs = sk
             end).
      { intros Hx. destruct (IH last acc (merr + 1) Hex') as (sk & na & st' & last' & merr' & E & R).
        exists sk, na, st', last', merr'. split; [|exact R].
        eapply evals_trans; [|exact E]. cbn [hunks_loop]. apply ev_read; [exact I|].
        rewrite reply_read, nid, G. destruct x as [[|hv|t|es|c']| |]; try apply ev_refl.
        exfalso. apply (Hx es). reflexivity. }
      unfold hunk_content. rewrite G.
      destruct x as [[|hv|t|es|c']| |]; try (apply Hbad; intros es' E'; discriminate E').
      assert (Estep : evals (hunks_loop keep_all skip n (h :: hs) None last acc merr (after_band n (below keep_all skip n)))
                (match phstep (Some es) None with
                 | (None, after') => hunks_loop keep_all skip n hs after' last acc merr (after_band n (below keep_all skip n))
                 | (Some out, after') =>
                     match scan_buf keep_all skip out acc with
                     | (acc', Some (e, buf')) => Ret (acc', Some e, SInBand n hs buf' after', pnlast out last, merr)
                     | (acc', None) => hunks_loop keep_all skip n hs after' (pnlast out last) acc' merr (after_band n (below keep_all skip n))
                     end
                 end)).
      { cbn [hunks_loop]. apply ev_read; [exact I|]. rewrite reply_read, nid, G.
        destruct (phstep (Some es) None) as [[out|] after']; [|apply ev_refl].
        destruct (scan_buf keep_all skip out acc) as [acc' [[e buf']|]]; apply ev_refl. }
      cbn [hunk_step] in Estep. destruct es as [|e0 es].
      + destruct (IH last acc merr Hex') as (sk & na & st' & last' & merr' & E & R).
        exists sk, na, st', last', merr'. split; [eapply evals_trans; eassumption | exact R].
      + destruct (scan_buf keep_all skip (e0 :: es) acc) as [acc' o] eqn:Es.
        destruct (scan_buf_spec _ _ _ _ Es) as [pr [-> [Hpr Ho]]].
        destruct o as [[e buf']|].
        * destruct Ho as [Ebuf Se].
          exists pr, (Some e), (SInBand n hs buf' None), (pnlast (e0 :: es) last), merr.
          split; [exact Estep|]. split; [exact Hpr|]. split; [cbn [SV]; auto|]. split; [exact I|].
          split; [exact Se|]. cbn [rem]. rewrite Ebuf, <- app_assoc. reflexivity.
        * destruct (IH (pnlast (e0 :: es) last) (acc ++ pr) merr Hex') as (sk & na & st' & last' & merr' & E & Hsk & HV & HN & R).
          exists (pr ++ sk), na, st', last', merr'. rewrite app_assoc.
          split; [eapply evals_trans; eassumption|]. split; [rewrite forallb_app, Hpr, Hsk; reflexivity|].
          split; [exact HV|]. split; [exact HN|]. rewrite Ho.
          destruct na as [e|]; [destruct R as [Se R]; split; [exact Se|]; rewrite R, app_assoc; reflexivity
                               | destruct R as [-> R]; split; [reflexivity|]; rewrite R; reflexivity].
  Qed.

  Lemma band_entries_listed : band_entries a0 b = rem_hunks (listed_hunks pre a0 b).
  Proof. unfold band_entries, rem_hunks. rewrite (listed_hunks_eq pre a0 WF). reflexivity. Qed.

  (** one call of Stitch::next on the basis, with the caller's [skip] *)
  Theorem snext_spec st last merr :
    SV st -> (not_before st \/ last = None) ->
    exists sk na st' last' merr',
      evals (snext keep_all skip st last merr) (Ret (sk, na, st', last', merr'))
      /\ forallb skip sk = true /\ SV st' /\ not_before st'
      /\ match na with
         | Some e => skip e = false /\ rem st = sk ++ e :: rem st'
         | None => st' = SDone /\ rem st = sk
         end.
  Proof.
    intros HV HL. destruct st as [|m|m hs buf after|m]; cbn [SV] in HV; [| | |contradiction].
    - exists [], None, SDone, last, merr. split; [apply ev_refl|]. cbn. auto.
    - subst m. destruct HL as [[]| ->]. cbn [snext rem]. rewrite band_entries_listed.
      destruct Hcomp as [Ho _]. unfold head_opens in Ho.
      destruct (get a0 (PHead b)) as [x|] eqn:G; [|discriminate].
      destruct (head_status (RData x)) eqn:Hs; try discriminate.
      unfold listed_hunks. destruct (has_dir a0 (DIndex b)) eqn:Hi.
      + destruct (hunks_loop_spec
                    (flat_map (fun s => hunk_numbers (children_files pre a0 (DHunkSub b s))) (subdir_numbers (children_dirs a0 (DIndex b))))
                    None []
                    (let count := match snd (exec_ok pre a0 (OpRead (PTail b))) with RData (Good (PlTail c')) => c' | _ => None end in
                     let hs := flat_map (fun s => hunk_numbers (children_files pre a0 (DHunkSub b s))) (subdir_numbers (children_dirs a0 (DIndex b))) in
                     if negb (consecutive hs 0) || match count with Some c' => negb (N.eqb c' (N.of_nat (length hs))) | None => false end
                     then merr + 1 else merr))
          as (sk & na & st' & last' & merr' & E & R).
        { intros h Hh. apply (listed_hunks_exist pre a0 b). unfold listed_hunks. rewrite Hi. exact Hh. }
        exists sk, na, st', last', merr'. split; [|exact R].
        unfold open_band. apply ev_read; [exact I|]. rewrite reply_read, nid, G, Hs.
        apply ev_read; [exact I|]. rewrite reply_list, Hi.
        eapply evals_trans; [apply list_subdirs_refines; intros s Hs'; apply subdir_listed; exact Hs'|].
        apply ev_read; [exact I|]. cbn [app]. exact E.
      + exists [], None, SDone, None, (merr + 1). split; [|cbn; auto].
        unfold open_band. apply ev_read; [exact I|]. rewrite reply_read, nid, G, Hs.
        apply ev_read; [exact I|]. rewrite reply_list, Hi. apply closed_after.
    - destruct HV as (-> & -> & Hex). cbn [snext rem].
      destruct (scan_buf keep_all skip buf []) as [acc o] eqn:Es.
      destruct (scan_buf_spec _ _ _ _ Es) as [pr [-> [Hpr Ho]]]. cbn [app].
      destruct o as [[e buf']|].
      + destruct Ho as [-> Se]. exists pr, (Some e), (SInBand n hs buf' None), last, merr.
        split; [apply ev_refl|]. split; [exact Hpr|]. split; [cbn [SV]; auto|]. split; [exact I|].
        split; [exact Se|]. cbn [rem]. rewrite <- app_assoc. reflexivity.
      + subst buf. destruct (hunks_loop_spec hs last pr merr Hex) as (sk & na & st' & last' & merr' & E & Hsk & HV' & HN & R).
        exists (pr ++ sk), na, st', last', merr'. split; [exact E|].
        split; [rewrite forallb_app, Hpr, Hsk; reflexivity|]. split; [exact HV'|]. split; [exact HN|].
        destruct na as [e|]; [destruct R as [Se R]; split; [exact Se|]; rewrite R, app_assoc; reflexivity
                             | destruct R as [-> R]; split; [reflexivity|]; rewrite R; reflexivity].
  Qed.

  (* every such call reads band [b] only *)
  Lemma snext_low_SV keep st last merr : SV st -> emits_only (low_op b) (snext keep skip st last merr).
  Proof.
    intros HV. assert (Hn : N.of_nat n <= b) by (rewrite nid; lia).
    destruct st as [|m|m hs buf after|m]; cbn [SV] in HV; [constructor | | |contradiction].
    - subst m. apply snext_low. exact Hn.
    - destruct HV as [-> _]. unfold snext. destruct (scan_buf keep skip buf []) as [acc [[e buf']|]]; [constructor|].
      apply hunks_loop_low; [exact Hn|]. intros l x m'. apply after_band_low; [exact Hn|]. apply below_low. lia.
  Qed.
End LazyReader.

Lemma SS_app_r {A} (R : A -> A -> Prop) l1 l2 : StronglySorted R (l1 ++ l2) -> StronglySorted R l2.
Proof.
  induction l1 as [|x l1 IH]; cbn [app]; [auto|]. intros H. inversion H; subst. auto.
Qed.

Lemma meta_from_apath owner s : e_apath (meta_from owner s) = s_apath s.
Proof. unfold meta_from. destruct (enc_time_floor (s_mtime s)). reflexivity. Qed.
Lemma meta_from_kind owner s : e_kind (meta_from owner s) = s_kind s.
Proof. unfold meta_from. destruct (enc_time_floor (s_mtime s)). reflexivity. Qed.

Section Unchanged.
  Variable pre : bytes -> N.
  Variable c : cfg.
  Variables (a0 : arch) (b : N).
  Hypothesis WF : WFidx a0.
  Hypothesis Hcomp : complete a0 b.

  Notation B0 := (band_entries a0 b).
  Notation spath := (fun it : sitem => s_apath (si_e it)).
  Notation SV := (SV a0 b).
  Notation rem := (rem a0 b).

  (* a file entry written by this backup carries the addresses the basis recorded *)
  Definition GoodE (e : entry) : Prop :=
    e_kind e = KFile -> exists eb, In eb B0 /\ e_apath eb = e_apath e /\ e_addrs e = e_addrs eb.

  Definition okop (o : op) : Prop :=
    ~ is_block_write o
    /\ match o with OpWrite (PHunk _ _) (PlHunk es) _ => Forall GoodE es | _ => True end.
  Definition OkPre (_ : arch) (o : op) : Prop := okop o.

  Lemma OkPre_read a o : reads_only o -> OkPre a o.
  Proof. destruct o; cbn; try tauto; intros _; split; auto. Qed.

  Notation wpn := (wpn pre OkPre).

  (* the writer state while nothing has to be stored *)
  Definition WI (a : arch) (w : wst) : Prop :=
    Frame b a0 a /\ b < w_band w /\ w_queue w = [] /\ w_fin w = [] /\ Forall GoodE (w_entries w)
    /\ (forall e, In e B0 -> blocks_present w e = true).
  Definition WIQ {A} (rw : A * wst) (a : arch) : Prop := WI a (snd rw).

  Lemma exec_ok_high_frame a o : high_op b o -> Frame b a0 a -> Frame b a0 (fst (exec_ok pre a o)).
  Proof. intros Ho FR. apply (exec_high_frame pre b a0 a o NoFault Ho FR). Qed.

  Lemma finish_hunk_wpn w a : WI a w -> wpn WIQ (finish_hunk w) a.
  Proof.
    intros HW. pose proof HW as (FR & Hb & Hq & Hf & HG & HB).
    unfold finish_hunk. destruct (w_entries w) as [|e0 es] eqn:Ee; [exact HW|].
    assert (Hw : forall a1, Frame b a0 a1 ->
      wpn WIQ (Do (OpWrite (PHunk (w_band w) (w_seq w)) (PlHunk (sort_entries (e0 :: es))) CreateNew)
                (fun r => if is_ok r then Ret (true, upd_index w [] (w_seq w + 1) (w_hunks w + 1)) else Ret (false, w))) a1).
    { intros a1 FR1. cbn [FrameP.wpn]. split.
      - split; [intros []|]. eapply Permutation_Forall; [apply Permutation_sym, sort_entries_perm | exact HG].
      - assert (FR2 := exec_ok_high_frame a1 (OpWrite (PHunk (w_band w) (w_seq w)) (PlHunk (sort_entries (e0 :: es))) CreateNew) Hb FR1).
        destruct (is_ok _); cbn [FrameP.wpn]; unfold WIQ, WI; cbn [snd upd_index w_band w_queue w_fin w_entries];
          (split; [exact FR2|]); [|rewrite Ee]; repeat split; auto. }
    destruct (w_seq w mod HUNKS_PER_SUBDIR =? 0); [|apply Hw; exact FR].
    cbn [FrameP.wpn]. split; [split; [intros []|exact I]|].
    assert (FR1 := exec_ok_high_frame a (OpMkdir (DHunkSub (w_band w) (w_seq w / HUNKS_PER_SUBDIR))) Hb FR).
    destruct (is_ok _); [apply Hw; exact FR1|].
    cbn [FrameP.wpn]. unfold WIQ, WI. cbn [snd]. rewrite Ee. split; [exact FR1|]. repeat split; auto.
  Qed.

  Lemma flush_group_wpn w a : WI a w -> wpn WIQ (flush_group pre w) a.
  Proof.
    intros HW. pose proof HW as (FR & Hb & Hq & Hf & HG & HB).
    unfold flush_group, comb_flush. rewrite Hq. cbn [bind].
    apply finish_hunk_wpn. unfold WI. cbn [upd_comb upd_index w_band w_queue w_fin w_entries].
    rewrite Hf, app_nil_r. split; [exact FR|]. repeat split; auto.
  Qed.

  Lemma WI_counts a w x y z : WI a w -> WI a (upd_counts w x y z).
  Proof. intros H. exact H. Qed.

  Lemma WI_push a w e : WI a w -> GoodE e -> WI a (push_entry w e).
  Proof.
    intros (FR & Hb & Hq & Hf & HG & HB) He. unfold WI. cbn [push_entry upd_index w_band w_queue w_fin w_entries].
    split; [exact FR|]. repeat split; auto. apply Forall_app. split; [exact HG | constructor; [exact He | constructor]].
  Qed.

  Lemma copy_entry_ret w0 basis it :
    (s_kind (si_e it) = KFile ->
       exists e, basis = Some e /\ same_file (si_e it) e = true /\ blocks_present w0 e = true
                 /\ In e B0 /\ e_apath e = s_apath (si_e it)) ->
    exists w1, copy_entry pre c w0 basis it = Ret (true, w1)
               /\ (w1 = w0 \/ exists e', w1 = push_entry w0 e' /\ GoodE e').
  Proof.
    intros Hfile. unfold copy_entry. destruct (s_kind (si_e it)) eqn:Ek.
    - destruct (Hfile eq_refl) as (e & -> & Hs & Hbp & Hin & Hap).
      change (unchanged w0 (si_e it) e) with (same_file (si_e it) e). rewrite Hs, Hbp. cbn [andb].
      eexists. split; [reflexivity|]. right. eexists. split; [reflexivity|].
      intros _. exists e. split; [exact Hin|]. split; [|reflexivity].
      cbn [with_addrs e_apath]. rewrite meta_from_apath. exact Hap.
    - eexists. split; [reflexivity|]. right. eexists. split; [reflexivity|].
      intros Hk. rewrite meta_from_kind, Ek in Hk. discriminate.
    - eexists. split; [reflexivity|]. right. eexists. split; [reflexivity|].
      intros Hk. rewrite meta_from_kind, Ek in Hk. discriminate.
    - eexists. split; [reflexivity|]. left. reflexivity.
  Qed.

  (* one call of the basis reader, in a later state of the backup *)
  Lemma snext_call a skip st last merr (Q : sres -> arch -> Prop) :
    Frame b a0 a -> SV st -> (not_before st \/ last = None) ->
    (forall sk na st' last' merr',
        forallb skip sk = true -> SV st' -> not_before st' ->
        match na with
        | Some e => skip e = false /\ rem st = sk ++ e :: rem st'
        | None => st' = SDone /\ rem st = sk
        end -> Q (sk, na, st', last', merr') a) ->
    wpn Q (snext keep_all skip st last merr) a.
  Proof.
    intros FR HV HL HQ.
    destruct (snext_spec pre a0 b WF Hcomp skip st last merr HV HL) as (sk & na & st' & last' & merr' & E & H1 & H2 & H3 & H4).
    destruct (evals_run_ret pre a0 _ _ E) as [tr Hr].
    apply wpn_reads_run; [apply OkPre_read | apply snext_eo; auto|].
    intros r Hrun.
    destruct (low_run pre b a0 a FR _ (snext_low_SV a0 b skip keep_all st last merr HV) []) as [_ Eo].
    rewrite Eo, Hr in Hrun. cbn [snd] in Hrun. inversion Hrun; subst r. apply HQ; assumption.
  Qed.

  Definition beforeb (p : str) (e : entry) : bool := match apath_cmp (e_apath e) p with Lt => true | _ => false end.

  Lemma beforeb_true p e : beforeb p e = true <-> apath_cmp (e_apath e) p = Lt.
  Proof. unfold beforeb. destruct (apath_cmp (e_apath e) p); split; congruence. Qed.

  Definition Match (B : list entry) (it : sitem) : Prop :=
    s_kind (si_e it) = KFile ->
    exists e, In e B /\ e_apath e = s_apath (si_e it) /\ same_file (si_e it) e = true.

  (* entries before [p] cannot be the match of an item at or after [p] *)
  Lemma match_shift sk B1 p it :
    (forall e, In e sk -> apath_cmp (e_apath e) p = Lt) ->
    apath_cmp p (spath it) <> Gt ->
    Match (sk ++ B1) it -> Match B1 it.
  Proof.
    intros Hsk Hle HM Hk. destruct (HM Hk) as (e & Hin & Hap & Hs). exists e. split; [|auto].
    apply in_app_or in Hin. destruct Hin as [Hin|Hin]; [|exact Hin]. exfalso.
    pose proof (Hsk e Hin) as Hlt. rewrite Hap in Hlt.
    pose proof (co_lt_le_trans apath_cmp apath_order _ _ _ Hlt Hle) as Hbad.
    apply (co_lt_irrefl apath_cmp apath_order _ Hbad).
  Qed.

  Lemma sorted_head_min (e : entry) l x :
    asorted (map e_apath (e :: l)) -> In x l -> apath_cmp (e_apath e) (e_apath x) = Lt.
  Proof.
    cbn [map]. intros H Hx. inversion H as [|? ? _ F]; subst. rewrite Forall_forall in F.
    apply F. apply in_map. exact Hx.
  Qed.

  Lemma merge_loop_wpn src : forall peek st last w a,
    WI a w -> SV st -> (not_before st \/ (last = None /\ peek = None)) ->
    (forall e, In e (opt_list peek ++ rem st) -> In e B0) ->
    asorted (map e_apath (opt_list peek ++ rem st)) ->
    asorted (map spath src) ->
    (forall it, In it src -> Match (opt_list peek ++ rem st) it) ->
    wpn QT' (merge_loop pre c src peek st last w) a.
  Proof.
    induction src as [|it src IH]; intros peek st last w a HW HV HL Hsub Hsort Hsrc Hmatch; cbn [merge_loop].
    - eapply wpn_bind;
        [|apply (wpn_reads_run pre OkPre OkPre_read (fun _ a' => a' = a)); [apply snext_eo; auto | reflexivity]].
      intros [[[[skipped na] st'] last'] merr] a' ->.
      eapply wpn_bind; [|apply flush_group_wpn; apply WI_counts; exact HW].
      intros [ok w2] a2 _. destruct ok; [|exact I].
      cbn [FrameP.wpn]. split; [split; [intros [] | exact I]|]. destruct (is_ok _); exact I.
    - set (p := s_apath (si_e it)).
      assert (Hp_le : forall it', In it' (it :: src) -> apath_cmp p (spath it') <> Gt).
      { intros it' [<-|Hin]; [unfold p; rewrite (co_refl apath_cmp apath_order); discriminate|].
        cbn [map] in Hsrc. inversion Hsrc as [|? ? _ F]; subst. rewrite Forall_forall in F.
        fold p in F. rewrite (F (spath it') (in_map spath _ _ Hin)). discriminate. }
      assert (Hsrc' : asorted (map spath src)) by (cbn [map] in Hsrc; inversion Hsrc; assumption).
      (* the continuation after the basis has been advanced to the first entry not before p *)
      assert (Hk : forall (skipped : list entry) na st' last' merr,
        SV st' -> not_before st' -> (na = None -> st' = SDone) ->
        (forall e, In e (opt_list na ++ rem st') -> In e B0) ->
        asorted (map e_apath (opt_list na ++ rem st')) ->
        match na with Some e => beforeb p e = false | None => True end ->
        (forall it', In it' (it :: src) -> Match (opt_list na ++ rem st') it') ->
        wpn QT'
          (let w0 := upd_counts w (w_errors w) merr (w_deleted w + N.of_nat (length skipped)) in
           let '(basis, na') :=
             match na with
             | Some e => match apath_cmp (e_apath e) (s_apath (si_e it)) with
                         | Eq => (Some e, None) | _ => (None, na) end
             | None => (None, None)
             end in
           bind (copy_entry pre c w0 basis it) (fun rw =>
             let '(ok, w1) := rw in
             let w2 := if ok then w1 else upd_counts w1 (w_errors w1 + 1) (w_merr w1 + 1) (w_deleted w1) in
             if ok && (c_meph c <=? N.of_nat (length (w_entries w2)) + N.of_nat (length (w_queue w2))) then
               bind (flush_group pre w2) (fun rw2 =>
                 let '(ok2, w3) := rw2 in
                 if ok2 then merge_loop pre c src na' st' last' w3 else Ret (fail w3))
             else merge_loop pre c src na' st' last' w2)) a).
      { intros skipped na st' last' merr HV' HN' Hnone Hsub' Hsort' Hnb Hm'. cbv zeta.
        set (w0 := upd_counts w (w_errors w) merr (w_deleted w + N.of_nat (length skipped))).
        assert (HW0 : WI a w0) by (apply WI_counts; exact HW).
        (* a file item finds its basis entry at the head *)
        assert (Hfile : s_kind (si_e it) = KFile ->
                  exists e, na = Some e /\ apath_cmp (e_apath e) p = Eq /\ same_file (si_e it) e = true /\ In e B0).
        { intros Hk'. destruct (Hm' it (or_introl eq_refl) Hk') as (ep & Hin & Hap & Hs).
          destruct na as [e|]; [|rewrite (Hnone eq_refl) in Hin; destruct Hin].
          exists e. split; [reflexivity|]. cbn [opt_list app] in Hin, Hsort'. destruct Hin as [<-|Hin].
          - split; [fold p in Hap; rewrite Hap; apply (co_refl apath_cmp apath_order)|].
            split; [exact Hs | apply Hsub'; left; reflexivity].
          - exfalso. pose proof (sorted_head_min e _ ep Hsort' Hin) as Hlt. fold p in Hap. rewrite Hap in Hlt.
            apply beforeb_true in Hlt. congruence. }
        (* the next state of the basis and what remains for the later items *)
        assert (Hnext : forall basis na',
          (basis, na') = match na with
                         | Some e => match apath_cmp (e_apath e) p with Eq => (Some e, None) | _ => (None, na) end
                         | None => (None, None)
                         end ->
          (s_kind (si_e it) = KFile ->
             exists e, basis = Some e /\ same_file (si_e it) e = true /\ blocks_present w0 e = true
                       /\ In e B0 /\ e_apath e = s_apath (si_e it))
          /\ (forall e, In e (opt_list na' ++ rem st') -> In e B0)
          /\ asorted (map e_apath (opt_list na' ++ rem st'))
          /\ (forall it', In it' src -> Match (opt_list na' ++ rem st') it')).
        { intros basis na' Eb.
          assert (Hlater : forall it', In it' src -> apath_cmp p (spath it') = Lt).
          { intros it' Hin. cbn [map] in Hsrc. inversion Hsrc as [|? ? _ F]; subst. rewrite Forall_forall in F.
            apply (F (spath it') (in_map spath _ _ Hin)). }
          destruct na as [e|].
          - destruct (apath_cmp (e_apath e) p) eqn:Ec; inversion Eb; subst basis na'.
            + (* the entry at p is consumed *)
              apply (co_eq apath_cmp apath_order) in Ec.
              split; [|split; [|split]].
              * intros Hk'. destruct (Hfile Hk') as (e' & E' & _ & Hs & Hin). inversion E'; subst e'.
                exists e. repeat split; auto. apply (proj2 (proj2 (proj2 (proj2 (proj2 HW0))))). exact Hin.
              * intros x Hx. apply Hsub'. right. exact Hx.
              * cbn [opt_list app map] in Hsort' |- *. inversion Hsort'; assumption.
              * intros it' Hin' Hk'. destruct (Hm' it' (or_intror Hin') Hk') as (x & Hx & Hap & Hs).
                exists x. split; [|auto]. cbn [opt_list app] in Hx. destruct Hx as [<-|Hx]; [|exact Hx].
                exfalso. pose proof (Hlater it' Hin') as Hlt. cbv beta in Hlt, Hap. rewrite <- Hap, Ec in Hlt.
                apply (co_lt_irrefl apath_cmp apath_order _ Hlt).
            + cbn [beforeb] in Hnb. unfold beforeb in Hnb. rewrite Ec in Hnb. discriminate.
            + split; [|split; [|split]]; auto.
              * intros Hk'. destruct (Hfile Hk') as (e' & E' & Ec' & _). inversion E'; subst e'. congruence.
              * intros it' Hin'. apply Hm'. right. exact Hin'.
          - inversion Eb; subst basis na'. split; [|split; [|split]]; auto.
            + intros Hk'. destruct (Hfile Hk') as (e' & E' & _). discriminate E'.
            + intros it' Hin'. apply Hm'. right. exact Hin'. }
        fold p.
        destruct (match na with
                  | Some e => match apath_cmp (e_apath e) p with Eq => (Some e, None) | _ => (None, na) end
                  | None => (None, None)
                  end) as [basis na'] eqn:Eb.
        destruct (Hnext basis na' eq_refl) as (Hf & Hsub2 & Hsort2 & Hm2).
        destruct (copy_entry_ret w0 basis it Hf) as (w1 & Ecopy & Hw1).
        rewrite Ecopy. cbn [bind andb].
        assert (HW1 : WI a w1) by (destruct Hw1 as [->|(e' & -> & He')]; [exact HW0 | apply WI_push; assumption]).
        destruct (c_meph c <=? N.of_nat (length (w_entries w1)) + N.of_nat (length (w_queue w1))).
        - eapply wpn_bind; [|apply flush_group_wpn; exact HW1].
          intros [ok2 w3] a3 HW3. unfold WIQ in HW3. cbn [snd] in HW3.
          destruct ok2; [|exact I]. apply IH; auto.
        - apply IH; auto. }
      (* advancing the basis *)
      assert (Hadv : forall (e0s : list entry) lst,
        (forall e, In e e0s -> beforeb p e = true) ->
        (forall e, In e (e0s ++ rem st) -> In e B0) ->
        asorted (map e_apath (e0s ++ rem st)) ->
        (forall it', In it' (it :: src) -> Match (e0s ++ rem st) it') ->
        (not_before st \/ lst = None) ->
        wpn QT'
          (bind (snext keep_all (beforeb p) st lst (w_merr w)) (fun r =>
             let '(skipped, na, st', last', merr) := r in
             (fun (skipped : list entry) na st' last' merr =>
               let w0 := upd_counts w (w_errors w) merr (w_deleted w + N.of_nat (length skipped)) in
               let '(basis, na') :=
                 match na with
                 | Some e => match apath_cmp (e_apath e) (s_apath (si_e it)) with
                             | Eq => (Some e, None) | _ => (None, na) end
                 | None => (None, None)
                 end in
               bind (copy_entry pre c w0 basis it) (fun rw =>
                 let '(ok, w1) := rw in
                 let w2 := if ok then w1 else upd_counts w1 (w_errors w1 + 1) (w_merr w1 + 1) (w_deleted w1) in
                 if ok && (c_meph c <=? N.of_nat (length (w_entries w2)) + N.of_nat (length (w_queue w2))) then
                   bind (flush_group pre w2) (fun rw2 =>
                     let '(ok2, w3) := rw2 in
                     if ok2 then merge_loop pre c src na' st' last' w3 else Ret (fail w3))
                 else merge_loop pre c src na' st' last' w2)) (e0s ++ skipped) na st' last' merr)) a).
      { intros e0s lst He0 Hsub0 Hsort0 Hm0 HL0.
        eapply wpn_bind; [|apply (snext_call a (beforeb p) st lst (w_merr w)
                                   (fun r a' => a' = a /\
                                      let '(sk, na, st', _, _) := r in
                                      forallb (beforeb p) sk = true /\ SV st' /\ not_before st' /\
                                      match na with
                                      | Some e => beforeb p e = false /\ rem st = sk ++ e :: rem st'
                                      | None => st' = SDone /\ rem st = sk
                                      end) (proj1 HW) HV HL0); intros; auto].
        intros [[[[sk na] st'] last'] merr] a' [-> (Hsk & HV' & HN' & Hrem)].
        assert (Hrem' : rem st = sk ++ opt_list na ++ rem st' /\ (na = None -> st' = SDone)
                        /\ match na with Some e => beforeb p e = false | None => True end).
        { destruct na as [e|]; [destruct Hrem as [Hb ->]; cbn [opt_list app]; repeat split; auto; discriminate|].
          destruct Hrem as [-> ->]. cbn [opt_list rem app]. rewrite app_nil_r. auto. }
        destruct Hrem' as (Er & Hnone & Hnb).
        assert (Hsk' : forall e, In e (e0s ++ sk) -> apath_cmp (e_apath e) p = Lt).
        { intros e Hin. apply beforeb_true. apply in_app_or in Hin. destruct Hin as [Hin|Hin]; [apply He0; exact Hin|].
          rewrite forallb_forall in Hsk. apply Hsk. exact Hin. }
        rewrite Er, app_assoc in Hsub0, Hsort0, Hm0.
        apply Hk; auto.
        - intros e Hin. apply Hsub0. apply in_or_app. right. exact Hin.
        - rewrite map_app in Hsort0. apply SS_app_r in Hsort0. exact Hsort0.
        - intros it' Hin'. eapply match_shift; [exact Hsk' | apply Hp_le; exact Hin' | apply Hm0; exact Hin']. }
      destruct peek as [e0|].
      + assert (HNB : not_before st) by (destruct HL as [H|[_ H]]; [exact H | discriminate H]).
        fold p. fold (beforeb p). fold (beforeb p e0). destruct (beforeb p e0) eqn:Eb0.
        * apply (Hadv [e0] last);
            [intros e [<-|[]]; exact Eb0 | exact Hsub | exact Hsort
            | intros it' Hin'; apply Hmatch; exact Hin' | left; exact HNB].
        * apply (Hk [] (Some e0) st last (w_merr w));
            [exact HV | exact HNB | discriminate | exact Hsub | exact Hsort | exact Eb0
            | intros it' Hin'; apply Hmatch; exact Hin'].
      + fold p. fold (beforeb p).
        apply (Hadv [] last);
          [intros e [] | exact Hsub | exact Hsort | intros it' Hin'; apply Hmatch; exact Hin'
          | destruct HL as [HL|[HL _]]; auto].
  Qed.

  (* ---- the whole backup ---- *)
  Hypothesis HI : AInv a0.
  Hypothesis BD : BlocksInDirs pre a0.
  Hypothesis Hnewest : has_dir a0 (DBand b) = true /\ forall b', has_dir a0 (DBand b') = true -> b' <= b.
  Hypothesis Bsorted : asorted (map e_apath B0).

  Lemma wpn_read {R} (Q : R -> arch -> Prop) o (k : reply -> prog R) a :
    reads_only o -> wpn Q (k (snd (exec_ok pre a o))) a -> wpn Q (Do o k) a.
  Proof.
    intros Ho H. cbn [FrameP.wpn]. split; [apply OkPre_read; exact Ho|].
    rewrite (exec_ok_read_same pre a o Ho). exact H.
  Qed.

  Lemma list_blocks_wpn subs : forall acc failed k a,
    wpn QT' (k None) a ->
    (failed = false -> forall ex,
       (forall c', block_ok a c' -> In c' acc \/ In (pre c') subs -> In c' ex) -> wpn QT' (k (Some ex)) a) ->
    wpn QT' (list_blocks subs acc failed k) a.
  Proof.
    induction subs as [|s subs IH]; intros acc failed k a HN HS; cbn [list_blocks].
    - destruct failed; [exact HN|]. apply HS; [reflexivity|]. intros c' _ [H|[]]. exact H.
    - apply wpn_read; [exact I|].
      destruct (snd (exec_ok pre a (OpList (DBlockSub s)))) as [| | |ds fs|] eqn:Er;
        try (apply IH; [exact HN | discriminate]).
      apply IH; [exact HN|]. intros Hf ex Hex. apply HS; [exact Hf|].
      intros c' Hc [H|[E|H]]; [| subst s |]; apply Hex; auto.
      + left. apply in_or_app. left. exact H.
      + left. apply in_or_app. right.
        pose proof (exec_read_reply pre a (OpList (DBlockSub (pre c'))) NoFault I) as Hr.
        cbn [exec] in Hr. rewrite Er in Hr. cbn [reply_ok] in Hr. subst fs. apply block_ok_listed. exact Hc.
  Qed.

  Lemma fold_max_le l : forall x m, x <= m -> (forall y, In y l -> y <= m) -> fold_left N.max l x <= m.
  Proof.
    induction l as [|z l IH]; intros x m Hx Hl; cbn [fold_left]; [exact Hx|].
    apply IH; [pose proof (Hl z (or_introl eq_refl)); lia | intros y Hy; apply Hl; right; exact Hy].
  Qed.

  Lemma max_id_newest l m : In m l -> (forall y, In y l -> y <= m) -> max_id l = Some m.
  Proof.
    intros Hin Hle. destruct (max_id_ge l m Hin) as [m' [E Hm']]. rewrite E. f_equal.
    destruct l as [|x l]; [destruct Hin|]. cbn [max_id] in E. inversion E; subst m'.
    pose proof (fold_max_le l x m (Hle x (or_introl eq_refl)) (fun y Hy => Hle y (or_intror Hy))). lia.
  Qed.

  Lemma band_entries_ok e : In e B0 -> entry_ok a0 e.
  Proof.
    unfold band_entries, hunks_entries. intros Hin. apply in_concat in Hin. destruct Hin as [l [Hl He]].
    apply in_map_iff in Hl. destruct Hl as [o [<- Ho]]. apply in_map_iff in Ho. destruct Ho as [h [<- _]].
    unfold hunk_content in He. destruct (get a0 (PHunk b h)) as [[[|hv|t|es|c']| |]|] eqn:G; try destruct He.
    pose proof (proj1 HI _ _ _ G) as Hes. rewrite Forall_forall in Hes. apply Hes. exact He.
  Qed.

  Theorem backup_unchanged_wpn src :
    asorted (map spath src) -> (forall it, In it src -> Match B0 it) ->
    wpn QT' (backup_prog pre c src) a0.
  Proof.
    intros Hsrc Hmatch. destruct Hnewest as [Hbd Hmax].
    unfold backup_prog, open_archive.
    apply wpn_read; [exact I|].
    destruct (snd (exec_ok pre a0 (OpRead PHeader))) as [| |[[| | | |]| |]| |]; try exact I.
    apply wpn_read; [exact I|].
    destruct (snd (exec_ok pre a0 (OpMeta PLock))) as [|[| | |]| | |]; try exact I.
    apply wpn_read; [exact I|]. rewrite reply_list.
    destruct (has_dir a0 DRoot) eqn:Hroot; [|exact I].
    apply wpn_read; [exact I|]. rewrite reply_list, Hroot.
    assert (Hmaxid : max_id (band_ids (children_dirs a0 DRoot)) = Some b).
    { apply max_id_newest; [apply root_band_ids; exact Hbd|]. intros y Hy. apply Hmax. apply root_band_ids. exact Hy. }
    rewrite Hmaxid. cbv zeta. set (id := b + 1).
    assert (Hid : b < id) by (unfold id; lia).
    assert (HJ0 : PJ a0 a0) by (split; [auto | apply Old_refl]).
    assert (FR0 : Frame b a0 a0) by apply Frame_refl.
    revert HJ0 FR0. generalize a0 at 2 4 5 as a. intros a HJ FR.
    cbn [FrameP.wpn]. split; [split; [intros []|exact I]|].
    pose proof (PJ_step pre a0 a (OpMkdir (DBand id)) NoFault I (fun x => x) HJ) as HJ1.
    pose proof (exec_ok_high_frame a (OpMkdir (DBand id)) Hid FR) as FR1.
    cbn [exec] in HJ1. set (a1 := fst (exec_ok pre a (OpMkdir (DBand id)))) in *.
    destruct (is_ok _); [|exact I].
    cbn [FrameP.wpn]. split; [split; [intros []|exact I]|].
    pose proof (PJ_step pre a0 a1 (OpMkdir (DIndex id)) NoFault I (fun x => x) HJ1) as HJ2.
    pose proof (exec_ok_high_frame a1 (OpMkdir (DIndex id)) Hid FR1) as FR2.
    cbn [exec] in HJ2. set (a2 := fst (exec_ok pre a1 (OpMkdir (DIndex id)))) in *.
    destruct (is_ok _); [|exact I].
    cbn [FrameP.wpn]. split; [split; [intros []|exact I]|].
    pose proof (PJ_step pre a0 a2 (OpWrite (PHead id) (PlHead HvOk) CreateNew) NoFault I (fun x => x) HJ2) as HJ3.
    pose proof (exec_ok_high_frame a2 (OpWrite (PHead id) (PlHead HvOk) CreateNew) Hid FR2) as FR3.
    cbn [exec] in HJ3. set (a3 := fst (exec_ok pre a2 (OpWrite (PHead id) (PlHead HvOk) CreateNew))) in *.
    destruct (is_ok _); [|exact I].
    apply wpn_read; [exact I|].
    destruct (snd (exec_ok pre a3 (OpList DRoot))) as [| | |ds5 fs5|]; try exact I.
    destruct (existsb (fun p => fpath_eqb (fst p) PLock) fs5); [exact I|].
    apply wpn_read; [exact I|]. rewrite reply_list.
    destruct (has_dir a3 DBlocks) eqn:Hbl; [|exact I].
    apply list_blocks_wpn; [exact I|]. intros _ ex Hex.
    destruct HJ3 as [HB HO].
    apply merge_loop_wpn.
    - unfold WI. cbn [w_band w_queue w_fin w_entries]. split; [exact FR3|]. repeat split; auto.
      intros e He. unfold blocks_present. apply forallb_forall. intros ad Had. cbn [w_exists].
      apply In_mem_bytes.
      pose proof (band_entries_ok e He) as Hok. unfold entry_ok in Hok. rewrite Forall_forall in Hok.
      destruct (Hok ad Had) as [Hblk _].
      assert (Hblk3 : block_ok a3 (a_hash ad)) by (eapply block_ok_mono; eassumption).
      apply Hex; [exact Hblk3|]. right.
      assert (Hd : has_dir a3 (DBlockSub (pre (a_hash ad))) = true).
      { apply (proj1 HO). apply has_dir_In. apply BD. unfold block_ok in Hblk. rewrite Hblk. discriminate. }
      unfold block_subdirs. apply in_isort_N. apply in_flat_map.
      exists (DBlockSub (pre (a_hash ad))). split; [|left; reflexivity].
      unfold children_dirs. apply filter_In. split; [apply has_dir_In; exact Hd | reflexivity].
    - cbn [FrameP.SV]. reflexivity.
    - right. split; reflexivity.
    - intros e He. exact He.
    - exact Bsorted.
    - exact Hsrc.
    - intros it Hin. apply Hmatch. exact Hin.
  Qed.

  (** C14, unchanged tree.  Without faults, when the newest band [b] is complete, its index
      is sorted, the archive is well-formed and has referential integrity, and every FILE of
      the (sorted) source is unchanged w.r.t. the entry of [b] with the same apath, the
      backup writes NO block at all, and every file entry of every index hunk it writes
      carries the addresses of the basis entry with the same apath. *)
  Theorem unchanged_tree_no_block_writes src :
    asorted (map spath src) -> (forall it, In it src -> Match B0 it) ->
    Forall (fun x => okop (fst x)) (fst (fst (run pre (backup_prog pre c src) a0 []))).
  Proof.
    intros Hsrc Hmatch. apply Forall_forall. intros [o rep] Hin.
    destruct (In_nth_error _ _ Hin) as [i Hi].
    destruct (wpn_sound pre OkPre QT' _ a0 i o rep (backup_unchanged_wpn src Hsrc Hmatch) Hi) as [ab [_ Hp]].
    exact Hp.
  Qed.
End Unchanged.

(* ------------------------------------------------------------------------- *)
(** * 9. Boolean checkers for the hypotheses, and examples (non-vacuity)      *)
(* ------------------------------------------------------------------------- *)

Fixpoint nodup_dirs_b (l : list dpath) : bool :=
  match l with [] => true | x :: l' => negb (existsb (dpath_eqb x) l') && nodup_dirs_b l' end.

Definition wfidx_b (a : arch) : bool :=
  nodup_dirs_b (dirs a) && filesnd_b a
  && forallb (fun p => match fst p with
                       | PHunk n h => has_dir a (DHunkSub n (h / HUNKS_PER_SUBDIR))
                       | PHead n | PTail n => has_dir a (DBand n)
                       | _ => true
                       end) (files a)
  && forallb (fun d => match d with DHunkSub n _ => has_dir a (DIndex n) | _ => true end) (dirs a).

Definition blocksindirs_b (pre : bytes -> N) (a : arch) : bool :=
  forallb (fun p => match fst p with PBlock c => has_dir a (DBlockSub (pre c)) | _ => true end) (files a).

Lemma nodup_dirs_sound l : nodup_dirs_b l = true -> NoDup l.
Proof.
  induction l as [|x l IH]; cbn [nodup_dirs_b]; [constructor|].
  rewrite andb_true_iff, negb_true_iff. intros [H1 H2]. constructor; [|auto].
  intros Hin. assert (E : existsb (dpath_eqb x) l = true).
  { apply existsb_exists. exists x. split; [exact Hin|]. destruct (dpath_eqb_spec x x); congruence. }
  congruence.
Qed.

Lemma get_In_files (a : arch) f : get a f <> None -> exists c, In (f, c) (files a).
Proof.
  unfold get. destruct (lookup f (files a)) as [c|] eqn:E; [|contradiction]. intros _.
  destruct (lookup_Some_In _ _ _ E) as [g [Hin [-> _]]]. exists c. exact Hin.
Qed.

Lemma wfidx_b_sound a : wfidx_b a = true -> WFidx a.
Proof.
  unfold wfidx_b. rewrite !andb_true_iff, !forallb_forall. intros [[[H1 H2] H3] H4].
  split; [apply nodup_dirs_sound; exact H1|]. split; [apply nodup_paths_sound; exact H2|].
  split; [|split; [|intros n; split]].
  - intros n h G. destruct (get_In_files a _ G) as [c Hin]. exact (H3 _ Hin).
  - intros n s Hd. apply has_dir_In in Hd. exact (H4 _ Hd).
  - intros G. destruct (get_In_files a _ G) as [c Hin]. exact (H3 _ Hin).
  - intros G. destruct (get_In_files a _ G) as [c Hin]. exact (H3 _ Hin).
Qed.

Lemma blocksindirs_b_sound pre a : blocksindirs_b pre a = true -> BlocksInDirs pre a.
Proof.
  unfold blocksindirs_b. rewrite forallb_forall. intros H c G.
  destruct (get_In_files a _ G) as [x Hin]. exact (H _ Hin).
Qed.

Definition newest_b (a : arch) (b : N) : bool :=
  has_dir a (DBand b) && forallb (fun d => match d with DBand b' => b' <=? b | _ => true end) (dirs a).
Lemma newest_b_sound a b :
  newest_b a b = true -> has_dir a (DBand b) = true /\ forall b', has_dir a (DBand b') = true -> b' <= b.
Proof.
  unfold newest_b. rewrite andb_true_iff, forallb_forall. intros [H1 H2]. split; [exact H1|].
  intros b' Hb'. apply has_dir_In in Hb'. apply N.leb_le. exact (H2 _ Hb').
Qed.

Definition match_b (B : list entry) (it : sitem) : bool :=
  match s_kind (si_e it) with
  | KFile => existsb (fun e => str_eqb (e_apath e) (s_apath (si_e it)) && same_file (si_e it) e) B
  | _ => true
  end.
Lemma match_b_sound a0 b src :
  forallb (match_b (band_entries a0 b)) src = true -> forall it, In it src -> Match (band_entries a0 b) it.
Proof.
  rewrite forallb_forall. intros H it Hin Hk. specialize (H it Hin). unfold match_b in H. rewrite Hk in H.
  apply existsb_exists in H. destruct H as [e [He H]]. apply andb_true_iff in H. destruct H as [H1 H2].
  apply str_eqb_eq in H1. exists e. auto.
Qed.

Module FrameExamples.
  Import SafeExamples.

  Definition outcome_of {R} (p : prog R) (a : arch) : outcome R := snd (run ex_pre p a []).
  Definition l_of (o : outcome lres) : list entry := match o with Done r => l_entries r | _ => [] end.

  (* the states after one and two backups are well-formed; band 0 is complete in both *)
  Example ex_wf : wfidx_b ex_a1 = true /\ wfidx_b ex_a2 = true /\ wfidx_b ex_a3 = true
                  /\ blocksindirs_b ex_pre ex_a2 = true.
  Proof. vm_compute. repeat split; reflexivity. Qed.
  Example ex_wfidx_a2 : WFidx ex_a2.
  Proof. apply wfidx_b_sound. vm_compute. reflexivity. Qed.
  Example ex_complete : complete ex_a2 0 /\ complete ex_a3 0 /\ complete ex_a3 1.
  Proof. vm_compute. repeat split; reflexivity. Qed.

  (* the view of band 0: two hunks *)
  Example ex_view_band0 :
    match view ex_a2 0%nat with
    | Some bd => (b_head bd, b_opens bd, b_closed bd, map (fun h => match h with Some es => length es | None => 0%nat end) (b_hunks bd))
    | None => (false, false, false, [])
    end = (true, true, true, [2%nat; 1%nat])
    /\ view ex_a2 1%nat = None
    /\ lview ex_pre ex_a3 1%nat = view ex_a3 1%nat.
  Proof. vm_compute. repeat split; reflexivity. Qed.

  (* REFINEMENT, computed: the program's listing is the pure stitch of the view *)
  Example ex_list_is_stitch :
    outcome_of (list_prog (Specified 0) keep_all) ex_a2
    = Done {| l_ok := true; l_entries := pstitch_keep keep_all (view ex_a2) 0%nat; l_merr := 0 |}
    /\ length (pstitch_keep keep_all (view ex_a2) 0%nat) = 3%nat.
  Proof. vm_compute. split; reflexivity. Qed.

  (* a second backup killed while writing its first index hunk: band 1 is there, opens, is
     not closed, holds a zero-length hunk; listing it stitches into band 0 *)
  Definition ex_crash := final (backup 7) ex_a2 ex_phi_crash.
  Example ex_crash_wf : WFidx ex_crash /\ head_opens ex_crash 1 = true /\ tail_closed ex_crash 1 = false.
  Proof. split; [apply wfidx_b_sound; vm_compute; reflexivity | vm_compute; split; reflexivity]. Qed.
  Example ex_crash_stitch :
    l_of (outcome_of (list_prog (Specified 1) keep_all) ex_crash) = pstitch_keep keep_all (view ex_crash) 1%nat
    /\ pstitch_keep keep_all (view ex_crash) 1%nat = pstitch_keep keep_all (view ex_a2) 0%nat
    /\ (exists tr merr, run ex_pre (list_prog (Specified 1) keep_all) ex_crash []
          = (tr, ex_crash, Done {| l_ok := true; l_entries := pstitch_keep keep_all (view ex_crash) 1%nat; l_merr := merr |})).
  Proof.
    split; [vm_compute; reflexivity|]. split; [vm_compute; reflexivity|].
    apply list_refines; [vm_compute; reflexivity | exact (proj1 ex_crash_wf) | vm_compute; reflexivity].
  Qed.

  (* FRAME and STABILITY: the crash state, the failed run and the completed second backup
     are states of backup runs from ex_a2; band 0 is listed and restored as before *)
  Example ex_states :
    In ex_crash (backup_states ex_pre ex_cfg (ex_src 7) ex_a2 ex_phi_crash)
    /\ In ex_a3 (backup_states ex_pre ex_cfg (ex_src 7) ex_a2 []).
  Proof.
    split; apply in_or_app; right; left; unfold ex_crash, ex_a3, final, backup; reflexivity.
  Qed.

  Example ex_frame_thm : Frame 0 ex_a2 ex_crash /\ Frame 0 ex_a2 ex_a3 /\ SameBand ex_a2 ex_a3 0.
  Proof.
    assert (Hb : has_dir ex_a2 (DBand 0) = true) by (vm_compute; reflexivity).
    split; [exact (backup_states_frame ex_pre ex_cfg (ex_src 7) ex_a2 0 ex_phi_crash _ Hb (proj1 ex_states))|].
    split; [exact (backup_states_frame ex_pre ex_cfg (ex_src 7) ex_a2 0 [] _ Hb (proj2 ex_states))|].
    apply (backup_same_band ex_pre 0 ex_a2 Hb ex_cfg (ex_src 7) []).
  Qed.

  Example ex_frame_not_trivial : ~ Frame 1 ex_a2 ex_a3.
  Proof. intros [H _]. vm_compute in H. discriminate H. Qed.

  Example ex_listing_stable_thm :
    outcome_of (list_prog (Specified 0) keep_all) ex_crash = outcome_of (list_prog (Specified 0) keep_all) ex_a2
    /\ outcome_of (list_prog (Specified 0) keep_all) ex_a3 = outcome_of (list_prog (Specified 0) keep_all) ex_a2.
  Proof.
    assert (Hh : get ex_a2 PHeader = Some (Good PlJson)) by (vm_compute; reflexivity).
    split.
    - exact (proj1 (complete_band_listing_stable ex_pre ex_cfg (ex_src 7) keep_all ex_a2 0 Hh ex_wfidx_a2
                      (proj1 ex_complete) ex_phi_crash _ (proj1 ex_states))).
    - exact (proj1 (complete_band_listing_stable ex_pre ex_cfg (ex_src 7) keep_all ex_a2 0 Hh ex_wfidx_a2
                      (proj1 ex_complete) [] _ (proj2 ex_states))).
  Qed.

  Example ex_listing_stable_computed :
    outcome_of (list_prog (Specified 0) keep_all) ex_a3 = outcome_of (list_prog (Specified 0) keep_all) ex_a2
    /\ l_of (outcome_of (list_prog (Specified 0) keep_all) ex_a3) = band_entries ex_a2 0
    /\ l_of (outcome_of (list_prog (Specified 1) keep_all) ex_a3) <> l_of (outcome_of (list_prog (Specified 0) keep_all) ex_a3).
  Proof. vm_compute. repeat split; try reflexivity. discriminate. Qed.

  Example ex_restore_stable_thm :
    outcome_of (restore_prog (Specified 0) keep_all) ex_crash = outcome_of (restore_prog (Specified 0) keep_all) ex_a2
    /\ outcome_of (restore_prog (Specified 0) keep_all) ex_a3 = outcome_of (restore_prog (Specified 0) keep_all) ex_a2
    /\ (match outcome_of (restore_prog (Specified 0) keep_all) ex_a3 with
        | Done r => map (fun f => match f with RFile e o => (e_apath e, o) end) (r_files r)
        | _ => []
        end) = [([47], Some []); ([47;97], Some [1;2]); ([47;98], Some [1;2;3;4;5;6])].
  Proof.
    assert (HI : AInv ex_a2) by (apply ainv_b_sound; vm_compute; reflexivity).
    assert (Hb : has_dir ex_a2 (DBand 0) = true) by (vm_compute; reflexivity).
    split; [exact (restore_stable ex_pre ex_cfg (ex_src 7) keep_all ex_a2 0 HI Hb ex_phi_crash _ (proj1 ex_states))|].
    split; [exact (restore_stable ex_pre ex_cfg (ex_src 7) keep_all ex_a2 0 HI Hb [] _ (proj2 ex_states))|].
    vm_compute. reflexivity.
  Qed.

  (* LatestClosed: hypotheses hold of ex_a3, the answer is band 1; in the crash state it is
     band 0 (band 1 has no tail) *)
  Example ex_latest :
    has_dir ex_a3 DRoot = true
    /\ forallb (fun d => match d with DBand b => head_opens ex_a3 b | _ => true end) (dirs ex_a3) = true
    /\ l_of (outcome_of (list_prog LatestClosed keep_all) ex_a3) = l_of (outcome_of (list_prog (Specified 1) keep_all) ex_a3)
    /\ l_of (outcome_of (list_prog LatestClosed keep_all) ex_crash) = l_of (outcome_of (list_prog (Specified 0) keep_all) ex_a2).
  Proof. vm_compute. repeat split; reflexivity. Qed.

  (* a band whose head does not open is skipped (since "fix: a leftover band without a
     readable head ..."): with a zero-length BANDHEAD in the newest band, LatestClosed
     resolves to band 0, which is complete *)
  Definition ex_bad_head : arch := {| dirs := dirs ex_a3; files := set_file (PHead 1) Empty (files ex_a3) |}.
  Example ex_latest_skips_unopenable :
    outcome_of (list_prog LatestClosed keep_all) ex_bad_head = outcome_of (list_prog (Specified 0) keep_all) ex_bad_head
    /\ complete ex_bad_head 0.
  Proof. vm_compute. repeat split; reflexivity. Qed.

  (* C14: the second backup writes block [5;7] only; the blocks [1;2], [1;2;3;4] present in
     ex_a2 are not written again; instance of the theorem for the faulty run *)
  Example ex_c14_computed :
    filter (fun x => match fst x with OpWrite (PBlock _) _ _ => true | _ => false end) (trace (backup 7) ex_a2 [])
    = [(OpWrite (PBlock [5;7]) (PlBlock [5;7]) CreateNew, ROk)].
  Proof. vm_compute. reflexivity. Qed.
  Example ex_c14_thm :
    exists ab, state_before ex_pre (backup 7) ex_a2 ex_phi_fail 20 = Some ab /\ ~ block_ok ab [5;7].
  Proof.
    eapply (backup_never_rewrites_present ex_pre ex_cfg (ex_src 7) ex_a2 ex_phi_fail 20);
      [apply blocksindirs_b_sound; vm_compute; reflexivity | vm_compute; reflexivity].
  Qed.

  (* the hypothesis [BlocksInDirs] is needed: a block file outside any listed directory is
     not seen by the listing, and the backup issues a write for it (refused by the store) *)
  Definition ex_stray : arch := {| dirs := dirs ex_a1; files := files ex_a1 ++ [(PBlock [1;2], Good (PlBlock [1;2]))] |}.
  Theorem never_rewrites_without_dirs_refuted :
    exists pre c src a0 phi i c' p m rep ab,
      nth_error (fst (fst (run pre (backup_prog pre c src) a0 phi))) i = Some (OpWrite (PBlock c') p m, rep)
      /\ state_before pre (backup_prog pre c src) a0 phi i = Some ab /\ block_ok ab c'.
  Proof.
    exists ex_pre, ex_cfg, (ex_src 6), ex_stray, [], 10%nat, [1;2], (PlBlock [1;2]), CreateNew, (RErr EAlreadyExists).
    eexists. vm_compute. repeat split; reflexivity.
  Qed.

  (* C14, unchanged tree: backing up the very source that produced ex_a2 again writes no
     block; the hypotheses hold of ex_a2 / band 0 / that source *)
  Example ex_unchanged_hyps :
    newest_b ex_a2 0 = true
    /\ adj_sortedb (map e_apath (band_entries ex_a2 0)) = true
    /\ adj_sortedb (map (fun it => s_apath (si_e it)) (ex_src 6)) = true
    /\ forallb (match_b (band_entries ex_a2 0)) (ex_src 6) = true
    /\ forallb (match_b (band_entries ex_a2 0)) (ex_src 7) = false.
  Proof. vm_compute. repeat split; reflexivity. Qed.

  Example ex_unchanged_thm :
    Forall (fun x => okop ex_a2 0 (fst x)) (trace (backup 6) ex_a2 []).
  Proof.
    apply (unchanged_tree_no_block_writes ex_pre ex_cfg ex_a2 0 ex_wfidx_a2 (proj1 ex_complete)).
    - apply ainv_b_sound. vm_compute. reflexivity.
    - apply blocksindirs_b_sound. vm_compute. reflexivity.
    - apply newest_b_sound. vm_compute. reflexivity.
    - apply adj_sortedb_sound. vm_compute. reflexivity.
    - apply adj_sortedb_sound. vm_compute. reflexivity.
    - apply match_b_sound. vm_compute. reflexivity.
  Qed.

  Example ex_unchanged_computed :
    filter (fun x => match fst x with OpWrite (PBlock _) _ _ => true | _ => false end) (trace (backup 6) ex_a2 []) = []
    /\ length (filter (fun x => match fst x with OpWrite (PHunk _ _) _ _ => true | _ => false end) (trace (backup 6) ex_a2 [])) = 2%nat
    /\ map e_addrs (band_entries (final (backup 6) ex_a2 []) 1) = map e_addrs (band_entries ex_a2 0)
    /\ length (flat_map e_addrs (band_entries ex_a2 0)) = 3%nat.
  Proof. vm_compute. repeat split; reflexivity. Qed.
End FrameExamples.

Print Assumptions snext_refines.
Print Assumptions list_refines_lview.
Print Assumptions lview_eq_view.
Print Assumptions list_refines.
Print Assumptions list_complete_band.
Print Assumptions list_unopenable.
Print Assumptions backup_frame.
Print Assumptions backup_same_band.
Print Assumptions frame_view.
Print Assumptions view_frame.
Print Assumptions low_run.
Print Assumptions listing_stable.
Print Assumptions complete_band_listing_stable.
Print Assumptions restore_char.
Print Assumptions restore_stable.
Print Assumptions complete_band_restore_stable.
Print Assumptions latest_closed_is_newest.
Print Assumptions backup_never_rewrites_present.
Print Assumptions FrameExamples.never_rewrites_without_dirs_refuted.
Print Assumptions snext_spec.
Print Assumptions unchanged_tree_no_block_writes.
