(* C05, second clause: "if the delete is killed at any point, or a storage operation fails,
   every REMAINING version is intact".

   [delete_keeps] (DeleteP.v) speaks of the versions that were NOT named for deletion.
   Here: EVERY band directory that still exists in ANY state of ANY run of [delete_prog]
   -- named for deletion or not -- existed before, has exactly its directories and files,
   and every block it references is unchanged ([delete_remaining_intact]).

   Why it holds: [OpRemoveDirAll (DBand b)] removes a band wholly in one step; delete never
   creates a band; [delete_the_bands] aborts the whole program at the first removal that
   fails (also for an id that names no band, or names the same band twice), so
   [delete_blocks] starts only when ALL named bands are gone.  The run has two phases:
     A  no block has been removed (the lock comes and goes, named bands go one by one);
     B  all named bands are gone; only blocks that no kept band references are removed.
   The invariant is [PhA \/ PhB]; the generic weakest-precondition lemmas of DeleteP.v are
   instantiated with it up to the end of [delete_the_bands], and with [PhB] from
   [delete_blocks] on ([wp_mono] glues the two).

   A seeded change that removes the blocks first breaks the statement
   ([ex_remaining_breaks]: a named band still there with one of its blocks gone). *)
From Coq Require Import Lia List Bool NArith.
From CV Require Import Base.Str Base.StrP Apath Entry Stitch Tree TreeP Codec Store StitchProg Backup Ops Delete Read SafeP DeleteP.
Import ListNotations.
Local Open Scope N_scope.

(* ------------------------------------------------------------------------- *)
(** * 0. Specification                                                        *)
(* ------------------------------------------------------------------------- *)

(* every band directory of [a] was one of [a0], has the same directories and the same
   files with the same content, and every block it referenced in [a0] is unchanged *)
Definition Remaining (a0 a : arch) : Prop :=
  forall b, has_dir a (DBand b) = true ->
    has_dir a0 (DBand b) = true /\
    band_files_same a0 a b /\
    (forall c, referenced_by a0 b c -> get a (PBlock c) = get a0 (PBlock c)).

(* ------------------------------------------------------------------------- *)
(** * 1. [wp] is monotone in the invariant and the postcondition              *)
(* ------------------------------------------------------------------------- *)

Section Mono.
  Variable pre : bytes -> N.
  Context {R : Type}.
  Variable F : fault -> Prop.
  Variables I1 I2 : arch -> Prop.
  Variables Q1 Q2 : arch -> R -> Prop.
  Hypothesis HI : forall a, I1 a -> I2 a.
  Hypothesis HQ : forall a r, Q1 a r -> Q2 a r.

  Lemma wp_mono (p : prog R) : forall a, wp pre F I1 Q1 p a -> wp pre F I2 Q2 p a.
  Proof.
    induction p as [r|o k IH|]; intros a H; cbn [wp] in *.
    - apply HQ, H.
    - destruct H as [H1 H2]. split; [apply HI, H1|]. intros f Hf.
      destruct (H2 f Hf) as [H3 H4]. split; [apply HI, H3 | apply IH, H4].
    - exact I.
  Qed.
End Mono.

(* ------------------------------------------------------------------------- *)
(** * 2. The two-phase invariant                                              *)
(* ------------------------------------------------------------------------- *)

Lemma band_file_not_block b f c : band_file b f -> f <> PBlock c.
Proof. intros [->|[->|[h ->]]]; discriminate. Qed.

Lemma band_file_not_lock b f : band_file b f -> f <> PLock.
Proof. intros [->|[->|[h ->]]]; discriminate. Qed.

Section Rem.
  Variable pre : bytes -> N.
  Variable ids : list N.
  Variable a0 : arch.

  (* every band that is there is an old one, with all its directories and files *)
  Definition Intact (a : arch) : Prop :=
    forall b, has_dir a (DBand b) = true -> has_dir a0 (DBand b) = true /\ band_files_same a0 a b.
  (* no block has been touched *)
  Definition BlocksSame (a : arch) : Prop := forall c, get a (PBlock c) = get a0 (PBlock c).
  (* the blocks of the bands that are not named for deletion are untouched *)
  Definition KeptBlocks (a : arch) : Prop :=
    forall b, has_dir a0 (DBand b) = true -> ~ In b ids ->
      forall c, referenced_by a0 b c -> get a (PBlock c) = get a0 (PBlock c).
  (* every band named for deletion is gone *)
  Definition NamedGone (a : arch) : Prop := forall b, In b ids -> has_dir a (DBand b) = false.

  Definition PhA (a : arch) : Prop := Intact a /\ BlocksSame a.
  Definition PhB (a : arch) : Prop := Intact a /\ KeptBlocks a /\ NamedGone a.
  Definition DJ (a : arch) : Prop := PhA a \/ PhB a.

  Lemma PhA_Remaining a : PhA a -> Remaining a0 a.
  Proof.
    intros [HI HB] b Hb. destruct (HI b Hb) as [H0 HS].
    split; [exact H0|]. split; [exact HS|]. intros c _. apply HB.
  Qed.

  Lemma PhB_Remaining a : PhB a -> Remaining a0 a.
  Proof.
    intros [HI [HK HG]] b Hb. destruct (HI b Hb) as [H0 HS].
    split; [exact H0|]. split; [exact HS|]. apply HK; [exact H0|].
    intros Hin. rewrite (HG b Hin) in Hb. discriminate.
  Qed.

  Lemma DJ_Remaining a : DJ a -> Remaining a0 a.
  Proof. intros [H|H]; [apply PhA_Remaining | apply PhB_Remaining]; exact H. Qed.

  Lemma DJ_refl : DJ a0.
  Proof.
    left. split; [|intros c; reflexivity]. intros b Hb. split; [exact Hb|].
    split; [reflexivity|]. split; intros; reflexivity.
  Qed.

  (* ---- Intact ---- *)
  Lemma Intact_step a a' :
    Intact a ->
    (forall b, has_dir a' (DBand b) = true ->
       has_dir a (DBand b) = true
       /\ (forall d, dir_under (DBand b) d = true -> has_dir a' d = has_dir a d)
       /\ (forall f, band_file b f -> get a' f = get a f)) ->
    Intact a'.
  Proof.
    intros HI H b Hb. destruct (H b Hb) as [Hb1 [HD HF]]. destruct (HI b Hb1) as [H0 [E1 [E2 E3]]].
    split; [exact H0|]. split; [|split].
    - rewrite Hb, H0. reflexivity.
    - intros f Hf. rewrite (HF f Hf). apply E2, Hf.
    - intros d Hd. rewrite (HD d Hd). apply E3, Hd.
  Qed.

  Lemma band_file_under b f : band_file b f -> dir_under (DBand b) (parent_f pre f) = true.
  Proof.
    intros [->|[->|[h ->]]]; cbn [parent_f]; apply dir_under_band.
    - left. reflexivity.
    - left. reflexivity.
    - right. right. eexists. reflexivity.
  Qed.

  Lemma Intact_lock a a' : Intact a -> same_but_lock a a' -> Intact a'.
  Proof.
    intros HI [HD HF]. apply (Intact_step a a' HI). intros b Hb.
    rewrite (has_dir_dirs_eq a a' (DBand b) HD) in Hb. split; [exact Hb|]. split.
    - intros d _. apply has_dir_dirs_eq, HD.
    - intros f Hf. apply HF. apply (band_file_not_lock b f Hf).
  Qed.

  Lemma Intact_rm_band a b' : Intact a -> Intact (rm_dir pre a (DBand b')).
  Proof.
    intros HI. apply (Intact_step a _ HI). intros b Hb.
    rewrite has_dir_rm_dir in Hb. apply andb_true_iff in Hb. destruct Hb as [Hb Hn].
    apply negb_true_iff in Hn.
    assert (Hne : forall d, dir_under (DBand b) d = true -> dir_under (DBand b') d = false).
    { intros d Hd. destruct (dir_under (DBand b') d) eqn:E; [|reflexivity]. exfalso.
      pose proof (dir_under_band_inj b b' d Hd E) as Ebb. subst b'.
      rewrite (proj2 (dir_under_band b (DBand b)) (or_introl eq_refl)) in Hn. discriminate. }
    split; [exact Hb|]. split.
    - intros d Hd. rewrite has_dir_rm_dir, (Hne d Hd). apply andb_true_r.
    - intros f Hf. rewrite get_rm_dir. unfold file_under.
      rewrite (Hne _ (band_file_under b f Hf)). reflexivity.
  Qed.

  Lemma Intact_rm_block a c : Intact a -> Intact (rm_file a (PBlock c)).
  Proof.
    intros HI. apply (Intact_step a _ HI). intros b Hb.
    split; [exact Hb|]. split; [intros d _; reflexivity|].
    intros f Hf. rewrite get_rm_file.
    destruct (fpath_eqb_spec f (PBlock c)) as [E|]; [|reflexivity].
    exfalso. exact (band_file_not_block b f c Hf E).
  Qed.

  (* ---- the blocks ---- *)
  Lemma block_not_under b c : file_under pre (DBand b) (PBlock c) = false.
  Proof. reflexivity. Qed.

  Lemma BlocksSame_lock a a' : BlocksSame a -> same_but_lock a a' -> BlocksSame a'.
  Proof. intros HB [HD HF] c. rewrite HF by discriminate. apply HB. Qed.

  Lemma BlocksSame_rm_band a b' : BlocksSame a -> BlocksSame (rm_dir pre a (DBand b')).
  Proof. intros HB c. rewrite get_rm_dir, block_not_under. apply HB. Qed.

  Lemma KeptBlocks_lock a a' : KeptBlocks a -> same_but_lock a a' -> KeptBlocks a'.
  Proof. intros HK [HD HF] b Hb Hn c Hr. rewrite HF by discriminate. apply (HK b Hb Hn c Hr). Qed.

  Lemma KeptBlocks_rm_band a b' : KeptBlocks a -> KeptBlocks (rm_dir pre a (DBand b')).
  Proof. intros HK b Hb Hn c Hr. rewrite get_rm_dir, block_not_under. apply (HK b Hb Hn c Hr). Qed.

  Lemma KeptBlocks_rm_block a c : unreferenced ids a0 c -> KeptBlocks a -> KeptBlocks (rm_file a (PBlock c)).
  Proof.
    intros Hu HK b Hb Hn c' Hr. rewrite get_rm_file.
    destruct (fpath_eqb_spec (PBlock c') (PBlock c)) as [E|]; [|apply (HK b Hb Hn c' Hr)].
    inversion E; subst c'. exfalso. exact (Hu b Hb Hn Hr).
  Qed.

  (* ---- the named bands ---- *)
  Lemma NamedGone_lock a a' : NamedGone a -> same_but_lock a a' -> NamedGone a'.
  Proof. intros HG [HD HF] b Hb. rewrite (has_dir_dirs_eq a a' (DBand b) HD). apply HG, Hb. Qed.

  Lemma NamedGone_rm_block a c : NamedGone a -> NamedGone (rm_file a (PBlock c)).
  Proof. intros HG b Hb. exact (HG b Hb). Qed.

  Lemma BandsRm_gone a a' : BandsRm pre ids a a' -> NamedGone a'.
  Proof.
    intros [HD _] b Hb. rewrite HD, (forallb_band_false ids b (DBand b) Hb); [apply andb_false_r|].
    apply dir_under_band. left. reflexivity.
  Qed.

  (* ---- the phases ---- *)
  Lemma DJ_gone_PhB a : DJ a -> NamedGone a -> PhB a.
  Proof.
    intros [[HI HB]|H] HG; [|exact H]. split; [exact HI|]. split; [|exact HG].
    intros b _ _ c _. apply HB.
  Qed.

  Lemma PhB_lock a a' : PhB a -> same_but_lock a a' -> PhB a'.
  Proof.
    intros [HI [HK HG]] Hs. split; [|split].
    - apply (Intact_lock a a' HI Hs).
    - apply (KeptBlocks_lock a a' HK Hs).
    - apply (NamedGone_lock a a' HG Hs).
  Qed.

  Lemma PhB_rm_block a c : unreferenced ids a0 c -> PhB a -> PhB (rm_file a (PBlock c)).
  Proof.
    intros Hu [HI [HK HG]]. split; [|split].
    - apply Intact_rm_block, HI.
    - apply KeptBlocks_rm_block; assumption.
    - apply NamedGone_rm_block, HG.
  Qed.

  Lemma DJ_lock a a' : DJ a -> same_but_lock a a' -> DJ a'.
  Proof.
    intros [[HI HB]|H] Hs.
    - left. split; [apply (Intact_lock a a' HI Hs) | apply (BlocksSame_lock a a' HB Hs)].
    - right. apply (PhB_lock a a' H Hs).
  Qed.

  Lemma DJ_rm_band a b : In b ids -> DJ a -> DJ (rm_dir pre a (DBand b)).
  Proof.
    intros _ [[HI HB]|[HI [HK HG]]].
    - left. split; [apply Intact_rm_band, HI | apply BlocksSame_rm_band, HB].
    - right. split; [apply Intact_rm_band, HI|]. split; [apply KeptBlocks_rm_band, HK|].
      intros b' Hb'. rewrite has_dir_rm_dir, (HG b' Hb'). reflexivity.
  Qed.

  (* ------------------------------------------------------------------------- *)
  (** * 3. [delete_prog] satisfies it                                          *)
  (* ------------------------------------------------------------------------- *)

  Variable hint : list bytes.
  Hypothesis HWF : WFhunks a0.

  Definition FT (f : fault) : Prop := True.
  Definition QT (a : arch) (r : dres) : Prop := True.

  Lemma QT_fail : forall (a : arch) (r : dres), d_ok r = false -> QT a r.
  Proof. intros a r _. exact I. Qed.

  Notation wpJ := (wp pre FT DJ QT).
  Notation wpB := (wp pre FT PhB QT).

  Lemma rfJ a : DJ a -> wpJ release_fail a.
  Proof. apply (release_fail_wp pre FT DJ QT QT_fail DJ_lock). Qed.

  (* from the lock check on: the bands (phase A), then the blocks (phase B) *)
  Lemma tail_wpJ dry last unref a1 :
    same_but_lock a0 a1 -> good_unref pre ids hint a1 unref -> DJ a1 ->
    wpJ (tail_p ids dry last unref) a1.
  Proof.
    intros Hs Hg Ha. unfold tail_p. cbv zeta. destruct dry.
    - apply (finish_wp pre FT DJ QT QT_fail DJ_lock); [exact Ha|]. intros; exact I.
    - apply wp_read; [exact I | exact Ha | intros e; apply rfJ; exact Ha|].
      rewrite exec_ok_list. destruct (has_dir a1 DRoot); cbn [snd]; [|apply rfJ; exact Ha].
      destruct (optid_eqb (max_id (band_ids (children_dirs a1 DRoot))) last); [|apply rfJ; exact Ha].
      apply (delete_the_bands_wp pre FT DJ QT ids QT_fail DJ_lock DJ_rm_band); [apply incl_refl | exact Ha|].
      intros a2 HB2 Ha2.
      assert (HB : PhB a2) by (apply (DJ_gone_PhB a2 Ha2), (BandsRm_gone a1 a2 HB2)).
      apply (wp_mono pre FT PhB DJ QT QT); [intros a H; right; exact H | intros a r H; exact H|].
      apply (delete_blocks_wp pre FT PhB QT (unreferenced ids a0) PhB_rm_block); [|exact HB|].
      + intros c Hc. apply (good_unref_unreferenced pre ids a0 hint a1 unref c HWF Hs Hg Hc).
      + intros errs a3 _ Ha3.
        apply (finish_wp pre FT PhB QT QT_fail PhB_lock); [exact Ha3|]. intros; exact I.
  Qed.

  (* [body_wp] of DeleteP.v, with the tail above *)
  Lemma body_wpJ dry a : same_but_lock a0 a -> DJ a -> wpJ (body_p ids dry hint) a.
  Proof.
    intros Hs Ha. unfold body_p.
    apply (acquire_wp pre FT DJ QT QT_fail DJ_lock); [exact Ha|]. intros last a1 Hs1 Ha1. unfold after_acq.
    assert (Hs01 : same_but_lock a0 a1) by (eapply same_but_lock_trans; eassumption).
    apply wp_read; [exact I | exact Ha1 | intros e; apply rfJ; exact Ha1|].
    rewrite exec_ok_list. destruct (has_dir a1 DRoot); cbn [snd]; [|apply rfJ; exact Ha1].
    cbv zeta. apply (ref_bands_wp pre FT DJ QT QT_fail DJ_lock); [exact Ha1|]. intros referenced Hsound _ Hcompl.
    apply wp_read; [exact I | exact Ha1 | intros e; apply rfJ; exact Ha1|].
    rewrite exec_ok_list. destruct (has_dir a1 DBlocks) eqn:DB; cbn [snd]; [|apply rfJ; exact Ha1].
    apply (list_blocks_d_wp pre FT DJ QT QT_fail DJ_lock); [exact Ha1|]. intros present _ _ Hpres.
    assert (Hg : good_unref pre ids hint a1 (unref_of hint referenced present)).
    { exists referenced, present. split; [reflexivity|]. split; [|split].
      - intros c Hc. destruct (Hsound c Hc) as [[]|[b [h [es [Hb [Hg Hin]]]]]].
        exists b, h, es. split; [|auto]. apply keep_In in Hb. destruct Hb as [Hb Hn].
        split; [|exact Hn]. apply has_dir_In. apply children_dirs_In in Hb. apply Hb.
      - intros b h es [Hb Hn] Hg Hd. apply (Hcompl b h es); auto. apply keep_In. split; [|exact Hn].
        apply children_dirs_In. split; [apply has_dir_In; exact Hb | reflexivity].
      - intros c x Hd Hg Hne. apply (Hpres c x); auto. apply block_subdirs_In. apply children_dirs_In.
        split; [apply has_dir_In; exact Hd | reflexivity]. }
    apply (measure_wp pre FT DJ QT QT_fail DJ_lock); [exact Ha1|]. apply tail_wpJ; assumption.
  Qed.

  Lemma delete_prog_wpJ dry brk : wpJ (delete_prog ids dry brk hint) a0.
  Proof.
    pose proof DJ_refl as Ha. rewrite delete_prog_eq.
    assert (Hrf : forall a, wpJ (Ret dfail) a) by (intros a; exact I).
    assert (Hbody : wpJ (body_p ids dry hint) a0) by (apply body_wpJ; [apply same_but_lock_refl | exact Ha]).
    apply wp_read; [exact I | exact Ha | intros e; apply Hrf|].
    cbn [exec_ok]. destruct (get a0 PHeader) as [[[| | | |]| |]|]; cbn [snd]; try apply Hrf.
    destruct brk; [|exact Hbody].
    apply wp_read; [exact I | exact Ha | intros e; destruct e; try apply Hrf; exact Hbody|].
    cbn [exec_ok]. destruct (get a0 PLock) eqn:G; cbn [snd]; [|exact Hbody].
    apply wp_do; [exact Ha | intros e _; split; [exact Ha | apply Hrf] |].
    rewrite exec_ok_rmfile, G. cbn [fst snd is_ok].
    assert (Ha1 : DJ (rm_file a0 PLock)) by (apply (DJ_lock a0); [exact Ha | apply same_but_lock_rm]).
    split; [exact Ha1|]. apply body_wpJ; [apply same_but_lock_rm | exact Ha1].
  Qed.
End Rem.

(* ------------------------------------------------------------------------- *)
(** * 4. The theorem                                                          *)
(* ------------------------------------------------------------------------- *)

Section TheoremRem.
  Variable pre : bytes -> N.

  (* the two-phase invariant itself, at every state of every run *)
  Theorem delete_two_phase : forall ids dry brk hint a0 phi,
    WFhunks a0 ->
    Forall (DJ ids a0) (run_states pre (delete_prog ids dry brk hint) a0 phi)
    /\ DJ ids a0 (snd (fst (run pre (delete_prog ids dry brk hint) a0 phi))).
  Proof.
    intros ids dry brk hint a0 phi HWF.
    pose proof (delete_prog_wpJ pre ids a0 hint HWF dry brk) as Hwp.
    assert (Hphi : Forall FT phi) by (apply Forall_forall; intros; exact I).
    destruct (wp_sound pre FT (DJ ids a0) QT (delete_prog ids dry brk hint) a0 phi I Hphi (DJ_refl ids a0) Hwp)
      as [H1 [H2 _]].
    split; assumption.
  Qed.

  (* EVERY REMAINING VERSION IS INTACT: for every fault list (every crash point, every
     failing operation, a killed lock write included), every iteration order [hint], dry
     run or not, breaking the lock or not, whatever [ids] names (bands that do not exist,
     the same band twice): in every state the archive passes through and in the final
     state, every band directory that exists -- named for deletion or not -- existed
     before, has all its directories and files unchanged, and every block it references
     is unchanged. *)
  Theorem delete_remaining_intact : forall ids dry brk hint a0 phi,
    WFhunks a0 ->
    Forall (Remaining a0) (run_states pre (delete_prog ids dry brk hint) a0 phi)
    /\ Remaining a0 (snd (fst (run pre (delete_prog ids dry brk hint) a0 phi))).
  Proof.
    intros ids dry brk hint a0 phi HWF.
    destruct (delete_two_phase ids dry brk hint a0 phi HWF) as [H1 H2]. split.
    - eapply Forall_impl; [|exact H1]. intros a. apply DJ_Remaining.
    - apply (DJ_Remaining ids a0 _ H2).
  Qed.

  Corollary delete_remaining_intact_wf : forall ids dry brk hint a0 phi,
    WFdirs pre a0 ->
    Forall (Remaining a0) (run_states pre (delete_prog ids dry brk hint) a0 phi)
    /\ Remaining a0 (snd (fst (run pre (delete_prog ids dry brk hint) a0 phi))).
  Proof. intros. apply delete_remaining_intact. eapply WFdirs_hunks. eassumption. Qed.

  (* what is NOT there any more is a band named for deletion: a band that is not named
     stays (this is [delete_keeps]); together: at every state, the bands are the old ones
     minus some of the named ones, and each of them is intact *)
  Corollary delete_bands_between : forall ids dry brk hint a0 phi a,
    WFhunks a0 ->
    In a (run_states pre (delete_prog ids dry brk hint) a0 phi
          ++ [snd (fst (run pre (delete_prog ids dry brk hint) a0 phi))]) ->
    forall b,
      (has_dir a (DBand b) = true -> has_dir a0 (DBand b) = true)
      /\ (has_dir a0 (DBand b) = true -> ~ In b ids -> has_dir a (DBand b) = true).
  Proof.
    intros ids dry brk hint a0 phi a HWF Hin b.
    destruct (delete_remaining_intact ids dry brk hint a0 phi HWF) as [R1 R2].
    destruct (delete_keeps pre ids dry brk hint a0 phi HWF) as [K1 K2].
    rewrite Forall_forall in R1, K1.
    assert (HR : Remaining a0 a) by (apply in_app_or in Hin; destruct Hin as [Hin|[<-|[]]]; auto).
    assert (HK : Kept ids a0 a) by (apply in_app_or in Hin; destruct Hin as [Hin|[<-|[]]]; auto).
    split.
    - intros Hb. apply (HR b Hb).
    - intros Hb Hn. destruct (HK b Hb Hn) as [[E _] _]. rewrite E. exact Hb.
  Qed.
End TheoremRem.

(* ------------------------------------------------------------------------- *)
(** * Examples (non-vacuity), by computation                                  *)
(* ------------------------------------------------------------------------- *)
Module DeleteRemExamples.
  Import SafeExamples DeleteExamples.

  (* ex_a3 has two versions: b0000 refers to blocks [1;2] [1;2;3;4] [5;6], b0001 to [1;2]
     [1;2;3;4] [5;7].  [del01] deletes both.  Operation 14 removes b0000, operation 15
     would remove b0001. *)

  (* 1. killed between the two removals: b0000 is gone, b0001 -- named for deletion -- is
        still there with all its files and its three blocks; no block has been removed *)
  Definition phi_kill := repeat NoFault 15 ++ [Crash].
  Example ex_kill_run :
    snd (run ex_pre del01 ex_a3 phi_kill) = Crashed
    /\ nth_error (trace del01 ex_a3 phi_kill) 14 = Some (OpRemoveDirAll (DBand 0), ROk)
    /\ length (trace del01 ex_a3 phi_kill) = 15%nat
    /\ dirs (final del01 ex_a3 phi_kill) = [DRoot; DBlocks; DBlockSub 2; DBlockSub 0; DBand 1; DIndex 1; DHunkSub 1 0]
    /\ map fst (files (final del01 ex_a3 phi_kill))
       = [PHeader; PBlock [1; 2]; PBlock [1; 2; 3; 4]; PBlock [5; 6]; PHead 1; PHunk 1 0; PBlock [5; 7];
          PHunk 1 1; PTail 1; PLock]
    /\ has_dir (final del01 ex_a3 phi_kill) (DBand 1) = true
    /\ has_dir (final del01 ex_a3 phi_kill) (DBand 0) = false.
  Proof. vm_compute. repeat split; reflexivity. Qed.

  (* the theorem, at this run *)
  Example ex_kill_remaining :
    Forall (Remaining ex_a3) (run_states ex_pre del01 ex_a3 phi_kill)
    /\ Remaining ex_a3 (final del01 ex_a3 phi_kill).
  Proof. apply delete_remaining_intact_wf. apply ex_a3_wf. Qed.

  (* ... and what it gives for b0001: its files and the block only it refers to *)
  Example ex_kill_b1_intact :
    band_files_same ex_a3 (final del01 ex_a3 phi_kill) 1
    /\ get (final del01 ex_a3 phi_kill) (PBlock [5; 7]) = get ex_a3 (PBlock [5; 7])
    /\ get (final del01 ex_a3 phi_kill) (PBlock [1; 2]) = get ex_a3 (PBlock [1; 2])
    /\ get ex_a3 (PBlock [5; 7]) = Some (Good (PlBlock [5; 7])).
  Proof.
    destruct ex_kill_remaining as [_ H]. destruct (H 1) as [_ [HS HB]]; [vm_compute; reflexivity|].
    destruct ex_refs as [R57 [R12 _]].
    split; [exact HS|]. split; [apply HB, R57|]. split; [apply HB, R12 | vm_compute; reflexivity].
  Qed.

  (* 2. the second removal fails with an I/O error: delete gives up, releases the lock, and
        removes no block; b0001 is there *)
  Definition phi_rmfail := repeat NoFault 15 ++ [Fail EOther].
  Example ex_rmfail_run :
    snd (run ex_pre del01 ex_a3 phi_rmfail) = Done dfail
    /\ nth_error (trace del01 ex_a3 phi_rmfail) 15 = Some (OpRemoveDirAll (DBand 1), RErr EOther)
    /\ nth_error (trace del01 ex_a3 phi_rmfail) 16 = Some (OpRemoveFile PLock, ROk)
    /\ length (trace del01 ex_a3 phi_rmfail) = 17%nat
    /\ map fst (files (final del01 ex_a3 phi_rmfail))
       = [PHeader; PBlock [1; 2]; PBlock [1; 2; 3; 4]; PBlock [5; 6]; PHead 1; PHunk 1 0; PBlock [5; 7];
          PHunk 1 1; PTail 1].
  Proof. vm_compute. repeat split; reflexivity. Qed.
  Example ex_rmfail_remaining :
    Forall (Remaining ex_a3) (run_states ex_pre del01 ex_a3 phi_rmfail)
    /\ Remaining ex_a3 (final del01 ex_a3 phi_rmfail).
  Proof. apply delete_remaining_intact_wf. apply ex_a3_wf. Qed.

  (* 3. ids that name a band twice, or a band that does not exist: the removal that finds
        nothing fails, delete gives up before any block is removed *)
  Example ex_dup_run :
    snd (run ex_pre (delete_prog [0; 0] false false []) ex_a3 []) = Done dfail
    /\ nth_error (trace (delete_prog [0; 0] false false []) ex_a3 []) 17 = Some (OpRemoveDirAll (DBand 0), RErr ENotFound)
    /\ map fst (files (final (delete_prog [0; 0] false false []) ex_a3 []))
       = [PHeader; PBlock [1; 2]; PBlock [1; 2; 3; 4]; PBlock [5; 6]; PHead 1; PHunk 1 0; PBlock [5; 7];
          PHunk 1 1; PTail 1].
  Proof. vm_compute. repeat split; reflexivity. Qed.
  Example ex_missing_run :
    snd (run ex_pre (delete_prog [0; 5] false false []) ex_a3 []) = Done dfail
    /\ map fst (files (final (delete_prog [0; 5] false false []) ex_a3 []))
       = [PHeader; PBlock [1; 2]; PBlock [1; 2; 3; 4]; PBlock [5; 6]; PHead 1; PHunk 1 0; PBlock [5; 7];
          PHunk 1 1; PTail 1].
  Proof. vm_compute. repeat split; reflexivity. Qed.

  (* 4. killed while GC_LOCK is being written (the file is left zero-length) *)
  Example ex_lock_kill :
    get (final del01 ex_a3 (repeat NoFault 4 ++ [CrashEmpty])) PLock = Some Empty
    /\ Remaining ex_a3 (final del01 ex_a3 (repeat NoFault 4 ++ [CrashEmpty])).
  Proof. split; [vm_compute; reflexivity|]. apply delete_remaining_intact_wf. apply ex_a3_wf. Qed.

  (* [Remaining] is not trivially true: had the blocks been removed first (here: [5;7],
     which only b0001 refers to) while b0001 is still there, it would fail *)
  Example ex_remaining_breaks : ~ Remaining ex_a3 (rm_file ex_a3 (PBlock [5; 7])).
  Proof.
    intros H. destruct (H 1 eq_refl) as [_ [_ H2]].
    destruct ex_refs as [R _]. specialize (H2 _ R). vm_compute in H2. discriminate.
  Qed.
  (* ... also in the state of the killed run above *)
  Example ex_remaining_breaks_kill : ~ Remaining ex_a3 (rm_file (final del01 ex_a3 phi_kill) (PBlock [5; 7])).
  Proof.
    intros H. destruct (H 1) as [_ [_ H2]]; [vm_compute; reflexivity|].
    destruct ex_refs as [R _]. specialize (H2 _ R). vm_compute in H2. discriminate.
  Qed.
End DeleteRemExamples.

Print Assumptions wp_mono.
Print Assumptions delete_two_phase.
Print Assumptions delete_remaining_intact.
Print Assumptions delete_remaining_intact_wf.
Print Assumptions delete_bands_between.
