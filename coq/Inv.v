(* Referential integrity of an archive: the invariant predicates, their boolean checkers,
   the invariants of the backup writer / stitched reader state, and a state-dependent
   weakest-precondition predicate over [Store.prog].  Definitions only (lemmas: RefIntP.v). *)
From Coq Require Import List NArith Bool.
From CV Require Import Base.Str Apath Entry Store Stitch StitchProg Codec Backup.
Import ListNotations.
Local Open Scope N_scope.

Notation arch := Store.arch.

(* the block file of content [c] exists and holds [c] (a block is named by its content) *)
Definition block_ok (a : arch) (c : bytes) : Prop := get a (PBlock c) = Some (Good (PlBlock c)).

(* the address can be read: its block is there and is long enough *)
Definition addr_ok (a : arch) (ad : addr) : Prop :=
  block_ok a (a_hash ad) /\ a_start ad + a_len ad <= N.of_nat (length (a_hash ad)).

Definition entry_ok (a : arch) (e : entry) : Prop := Forall (addr_ok a) (e_addrs e).

(* no index entry anywhere refers to a block that is missing or shorter than it needs *)
Definition RefInt (a : arch) : Prop :=
  forall b h es, get a (PHunk b h) = Some (Good (PlHunk es)) -> Forall (entry_ok a) es.

(* every block file holds its own content, or is a zero-length leftover of a killed write *)
Definition BlocksWF (a : arch) : Prop :=
  forall c x, get a (PBlock c) = Some x -> x = Good (PlBlock c) \/ x = Empty.

(* the association list of files has no duplicate path (a directory listing shows every
   list element, [get] the first one: they agree exactly when paths are not repeated) *)
Definition FilesND (a : arch) : Prop := NoDup (map fst (files a)).

Definition AInv (a : arch) : Prop := RefInt a /\ BlocksWF a /\ FilesND a.

(* ---- boolean checkers (sound: RefIntP.v) ---- *)
Definition addr_ok_b (a : arch) (ad : addr) : bool :=
  match get a (PBlock (a_hash ad)) with
  | Some (Good (PlBlock c)) =>
      str_eqb c (a_hash ad) && (a_start ad + a_len ad <=? N.of_nat (length (a_hash ad)))
  | _ => false
  end.
Definition entry_ok_b (a : arch) (e : entry) : bool := forallb (addr_ok_b a) (e_addrs e).
Definition refint_b (a : arch) : bool :=
  forallb (fun p => match p with
                    | (PHunk _ _, Good (PlHunk es)) => forallb (entry_ok_b a) es
                    | _ => true
                    end) (files a).
Definition blockswf_b (a : arch) : bool :=
  forallb (fun p => match p with
                    | (PBlock c, Good (PlBlock d)) => str_eqb d c
                    | (PBlock _, Empty) => true
                    | (PBlock _, _) => false
                    | _ => true
                    end) (files a).
Fixpoint nodup_paths (l : list fpath) : bool :=
  match l with
  | [] => true
  | x :: l' => negb (existsb (fpath_eqb x) l') && nodup_paths l'
  end.
Definition filesnd_b (a : arch) : bool := nodup_paths (map fst (files a)).
Definition ainv_b (a : arch) : bool := refint_b a && blockswf_b a && filesnd_b a.

(* number of (entry, address) pairs in the index hunks of [a] (examples: non-vacuity) *)
Definition count_addrs (a : arch) : nat :=
  fold_right (fun p n => match snd p with
                         | Good (PlHunk es) => (length (flat_map e_addrs es) + n)%nat
                         | _ => n
                         end) O (files a).

(* ---- invariant of the backup writer state relative to the archive state ---- *)
Definition queue_ok (buf : bytes) (q : N * N * entry) : Prop :=
  let '(s, l, _) := q in s + l <= N.of_nat (length buf).

Definition WInv (a : arch) (w : wst) : Prop :=
  Forall (block_ok a) (w_exists w)
  /\ Forall (entry_ok a) (w_entries w)
  /\ Forall (entry_ok a) (w_fin w)
  /\ Forall (queue_ok (w_buf w)) (w_queue w).

(* ---- invariant of the stitched basis reader ---- *)
Definition SInv (a : arch) (st : sstate) : Prop :=
  match st with SInBand _ _ buf _ => Forall (entry_ok a) buf | _ => True end.
Definition opt_ok (a : arch) (o : option entry) : Prop :=
  match o with Some e => entry_ok a e | None => True end.
Definition sres_ok (a : arch) (r : sres) : Prop :=
  let '(skipped, o, st, _, _) := r in Forall (entry_ok a) skipped /\ opt_ok a o /\ SInv a st.

(* ---- what may be written where ---- *)
Definition wok (a : arch) (f : fpath) (p : payload) : Prop :=
  (forall c, f = PBlock c -> p = PlBlock c) /\ (forall es, p = PlHunk es -> Forall (entry_ok a) es).

Definition content_ok (a : arch) (f : fpath) (x : fcontent) : Prop :=
  match x with Empty => True | Garbage => False | Good p => wok a f p end.

(* block cache of restore *)
Definition CacheOK (a : arch) (cache : list (bytes * bytes)) : Prop :=
  forall h c, In (h, c) cache -> c = h /\ block_ok a h.

Section Safe.
  Variable pre : bytes -> N.
  Variable I : arch -> Prop.

  (* State-dependent weakest precondition: from state [a], whatever the storage does
     (every fault on every operation: the reply is then the one [exec] gives in the state
     reached), every state passed through satisfies [I], so does the state a killed write
     leaves, and a result [r] returned in state [a'] satisfies [Q r a']. *)
  Fixpoint safe {R} (Q : R -> arch -> Prop) (p : prog R) (a : arch) : Prop :=
    match p with
    | Ret r => Q r a
    | Panic => True
    | Do o k =>
        (forall f, I (fst (exec pre a o f))
                   /\ safe Q (k (snd (exec pre a o f))) (fst (exec pre a o f)))
        /\ I (exec_empty pre a o)
    end.

  (* a truthful reply: what a read / a listing returns is what is there *)
  Definition reply_ok (a : arch) (o : op) (rep : reply) : Prop :=
    match o, rep with
    | OpRead f, RData c => get a f = Some c
    | OpList d, RList _ fs => fs = children_files pre a d
    | _, _ => True
    end.

  Definition op_pre (a : arch) (o : op) : Prop :=
    match o with OpWrite f p _ => wok a f p | _ => True end.

  Definition op_post (a : arch) (o : op) (rep : reply) (a' : arch) : Prop :=
    match o with
    | OpRead _ | OpList _ | OpMeta _ => a' = a /\ reply_ok a o rep
    | OpWrite f p _ => rep = ROk -> get a' f = Some (Good p)
    | _ => True
    end.
End Safe.
