(* delete_bands / garbage collection as a program over storage (src/archive.rs,
   src/gc_lock.rs).  Model file: definitions only. *)
From CV Require Import Base.Str Apath Entry Store Stitch StitchProg Backup Tree.
Local Open Scope N_scope.

Record dres := {
  d_ok : bool;
  d_unref : N;            (* stats.unreferenced_block_count *)
  d_bands : N;            (* stats.deleted_band_count *)
  d_blocks : N;           (* stats.deleted_block_count *)
  d_errs : N              (* stats.deletion_errors *)
}.
Definition dfail : dres := {| d_ok := false; d_unref := 0; d_bands := 0; d_blocks := 0; d_errs := 0 |}.

Definition mem_N (x : N) (l : list N) : bool := existsb (N.eqb x) l.
Definition optid_eqb (a b : option N) : bool :=
  match a, b with Some x, Some y => N.eqb x y | None, None => true | _, _ => false end.

(* elements of [hint] that are in [s], in hint order, then the rest of [s]:
   the iteration order of a HashSet is not specified; the observed one is supplied *)
Definition order_by (hint s : list bytes) : list bytes :=
  filter (fun c => mem_bytes c s) hint ++ filter (fun c => negb (mem_bytes c hint)) s.

Fixpoint dedup (l : list bytes) : list bytes :=
  match l with
  | [] => []
  | c :: l' => if mem_bytes c l' then dedup l' else c :: dedup l'
  end.

Section Delete.
  Variable pre : bytes -> N.
  Notation prog := (Store.prog).

  (* the lock is released from Drop on every error path after acquisition *)
  Definition release_fail : prog dres := Do (OpRemoveFile PLock) (fun _ => Ret dfail).

  (* raw hunks of one band, as Archive::referenced_blocks reads them: every listed hunk,
     and ANY failure (unreadable, undecodable, listed but missing) aborts the delete *)
  Fixpoint ref_hunks (b : N) (hs : list N) (acc : list bytes) (k : list bytes -> prog dres) : prog dres :=
    match hs with
    | [] => k acc
    | h :: hs' =>
        Do (OpRead (PHunk b h)) (fun r =>
          match r with
          | RData (Good (PlHunk es)) =>
              ref_hunks b hs' (acc ++ flat_map (fun e => map a_hash (e_addrs e)) es) k
          | _ => release_fail
          end)
    end.

  Fixpoint ref_subdirs (b : N) (subs : list N) (acc : list N) (k : list N -> prog dres) : prog dres :=
    match subs with
    | [] => k acc
    | s :: subs' =>
        Do (OpList (DHunkSub b s)) (fun r =>
          match r with
          | RList _ fs => ref_subdirs b subs' (acc ++ hunk_numbers fs) k
          | _ => release_fail
          end)
    end.

  Fixpoint ref_bands (bands : list N) (acc : list bytes) (k : list bytes -> prog dres) : prog dres :=
    match bands with
    | [] => k acc
    | b :: bands' =>
        Do (OpRead (PHead b)) (fun r =>
          match head_status r with
          | HPanic => Panic
          | HErr => release_fail
          | HOk =>
              Do (OpList (DIndex b)) (fun r2 =>
                match r2 with
                | RList ds _ =>
                    ref_subdirs b (subdir_numbers ds) []
                      (fun hs => ref_hunks b hs acc (fun acc' => ref_bands bands' acc' k))
                | _ => release_fail
                end)
          end)
    end.

  Fixpoint list_blocks_d (subs : list N) (acc : list bytes) (failed : bool) (k : list bytes -> prog dres) : prog dres :=
    match subs with
    | [] => if failed then release_fail else k acc
    | s :: subs' =>
        Do (OpList (DBlockSub s)) (fun r =>
          match r with
          | RList _ fs =>
              list_blocks_d subs'
                (acc ++ flat_map (fun p => match p with (PBlock c, true) => [c] | _ => [] end) fs) failed k
          | _ => list_blocks_d subs' acc true k
          end)
    end.

  Fixpoint measure (l : list bytes) (k : prog dres) : prog dres :=
    match l with
    | [] => k
    | c :: l' => Do (OpMeta (PBlock c)) (fun r => match r with RMeta _ => measure l' k | _ => release_fail end)
    end.

  Fixpoint delete_the_bands (ids : list N) (n : N) (k : N -> prog dres) : prog dres :=
    match ids with
    | [] => k n
    | b :: ids' =>
        Do (OpRemoveDirAll (DBand b)) (fun r => match r with ROk => delete_the_bands ids' (n + 1) k | _ => release_fail end)
    end.

  Fixpoint delete_blocks (l : list bytes) (errs : N) (k : N -> prog dres) : prog dres :=
    match l with
    | [] => k errs
    | c :: l' =>
        Do (OpRemoveFile (PBlock c)) (fun r => delete_blocks l' (match r with ROk => errs | _ => errs + 1 end) k)
    end.

  Definition sorted_N (l : list N) : list N := isort_by N.compare (fun x => x) l.

  (* GarbageCollectionLock::new *)
  Definition acquire (k : option N -> prog dres) : prog dres :=
    Do (OpList DRoot) (fun r =>
      match r with
      | RList ds _ =>
          let last := max_id (band_ids ds) in
          let lock :=
            Do (OpMeta PLock) (fun r2 =>
              match r2 with
              | RErr ENotFound =>
                  Do (OpWrite PLock PlJson CreateNew) (fun r3 => if is_ok r3 then k last else Ret dfail)
              | _ => Ret dfail                                  (* held, or is_file(..).unwrap_or(true) *)
              end) in
          match last with
          | Some b =>
              Do (OpMeta (PTail b)) (fun r1 =>
                match r1 with
                | RMeta true => lock
                | _ => Ret dfail                                 (* incomplete newest band, or error *)
                end)
          | None => lock
          end
      | _ => Ret dfail
      end).

  Definition delete_prog (ids : list N) (dry_run break_lock : bool) (hint : list bytes) : prog dres :=
    let body :=
      acquire (fun last =>
        Do (OpList DRoot) (fun r =>
          match r with
          | RList ds _ =>
              let keep := filter (fun b => negb (mem_N b ids)) (sorted_N (band_ids ds)) in
              ref_bands keep [] (fun referenced =>
                Do (OpList DBlocks) (fun r2 =>
                  match r2 with
                  | RList ds2 _ =>
                      list_blocks_d (block_subdirs ds2) [] false (fun present =>
                        let unref := order_by hint (filter (fun c => negb (mem_bytes c referenced)) (dedup present)) in
                        let nun := N.of_nat (length unref) in
                        measure unref (
                          let finish (nb : N) (errs : N) (did : bool) :=
                            Do (OpRemoveFile PLock) (fun r5 =>
                              match r5 with
                              | ROk => Ret {| d_ok := true; d_unref := nun; d_bands := nb;
                                              d_blocks := if did then nun - errs else 0; d_errs := errs |}
                              | _ => release_fail             (* release failed: Drop tries again *)
                              end) in
                          if dry_run then finish 0 0 false
                          else
                            (* gc_lock.check() *)
                            Do (OpList DRoot) (fun r3 =>
                              match r3 with
                              | RList ds3 _ =>
                                  if optid_eqb (max_id (band_ids ds3)) last then
                                    delete_the_bands ids 0 (fun nb =>
                                      delete_blocks unref 0 (fun errs => finish nb errs true))
                                  else release_fail
                              | _ => release_fail
                              end)))
                  | _ => release_fail
                  end))
          | _ => release_fail
          end)) in
    Do (OpRead PHeader) (fun r0 =>
      match r0 with
      | RData (Good PlJson) =>
          if break_lock then
            Do (OpMeta PLock) (fun r =>
              match r with
              | RMeta _ => Do (OpRemoveFile PLock) (fun r1 => if is_ok r1 then body else Ret dfail)
              | RErr ENotFound => body
              | _ => Ret dfail
              end)
          else body
      | _ => Ret dfail
      end).
End Delete.
