(* C10: "When the damage was a deleted or emptied file, a new backup of the source completes
   and restores exactly."  Definitions: Heals.v.

   A. One file of a [Ready] archive (not the header) deleted or truncated to zero length:
      the state is [Usable] ([lost_usable]); so is it after any damage that leaves block
      files alone ([damaged_usable]).
   B. Pass 2 over the backup (the logic of ConfP.v with a weaker invariant): at every state
      of every run, the hunks of the band being written are strictly sorted and its tail
      tells the truth -- whatever the old bands look like ([backup_new_sorted]).
   C. Pass 3 (the logic of RefIntP.v with a weaker invariant): at every state of every run,
      every entry of the band being written names only good blocks, inside their length
      ([backup_new_refint]); what is needed of the old bands is only [HunksInRange].
   D. [E2EP.After] redone from [Usable] ([heal_restore]).
   E. The theorems: [backup_heals] and its corollaries.
   F. Examples and refutations by computation. *)
From Coq Require Import Lia Sorted Permutation.
From CV Require Import Base.Str Base.StrP Base.Order Apath ApathP Entry Stitch Tree Codec CodecP Store
  StitchProg Backup Ops Delete Read SafeP Inv RefIntP FrameP Valid ValidP Truth TruthP Conf ConfP
  Healthy HealthyP E2E E2EP History HistoryP Heals.
Local Open Scope N_scope.

Local Notation Done := Store.Done.

(* ------------------------------------------------------------------------- *)
(** * A. A lost file leaves a usable archive                                   *)
(* ------------------------------------------------------------------------- *)

Lemma lost_damaged a f a' : lost a f a' -> damaged a f a'.
Proof.
  intros [H _ _|H _ _]; [apply dmg_removed; exact H|].
  apply dmg_replaced; [exact H | left; reflexivity].
Qed.

(* what the loss did: the file is gone or zero-length, everything else is as it was *)
Lemma lost_inv a f a' :
  lost a f a' ->
  get a f <> None /\ f <> PHeader /\ f <> PLock /\ dirs a' = dirs a
  /\ (forall g, g <> f -> get a' g = get a g)
  /\ (get a' f = None \/ get a' f = Some Empty).
Proof.
  intros HL. destruct (damaged_inv _ _ _ (lost_damaged _ _ _ HL)) as (Hex & Hd & Ho & _).
  split; [exact Hex|].
  destruct HL as [_ H1 H2|_ H1 H2]; (split; [exact H1|]; split; [exact H2|]; split; [exact Hd|]; split; [exact Ho|]).
  - left. unfold get, remove_path. cbn [files]. rewrite lookup_remove_file, RefIntP.fpath_eqb_refl. reflexivity.
  - right. unfold replace_path. destruct (get a f) eqn:G; [|congruence].
    unfold get. cbn [files]. rewrite lookup_set_file, RefIntP.fpath_eqb_refl. reflexivity.
Qed.

Lemma has_dir_same_dirs (a a' : arch) d : dirs a' = dirs a -> has_dir a' d = has_dir a d.
Proof. intros E. unfold has_dir. rewrite E. reflexivity. Qed.

(* referential integrity gives [HunksInRange] *)
Lemma entry_ok_InRange a e : entry_ok a e -> InRangeE e.
Proof. unfold entry_ok, InRangeE. apply Forall_impl. intros ad [_ H]. exact H. Qed.

Lemma RefInt_HunksInRange a : RefInt a -> HunksInRange a.
Proof.
  intros HR b h es G. eapply Forall_impl; [|exact (HR b h es G)]. intros e. apply entry_ok_InRange.
Qed.

(* the invariants every operation keeps, without format conformance, give [Usable] *)
Lemma AInv_Usable pre a : Startable pre a -> NoDup (dirs a) -> AInv a -> Usable pre a.
Proof.
  intros HS ND (HR & HB & HN). split; [exact HS|]. split; [exact ND|]. split; [exact HN|].
  split; [exact HB | apply RefInt_HunksInRange; exact HR].
Qed.

Theorem Ready_Usable pre a : Ready pre a -> Usable pre a.
Proof. intros (HS & ND & HA & _). apply AInv_Usable; assumption. Qed.

(** Damage to ONE file -- removed, zero-length, undecodable -- that is not the header and,
    if it is a block, leaves it absent or zero-length: the state is [Usable].  (What is asked
    of the undamaged state is [Ready] without format conformance.) *)
Theorem damaged_usable pre a f a' :
  Startable pre a -> NoDup (dirs a) -> AInv a ->
  damaged a f a' -> f <> PHeader ->
  (forall c, f = PBlock c -> get a' f = None \/ get a' f = Some Empty) ->
  Usable pre a'.
Proof.
  intros (Hh & Hl & Hb & [HF HD]) ND (HR & HB & HN) HDm Hf Hblk.
  destruct (damaged_inv _ _ _ HDm) as (Hex & Hd & Ho & Hs).
  assert (Hlock : f <> PLock) by (intros ->; congruence).
  assert (Hdir : forall d, has_dir a' d = has_dir a d) by (intros d; apply has_dir_same_dirs; exact Hd).
  split; [split; [|split; [|split; [|split]]]|split; [|split; [|split]]].
  - rewrite Ho by congruence. exact Hh.
  - rewrite Ho by congruence. exact Hl.
  - rewrite Hdir. exact Hb.
  - intros g x G. rewrite Hdir. destruct (fpath_eqb_spec g f) as [->|Ng].
    + destruct (get a f) as [y|] eqn:Gf; [|congruence]. exact (HF _ _ Gf).
    + rewrite Ho in G by exact Ng. exact (HF _ _ G).
  - intros d p Hin Hp. rewrite Hdir. rewrite Hd in Hin. exact (HD d p Hin Hp).
  - rewrite Hd. exact ND.
  - exact (damaged_FilesND _ _ _ HN HDm).
  - intros c x G. destruct (fpath_eqb_spec (PBlock c) f) as [E|Ng].
    + destruct (Hblk c (eq_sym E)) as [G'|G']; rewrite E in G; rewrite G' in G; [discriminate|].
      inversion G. right. reflexivity.
    + rewrite Ho in G by exact Ng. exact (HB c x G).
  - intros b h es G. destruct (fpath_eqb_spec (PHunk b h) f) as [E|Ng].
    + exfalso. rewrite E in G. destruct Hs as [G'|[x [G' Hbad]]]; rewrite G' in G; [discriminate|].
      inversion G; subst x. rewrite <- E in Hbad. destruct Hbad as [Hbad|[Hbad|[]]]; discriminate.
    + rewrite Ho in G by exact Ng. eapply Forall_impl; [|exact (HR b h es G)]. intros e. apply entry_ok_InRange.
Qed.

(** C10, first half.  ONE file of a [Ready] archive other than the header -- a band head, a
    band tail, an index hunk, a data block -- deleted or truncated to zero length: the archive
    is [Usable]. *)
Theorem lost_usable pre a f a' : Ready pre a -> lost a f a' -> Usable pre a'.
Proof.
  intros (HS & ND & HA & _) HL. destruct (lost_inv _ _ _ HL) as (_ & Hf & _ & _ & _ & Hs).
  apply (damaged_usable pre a f a' HS ND HA (lost_damaged _ _ _ HL) Hf). intros c _. exact Hs.
Qed.

(* the same from a healthy archive (Valid.Healthy: what fault-free operations produce)
   without a GC_LOCK file *)
Lemma Healthy_Startable pre a : Healthy pre a -> get a PLock = None -> Startable pre a /\ NoDup (dirs a) /\ AInv a.
Proof.
  intros ((ND & HRt & HBl & HFp & HDp & _) & HA & Hh & _) Hl.
  split; [|split; [exact ND | exact HA]].
  split; [exact Hh|]. split; [exact Hl|]. split; [apply has_dir_In; exact HBl|].
  split.
  - intros g x G. apply has_dir_In. apply (HFp g x). apply ValidP.get_In_files. exact G.
  - intros d p Hin Hp. apply has_dir_In. exact (HDp d p Hin Hp).
Qed.

Theorem lost_usable_healthy pre a f a' :
  Healthy pre a -> get a PLock = None -> lost a f a' -> Usable pre a'.
Proof.
  intros HH Hl HL. destruct (Healthy_Startable pre a HH Hl) as (HS & ND & HA).
  destruct (lost_inv _ _ _ HL) as (_ & Hf & _ & _ & _ & Hs).
  apply (damaged_usable pre a f a' HS ND HA (lost_damaged _ _ _ HL) Hf). intros c _. exact Hs.
Qed.

(** The band id caveat: losing a file does not change which band id the next backup uses
    (the id only depends on the band DIRECTORIES, damage to files leaves directories), and
    that id is above every existing band directory. *)
Lemma lost_new_band a f a' : lost a f a' -> new_band a' = new_band a.
Proof.
  intros HL. destruct (lost_inv _ _ _ HL) as (_ & _ & _ & Hd & _).
  unfold new_band, children_dirs. rewrite Hd. reflexivity.
Qed.

Lemma new_band_above (a : arch) b : has_dir a (DBand b) = true -> b < new_band a.
Proof.
  intros Hd. assert (Hin : In (DBand b) (children_dirs a DRoot)).
  { unfold children_dirs. apply filter_In. split; [apply has_dir_In; exact Hd | reflexivity]. }
  pose proof (next_id_fresh _ _ Hin) as Hlt. fold (new_band a) in Hlt. exact Hlt.
Qed.

(* the checker is sound *)
Lemma hunksinrange_b_sound a : hunksinrange_b a = true -> HunksInRange a.
Proof.
  unfold hunksinrange_b. rewrite forallb_forall. intros H b h es G.
  apply ValidP.get_In_files in G. specialize (H _ G). cbn in H.
  rewrite forallb_forall in H. apply Forall_forall. intros e He. specialize (H e He).
  unfold inrange_e_b in H. rewrite forallb_forall in H. apply Forall_forall. intros ad Had.
  specialize (H ad Had). unfold inrange_a_b in H. apply N.leb_le in H. exact H.
Qed.

Lemma usable_b_sound pre a : usable_b pre a = true -> Usable pre a.
Proof.
  unfold usable_b. rewrite !andb_true_iff. intros [[[[H1 H2] H3] H4] H5].
  split; [apply startable_b_sound; exact H1|].
  split; [apply ValidP.nodup_dirs_sound; exact H2|].
  split; [apply nodup_paths_sound; exact H3|].
  split; [apply blockswf_b_sound; exact H4 | apply hunksinrange_b_sound; exact H5].
Qed.

Lemma all_entries_In a b h es e :
  get a (PHunk b h) = Some (Good (PlHunk es)) -> In e es -> In e (all_entries a).
Proof.
  intros G He. apply ValidP.get_In_files in G. unfold all_entries. apply in_flat_map.
  exists (PHunk b h, Good (PlHunk es)). split; [exact G | exact He].
Qed.

Lemma refintpresent_b_sound a : refintpresent_b a = true -> RefIntPresent a.
Proof.
  unfold refintpresent_b. rewrite forallb_forall. intros H b h es e ad G He Had (x & Gx & Hx).
  specialize (H e (all_entries_In a b h es e G He)). rewrite forallb_forall in H.
  specialize (H ad Had). rewrite Gx, Hx in H. cbn [negb orb] in H.
  unfold inrange_a_b in H. apply N.leb_le in H. exact H.
Qed.

(* ------------------------------------------------------------------------- *)
(** * B. Pass 2: the band being written is sorted, its tail tells the truth    *)
(* ------------------------------------------------------------------------- *)
(* ConfP.v proves conformance of ALL bands from conformance of all bands.  After a loss the
   old bands do not conform (a missing hunk, an emptied head).  The same argument, with the
   invariant restricted to the bands that did not exist when the backup started and to the
   two facts the restore needs, goes through whatever the old bands look like: the
   sub-programs that touch no index file keep every [BandEq]-closed invariant; writing the
   next hunk / the tail keeps [SortedBand] of the band being written by [Conf.CInv]. *)

Lemma SortedBand_frame a a' b :
  (forall h, get a' (PHunk b h) = get a (PHunk b h)) -> get a' (PTail b) = get a (PTail b) ->
  SortedBand a b -> SortedBand a' b.
Proof.
  intros Hh Ht ((S1 & S2) & T). split; [split|].
  - intros h es. rewrite Hh. apply S1.
  - intros h h' es es' e e'. rewrite !Hh. apply S2.
  - intros n. rewrite Ht. intros E h. rewrite Hh. apply T. exact E.
Qed.

Lemma NewSorted_BandEq a0 a a' : BandEq a a' -> NewSorted a0 a -> NewSorted a0 a'.
Proof.
  intros HB H b Hb. destruct (HB b) as [Hh Ht]. apply (SortedBand_frame a a' b Hh Ht). apply H. exact Hb.
Qed.

(* a band without any index file *)
Lemma SortedBand_none a b :
  (forall h, get a (PHunk b h) = None) -> get a (PTail b) = None -> SortedBand a b.
Proof.
  intros Hh Ht. split; [split|].
  - intros h es G. rewrite Hh in G. discriminate.
  - intros h h' es es' e e' _ G. rewrite Hh in G. discriminate.
  - intros n G. rewrite Ht in G. discriminate.
Qed.

Lemma NoOrphans_NewSorted a : NoOrphans a -> NewSorted a a.
Proof. intros H b Hb. destruct (H b Hb) as [Hh Ht]. apply SortedBand_none; assumption. Qed.

(* ---- writing the next hunk, a zero-length leftover of it, the tail ---- *)
Section NextHunkS.
  Variables (P : entry -> Prop) (U : list str) (a : arch) (w : wst).
  Hypothesis HC : CInv P U a w.
  Hypothesis Hfin : w_fin w = [].
  Hypothesis Hq : w_queue w = [].

  Let id := w_band w.
  Let s := w_seq w.
  Let es := sort_entries (w_entries w).
  Let a2 : arch := {| dirs := dirs a; files := set_file (PHunk id s) (Good (PlHunk es)) (files a) |}.
  Let ae : arch := {| dirs := dirs a; files := set_file (PHunk id s) Empty (files a) |}.

  Lemma nhs_SortedBand : SortedBand a id -> SortedBand a2 id.
  Proof.
    intros ((S1 & S2) & T).
    destruct HC as (A & B & C & D & E & F & G & H & K). fold id s in A, B, C, D, F, G, K.
    split; [split|].
    - intros h es1 G2. destruct (N.eq_dec h s) as [->|Nh].
      + unfold a2, id, s, es in G2. rewrite nh_get_same in G2. inversion G2; subst es1.
        apply (nh_sorted P U a w HC Hfin Hq).
      + unfold a2, id, s, es in G2. rewrite nh_get_hunk in G2 by exact Nh. eapply S1; eauto.
    - intros h h' es1 es2 e e' L G1 G2 I1 I2.
      destruct (N.eq_dec h' s) as [->|Nh'].
      + unfold a2, id, s, es in G2. rewrite nh_get_same in G2. inversion G2; subst es2.
        unfold a2, id, s, es in G1. rewrite nh_get_hunk in G1 by (fold s; lia).
        destruct (F _ (nh_in_pending w Hfin Hq _ I2)) as [F1 _]. apply F1.
        exists h, es1, e. auto.
      + unfold a2, id, s, es in G2. rewrite nh_get_hunk in G2 by exact Nh'.
        assert (L' : h' < s) by (apply (nh_exists_lt P U a w HC); rewrite G2; discriminate).
        unfold a2, id, s, es in G1. rewrite nh_get_hunk in G1 by (fold s; lia).
        exact (S2 h h' es1 es2 e e' L G1 G2 I1 I2).
    - intros n G2. unfold a2, id, s, es in G2. rewrite nh_get_other in G2 by discriminate.
      fold id in G2. congruence.
  Qed.

  Lemma nes_SortedBand : SortedBand a id -> SortedBand ae id.
  Proof.
    intros ((S1 & S2) & T).
    destruct HC as (A & B & C & D & E & F & G & H & K). fold id s in A, B, C, D, F, G, K.
    split; [split|].
    - intros h es1 G2. apply (ne_good a w) in G2. destruct G2 as [_ G2]. eapply S1; eauto.
    - intros h h' es1 es2 e e' L G1 G2 I1 I2.
      apply (ne_good a w) in G1. apply (ne_good a w) in G2. destruct G1 as [_ G1]. destruct G2 as [_ G2].
      exact (S2 h h' es1 es2 e e' L G1 G2 I1 I2).
    - intros n G2. unfold ae, id, s in G2. rewrite ne_get_other in G2 by discriminate.
      fold id in G2. congruence.
  Qed.

  Lemma nhs_NewSorted a0 : NewSorted a0 a -> NewSorted a0 a2.
  Proof.
    intros HN b Hb. destruct (N.eq_dec b id) as [->|Nb]; [apply nhs_SortedBand, HN, Hb|].
    apply (SortedBand_frame a a2 b); [| |apply HN, Hb].
    - intros h. apply get_set_other. intros E. inversion E. contradiction.
    - apply get_set_other. discriminate.
  Qed.

  Lemma nes_NewSorted a0 : NewSorted a0 a -> NewSorted a0 ae.
  Proof.
    intros HN b Hb. destruct (N.eq_dec b id) as [->|Nb]; [apply nes_SortedBand, HN, Hb|].
    apply (SortedBand_frame a ae b); [| |apply HN, Hb].
    - intros h. apply get_set_other. intros E. inversion E. contradiction.
    - apply get_set_other. discriminate.
  Qed.

  Variable x : fcontent.
  Hypothesis Hx : x = Empty \/ x = Good (PlTail (Some (w_hunks w))).
  Let at' : arch := {| dirs := dirs a; files := set_file (PTail id) x (files a) |}.

  Lemma wts_NewSorted a0 : NewSorted a0 a -> NewSorted a0 at'.
  Proof.
    intros HN b Hb. destruct (N.eq_dec b id) as [->|Nb].
    - destruct (HN id Hb) as ((S1 & S2) & T).
      destruct HC as (A & B & C & D & _). fold id s in A, B, C, D.
      assert (GH : forall b' h, get at' (PHunk b' h) = get a (PHunk b' h))
        by (intros b' h; apply get_set_other; discriminate).
      split; [split|].
      + intros h es1. rewrite GH. apply S1.
      + intros h h' es1 es2 e e'. rewrite !GH. apply S2.
      + intros n G2 h. unfold at' in G2. rewrite get_set_same in G2. rewrite GH.
        destruct Hx as [->| ->]; [discriminate|]. inversion G2; subst n. rewrite A. split.
        * intros L. destruct (C h L) as [es1 [G1 _]]. exists es1. exact G1.
        * apply B.
    - apply (SortedBand_frame a at' b); [| |apply HN, Hb].
      + intros h. apply get_set_other. discriminate.
      + apply get_set_other. intros E. inversion E. apply Nb. auto.
  Qed.
End NextHunkS.

(* ---- the sub-programs of the writer, for ANY invariant closed under [BandEq] ---- *)
Section WriterS.
  Variable pre : bytes -> N.
  Variable JS : arch -> Prop.
  Hypothesis JS_BandEq : forall a a', BandEq a a' -> JS a -> JS a'.
  Variable cf : cfg.

  Notation safe := (Inv.safe pre JS).
  Definition anyc (_ : entry) : Prop := True.

  Lemma ssafe_neutral {R} (Q : R -> arch -> Prop) o (k : reply -> prog R) (a : arch) :
    neutral o -> JS a ->
    (forall flt, BandEq a (fst (exec pre a o flt)) ->
                 safe Q (k (snd (exec pre a o flt))) (fst (exec pre a o flt))) ->
    safe Q (Do o k) a.
  Proof.
    intros Ho HJ Hk. cbn [Inv.safe]. split.
    - intros f. pose proof (exec_neutral_BandEq pre a o f Ho) as HB.
      split; [eapply JS_BandEq; eauto | apply Hk; exact HB].
    - eapply JS_BandEq; [apply exec_empty_neutral_BandEq; exact Ho | exact HJ].
  Qed.

  Lemma store_block_s w blk a :
    JS a -> safe (fun rw a' => BandEq a a' /\ Conf.SameIdx w (snd rw)) (store_block pre w blk) a.
  Proof.
    intros HJ. unfold store_block. destruct (mem_bytes blk (w_exists w)).
    - cbn [Inv.safe snd]. split; [apply BandEq_refl | apply ConfP.SameIdx_refl].
    - apply ssafe_neutral; [exact Logic.I | exact HJ|]. intros f1 HB1.
      destruct (is_ok (snd (exec pre a (OpMkdir (DBlockSub (pre blk))) f1))).
      + apply ssafe_neutral; [exact Logic.I | eapply JS_BandEq; eauto|]. intros f2 HB2.
        match goal with |- Inv.safe _ _ _ (if ?x then _ else _) _ => destruct x end;
          cbn [Inv.safe snd]; (split; [eapply BandEq_trans; eauto|]).
        * apply SameIdx_upd_blocks.
        * apply ConfP.SameIdx_refl.
      + cbn [Inv.safe snd]. split; [exact HB1 | apply ConfP.SameIdx_refl].
  Qed.

  Lemma comb_flush_s w a :
    JS a ->
    safe (fun rw a' => BandEq a a' /\ Trans nocand [] w (snd rw) /\ w_queue (snd rw) = [])
         (comb_flush pre w) a.
  Proof.
    intros HJ. unfold comb_flush. destruct (w_queue w) as [|q0 q] eqn:Eq.
    - cbn [Inv.safe snd]. split; [apply BandEq_refl|]. split; [apply Trans_refl | exact Eq].
    - eapply isafe_bind; [|exact HJ | apply store_block_s; exact HJ].
      intros [ok w'] a1 HJ1 [HB1 HS]. cbn [snd] in HS.
      destruct ok; cbn [Inv.safe snd]; (split; [exact HB1|]).
      + split; [|reflexivity]. rewrite <- Eq. apply flush_ok_Trans. exact HS.
      + split; [apply flush_fail_Trans; exact HS|].
        destruct HS as (_ & _ & _ & _ & _ & S6 & _). exact S6.
  Qed.

  Lemma comb_push_s w e data a :
    JS a ->
    safe (fun rw a' => BandEq a a' /\ Trans anyc [e_apath e] w (snd rw))
         (comb_push pre cf w e data) a.
  Proof.
    intros HJ. unfold comb_push. destruct data as [|x data].
    - cbn [Inv.safe snd]. split; [apply BandEq_refl|].
      eapply Trans_weaken; [|apply push_fin_Trans]. intros y _. exact Logic.I.
    - set (d := x :: data) in *.
      assert (Hd : d <> []) by discriminate.
      pose proof (push_queue_Trans w e d (w_buf w ++ d) (N.of_nat (length (w_buf w))) Hd) as HT.
      match goal with |- Inv.safe _ _ _ (if ?b then _ else _) _ => destruct b end.
      + eapply isafe_weaken; [|exact HJ | apply comb_flush_s; exact HJ].
        intros rw a1 _ (HB1 & HT1 & _). split; [exact HB1|].
        apply (Trans_trans _ _ _ _ _ _ _ _ HT HT1); intros y _; exact Logic.I.
      + cbn [Inv.safe snd]. split; [apply BandEq_refl|].
        eapply Trans_weaken; [|exact HT]. intros y _. exact Logic.I.
  Qed.

  Lemma store_chunks_s cs : forall w acc a,
    JS a ->
    safe (fun rw a' => BandEq a a' /\ Conf.SameIdx w (snd rw)) (store_chunks pre w cs acc) a.
  Proof.
    induction cs as [|ch cs IH]; intros w acc a HJ; cbn [store_chunks].
    - cbn [Inv.safe fst snd]. split; [apply BandEq_refl | apply ConfP.SameIdx_refl].
    - eapply isafe_bind; [|exact HJ | apply store_block_s; exact HJ].
      intros [ok w'] a1 HJ1 [HB1 HS1]. cbn [snd] in HS1.
      destruct ok.
      + eapply isafe_weaken; [|exact HJ1 | apply IH; exact HJ1].
        intros rw a2 _ (HB2 & HS2). split; [eapply BandEq_trans; eauto|].
        eapply SameIdx_trans; eauto.
      + cbn [Inv.safe fst snd]. split; [exact HB1 | exact HS1].
  Qed.

  Lemma copy_entry_s w basis it a :
    JS a ->
    safe (fun rw a' => BandEq a a' /\ Trans anyc [spath it] w (snd rw))
         (copy_entry pre cf w basis it) a.
  Proof.
    intros HJ. unfold copy_entry.
    set (s := si_e it). set (e := meta_from (c_owner cf) s).
    assert (Ea : forall l, e_apath (with_addrs e l) = spath it)
      by (intros l; apply ConfP.meta_from_apath).
    assert (Ea' : e_apath e = spath it) by apply ConfP.meta_from_apath.
    assert (Hpush : forall x, e_apath x = spath it ->
              safe (fun rw a' => BandEq a a' /\ Trans anyc [spath it] w (snd rw))
                   (Ret (true, push_entry w x)) a).
    { intros x Hx. cbn [Inv.safe snd]. split; [apply BandEq_refl|]. rewrite <- Hx.
      eapply Trans_weaken; [|apply push_entry_Trans]. intros y _. exact Logic.I. }
    destruct (s_kind s) eqn:K.
    - match goal with |- Inv.safe _ _ _ (match ?x with _ => _ end) _ => destruct x as [addrs|] end.
      + apply Hpush. apply Ea.
      + destruct (s_size s =? 0); [apply Hpush; exact Ea'|].
        destruct (s_size s <=? c_sfc cf).
        { eapply isafe_weaken; [|exact HJ | apply comb_push_s; exact HJ].
          intros rw a1 _ [HB1 HT1]. split; [exact HB1|]. rewrite Ea' in HT1. exact HT1. }
        eapply isafe_bind; [|exact HJ | apply store_chunks_s; exact HJ].
        intros [o w'] a1 HJ1 (HB1 & HS1). cbn [fst snd] in *.
        destruct o as [addrs|]; cbn [Inv.safe snd]; (split; [exact HB1|]).
        * eapply (Trans_trans nocand [] anyc [spath it] anyc);
            [apply SameIdx_Trans; exact HS1 | | intros y [] | auto].
          rewrite <- (Ea addrs). eapply Trans_weaken; [|apply push_entry_Trans]. intros y _. exact Logic.I.
        * apply Trans_drop. apply SameIdx_Trans. exact HS1.
    - apply Hpush. exact Ea'.
    - apply Hpush. exact Ea'.
    - cbn [Inv.safe snd]. split; [apply BandEq_refl|]. apply Trans_drop. apply Trans_refl.
  Qed.

  Lemma list_blocks_s subs : forall acc failed k a,
    JS a -> (forall o, safe QT (k o) a) -> safe QT (list_blocks subs acc failed k) a.
  Proof.
    induction subs as [|s subs IH]; intros acc failed k a HJ Hk; cbn [list_blocks]; [apply Hk|].
    apply isafe_read; [exact Logic.I | exact HJ|]. intros rep _.
    destruct rep; apply IH; assumption.
  Qed.

  (* the stitched basis only reads *)
  Lemma snext_s keep skip st last merr a :
    JS a -> safe (fun _ a' => a' = a) (snext keep skip st last merr) a.
  Proof. intros HJ. apply isafe_reads_only; [|exact HJ]. apply snext_eo. intros o Ho. exact Ho. Qed.
End WriterS.

(* ---- the sub-programs that write index files, the merge loop, the whole backup ---- *)
Section WriterS2.
  Variable pre : bytes -> N.
  Variable a0 : arch.
  Variable cf : cfg.

  Notation JS := (NewSorted a0).
  Notation safe := (Inv.safe pre (NewSorted a0)).
  Notation PT := anyc.

  Let JSB : forall a a', BandEq a a' -> JS a -> JS a' := NewSorted_BandEq a0.

  (* IndexWriter::finish_hunk, called with an empty combiner *)
  Lemma finish_hunk_s U w a :
    JS a -> CInv PT U a w -> w_fin w = [] -> w_queue w = [] ->
    safe (fun rw a' => CInv PT U a' (snd rw)) (finish_hunk w) a.
  Proof.
    intros HJ HC Hfin Hq. unfold finish_hunk. destruct (w_entries w) as [|e0 es] eqn:Ee.
    - cbn [Inv.safe snd]. exact HC.
    - rewrite <- Ee.
      assert (Hne : w_entries w <> []) by (rewrite Ee; discriminate).
      assert (Hwrite : forall a1, JS a1 -> CInv PT U a1 w ->
        safe (fun rw a' => CInv PT U a' (snd rw))
          (Do (OpWrite (PHunk (w_band w) (w_seq w)) (PlHunk (sort_entries (w_entries w))) CreateNew) (fun r =>
             if is_ok r then Ret (true, upd_index w [] (w_seq w + 1) (w_hunks w + 1)) else Ret (false, w))) a1).
      { intros a1 HJ1 HC1.
        assert (G : get a1 (PHunk (w_band w) (w_seq w)) = None).
        { destruct HC1 as (_ & B & _). apply B. lia. }
        cbn [Inv.safe]. split.
        - intros flt.
          destruct (exec_write_new pre a1 _ (PlHunk (sort_entries (w_entries w))) flt G) as [[E1 E2]|[E1 E2]];
            rewrite E1, E2; cbn [Inv.safe snd].
          + split; [exact HJ1 | exact HC1].
          + split.
            * apply (nhs_NewSorted PT U a1 w HC1 Hfin Hq a0 HJ1).
            * apply (nh_CInv PT U a1 w HC1 Hfin Hq Hne).
        - destruct (exec_empty_write_new pre a1 _ (PlHunk (sort_entries (w_entries w))) CreateNew G) as [E|E];
            rewrite E; [exact HJ1|].
          apply (nes_NewSorted PT U a1 w HC1 a0 HJ1). }
      destruct (w_seq w mod HUNKS_PER_SUBDIR =? 0).
      + apply (ssafe_neutral pre JS JSB); [exact Logic.I | exact HJ|]. intros f1 HB1.
        destruct (is_ok (snd (exec pre a (OpMkdir (DHunkSub (w_band w) (w_seq w / HUNKS_PER_SUBDIR))) f1))).
        * apply Hwrite; [eapply JSB; eauto | eapply CInv_BandEq; eauto].
        * cbn [Inv.safe snd]. eapply CInv_BandEq; eauto.
      + apply Hwrite; assumption.
  Qed.

  (* BackupWriter::flush_group *)
  Lemma flush_group_s U w a :
    JS a -> CInv PT U a w ->
    safe (fun rw a' => CInv PT U a' (snd rw)) (flush_group pre w) a.
  Proof.
    intros HJ HC. unfold flush_group.
    eapply isafe_bind; [|exact HJ | apply (comb_flush_s pre JS JSB); exact HJ].
    intros [ok w1] a1 HJ1 (HB1 & HT1 & Hq1). cbn [snd] in *.
    assert (HC1 : CInv PT U a1 w1).
    { eapply CInv_Trans0; [exact HT1|]. eapply CInv_BandEq; eauto. }
    destruct ok.
    - apply finish_hunk_s; [exact HJ1 | | reflexivity | exact Hq1].
      eapply CInv_Trans0; [apply merge_fin_Trans | exact HC1].
    - cbn [Inv.safe snd]. exact HC1.
  Qed.

  (* Band::close: the tail counts the hunks written *)
  Lemma write_tail_s U w a (k : reply -> prog bres) :
    JS a -> CInv PT U a w -> (forall r a', safe QT (k r) a') ->
    safe QT (Do (OpWrite (PTail (w_band w)) (PlTail (Some (w_hunks w))) CreateNew) k) a.
  Proof.
    intros HJ HC Hk.
    assert (G : get a (PTail (w_band w)) = None) by (destruct HC as (_ & _ & _ & D & _); exact D).
    cbn [Inv.safe]. split.
    - intros flt.
      destruct (exec_write_new pre a _ (PlTail (Some (w_hunks w))) flt G) as [[E1 E2]|[E1 E2]]; rewrite E1.
      + split; [exact HJ | apply Hk].
      + split; [|apply Hk].
        apply (wts_NewSorted PT U a w HC _ (or_intror eq_refl) a0 HJ).
    - destruct (exec_empty_write_new pre a _ (PlTail (Some (w_hunks w))) CreateNew G) as [E|E];
        rewrite E; [exact HJ|].
      apply (wts_NewSorted PT U a w HC _ (or_introl eq_refl) a0 HJ).
  Qed.

  Lemma merge_loop_s src : forall peek st last w a,
    SrcSorted src ->
    JS a -> CInv PT (map spath src) a w ->
    safe QT (merge_loop pre cf src peek st last w) a.
  Proof.
    induction src as [|it src IH]; intros peek st last w a Hs HJ HC; cbn [merge_loop].
    - eapply isafe_bind; [|exact HJ | apply (snext_s pre JS); exact HJ].
      intros [[[[skipped na] st'] last'] merr] a' _ ->.
      eapply isafe_bind; [|exact HJ | apply (flush_group_s [] _ a HJ); exact HC].
      intros [ok w2] a2 HJ2 HC2. cbn [snd] in HC2.
      destruct ok; [|exact Logic.I].
      apply (write_tail_s [] w2 a2); [exact HJ2 | exact HC2|].
      intros r a3. destruct (is_ok r); exact Logic.I.
    - destruct (SrcSorted_inv _ _ Hs) as [Hs' Hlt].
      (* the continuation after the basis has been advanced *)
      assert (Hk : forall (skipped : list entry) na st' last' merr,
        safe QT
          (let w0 := upd_counts w (w_errors w) merr (w_deleted w + N.of_nat (length skipped)) in
           let '(basis, na') :=
             match na with
             | Some e => match apath_cmp (e_apath e) (s_apath (si_e it)) with
                         | Eq => (Some e, None) | _ => (None, na) end
             | None => (None, None)
             end in
           bind (copy_entry pre cf w0 basis it) (fun rw =>
             let '(ok, w1) := rw in
             let w2 := if ok then w1 else upd_counts w1 (w_errors w1 + 1) (w_merr w1 + 1) (w_deleted w1) in
             if ok && (c_meph cf <=? N.of_nat (length (w_entries w2)) + N.of_nat (length (w_queue w2))) then
               bind (flush_group pre w2) (fun rw2 =>
                 let '(ok2, w3) := rw2 in
                 if ok2 then merge_loop pre cf src na' st' last' w3 else Ret (fail w3))
             else merge_loop pre cf src na' st' last' w2)) a).
      { intros skipped na st' last' merr. cbv zeta.
        match goal with |- Inv.safe _ _ _ (let '(_, _) := ?x in _) _ => destruct x as [basis na'] end.
        eapply isafe_bind; [|exact HJ | apply (copy_entry_s pre JS JSB); exact HJ].
        intros [ok w1] a1 HJ1 [HB1 HT1]. cbn [snd] in HT1.
        assert (HC1 : CInv PT (map spath src) a1 w1).
        { eapply (CInv_Trans PT anyc [spath it] (map spath (it :: src)));
            [exact HT1 | eapply CInv_BandEq; [exact HB1 | exact HC] | | | | |].
          - intros x _. exact Logic.I.
          - cbn [map]. apply incl_tl, incl_refl.
          - intros p [<-|[]]. left. reflexivity.
          - constructor; [intros [] | constructor].
          - intros p u [<-|[]] Hu. apply Hlt. exact Hu. }
        assert (HC2 : CInv PT (map spath src) a1
                        (if ok then w1 else upd_counts w1 (w_errors w1 + 1) (w_merr w1 + 1) (w_deleted w1)))
          by (destruct ok; exact HC1).
        match goal with |- Inv.safe _ _ _ (if ?x then _ else _) _ => destruct x end.
        - eapply isafe_bind; [|exact HJ1 | apply flush_group_s; [exact HJ1 | exact HC2]].
          intros [ok2 w3] a2 HJ2 HC3. cbn [snd] in HC3.
          destruct ok2; [|exact Logic.I].
          apply IH; auto.
        - apply IH; auto. }
      destruct peek as [e|].
      + match goal with |- Inv.safe _ _ _ (if ?x then _ else _) _ => destruct x end.
        * eapply isafe_bind; [|exact HJ | apply (snext_s pre JS); exact HJ].
          intros [[[[skipped na] st'] last'] merr] a' _ ->. apply Hk.
        * exact (Hk [] (Some e) st last (w_merr w)).
      + eapply isafe_bind; [|exact HJ | apply (snext_s pre JS); exact HJ].
        intros [[[[skipped na] st'] last'] merr] a' _ ->. apply Hk.
  Qed.
End WriterS2.

Section WholeS.
  Variable pre : bytes -> N.

  Theorem backup_sorted_safe cf src a :
    SrcSorted src -> NoOrphans a ->
    Inv.safe pre (NewSorted a) QT (backup_prog pre cf src) a.
  Proof.
    intros Hs HNo.
    assert (HJ : NewSorted a a) by (apply NoOrphans_NewSorted; exact HNo).
    pose proof (NewSorted_BandEq a) as JSB.
    unfold backup_prog, open_archive.
    apply isafe_read; [exact Logic.I | exact HJ|]. intros r0 _.
    destruct r0 as [| |[[| | | |]| |]| |]; try exact Logic.I.
    apply isafe_read; [exact Logic.I | exact HJ|]. intros r _.
    destruct r as [|[| | |]| | |]; try exact Logic.I.
    apply isafe_read; [exact Logic.I | exact HJ|]. intros r1 _.
    destruct r1 as [| | |ds1 fs1|]; try exact Logic.I.
    apply isafe_read_raw; [exact Logic.I | exact HJ|]. intros flt2.
    destruct (snd (exec pre a (OpList DRoot) flt2)) as [| | |ds2 fs2|] eqn:E2; try exact Logic.I.
    cbv zeta.
    set (id := match max_id (band_ids ds2) with Some m => m + 1 | None => 0 end).
    (* the new band has no index file yet *)
    assert (Hfresh : has_dir a (DBand id) = false).
    { destruct (has_dir a (DBand id)) eqn:Hd; [|reflexivity].
      pose proof (next_id_fresh _ _ (list_root_complete pre _ _ _ _ _ E2 Hd)) as L. fold id in L. lia. }
    destruct (HNo id Hfresh) as [Hh Ht].
    apply (ssafe_neutral pre _ JSB); [exact Logic.I | exact HJ|]. intros f3 HB3.
    destruct (is_ok (snd (exec pre a (OpMkdir (DBand id)) f3))); [|exact Logic.I].
    set (a3 := fst (exec pre a (OpMkdir (DBand id)) f3)) in *.
    assert (HJ3 : NewSorted a a3) by (eapply JSB; eauto).
    apply (ssafe_neutral pre _ JSB); [exact Logic.I | exact HJ3|]. intros f4 HB4.
    destruct (is_ok (snd (exec pre a3 (OpMkdir (DIndex id)) f4))); [|exact Logic.I].
    set (a4 := fst (exec pre a3 (OpMkdir (DIndex id)) f4)) in *.
    assert (HJ4 : NewSorted a a4) by (eapply JSB; eauto).
    apply (ssafe_neutral pre _ JSB); [exact Logic.I | exact HJ4|]. intros f5 HB5.
    destruct (is_ok (snd (exec pre a4 (OpWrite (PHead id) (PlHead HvOk) CreateNew) f5))); [|exact Logic.I].
    set (a5 := fst (exec pre a4 (OpWrite (PHead id) (PlHead HvOk) CreateNew) f5)) in *.
    assert (HJ5 : NewSorted a a5) by (eapply JSB; eauto).
    assert (HB : BandEq a a5) by (eapply BandEq_trans; [eapply BandEq_trans|]; eauto).
    apply isafe_read; [exact Logic.I | exact HJ5|]. intros r5b _.
    destruct r5b as [| | |ds5 fs5|]; try exact Logic.I.
    destruct (existsb (fun p => fpath_eqb (fst p) PLock) fs5); [exact Logic.I|].
    apply isafe_read; [exact Logic.I | exact HJ5|]. intros r6 _.
    destruct r6 as [| | |ds3 fs3|]; try exact Logic.I.
    apply list_blocks_s; [exact HJ5|].
    intros [ex|]; [|exact Logic.I].
    apply merge_loop_s; [exact Hs | exact HJ5|].
    apply CInv_initial.
    - intros h. destruct (HB id) as [HBh _]. rewrite HBh. apply Hh.
    - destruct (HB id) as [_ HBt]. rewrite HBt. exact Ht.
  Qed.

  (** PASS 2.  From ANY archive state in which a band without a directory has no index file
      -- whatever its old bands look like: missing or zero-length or undecodable hunks, heads,
      tails -- a backup of a strictly sorted source, under every fault list, at every
      intermediate state and crash point: in every band that did not exist before, apaths
      strictly increase inside and across the hunks, and a tail counts exactly the hunks. *)
  Theorem backup_new_sorted : forall cf src a0 phi,
    SrcSorted src -> NoOrphans a0 ->
    Forall (NewSorted a0) (run_states pre (backup_prog pre cf src) a0 phi)
    /\ NewSorted a0 (snd (fst (run pre (backup_prog pre cf src) a0 phi))).
  Proof.
    intros cf src a0 phi Hs HNo.
    destruct (isafe_sound pre (NewSorted a0) QT (backup_prog pre cf src) a0 phi
                (NoOrphans_NewSorted a0 HNo) (backup_sorted_safe cf src a0 Hs HNo)) as (H1 & H2 & _).
    split; assumption.
  Qed.
End WholeS.

(* ------------------------------------------------------------------------- *)
(** * C. Pass 3: the band being written names only good blocks                 *)
(* ------------------------------------------------------------------------- *)
(* RefIntP.v proves referential integrity of ALL bands from referential integrity of all
   bands.  After a loss an old entry may name a block that is gone.  What the writer really
   uses of an old (basis) entry is only that its addresses lie inside the blocks they name
   ([InRangeE]): that the blocks are THERE is checked at run time ([blocks_present], against
   the listing of non-empty block files, which [BlocksWF] makes good blocks).  The same
   argument, with referential integrity asked only of the bands that did not exist when the
   backup started. *)
Section RefNew.
  Variable pre : bytes -> N.
  Variable a0 : arch.

  Definition J3 (a : arch) : Prop := BlocksWF a /\ FilesND a /\ HunksInRange a /\ NewRefInt a0 a.

  Lemma J3_of_xpost a o rep a' :
    add_only o -> op_pre a o -> J3 a -> Old a a' -> FilesND a' -> xpost pre a o rep a' -> J3 a'.
  Proof.
    intros Ho Hp (HB & HN & HI & HR) HO HN' Hx.
    assert (Hsame : (forall g, get a' g = get a g) -> J3 a').
    { intros G. split; [|split; [exact HN'|split]].
      - intros x y Hy. rewrite G in Hy. exact (HB x y Hy).
      - intros b h es Hh. rewrite G in Hh. exact (HI b h es Hh).
      - intros b h es Hb Hh. rewrite G in Hh. eapply entries_ok_mono; [exact HO|]. exact (HR b h es Hb Hh). }
    destruct o as [f|f p m|d|d|f|f|d]; cbn in Ho; try contradiction; cbn [xpost] in Hx.
    - destruct Hx as [-> _]. apply Hsame. reflexivity.
    - destruct Hx as [(_ & _ & Gf & Gother)|[_ ->]]; [|apply Hsame; reflexivity].
      cbn [op_pre] in Hp. destruct Hp as [Hp1 Hp2].
      split; [|split; [exact HN'|split]].
      + intros x y Hy. destruct (fpath_eqb_spec (PBlock x) f) as [E|E].
        * rewrite E, Gf in Hy. inversion Hy; subst y. left. rewrite (Hp1 x (eq_sym E)). reflexivity.
        * rewrite (Gother _ E) in Hy. exact (HB x y Hy).
      + intros b h es Hh. destruct (fpath_eqb_spec (PHunk b h) f) as [E|E].
        * rewrite E, Gf in Hh. inversion Hh; subst p.
          eapply Forall_impl; [|exact (Hp2 es eq_refl)]. intros e. apply entry_ok_InRange.
        * rewrite (Gother _ E) in Hh. exact (HI b h es Hh).
      + intros b h es Hb Hh. eapply entries_ok_mono; [exact HO|].
        destruct (fpath_eqb_spec (PHunk b h) f) as [E|E].
        * rewrite E, Gf in Hh. inversion Hh; subst p. exact (Hp2 es eq_refl).
        * rewrite (Gother _ E) in Hh. exact (HR b h es Hb Hh).
    - destruct Hx as [-> _]. apply Hsame. reflexivity.
    - apply Hsame. exact Hx.
    - subst a'. apply Hsame. reflexivity.
  Qed.

  Lemma J3_exec a o flt : add_only o -> op_pre a o -> J3 a -> J3 (fst (exec pre a o flt)).
  Proof.
    intros Ho Hp HJ. eapply J3_of_xpost; eauto.
    - apply exec_add_Old. exact Ho.
    - apply exec_FilesND. destruct HJ as (_ & HN & _). exact HN.
    - apply exec_xpost. exact Ho.
  Qed.

  Lemma J3_empty a o : add_only o -> op_pre a o -> J3 a -> J3 (exec_empty pre a o).
  Proof.
    intros _ _ (HB & HN & HI & HR).
    destruct (exec_empty_cases pre a o) as [E|[f [G E]]]; rewrite E; [unfold J3; auto|].
    assert (HO : Old a {| dirs := dirs a; files := set_file f Empty (files a) |})
      by (apply Old_set_file; auto).
    assert (Gg : forall g, get {| dirs := dirs a; files := set_file f Empty (files a) |} g
                           = if fpath_eqb g f then Some Empty else get a g).
    { intros g. unfold get. cbn [files]. apply lookup_set_file. }
    split; [|split; [|split]].
    - intros x y Hy. rewrite Gg in Hy. destruct (fpath_eqb (PBlock x) f); [|exact (HB x y Hy)].
      inversion Hy. auto.
    - unfold FilesND. cbn [files]. apply set_file_nodup. exact HN.
    - intros b h es Hh. rewrite Gg in Hh. destruct (fpath_eqb (PHunk b h) f); [discriminate|].
      exact (HI b h es Hh).
    - intros b h es Hb Hh. rewrite Gg in Hh. destruct (fpath_eqb (PHunk b h) f); [discriminate|].
      eapply entries_ok_mono; [exact HO|]. exact (HR b h es Hb Hh).
  Qed.

  Notation safe := (Inv.safe pre J3).

  Lemma r_step {R} (Q : R -> arch -> Prop) o (k : reply -> prog R) (a : arch) :
    add_only o -> op_pre a o -> J3 a ->
    (forall rep a', J3 a' -> Old a a' -> xpost pre a o rep a' -> safe Q (k rep) a') ->
    safe Q (Do o k) a.
  Proof. apply gsafe_step; [exact J3_exec | exact J3_empty]. Qed.

  Lemma r_read {R} (Q : R -> arch -> Prop) o (k : reply -> prog R) (a : arch) :
    reads_only o -> J3 a ->
    (forall rep, xpost pre a o rep a -> safe Q (k rep) a) ->
    safe Q (Do o k) a.
  Proof.
    intros Ho HJ Hk. apply r_step; [apply reads_add; exact Ho | destruct o; cbn in Ho; try contradiction; exact Logic.I | exact HJ|].
    intros rep a' _ _ Hx.
    assert (E : a' = a) by (destruct o; cbn in Ho; try contradiction; cbn [xpost] in Hx; tauto).
    subst a'. apply Hk. exact Hx.
  Qed.

  (* ---- the writer ---- *)
  Definition WQ3 {A} (a : arch) (rw : A * wst) (a' : arch) : Prop :=
    Old a a' /\ J3 a' /\ WInv a' (snd rw).

  Lemma store_block_3 w x a :
    J3 a -> WInv a w ->
    safe (fun rw a' => WQ3 a rw a' /\ (fst rw = true -> block_ok a' x)) (store_block pre w x) a.
  Proof.
    intros HJ HW. unfold store_block.
    destruct (mem_bytes x (w_exists w)) eqn:M.
    - cbn [Inv.safe]. split; [split; [apply Old_refl | auto]|].
      intros _. destruct HW as (Hex & _). rewrite Forall_forall in Hex. apply Hex, mem_bytes_In, M.
    - apply r_step; [exact Logic.I | exact Logic.I | exact HJ|].
      intros rep a1 HJ1 HO1 _.
      assert (HW1 : WInv a1 w) by (eapply WInv_mono; eauto).
      destruct (is_ok rep).
      + apply r_step; [exact Logic.I | apply wok_block | exact HJ1|].
        intros rep2 a2 HJ2 HO2 HP2. cbn [xpost] in HP2.
        assert (HO : Old a a2) by (eapply Old_trans; eauto).
        destruct HP2 as [(-> & _ & G & _)|[Hne ->]].
        * cbn [is_ok Inv.safe fst snd]. split; [|intros _; exact G].
          split; [exact HO|]. split; [exact HJ2|].
          destruct (WInv_mono _ _ _ HO2 HW1) as (W1 & W2 & W3 & W4).
          unfold WInv. wsimpl. repeat split; auto.
        * destruct rep2; try congruence; cbn [is_ok Inv.safe fst snd];
            (split; [split; [exact HO | split; [exact HJ2 | exact HW1]] | discriminate]).
      + cbn [Inv.safe fst snd]. split; [|discriminate]. split; [exact HO1 | auto].
  Qed.

  Lemma comb_flush_3 w a : J3 a -> WInv a w -> safe (WQ3 a) (comb_flush pre w) a.
  Proof.
    intros HJ HW. unfold comb_flush. destruct (w_queue w) as [|q0 q] eqn:Eq.
    - cbn [Inv.safe]. split; [apply Old_refl | auto].
    - eapply gsafe_bind; [|apply store_block_3; [exact HJ|]].
      + intros [ok w'] a1 [(HO1 & HJ1 & HW1) Hb]. cbn [fst snd] in *.
        destruct ok; cbn [Inv.safe].
        * split; [exact HO1|]. split; [exact HJ1|]. cbn [snd].
          destruct HW1 as (W1 & W2 & W3 & W4). destruct HW as (_ & _ & _ & V4).
          unfold WInv. wsimpl. repeat split; auto.
          apply Forall_app. split; [exact W3|].
          rewrite Eq in V4. rewrite Forall_map. eapply Forall_impl; [|exact V4].
          intros y Hy. apply queued_entry_ok; auto.
        * split; [exact HO1|]. split; [exact HJ1 | exact HW1].
      + destruct HW as (W1 & W2 & W3 & W4). unfold WInv. wsimpl. repeat split; auto.
  Qed.

  Lemma comb_push_3 c w e data a :
    J3 a -> WInv a w -> entry_ok a e -> safe (WQ3 a) (comb_push pre c w e data) a.
  Proof.
    intros HJ HW He. unfold comb_push. destruct HW as (W1 & W2 & W3 & W4).
    destruct data as [|x data].
    - cbn [Inv.safe]. split; [apply Old_refl|]. split; [exact HJ|].
      unfold WInv. wsimpl. repeat split; auto. apply Forall_app. auto.
    - set (d := x :: data) in *.
      assert (HW1 : WInv a (upd_comb w (w_buf w ++ d)
                              (w_queue w ++ [(N.of_nat (length (w_buf w)), N.of_nat (length d), e)]) (w_fin w))).
      { unfold WInv. wsimpl. repeat split; auto. apply Forall_app. split.
        - eapply Forall_impl; [|exact W4]. intros [[s l] e']. cbn [queue_ok].
          rewrite app_length. lia.
        - constructor; [|constructor]. cbn [queue_ok]. rewrite app_length. lia. }
      match goal with |- Inv.safe _ _ _ (if ?b then _ else _) _ => destruct b end.
      + apply comb_flush_3; assumption.
      + cbn [Inv.safe]. split; [apply Old_refl | auto].
  Qed.

  Lemma finish_hunk_3 w a : J3 a -> WInv a w -> safe (WQ3 a) (finish_hunk w) a.
  Proof.
    intros HJ HW. unfold finish_hunk. destruct (w_entries w) as [|e0 es] eqn:Ee.
    - cbn [Inv.safe]. split; [apply Old_refl | auto].
    - assert (Hwrite : forall a1, Old a a1 -> J3 a1 ->
        safe (WQ3 a)
          (Do (OpWrite (PHunk (w_band w) (w_seq w)) (PlHunk (sort_entries (e0 :: es))) CreateNew) (fun r =>
             if is_ok r then Ret (true, upd_index w [] (w_seq w + 1) (w_hunks w + 1)) else Ret (false, w))) a1).
      { intros a1 HO1 HJ1.
        destruct (WInv_mono _ _ _ HO1 HW) as (W1 & W2 & W3 & W4).
        apply r_step; [exact Logic.I | | exact HJ1|].
        - apply wok_hunk. rewrite Ee in W2.
          eapply Permutation_Forall; [apply Permutation_sym, sort_entries_perm | exact W2].
        - intros rep a2 HJ2 HO2 _.
          assert (HO : Old a a2) by (eapply Old_trans; eauto).
          destruct (is_ok rep); cbn [Inv.safe]; (split; [exact HO|]; split; [exact HJ2|]).
          + unfold WInv. wsimpl. repeat split; eauto using blocks_ok_mono, entries_ok_mono.
          + eapply WInv_mono; [exact HO2|]. unfold WInv. auto. }
      destruct (w_seq w mod HUNKS_PER_SUBDIR =? 0).
      + apply r_step; [exact Logic.I | exact Logic.I | exact HJ|].
        intros rep a1 HJ1 HO1 _. destruct (is_ok rep); [apply Hwrite; assumption|].
        cbn [Inv.safe]. split; [exact HO1|]. split; [exact HJ1|]. eapply WInv_mono; eauto.
      + apply Hwrite; [apply Old_refl | exact HJ].
  Qed.

  Lemma flush_group_3 w a : J3 a -> WInv a w -> safe (WQ3 a) (flush_group pre w) a.
  Proof.
    intros HJ HW. unfold flush_group.
    eapply gsafe_bind; [|apply comb_flush_3; assumption].
    intros [ok w1] a1 (HO1 & HJ1 & HW1). cbn [snd] in HW1.
    destruct ok.
    - eapply gsafe_weaken; [|apply finish_hunk_3; [exact HJ1|]].
      + intros rw a2 (HO2 & HJ2 & HW2). split; [eapply Old_trans; eauto | auto].
      + destruct HW1 as (W1 & W2 & W3 & W4). unfold WInv. wsimpl. repeat split; auto.
        apply Forall_app. auto.
    - cbn [Inv.safe]. split; [exact HO1 | auto].
  Qed.

  Lemma store_chunks_3 cs : forall w acc a,
    J3 a -> WInv a w -> Forall (addr_ok a) acc ->
    safe (fun rw a' => WQ3 a rw a'
                       /\ match fst rw with Some addrs => Forall (addr_ok a') addrs | None => True end)
         (store_chunks pre w cs acc) a.
  Proof.
    induction cs as [|c cs IH]; intros w acc a HJ HW Hacc; cbn [store_chunks].
    - cbn [Inv.safe fst snd]. split; [|exact Hacc]. split; [apply Old_refl | auto].
    - eapply gsafe_bind; [|apply store_block_3; assumption].
      intros [ok w'] a1 [(HO1 & HJ1 & HW1) Hb]. cbn [fst snd] in *.
      destruct ok.
      + eapply gsafe_weaken; [|apply IH; [exact HJ1 | exact HW1 |]].
        * intros rw a2 [(HO2 & HJ2 & HW2) Hr]. split; [|exact Hr].
          split; [eapply Old_trans; eauto | auto].
        * apply Forall_app. split.
          -- eapply Forall_impl; [|exact Hacc]. intros ad. apply addr_ok_mono. exact HO1.
          -- constructor; [|constructor]. apply chunk_addr_ok. apply Hb. reflexivity.
      + cbn [Inv.safe fst snd]. split; [|exact Logic.I]. split; [exact HO1 | auto].
  Qed.

  (* THE point: a basis entry whose blocks are all listed as present and whose addresses lie
     inside the blocks they name can be read *)
  Lemma reuse_entry_ok a w b e :
    WInv a w -> InRangeE b -> blocks_present w b = true -> entry_ok a (with_addrs e (e_addrs b)).
  Proof.
    intros (Hex & _) Hr Hp. unfold entry_ok. cbn [with_addrs e_addrs].
    unfold blocks_present in Hp. rewrite forallb_forall in Hp.
    unfold InRangeE in Hr. rewrite Forall_forall in *.
    intros ad Had. split; [apply Hex, mem_bytes_In, Hp, Had | apply Hr, Had].
  Qed.

  Lemma copy_entry_3 c w basis it a :
    J3 a -> WInv a w -> optP InRangeE basis ->
    safe (WQ3 a) (copy_entry pre c w basis it) a.
  Proof.
    intros HJ HW Hb. unfold copy_entry.
    assert (Hm : forall a', entry_ok a' (meta_from (c_owner c) (si_e it)))
      by (intros a'; apply entry_ok_nil_addrs, meta_from_addrs).
    assert (Hret : forall e, entry_ok a e -> safe (WQ3 a) (Ret (true, push_entry w e)) a).
    { intros e He. cbn [Inv.safe]. split; [apply Old_refl|]. split; [exact HJ|].
      cbn [snd]. apply push_entry_WInv; assumption. }
    destruct (s_kind (si_e it)); auto.
    2:{ cbn [Inv.safe]. split; [apply Old_refl | auto]. }
    match goal with |- Inv.safe _ _ _ (match ?x with _ => _ end) _ => destruct x as [addrs|] eqn:Er end.
    - apply Hret. destruct basis as [b|]; [|discriminate].
      destruct (unchanged w (si_e it) b && blocks_present w b) eqn:Eu; [|discriminate].
      inversion Er; subst addrs. cbn [optP] in Hb.
      apply andb_true_iff in Eu. destruct Eu as [_ Eu].
      exact (reuse_entry_ok a w b _ HW Hb Eu).
    - destruct (s_size (si_e it) =? 0); [apply Hret; auto|].
      destruct (s_size (si_e it) <=? c_sfc c); [apply comb_push_3; auto|].
      eapply gsafe_bind; [|apply store_chunks_3; [exact HJ | exact HW | constructor]].
      intros [o w'] a1 [(HO1 & HJ1 & HW1) Hr]. cbn [fst snd] in *.
      destruct o as [addrs|]; cbn [Inv.safe]; (split; [exact HO1|]; split; [exact HJ1|]); [|exact HW1].
      cbn [snd]. apply push_entry_WInv; [exact HW1|]. exact Hr.
  Qed.

  (* ---- the merge loop, the block listing, the whole backup ---- *)
  Lemma J3_hunks a : J3 a -> forall b h es, get a (PHunk b h) = Some (Good (PlHunk es)) -> Forall InRangeE es.
  Proof. intros (_ & _ & HI & _). exact HI. Qed.

  Lemma merge_loop_3 c src : forall peek st last w a,
    J3 a -> WInv a w -> SInvP InRangeE st -> optP InRangeE peek ->
    safe QT (merge_loop pre c src peek st last w) a.
  Proof.
    induction src as [|it src IH]; intros peek st last w a HJ HW HS HP; cbn [merge_loop].
    - eapply gsafe_bind; [|apply (snext_P pre J3 InRangeE); [exact HJ | apply J3_hunks; exact HJ | exact HS]].
      intros [[[[skipped na] st'] last'] merr] a' [-> _].
      eapply gsafe_bind; [|apply flush_group_3; [exact HJ | apply upd_counts_WInv; exact HW]].
      intros [ok w2] a2 (HO2 & HJ2 & HW2).
      destruct ok; [|exact Logic.I].
      apply r_step; [exact Logic.I | | exact HJ2|].
      + apply wok_other; [intros x E | intros x E]; discriminate.
      + intros rep a3 _ _ _. destruct (is_ok rep); exact Logic.I.
    - (* the continuation after the basis has been advanced *)
      assert (Hk : forall (skipped : list entry) na st' last' merr,
        optP InRangeE na -> SInvP InRangeE st' ->
        safe QT
          (let w0 := upd_counts w (w_errors w) merr (w_deleted w + N.of_nat (length skipped)) in
           let '(basis, na') :=
             match na with
             | Some e => match apath_cmp (e_apath e) (s_apath (si_e it)) with
                         | Eq => (Some e, None) | _ => (None, na) end
             | None => (None, None)
             end in
           bind (copy_entry pre c w0 basis it) (fun rw =>
             let '(ok, w1) := rw in
             let w2 := if ok then w1 else upd_counts w1 (w_errors w1 + 1) (w_merr w1 + 1) (w_deleted w1) in
             if ok && (c_meph c <=? N.of_nat (length (w_entries w2)) + N.of_nat (length (w_queue w2))) then
               bind (flush_group pre w2) (fun rw2 =>
                 let '(ok2, w3) := rw2 in
                 if ok2 then merge_loop pre c src na' st' last' w3 else Ret (fail w3))
             else merge_loop pre c src na' st' last' w2)) a).
      { intros skipped na st' last' merr Hna Hst'. cbv zeta.
        match goal with |- Inv.safe _ _ _ (let '(_, _) := ?x in _) _ => destruct x as [basis na'] eqn:Ex end.
        assert (Hbn : optP InRangeE basis /\ optP InRangeE na').
        { destruct na as [e|]; [|inversion Ex; subst; cbn; auto].
          destruct (apath_cmp (e_apath e) (s_apath (si_e it))); inversion Ex; subst; cbn [optP]; auto. }
        destruct Hbn as [Hbasis Hna'].
        eapply gsafe_bind; [|apply copy_entry_3; [exact HJ | apply upd_counts_WInv; exact HW | exact Hbasis]].
        intros [ok w1] a1 (HO1 & HJ1 & HW1). cbn [snd] in HW1.
        assert (HW2 : WInv a1 (if ok then w1 else upd_counts w1 (w_errors w1 + 1) (w_merr w1 + 1) (w_deleted w1)))
          by (destruct ok; exact HW1).
        match goal with |- Inv.safe _ _ _ (if ?x then _ else _) _ => destruct x end.
        - eapply gsafe_bind; [|apply flush_group_3; [exact HJ1 | exact HW2]].
          intros [ok2 w3] a2 (HO2 & HJ2 & HW3). cbn [snd] in HW3.
          destruct ok2; [|exact Logic.I].
          apply IH; auto.
        - apply IH; auto. }
      destruct peek as [e|].
      + match goal with |- Inv.safe _ _ _ (if ?x then _ else _) _ => destruct x end.
        * eapply gsafe_bind; [|apply (snext_P pre J3 InRangeE); [exact HJ | apply J3_hunks; exact HJ | exact HS]].
          intros [[[[skipped na] st'] last'] merr] a' [-> (_ & Hna & Hst')]. apply Hk; assumption.
        * exact (Hk [] (Some e) st last (w_merr w) HP HS).
      + eapply gsafe_bind; [|apply (snext_P pre J3 InRangeE); [exact HJ | apply J3_hunks; exact HJ | exact HS]].
        intros [[[[skipped na] st'] last'] merr] a' [-> (_ & Hna & Hst')]. apply Hk; assumption.
  Qed.

  (* a listed non-empty block file is a good block *)
  Lemma listed_block_ok_3 (a : arch) d x :
    J3 a -> In (PBlock x, true) (children_files pre a d) -> block_ok a x.
  Proof.
    intros (HB & HN & _) Hin. unfold children_files in Hin.
    apply in_map_iff in Hin. destruct Hin as [[f y] [E Hin]]. cbn [fst snd] in E.
    apply filter_In in Hin. destruct Hin as [Hin _].
    inversion E; subst f.
    assert (G : get a (PBlock x) = Some y) by (apply lookup_In_nodup; assumption).
    unfold block_ok. rewrite G.
    destruct (HB x y G) as [->| ->]; [reflexivity | discriminate].
  Qed.

  Lemma list_blocks_3 subs : forall acc failed k a,
    J3 a -> Forall (block_ok a) acc ->
    (forall o, match o with Some ex => Forall (block_ok a) ex | None => True end -> safe QT (k o) a) ->
    safe QT (list_blocks subs acc failed k) a.
  Proof.
    induction subs as [|s subs IH]; intros acc failed k a HJ Ha Hk; cbn [list_blocks].
    - apply Hk. destruct failed; auto.
    - apply r_read; [exact Logic.I | exact HJ|]. intros rep Hr.
      destruct rep as [|e|x|ds fs|ne]; try (apply IH; assumption).
      cbn [xpost] in Hr. destruct Hr as [_ [_ ->]]. apply IH; auto.
      apply Forall_app. split; [exact Ha|].
      apply Forall_forall. intros x Hx. apply in_flat_map in Hx.
      destruct Hx as [[f b] [Hin Hx]].
      destruct f; try destruct Hx. destruct b; [destruct Hx as [<-|[]] | destruct Hx].
      eapply listed_block_ok_3; eauto.
  Qed.

  Theorem backup_refnew_safe c src a : J3 a -> safe QT (backup_prog pre c src) a.
  Proof.
    intros HJ. unfold backup_prog, open_archive.
    apply r_read; [exact Logic.I | exact HJ|]. intros r0 _.
    destruct r0 as [| |[[| | | |]| |]| |]; try exact Logic.I.
    apply r_read; [exact Logic.I | exact HJ|]. intros r _.
    destruct r as [|[| | |]| | |]; try exact Logic.I.
    apply r_read; [exact Logic.I | exact HJ|]. intros r1 _.
    destruct r1 as [| | |ds1 fs1|]; try exact Logic.I.
    apply r_read; [exact Logic.I | exact HJ|]. intros r2 _.
    destruct r2 as [| | |ds2 fs2|]; try exact Logic.I.
    apply r_step; [exact Logic.I | exact Logic.I | exact HJ|]. intros r3 a3 HJ3 _ _.
    destruct (is_ok r3); [|exact Logic.I].
    apply r_step; [exact Logic.I | exact Logic.I | exact HJ3|]. intros r4 a4 HJ4 _ _.
    destruct (is_ok r4); [|exact Logic.I].
    apply r_step; [exact Logic.I | | exact HJ4|].
    { apply wok_other; intros x E; discriminate. }
    intros r5 a5 HJ5 _ _.
    destruct (is_ok r5); [|exact Logic.I].
    apply r_read; [exact Logic.I | exact HJ5|]. intros r5b _.
    destruct r5b as [| | |ds5 fs5|]; try exact Logic.I.
    destruct (existsb (fun p => fpath_eqb (fst p) PLock) fs5); [exact Logic.I|].
    apply r_read; [exact Logic.I | exact HJ5|]. intros r6 _.
    destruct r6 as [| | |ds3 fs3|]; try exact Logic.I.
    apply list_blocks_3; [exact HJ5 | constructor|].
    intros [ex|] Hex; [|exact Logic.I].
    apply merge_loop_3; [exact HJ5 | | | exact Logic.I].
    - unfold WInv. cbn [w_exists w_entries w_fin w_queue w_buf]. repeat split; auto.
    - destruct (max_id (band_ids ds1)); exact Logic.I.
  Qed.
End RefNew.

Lemma NoOrphans_NewRefInt a : NoOrphans a -> NewRefInt a a.
Proof. intros H b h es Hb G. destruct (H b Hb) as [Hh _]. rewrite Hh in G. discriminate. Qed.

(** PASS 3.  From ANY archive state whose non-empty block files hold their own content, in
    which no path is listed twice, a band without a directory has no index file, and the
    addresses of the index entries that still decode lie inside the blocks they name --
    whether or not those blocks exist -- a backup of ANY source under ANY configuration, for
    every fault list, at every intermediate state and crash point: every index entry of every
    band that did not exist before names only good blocks, within their length. *)
Theorem backup_new_refint : forall pre c src a0 phi,
  BlocksWF a0 -> FilesND a0 -> HunksInRange a0 -> NoOrphans a0 ->
  Forall (J3 a0) (run_states pre (backup_prog pre c src) a0 phi)
  /\ J3 a0 (snd (fst (run pre (backup_prog pre c src) a0 phi))).
Proof.
  intros pre c src a0 phi HB HN HI HNo.
  assert (HJ : J3 a0 a0) by (unfold J3; auto using NoOrphans_NewRefInt).
  destruct (gsafe_sound pre (J3 a0) QT (backup_prog pre c src) a0 phi HJ
              (backup_refnew_safe pre a0 c src a0 HJ)) as (H1 & H2 & _).
  split; assumption.
Qed.

(* ------------------------------------------------------------------------- *)
(** * D. The state after a successful backup from a [Usable] state             *)
(* ------------------------------------------------------------------------- *)
(* [E2EP.After] / [HistoryP.AfterPhi] redone from the weaker start invariant, for an
   arbitrary fault list. *)
Section Heal.
  Variable pre : bytes -> N.
  Variables (c : cfg) (src : list sitem) (a0 a1 : arch) (phi : list fault) (r : bres).
  Hypothesis HU : Usable pre a0.
  Hypothesis Hs : SrcSorted src.
  Hypothesis Hw : SrcWF src.
  Hypothesis Hc : cfg_ok c.
  Hypothesis Ea1 : snd (fst (run pre (backup_prog pre c src) a0 phi)) = a1.
  Hypothesis Er : snd (run pre (backup_prog pre c src) a0 phi) = Done r.
  Hypothesis Rok : b_ok r = true.
  Hypothesis Rerr : b_errors r = 0.

  Let b := new_band a0.
  Let HS : Startable pre a0 := proj1 HU.
  Let NDd : NoDup (dirs a0) := proj1 (proj2 HU).
  Let HN : FilesND a0 := proj1 (proj2 (proj2 HU)).
  Let HB : BlocksWF a0 := proj1 (proj2 (proj2 (proj2 HU))).
  Let HI : HunksInRange a0 := proj2 (proj2 (proj2 (proj2 HU))).
  Let Hh : get a0 PHeader = Some (Good PlJson) := proj1 HS.
  Let Hb : has_dir a0 DBlocks = true := proj1 (proj2 (proj2 HS)).
  Let HWF : WFparents pre a0 := proj2 (proj2 (proj2 HS)).
  Let HOK : SrcOK src := SrcSorted_SrcOK src Hs Hw.
  Let HDW : DirsWF pre a0 := WFparents_DirsWF pre a0 HWF.
  Let HNo : NoOrphans a0 := WFparents_NoOrphans pre a0 HWF.

  Lemma heal_invariants :
    TruthP.J c src a0 b a1
    /\ WFparents pre a1 /\ NoDup (dirs a1) /\ SortedBand a1 b
    /\ (forall h es, get a1 (PHunk b h) = Some (Good (PlHunk es)) -> Forall (entry_ok a1) es).
  Proof.
    assert (HJ0 : TruthP.J c src a0 b a0).
    { split; [exact HB|]. split; [exact HN|]. split; [apply Old_refl|]. intros b' h es G. left. exact G. }
    destruct (gsafe_sound pre (TruthP.J c src a0 b) (QB b) _ a0 phi HJ0
                (backup_t pre c src a0 b HOK Hc HJ0 eq_refl)) as (_ & HJ1 & _).
    destruct (any_run_WFparents pre (backup_prog pre c src) a0 phi HWF) as (_ & HWF1).
    destruct (any_run_NoDup_dirs pre (backup_prog pre c src) a0 phi NDd) as (_ & NDd1).
    destruct (backup_new_sorted pre c src a0 phi Hs HNo) as (_ & HS1).
    destruct (backup_new_refint pre c src a0 phi HB HN HI HNo) as (_ & (_ & _ & _ & HR1)).
    destruct (new_band_fresh pre a0 HWF) as (Hfresh & _).
    rewrite Ea1 in *.
    split; [exact HJ1|]. split; [exact HWF1|]. split; [exact NDd1|].
    split; [apply HS1; exact Hfresh|].
    intros h es. apply HR1. exact Hfresh.
  Qed.

  Lemma heal_header : get a1 PHeader = Some (Good PlJson) /\ has_dir a1 DBlocks = true.
  Proof.
    destruct heal_invariants as ((_ & _ & [HOd HOf] & _) & _). split.
    - apply HOf; [exact Hh | discriminate].
    - apply HOd. apply has_dir_In. exact Hb.
  Qed.

  Lemma heal_head : get a1 (PHead b) = Some (Good (PlHead HvOk)) /\ has_dir a1 (DIndex b) = true.
  Proof. rewrite <- Ea1. apply (backup_done_head pre c src a0 phi r Er Rok). Qed.

  (* the new band is closed by a truthful tail; its hunks 0..n-1, in order, are strictly
     sorted and carry exactly the paths of the recorded source items, in source order *)
  Lemma heal_new_band :
    exists n,
      get a1 (PTail b) = Some (Good (PlTail (Some n)))
      /\ (forall h, get a1 (PHunk b h) <> None -> h < n)
      /\ (forall h, h < n -> exists es, get a1 (PHunk b h) = Some (Good (PlHunk es)))
      /\ map e_apath (rec_upto a1 b (N.to_nat n)) = map spath (known_items src).
  Proof.
    destruct heal_invariants as (_ & _ & _ & (HSo & HTT) & _).
    destruct (backup_success_complete_wf pre c src a0 phi r HDW Er Rok Rerr) as [HComp _].
    rewrite Ea1 in HComp. fold b in HComp. destruct HComp as (n & Htail & Hhunks & Hperm).
    exists n. split; [exact Htail|]. split; [|split].
    - intros h Hne. destruct (N.lt_ge_cases h n) as [L|L]; [exact L|].
      exfalso. apply Hne. apply (proj2 (HTT n Htail h) L).
    - intros h L. apply (proj1 (HTT n Htail h) L).
    - apply sorted_perm_eq; [| |exact Hperm].
      + apply SS_map. exact (rec_upto_sorted a1 b HSo (N.to_nat n)).
      + unfold kpaths. apply (SS_map_filter plt spath). exact Hs.
  Qed.

  (* the entry recorded for source item [it] restores to [it] *)
  Lemma heal_entry_restored n it e :
    In it (known_items src) -> In e (rec_upto a1 b n) -> spath it = e_apath e ->
    item_healed c a0 it (restored_in a1 e) /\ not_restored a1 e = false.
  Proof.
    intros Hit He Hpath.
    destruct heal_invariants as ((_ & _ & HOld & HT) & _ & _ & _ & HR1).
    apply filter_In in Hit. destruct Hit as [Hin Hk].
    apply rec_upto_In in He. destruct He as (i & es & Hi & G & Hine).
    destruct (new_band_fresh pre a0 HWF) as (_ & _ & _ & Hnoh).
    (* where the entry comes from *)
    assert (HE : EntOK c src a0 b a1 e).
    { destruct (HT _ _ _ G) as [G0|[_ Hes]].
      - fold b in Hnoh. rewrite Hnoh in G0. discriminate.
      - rewrite Forall_forall in Hes. apply Hes. exact Hine. }
    destruct HE as (it' & Hin' & Hm & Hcase).
    assert (Eit : it' = it).
    { apply (NoDup_map_unique (fun it => s_apath (si_e it)) src it' it (proj2 HOK) Hin' Hin).
      rewrite <- (meta_of_apath c it' e Hm). symmetry. exact Hpath. }
    subst it'.
    pose proof (meta_of_kind c it e Hm) as Hkind.
    (* the entry can be read *)
    assert (Hok : entry_ok a1 e).
    { pose proof (HR1 _ _ G) as F. rewrite Forall_forall in F. apply F. exact Hine. }
    unfold item_healed, restored_in, not_restored.
    destruct (s_kind (si_e it)) eqn:Ek; rewrite Hkind; try discriminate Hk.
    - (* a file *)
      rewrite (entry_ok_readable_b a1 e Hok), (entry_ok_read_content a1 e Hok). split; [|reflexivity].
      destruct (Hcase Hkind) as [HF | (be & Hib & Hpb & Hu & Hadd)].
      + exists e, (si_data it). split; [rewrite HF; reflexivity|]. split; [exact Hm | left; reflexivity].
      + pose proof (entry_ok_content _ _ Hok) as Hne.
        destruct (content_of a1 e) as [d|] eqn:Ed; [|contradiction].
        exists e, d. split; [reflexivity|]. split; [exact Hm|].
        right. exists be. split; [split; [exact Hib | split; [exact Hpb | exact Hu]]|].
        split; [exact Hadd|]. split.
        * unfold denoted. rewrite <- Hadd, (entry_ok_read_content a1 e Hok). exact Ed.
        * intros d' Ed'. pose proof (same_addrs_same_content a0 a1 e be d' HOld Hadd Ed') as Ec.
          congruence.
    - split; [|reflexivity]. exists e, []. split; [reflexivity|]. split; [exact Hm | reflexivity].
    - split; [|reflexivity]. exists e, []. split; [reflexivity|]. split; [exact Hm | reflexivity].
  Qed.

  (* restoring the new band *)
  Lemma heal_restore :
    exists tr' rr,
      run pre (restore_prog (Specified b) keep_all) a1 [] = (tr', a1, Done rr)
      /\ r_ok rr = true /\ r_merr rr = 0
      /\ Forall2 (item_healed c a0) (known_items src) (r_files rr).
  Proof.
    destruct heal_invariants as ((_ & HN1 & _) & HWF1 & NDd1 & _).
    destruct heal_header as [Hh1 Hb1]. destruct heal_head as [Hhead1 Hidx1].
    destruct heal_new_band as (n & Htail & Hlt & Hgood & Hpaths).
    assert (Hopen : opens_b a1 b = true) by (unfold opens_b, rd; rewrite Hhead1; reflexivity).
    destruct (stitch_pure_closed_band pre a1 keep_all NDd1 HN1 (proj1 HWF1) b n
                Hopen Hidx1 Htail Hlt Hgood) as [last Est].
    destruct (restore_accounts pre a1 b keep_all Hh1 Hopen (proj1 (has_dir_In _ _) Hb1))
      as (tr' & rr & Erun & R1 & R2 & R3).
    rewrite Est in R2, R3. cbn [fst snd] in R2, R3. rewrite filter_keep_all in R2, R3.
    exists tr', rr. split; [exact Erun|]. split; [exact R1|].
    set (L := rec_upto a1 b (N.to_nat n)) in *.
    assert (Hall : forall it e, In it (known_items src) -> In e L -> spath it = e_apath e ->
                     item_healed c a0 it (restored_in a1 e) /\ not_restored a1 e = false)
      by (intros it e; apply heal_entry_restored).
    split.
    - rewrite R3. rewrite filter_none; [reflexivity|].
      intros e He.
      assert (Hp : In (e_apath e) (map spath (known_items src))) by (rewrite <- Hpaths; apply in_map; exact He).
      apply in_map_iff in Hp. destruct Hp as [it [Ep Hit]].
      exact (proj2 (Hall it e Hit He Ep)).
    - rewrite R2. apply (Forall2_same_keys e_apath spath); [symmetry; exact Hpaths|].
      intros it e Hit He Ep. exact (proj1 (Hall it e Hit He Ep)).
  Qed.

  (* the state reached is [Usable] again *)
  Lemma heal_usable : Usable pre a1.
  Proof.
    destruct heal_invariants as ((HB1 & HN1 & _) & HWF1 & NDd1 & _).
    destruct heal_header as [Hh1 Hb1].
    destruct (backup_new_refint pre c src a0 phi HB HN HI HNo) as (_ & (_ & _ & HI1 & _)).
    rewrite Ea1 in HI1.
    pose proof (backup_lock_same pre c src a0 phi) as HL. rewrite Forall_forall in HL.
    assert (Hl1 : get a1 PLock = None).
    { pose proof (HL _ (all_states_final pre (backup_prog pre c src) a0 phi)) as E.
      unfold final2 in E. rewrite Ea1 in E. rewrite E. exact (proj1 (proj2 HS)). }
    split; [|auto]. split; [exact Hh1|]. split; [exact Hl1|]. split; [exact Hb1 | exact HWF1].
  Qed.
End Heal.

(* ------------------------------------------------------------------------- *)
(** * E. The theorems                                                          *)
(* ------------------------------------------------------------------------- *)

(* [item_healed] and [E2E.item_restored] / [E2E.item_restored_exact] *)
Lemma item_healed_exact c a0 it rf :
  item_healed c a0 it rf -> (forall be, ~ basis_match a0 it be) -> item_restored_exact c it rf.
Proof.
  intros (e & d & -> & Hm & Hd) Hno. exists e. split; [|exact Hm].
  destruct (s_kind (si_e it)); try (subst d; reflexivity).
  destruct Hd as [->|(be & Hbm & _)]; [reflexivity|]. exfalso. exact (Hno be Hbm).
Qed.

(* where every basis entry that could be reused can be read in the start state (as after
   [Ready]), [item_healed] is [item_restored] *)
Lemma item_healed_restored c a0 it rf :
  item_healed c a0 it rf -> (forall be, basis_match a0 it be -> content_of a0 be <> None) ->
  item_restored c a0 it rf.
Proof.
  intros (e & d & -> & Hm & Hd) Hr. exists e, d. split; [reflexivity|]. split; [exact Hm|].
  destruct (s_kind (si_e it)); try exact Hd.
  destruct Hd as [->|(be & Hbm & Hadd & _ & Hsame)]; [left; reflexivity|].
  right. exists be. split; [exact Hbm|]. split; [exact Hadd|].
  destruct (content_of a0 be) as [d'|] eqn:Ed; [|destruct (Hr be Hbm Ed)].
  rewrite (Hsame d' eq_refl). reflexivity.
Qed.

Lemma item_restored_healed c a0 it rf :
  RefInt a0 -> item_restored c a0 it rf -> item_healed c a0 it rf.
Proof.
  intros HR (e & d & -> & Hm & Hd). exists e, d. split; [reflexivity|]. split; [exact Hm|].
  destruct (s_kind (si_e it)); try exact Hd.
  destruct Hd as [->|(be & Hbm & Hadd & Hc)]; [left; reflexivity|].
  right. exists be. split; [exact Hbm|]. split; [exact Hadd|].
  pose proof Hbm as ((b' & h' & es' & _ & G & Hin) & _).
  pose proof (HR _ _ _ G) as F. rewrite Forall_forall in F.
  split; [|intros d' E; congruence].
  unfold denoted. rewrite (entry_ok_read_content a0 be (F _ Hin)). exact Hc.
Qed.

(** HEALING, ANY FAULTS.  From a [Usable] state, a backup of a strictly sorted, well-formed
    source under a configuration with max_block_size >= 1 that -- whatever storage failures
    it met -- ran to its end and reported success and no error: the band it reports is the
    band id it was bound to use; the state reached is [Usable] again; and restoring that band
    from it, no fault, runs to the end, reports no error, and returns -- in source order --
    exactly one restored file per recorded source item ([item_healed]). *)
Theorem backup_completed_heals : forall pre c src a0 phi r,
  Usable pre a0 -> SrcSorted src -> SrcWF src -> cfg_ok c ->
  snd (run pre (backup_prog pre c src) a0 phi) = Done r -> b_ok r = true -> b_errors r = 0 ->
  let a1 := snd (fst (run pre (backup_prog pre c src) a0 phi)) in
  b_band r = Some (new_band a0)
  /\ Usable pre a1
  /\ exists tr' rr,
       run pre (restore_prog (Specified (new_band a0)) keep_all) a1 [] = (tr', a1, Done rr)
       /\ r_ok rr = true /\ r_merr rr = 0
       /\ Forall2 (item_healed c a0) (known_items src) (r_files rr).
Proof.
  intros pre c src a0 phi r HU Hs Hw Hc Er Rok Rerr a1.
  pose proof HU as ((_ & _ & _ & HWF) & _).
  destruct (backup_success_complete_wf pre c src a0 phi r (WFparents_DirsWF pre a0 HWF) Er Rok Rerr) as [_ Eb].
  split; [exact Eb|]. split.
  - exact (heal_usable pre c src a0 a1 phi HU Hs Hw Hc eq_refl).
  - exact (heal_restore pre c src a0 a1 phi r HU Hs Hw Hc eq_refl Er Rok Rerr).
Qed.

(** C10, "a new backup of the source completes and restores exactly".  Start from any
    [Usable] archive state [a0] -- in particular a [Ready] archive ONE file of which, other
    than the header, was deleted or truncated to zero length ([lost_usable]).  Back up ANY
    strictly sorted, well-formed source under ANY configuration with max_block_size >= 1, no
    storage fault.  Then
    (i)  the backup runs to the end and reports success, no error ([b_errors]; errors met
         while READING the damaged old bands go to the monitor only, [b_merr]), and the new
         band, whose id is above every existing band directory;
    (ii) restoring that band from the state reached, no storage fault, runs to the end,
         reports no error, and returns -- IN SOURCE ORDER -- exactly one restored file per
         source item that is a file, directory or symlink, carrying that item's path, kind,
         mtime, mode, owner and link target; a directory or symlink with no content; a file
         with exactly the bytes read from the source, or, when the backup reused the
         addresses of the previous entry of the same path because kind, mtime and size were
         unchanged AND every block it names was listed as present, the bytes those addresses
         denote (what that entry restored to before the backup, if it could be restored).
    ([SrcValid] is not needed.) *)
Theorem backup_heals : forall pre c src a0,
  Usable pre a0 -> SrcSorted src -> SrcWF src -> cfg_ok c ->
  exists tr a1 r,
    run pre (backup_prog pre c src) a0 [] = (tr, a1, Done r)
    /\ b_ok r = true /\ b_errors r = 0 /\ b_band r = Some (new_band a0)
    /\ exists tr' rr,
         run pre (restore_prog (Specified (new_band a0)) keep_all) a1 [] = (tr', a1, Done rr)
         /\ r_ok rr = true /\ r_merr rr = 0
         /\ Forall2 (item_healed c a0) (known_items src) (r_files rr).
Proof.
  intros pre c src a0 HU Hs Hw Hc.
  destruct (backup_succeeds pre c src a0 (proj1 HU)) as (tr & a1 & r & E & Rok & Rerr & Rband & _).
  exists tr, a1, r. split; [exact E|]. split; [exact Rok|]. split; [exact Rerr|]. split; [exact Rband|].
  apply (heal_restore pre c src a0 a1 [] r HU Hs Hw Hc); try assumption; rewrite E; reflexivity.
Qed.

(** ... and the state reached is [Usable] again (with the lost block, if the source still had
    its content, stored again): backups chain. *)
Theorem backup_keeps_usable : forall pre c src a0 phi,
  Usable pre a0 -> SrcSorted src -> SrcWF src -> cfg_ok c ->
  Usable pre (snd (fst (run pre (backup_prog pre c src) a0 phi))).
Proof. intros pre c src a0 phi HU Hs Hw Hc. exact (heal_usable pre c src a0 _ phi HU Hs Hw Hc eq_refl). Qed.

(** No reuse, exact bytes: if no entry of an earlier band that still decodes has the path,
    kind, mtime and size of a source file, every file restores to exactly the bytes read from
    the source. *)
Theorem backup_heals_fresh : forall pre c src a0,
  Usable pre a0 -> SrcSorted src -> SrcWF src -> cfg_ok c ->
  (forall it be, In it src -> s_kind (si_e it) = KFile -> ~ basis_match a0 it be) ->
  exists tr a1 r,
    run pre (backup_prog pre c src) a0 [] = (tr, a1, Done r)
    /\ b_ok r = true /\ b_errors r = 0 /\ b_band r = Some (new_band a0)
    /\ exists tr' rr,
         run pre (restore_prog (Specified (new_band a0)) keep_all) a1 [] = (tr', a1, Done rr)
         /\ r_ok rr = true /\ r_merr rr = 0
         /\ Forall2 (item_restored_exact c) (known_items src) (r_files rr).
Proof.
  intros pre c src a0 HU Hs Hw Hc Hno.
  destruct (backup_heals pre c src a0 HU Hs Hw Hc)
    as (tr & a1 & r & E & Rok & Rerr & Rband & tr' & rr & E' & R1 & R2 & R3).
  exists tr, a1, r. repeat (split; [assumption|]). exists tr', rr. repeat (split; [assumption|]).
  eapply Forall2_impl_In; [exact R3|].
  intros it rf Hit (e & d & -> & Hm & Hd). apply filter_In in Hit. destruct Hit as [Hin _].
  exists e. split; [|exact Hm]. destruct (s_kind (si_e it)) eqn:Ek; try (subst d; reflexivity).
  destruct Hd as [->|(be & Hbm & _)]; [reflexivity|]. exfalso. exact (Hno it be Hin Ek Hbm).
Qed.

(** The clause as stated: ONE file of a [Ready] archive other than the header deleted or
    truncated to zero length; then a new fault-free backup of any source succeeds, into the
    band id the undamaged archive would have used, and restoring it gives the source. *)
Theorem lost_then_backup_heals : forall pre c src a f a',
  Ready pre a -> lost a f a' -> SrcSorted src -> SrcWF src -> cfg_ok c ->
  exists tr a1 r,
    run pre (backup_prog pre c src) a' [] = (tr, a1, Done r)
    /\ b_ok r = true /\ b_errors r = 0 /\ b_band r = Some (new_band a)
    /\ (forall b, has_dir a' (DBand b) = true -> b < new_band a)
    /\ exists tr' rr,
         run pre (restore_prog (Specified (new_band a)) keep_all) a1 [] = (tr', a1, Done rr)
         /\ r_ok rr = true /\ r_merr rr = 0
         /\ Forall2 (item_healed c a') (known_items src) (r_files rr).
Proof.
  intros pre c src a f a' HR HL Hs Hw Hc.
  destruct (backup_heals pre c src a' (lost_usable pre a f a' HR HL) Hs Hw Hc)
    as (tr & a1 & r & E & Rok & Rerr & Rband & Hrest).
  rewrite (lost_new_band a f a' HL) in *.
  exists tr, a1, r. repeat (split; [assumption|]). split; [|exact Hrest].
  intros b Hb. rewrite <- (lost_new_band a f a' HL). apply new_band_above. exact Hb.
Qed.


(* ------------------------------------------------------------------------- *)
(** * F. Examples (non-vacuity) and refutations, by computation                *)
(* ------------------------------------------------------------------------- *)
Module HealsExamples.
  Import SafeExamples E2EExamples.

  (* ex_a3 (bands 0 and 1) with one file lost.  Block [5;6] is named by "/b" of band 0 only;
     block [5;7] by "/b" of band 1, the basis of the next backup; hunk 1 of band 1 lists
     that "/b". *)
  Definition d_block : arch := remove_path ex_a3 (PBlock [5;6]).
  Definition d_hunk : arch := replace_path ex_a3 (PHunk 0 1) Empty.
  Definition d_head : arch := remove_path ex_a3 (PHead 1).
  Definition d_b57 : arch := remove_path ex_a3 (PBlock [5;7]).
  Definition d_e57 : arch := replace_path ex_a3 (PBlock [5;7]) Empty.
  Definition d_h11 : arch := replace_path ex_a3 (PHunk 1 1) Empty.
  Definition d_g57 : arch := replace_path ex_a3 (PBlock [5;7]) Garbage.

  Example ex_lost_block : lost ex_a3 (PBlock [5;6]) d_block.
  Proof. apply lost_removed; [vm_compute; discriminate | discriminate | discriminate]. Qed.
  Example ex_lost_hunk : lost ex_a3 (PHunk 0 1) d_hunk.
  Proof. apply lost_emptied; [vm_compute; discriminate | discriminate | discriminate]. Qed.
  Example ex_lost_head : lost ex_a3 (PHead 1) d_head.
  Proof. apply lost_removed; [vm_compute; discriminate | discriminate | discriminate]. Qed.
  Example ex_lost_b57 : lost ex_a3 (PBlock [5;7]) d_b57.
  Proof. apply lost_removed; [vm_compute; discriminate | discriminate | discriminate]. Qed.
  Example ex_lost_e57 : lost ex_a3 (PBlock [5;7]) d_e57.
  Proof. apply lost_emptied; [vm_compute; discriminate | discriminate | discriminate]. Qed.
  Example ex_lost_h11 : lost ex_a3 (PHunk 1 1) d_h11.
  Proof. apply lost_emptied; [vm_compute; discriminate | discriminate | discriminate]. Qed.

  (* the damaged states are [Usable], by the checker; none of them is [Ready] except the one
     that lost a band head ([Ready] says nothing of heads); a garbage block is not [Usable] *)
  Example ex_usable_b :
    (usable_b ex_pre d_block, usable_b ex_pre d_hunk, usable_b ex_pre d_head,
     usable_b ex_pre d_b57, usable_b ex_pre d_e57, usable_b ex_pre d_h11) = (true, true, true, true, true, true)
    /\ (ready_b ex_pre d_block, ready_b ex_pre d_hunk, ready_b ex_pre d_head,
        ready_b ex_pre d_b57, ready_b ex_pre d_e57, ready_b ex_pre d_h11) = (false, false, true, false, false, false)
    /\ usable_b ex_pre d_g57 = false.
  Proof. vm_compute. repeat split; reflexivity. Qed.

  (* ... and as instances of the theorem *)
  Example ex_usable_block : Usable ex_pre d_block.
  Proof. exact (lost_usable ex_pre ex_a3 _ _ ex_ready_a3 ex_lost_block). Qed.
  Example ex_usable_hunk : Usable ex_pre d_hunk.
  Proof. exact (lost_usable ex_pre ex_a3 _ _ ex_ready_a3 ex_lost_hunk). Qed.
  Example ex_usable_head : Usable ex_pre d_head.
  Proof. exact (lost_usable ex_pre ex_a3 _ _ ex_ready_a3 ex_lost_head). Qed.
  Example ex_usable_b57 : Usable ex_pre d_b57.
  Proof. exact (lost_usable ex_pre ex_a3 _ _ ex_ready_a3 ex_lost_b57). Qed.
  Example ex_usable_e57 : Usable ex_pre d_e57.
  Proof. exact (lost_usable ex_pre ex_a3 _ _ ex_ready_a3 ex_lost_e57). Qed.
  Example ex_usable_h11 : Usable ex_pre d_h11.
  Proof. exact (lost_usable ex_pre ex_a3 _ _ ex_ready_a3 ex_lost_h11). Qed.

  (* the backup of a changed source (E2EExamples.e5_src: eight items, "/a" and "/b" with the
     mtime and size they have in band 1) into each damaged state, then the restore of band 2 *)
  Definition heal_run (a : arch) (src : list sitem) :=
    (snd (run ex_pre (backup_prog ex_pre e5_cfg src) a []),
     match snd (run ex_pre (restore_prog (Specified 2) keep_all)
                  (final (backup_prog ex_pre e5_cfg src) a []) []) with
     | Done rr => Some (r_ok rr, r_merr rr, show rr)
     | _ => None
     end).
  Definition ok_res (merr written : N) : outcome bres :=
    Done {| b_ok := true; b_errors := 0; b_merr := merr; b_written := written; b_deleted := 0; b_band := Some 2 |}.
  (* what the restore returns: "/b" as it was in band 1 (reused), or as read from the source *)
  Definition shown (b : bytes) : list (str * kind * option bytes) :=
    [([47], KDir, Some []); ([47;97], KFile, Some [1;2]); ([47;98], KFile, Some b);
     ([47;99], KSymlink, Some []); ([47;101], KFile, Some [3]); ([47;102], KDir, Some []);
     ([47;102;47;120], KFile, Some [6;5;4;3;2;1])].

  Example ex_heal_computed :
    (* a block only band 0 names is gone: band 1 is the basis, "/a" and "/b" are reused *)
    heal_run d_block (e5_src other_b) = (ok_res 0 3, Some (true, 0, shown same_b))
    (* a zero-length hunk in band 0: the same *)
    /\ heal_run d_hunk (e5_src other_b) = (ok_res 0 3, Some (true, 0, shown same_b))
    (* the head of band 1 is gone: the basis cannot be opened (one monitor error, NOT a backup
       error), nothing is reused, everything is stored again *)
    /\ heal_run d_head (e5_src other_b) = (ok_res 1 5, Some (true, 0, shown other_b))
    (* a block the basis entry of "/b" names is gone / zero-length: "/b" is not reused, it is
       read and stored again *)
    /\ heal_run d_b57 (e5_src other_b) = (ok_res 0 5, Some (true, 0, shown other_b))
    /\ heal_run d_e57 (e5_src other_b) = (ok_res 0 5, Some (true, 0, shown other_b))
    (* the hunk of band 1 that lists "/b" is zero-length: one monitor error, "/b" has no basis *)
    /\ heal_run d_h11 (e5_src other_b) = (ok_res 1 5, Some (true, 0, shown other_b))
    /\ new_band d_block = 2 /\ new_band d_head = 2.
  Proof. vm_compute. repeat split; reflexivity. Qed.

  (* the lost / zero-length block is healed when the source still has its content: the
     create-new write completes the zero-length leftover; every file restores exactly *)
  Example ex_block_healed :
    get d_b57 (PBlock [5;7]) = None /\ get d_e57 (PBlock [5;7]) = Some Empty
    /\ get (final (backup_prog ex_pre e5_cfg (e5_src same_b)) d_b57 []) (PBlock [5;7]) = Some (Good (PlBlock [5;7]))
    /\ get (final (backup_prog ex_pre e5_cfg (e5_src same_b)) d_e57 []) (PBlock [5;7]) = Some (Good (PlBlock [5;7]))
    /\ heal_run d_b57 (e5_src same_b) = (ok_res 0 4, Some (true, 0, shown same_b))
    /\ heal_run d_e57 (e5_src same_b) = (ok_res 0 4, Some (true, 0, shown same_b))
    /\ e2e_check ex_pre e5_cfg (e5_src same_b) d_b57 = true
    /\ e2e_check ex_pre e5_cfg (e5_src same_b) d_e57 = true
    /\ e2e_check ex_pre e5_cfg (e5_src same_b) d_h11 = true
    /\ e2e_check ex_pre e5_cfg (e5_src same_b) d_head = true
    (* a garbage block is listed as present and reused: not healed, the restore reports it *)
    /\ e2e_check ex_pre e5_cfg (e5_src same_b) d_g57 = false.
  Proof. vm_compute. repeat split; reflexivity. Qed.

  (* the same as instances of the theorems *)
  Example ex_heal_thm : forall a, a = d_block \/ a = d_hunk \/ a = d_head \/ a = d_b57 \/ a = d_e57 \/ a = d_h11 ->
    exists tr a1 r,
      run ex_pre (backup_prog ex_pre e5_cfg (e5_src other_b)) a [] = (tr, a1, Done r)
      /\ b_ok r = true /\ b_errors r = 0 /\ b_band r = Some (new_band a)
      /\ exists tr' rr,
           run ex_pre (restore_prog (Specified (new_band a)) keep_all) a1 [] = (tr', a1, Done rr)
           /\ r_ok rr = true /\ r_merr rr = 0
           /\ Forall2 (item_healed e5_cfg a) (known_items (e5_src other_b)) (r_files rr).
  Proof.
    intros a Ha. destruct (e5_src_ok other_b eq_refl) as (H1 & _ & H3).
    apply (backup_heals ex_pre e5_cfg (e5_src other_b) a); [|exact H1 | exact H3 | exact e5_cfg_ok].
    destruct Ha as [->|[->|[->|[->|[->| ->]]]]];
      [exact ex_usable_block | exact ex_usable_hunk | exact ex_usable_head
       | exact ex_usable_b57 | exact ex_usable_e57 | exact ex_usable_h11].
  Qed.

  Example ex_heal_lost_thm :
    exists tr a1 r,
      run ex_pre (backup_prog ex_pre e5_cfg (e5_src other_b)) d_head [] = (tr, a1, Done r)
      /\ b_ok r = true /\ b_errors r = 0 /\ b_band r = Some (new_band ex_a3)
      /\ (forall b, has_dir d_head (DBand b) = true -> b < new_band ex_a3)
      /\ exists tr' rr,
           run ex_pre (restore_prog (Specified (new_band ex_a3)) keep_all) a1 [] = (tr', a1, Done rr)
           /\ r_ok rr = true /\ r_merr rr = 0
           /\ Forall2 (item_healed e5_cfg d_head) (known_items (e5_src other_b)) (r_files rr).
  Proof.
    destruct (e5_src_ok other_b eq_refl) as (H1 & _ & H3).
    exact (lost_then_backup_heals ex_pre e5_cfg (e5_src other_b) ex_a3 _ _ ex_ready_a3 ex_lost_head H1 H3 e5_cfg_ok).
  Qed.

  (* the state after the healing backup is [Usable] again (theorem), here even [Ready] *)
  Example ex_after_usable :
    Usable ex_pre (final (backup_prog ex_pre e5_cfg (e5_src same_b)) d_b57 [])
    /\ ready_b ex_pre (final (backup_prog ex_pre e5_cfg (e5_src same_b)) d_b57 []) = true
    /\ ready_b ex_pre (final (backup_prog ex_pre e5_cfg (e5_src same_b)) d_h11 []) = false.
  Proof.
    split; [|vm_compute; split; reflexivity].
    destruct (e5_src_ok same_b eq_refl) as (H1 & _ & H3).
    exact (backup_keeps_usable ex_pre e5_cfg (e5_src same_b) d_b57 [] ex_usable_b57 H1 H3 e5_cfg_ok).
  Qed.

  (* a source whose "/a" (six bytes, stored as [9;9;9;9] and [5;7] BEFORE "/b" is looked at)
     brings the lost block [5;7] back: the entry of "/b" in band 1 names [1;2;3;4] and [5;7],
     both listed now, and is reused although it could not be read in the start state *)
  Definition h_src (bdata : bytes) : list sitem :=
    [ {| si_e := mk_s [47] KDir 0 1000000000; si_data := [] |};
      {| si_e := mk_s [47;97] KFile 6 1000000001; si_data := [9;9;9;9;5;7] |};
      {| si_e := mk_s [47;98] KFile 6 1000000007; si_data := bdata |} ].
  Example h_src_ok : SrcSorted (h_src other_b) /\ SrcValid (h_src other_b) /\ SrcWF (h_src other_b).
  Proof.
    split; [apply srcsorted_b_sound; vm_compute; reflexivity|].
    split; [apply srcvalid_b_sound; vm_compute; reflexivity|].
    apply srcwf_b_sound. vm_compute. reflexivity.
  Qed.
  Example ex_healed_then_reused :
    heal_run d_b57 (h_src other_b)
    = (ok_res 0 2, Some (true, 0, [([47], KDir, Some []); ([47;97], KFile, Some [9;9;9;9;5;7]);
                                   ([47;98], KFile, Some same_b)])).
  Proof. vm_compute. reflexivity. Qed.
End HealsExamples.

(** GARBAGE IS NOT HEALED (and not claimed).  A block file replaced by undecodable bytes is
    listed as present; an unchanged file whose basis entry names it is not read again but
    recorded with the old addresses; the backup reports success and no error; restoring the
    new band cannot read the file and says so.  Witness: block [5;7] of ex_a3 replaced by
    garbage, the source with "/b" as in band 1. *)
(* Theorem backup_heals_garbage : forall pre c src a f a',
     Ready pre a -> damaged a f a' -> f <> PHeader -> SrcSorted src -> SrcValid src -> SrcWF src -> cfg_ok c ->
     exists tr a1 r, run pre (backup_prog pre c src) a' [] = (tr, a1, Done r) /\ ... /\
       exists tr' rr, run pre (restore_prog (Specified (new_band a')) keep_all) a1 [] = (tr', a1, Done rr)
         /\ r_ok rr = true /\ r_merr rr = 0 /\ ... *)
Theorem backup_heals_garbage_refuted :
  exists pre c src a f a',
    Ready pre a /\ damaged a f a' /\ f <> PHeader /\ f <> PLock
    /\ SrcSorted src /\ SrcValid src /\ SrcWF src /\ cfg_ok c
    /\ forall tr a1 r tr' rr,
         run pre (backup_prog pre c src) a' [] = (tr, a1, Done r) ->
         run pre (restore_prog (Specified (new_band a')) keep_all) a1 [] = (tr', a1, Done rr) ->
         b_ok r = true /\ b_errors r = 0 /\ r_merr rr <> 0.
Proof.
  exists SafeExamples.ex_pre, E2EExamples.e5_cfg, (E2EExamples.e5_src E2EExamples.same_b),
         SafeExamples.ex_a3, (PBlock [5;7]), HealsExamples.d_g57.
  destruct (E2EExamples.e5_src_ok E2EExamples.same_b eq_refl) as (H1 & H2 & H3).
  split; [exact E2EExamples.ex_ready_a3|].
  split; [apply dmg_replaced; [vm_compute; discriminate | right; left; reflexivity]|].
  split; [discriminate|]. split; [discriminate|].
  split; [exact H1|]. split; [exact H2|]. split; [exact H3|]. split; [exact E2EExamples.e5_cfg_ok|].
  intros tr a1 r tr' rr E1 E2.
  assert (Ea : a1 = snd (fst (run SafeExamples.ex_pre
                 (backup_prog SafeExamples.ex_pre E2EExamples.e5_cfg (E2EExamples.e5_src E2EExamples.same_b))
                 HealsExamples.d_g57 []))) by (rewrite E1; reflexivity).
  assert (Eb : Some r = match snd (run SafeExamples.ex_pre
                 (backup_prog SafeExamples.ex_pre E2EExamples.e5_cfg (E2EExamples.e5_src E2EExamples.same_b))
                 HealsExamples.d_g57 []) with Done x => Some x | _ => None end) by (rewrite E1; reflexivity).
  subst a1.
  assert (Er : Some rr = match snd (run SafeExamples.ex_pre (restore_prog (Specified (new_band HealsExamples.d_g57)) keep_all)
                 (snd (fst (run SafeExamples.ex_pre
                   (backup_prog SafeExamples.ex_pre E2EExamples.e5_cfg (E2EExamples.e5_src E2EExamples.same_b))
                   HealsExamples.d_g57 []))) []) with Done x => Some x | _ => None end)
    by (rewrite E2; reflexivity).
  clear E1 E2. vm_compute in Eb. vm_compute in Er. inversion Eb; subst r. inversion Er; subst rr.
  cbn [b_ok b_errors r_merr]. split; [reflexivity|]. split; [reflexivity | discriminate].
Qed.

(** [E2E.item_restored] ITSELF IS FALSE after a loss.  Its reuse case says: the content is what
    the basis entry restored to IN THE START STATE.  But a basis entry that names a lost block
    cannot be restored in the start state, and is reused all the same when an earlier file of
    the same backup brought the block back.  Witness: block [5;7] of ex_a3 deleted; the source
    [HealsExamples.h_src]: "/a" now ends in the bytes [5;7], "/b" has the mtime and size of
    band 1 (and other bytes).  The restored "/b" is band 1's, which the start state could not
    produce.  The true statement is [backup_heals] with [item_healed]: the bytes the reused
    addresses DENOTE. *)
(* Theorem backup_heals_item_restored : forall pre c src a0,
     Usable pre a0 -> SrcSorted src -> SrcValid src -> SrcWF src -> cfg_ok c ->
     exists tr a1 r, run pre (backup_prog pre c src) a0 [] = (tr, a1, Done r) /\ ... /\
       exists tr' rr, run pre (restore_prog (Specified (new_band a0)) keep_all) a1 [] = (tr', a1, Done rr) /\ ...
         /\ Forall2 (item_restored c a0) (known_items src) (r_files rr). *)
Theorem backup_heals_item_restored_refuted :
  exists pre c src a f a0,
    Ready pre a /\ lost a f a0 /\ Usable pre a0
    /\ SrcSorted src /\ SrcValid src /\ SrcWF src /\ cfg_ok c
    /\ forall tr a1 r tr' rr,
         run pre (backup_prog pre c src) a0 [] = (tr, a1, Done r) ->
         run pre (restore_prog (Specified (new_band a0)) keep_all) a1 [] = (tr', a1, Done rr) ->
         ~ Forall2 (item_restored c a0) (known_items src) (r_files rr).
Proof.
  exists SafeExamples.ex_pre, E2EExamples.e5_cfg, (HealsExamples.h_src E2EExamples.other_b),
         SafeExamples.ex_a3, (PBlock [5;7]), HealsExamples.d_b57.
  destruct HealsExamples.h_src_ok as (H1 & H2 & H3).
  split; [exact E2EExamples.ex_ready_a3|]. split; [exact HealsExamples.ex_lost_b57|].
  split; [exact HealsExamples.ex_usable_b57|].
  split; [exact H1|]. split; [exact H2|]. split; [exact H3|]. split; [exact E2EExamples.e5_cfg_ok|].
  intros tr a1 r tr' rr E1 E2 HF.
  assert (Ea : a1 = snd (fst (run SafeExamples.ex_pre
                 (backup_prog SafeExamples.ex_pre E2EExamples.e5_cfg (HealsExamples.h_src E2EExamples.other_b))
                 HealsExamples.d_b57 []))) by (rewrite E1; reflexivity).
  subst a1.
  assert (Er : Some rr = match snd (run SafeExamples.ex_pre (restore_prog (Specified (new_band HealsExamples.d_b57)) keep_all)
                 (snd (fst (run SafeExamples.ex_pre
                   (backup_prog SafeExamples.ex_pre E2EExamples.e5_cfg (HealsExamples.h_src E2EExamples.other_b))
                   HealsExamples.d_b57 []))) []) with Done x => Some x | _ => None end)
    by (rewrite E2; reflexivity).
  clear E1 E2. vm_compute in Er. inversion Er; subst rr. clear Er.
  pose proof (Forall2_nth_error _ _ _ HF 2%nat) as Hn.
  specialize (Hn _ _ eq_refl eq_refl). destruct Hn as (e & d & Heq & _ & Hd).
  vm_compute in Heq. inversion Heq; subst e d. clear Heq.
  cbn [s_kind si_e si_data SafeExamples.mk_s] in Hd.
  destruct Hd as [Hd | (be & ((b' & h' & es' & _ & G & Hin) & _) & _ & Hcont)].
  - unfold E2EExamples.other_b in Hd. discriminate Hd.
  - (* no entry of the start state restores to those bytes *)
    assert (HC : forallb (fun x => negb (bytes_opt_eqb (content_of HealsExamples.d_b57 x) (Some [1;2;3;4;5;7])))
                   (all_entries HealsExamples.d_b57) = true) by (vm_compute; reflexivity).
    rewrite forallb_forall in HC. specialize (HC be (all_entries_In _ _ _ _ _ G Hin)).
    rewrite Hcont in HC. cbn [bytes_opt_eqb] in HC. rewrite str_eqb_refl in HC. discriminate HC.
Qed.

(** The source changed: if every entry of an earlier band that still decodes and has the
    path of a source file differs from it in mtime or in size, every file restores to exactly
    the bytes read from the source. *)
Corollary backup_heals_changed : forall pre c src a0,
  Usable pre a0 -> SrcSorted src -> SrcWF src -> cfg_ok c ->
  (forall it be, In it src -> s_kind (si_e it) = KFile ->
     InBasis a0 (new_band a0) be -> e_apath be = s_apath (si_e it) ->
     e_ts be <> s_mtime (si_e it) \/ e_size be <> s_size (si_e it)) ->
  exists tr a1 r,
    run pre (backup_prog pre c src) a0 [] = (tr, a1, Done r)
    /\ b_ok r = true /\ b_errors r = 0 /\ b_band r = Some (new_band a0)
    /\ exists tr' rr,
         run pre (restore_prog (Specified (new_band a0)) keep_all) a1 [] = (tr', a1, Done rr)
         /\ r_ok rr = true /\ r_merr rr = 0
         /\ Forall2 (item_restored_exact c) (known_items src) (r_files rr).
Proof.
  intros pre c src a0 HU Hs Hw Hc Hch. apply backup_heals_fresh; auto.
  intros it be Hin Hk (Hib & Hp & Hu).
  pose proof (Hu {| w_band := 0; w_entries := []; w_seq := 0; w_hunks := 0; w_buf := []; w_queue := [];
                    w_fin := []; w_exists := []; w_errors := 0; w_merr := 0; w_written := 0; w_deleted := 0 |}) as E.
  unfold unchanged in E. apply andb_true_iff in E. destruct E as [E E3].
  apply andb_true_iff in E. destruct E as [_ E2].
  apply Z.eqb_eq in E2. apply N.eqb_eq in E3.
  destruct (Hch it be Hin Hk Hib Hp) as [H|H]; contradiction.
Qed.

(** [RefIntPresent] IS NOT ENOUGH.  With "every address whose block is there lies inside it"
    in place of [HunksInRange] the healing theorem is false: the entry of "/b" in band 1 names
    three bytes of the two-byte block [5;7], which is absent; the new source's "/a" brings
    [5;7] back, then "/b" (unchanged by mtime and size) is reused, and cannot be restored.
    (Such a state does not arise from a [Ready] one by losing a file: there every address is
    in range.) *)
Module PresentOnly.
  Import SafeExamples E2EExamples HealsExamples.
  Definition bad_addrs : list addr :=
    [ {| a_hash := [1;2;3;4]; a_start := 0; a_len := 4 |}; {| a_hash := [5;7]; a_start := 0; a_len := 3 |} ].
  Definition bad_es : list entry := map (fun e => with_addrs e bad_addrs) (hunk_es ex_a3 1 1).
  Definition x_a0 : arch := replace_path d_b57 (PHunk 1 1) (Good (PlHunk bad_es)).
  Definition x_src : list sitem :=
    [ {| si_e := mk_s [47] KDir 0 1000000000; si_data := [] |};
      {| si_e := mk_s [47;97] KFile 6 1000000001; si_data := [9;9;9;9;5;7] |};
      {| si_e := mk_s [47;98] KFile 7 1000000007; si_data := [1;2;3;4;5;6;7] |} ].

  Lemma x_present : RefIntPresent x_a0 /\ hunksinrange_b x_a0 = false.
  Proof. split; [apply refintpresent_b_sound|]; vm_compute; reflexivity. Qed.
End PresentOnly.

Theorem usable_present_only_refuted :
  exists pre c src a0,
    Startable pre a0 /\ NoDup (dirs a0) /\ FilesND a0 /\ BlocksWF a0 /\ RefIntPresent a0
    /\ SrcSorted src /\ SrcValid src /\ SrcWF src /\ cfg_ok c
    /\ forall tr a1 r tr' rr,
         run pre (backup_prog pre c src) a0 [] = (tr, a1, Done r) ->
         run pre (restore_prog (Specified (new_band a0)) keep_all) a1 [] = (tr', a1, Done rr) ->
         b_ok r = true /\ b_errors r = 0 /\ r_merr rr <> 0.
Proof.
  exists SafeExamples.ex_pre, E2EExamples.e5_cfg, PresentOnly.x_src, PresentOnly.x_a0.
  split; [apply startable_b_sound; vm_compute; reflexivity|].
  split; [apply ValidP.nodup_dirs_sound; vm_compute; reflexivity|].
  split; [apply nodup_paths_sound; vm_compute; reflexivity|].
  split; [apply blockswf_b_sound; vm_compute; reflexivity|].
  split; [exact (proj1 PresentOnly.x_present)|].
  split; [apply srcsorted_b_sound; vm_compute; reflexivity|].
  split; [apply srcvalid_b_sound; vm_compute; reflexivity|].
  split; [apply srcwf_b_sound; vm_compute; reflexivity|].
  split; [exact E2EExamples.e5_cfg_ok|].
  intros tr a1 r tr' rr E1 E2.
  assert (Ea : a1 = snd (fst (run SafeExamples.ex_pre
                 (backup_prog SafeExamples.ex_pre E2EExamples.e5_cfg PresentOnly.x_src) PresentOnly.x_a0 [])))
    by (rewrite E1; reflexivity).
  assert (Eb : Some r = match snd (run SafeExamples.ex_pre
                 (backup_prog SafeExamples.ex_pre E2EExamples.e5_cfg PresentOnly.x_src) PresentOnly.x_a0 [])
                        with Done x => Some x | _ => None end) by (rewrite E1; reflexivity).
  subst a1.
  assert (Er : Some rr = match snd (run SafeExamples.ex_pre (restore_prog (Specified (new_band PresentOnly.x_a0)) keep_all)
                 (snd (fst (run SafeExamples.ex_pre
                   (backup_prog SafeExamples.ex_pre E2EExamples.e5_cfg PresentOnly.x_src) PresentOnly.x_a0 []))) [])
                         with Done x => Some x | _ => None end)
    by (rewrite E2; reflexivity).
  clear E1 E2. vm_compute in Eb. vm_compute in Er. inversion Eb; subst r. inversion Er; subst rr.
  cbn [b_ok b_errors r_merr]. split; [reflexivity|]. split; [reflexivity | discriminate].
Qed.

(* ------------------------------------------------------------------------- *)
(** * G. The main statements                                                   *)
(* ------------------------------------------------------------------------- *)

(* ONE file other than the header deleted or truncated to zero length: the archive is usable *)
Check (lost_usable : forall pre a f a', Ready pre a -> lost a f a' -> Usable pre a').
Check (lost_usable_healthy : forall pre a f a',
  Healthy pre a -> get a PLock = None -> lost a f a' -> Usable pre a').
Check (damaged_usable : forall pre a f a',
  Startable pre a -> NoDup (dirs a) -> AInv a ->
  damaged a f a' -> f <> PHeader ->
  (forall c, f = PBlock c -> get a' f = None \/ get a' f = Some Empty) ->
  Usable pre a').
Check (Ready_Usable : forall pre a, Ready pre a -> Usable pre a).
Check (lost_new_band : forall a f a', lost a f a' -> new_band a' = new_band a).
Check (new_band_above : forall (a : arch) b, has_dir a (DBand b) = true -> b < new_band a).

(* the two passes over the backup, every fault list, every state *)
Check (backup_new_sorted : forall pre cf src a0 phi,
  SrcSorted src -> NoOrphans a0 ->
  Forall (NewSorted a0) (run_states pre (backup_prog pre cf src) a0 phi)
  /\ NewSorted a0 (snd (fst (run pre (backup_prog pre cf src) a0 phi)))).
Check (backup_new_refint : forall pre c src a0 phi,
  BlocksWF a0 -> FilesND a0 -> HunksInRange a0 -> NoOrphans a0 ->
  Forall (J3 a0) (run_states pre (backup_prog pre c src) a0 phi)
  /\ J3 a0 (snd (fst (run pre (backup_prog pre c src) a0 phi)))).

(* a fault-free backup from a usable state completes and restores exactly *)
Check (backup_heals : forall pre c src a0,
  Usable pre a0 -> SrcSorted src -> SrcWF src -> cfg_ok c ->
  exists tr a1 r,
    run pre (backup_prog pre c src) a0 [] = (tr, a1, Done r)
    /\ b_ok r = true /\ b_errors r = 0 /\ b_band r = Some (new_band a0)
    /\ exists tr' rr,
         run pre (restore_prog (Specified (new_band a0)) keep_all) a1 [] = (tr', a1, Done rr)
         /\ r_ok rr = true /\ r_merr rr = 0
         /\ Forall2 (item_healed c a0) (known_items src) (r_files rr)).
Check (lost_then_backup_heals : forall pre c src a f a',
  Ready pre a -> lost a f a' -> SrcSorted src -> SrcWF src -> cfg_ok c ->
  exists tr a1 r,
    run pre (backup_prog pre c src) a' [] = (tr, a1, Done r)
    /\ b_ok r = true /\ b_errors r = 0 /\ b_band r = Some (new_band a)
    /\ (forall b, has_dir a' (DBand b) = true -> b < new_band a)
    /\ exists tr' rr,
         run pre (restore_prog (Specified (new_band a)) keep_all) a1 [] = (tr', a1, Done rr)
         /\ r_ok rr = true /\ r_merr rr = 0
         /\ Forall2 (item_healed c a') (known_items src) (r_files rr)).
Check (backup_completed_heals : forall pre c src a0 phi r,
  Usable pre a0 -> SrcSorted src -> SrcWF src -> cfg_ok c ->
  snd (run pre (backup_prog pre c src) a0 phi) = Done r -> b_ok r = true -> b_errors r = 0 ->
  let a1 := snd (fst (run pre (backup_prog pre c src) a0 phi)) in
  b_band r = Some (new_band a0)
  /\ Usable pre a1
  /\ exists tr' rr,
       run pre (restore_prog (Specified (new_band a0)) keep_all) a1 [] = (tr', a1, Done rr)
       /\ r_ok rr = true /\ r_merr rr = 0
       /\ Forall2 (item_healed c a0) (known_items src) (r_files rr)).
Check (backup_keeps_usable : forall pre c src a0 phi,
  Usable pre a0 -> SrcSorted src -> SrcWF src -> cfg_ok c ->
  Usable pre (snd (fst (run pre (backup_prog pre c src) a0 phi)))).
Check (backup_heals_fresh : forall pre c src a0,
  Usable pre a0 -> SrcSorted src -> SrcWF src -> cfg_ok c ->
  (forall it be, In it src -> s_kind (si_e it) = KFile -> ~ basis_match a0 it be) ->
  exists tr a1 r,
    run pre (backup_prog pre c src) a0 [] = (tr, a1, Done r)
    /\ b_ok r = true /\ b_errors r = 0 /\ b_band r = Some (new_band a0)
    /\ exists tr' rr,
         run pre (restore_prog (Specified (new_band a0)) keep_all) a1 [] = (tr', a1, Done rr)
         /\ r_ok rr = true /\ r_merr rr = 0
         /\ Forall2 (item_restored_exact c) (known_items src) (r_files rr)).
Check (item_healed_exact : forall c a0 it rf,
  item_healed c a0 it rf -> (forall be, ~ basis_match a0 it be) -> item_restored_exact c it rf).
Check (item_healed_restored : forall c a0 it rf,
  item_healed c a0 it rf -> (forall be, basis_match a0 it be -> content_of a0 be <> None) ->
  item_restored c a0 it rf).

Print Assumptions lost_usable.
Print Assumptions lost_usable_healthy.
Print Assumptions damaged_usable.
Print Assumptions Ready_Usable.
Print Assumptions lost_new_band.
Print Assumptions new_band_above.
Print Assumptions backup_new_sorted.
Print Assumptions backup_new_refint.
Print Assumptions backup_heals.
Print Assumptions lost_then_backup_heals.
Print Assumptions backup_completed_heals.
Print Assumptions backup_keeps_usable.
Print Assumptions backup_heals_fresh.
Print Assumptions backup_heals_changed.
Print Assumptions item_healed_exact.
Print Assumptions item_healed_restored.
Print Assumptions item_restored_healed.
Print Assumptions backup_heals_garbage_refuted.
Print Assumptions backup_heals_item_restored_refuted.
Print Assumptions usable_present_only_refuted.
Print Assumptions HealsExamples.ex_heal_thm.
Print Assumptions HealsExamples.ex_heal_lost_thm.
