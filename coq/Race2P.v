(* C07, second clause: "This also holds when two backups race: the loser fails rather than
   writing into the winner's version."

   For EVERY interleaving (schedule [sigma], storage-operation granularity) of two backups on one
   archive, from any start state:

   - every non-empty file of the start state keeps its bytes at every intermediate state and at
     the end, no directory disappears, a zero-length leftover stays or is completed by one
     successful write ([race_existing_files_kept]);
   - no path receives two successful writes, by the same or by different actors
     ([race_no_path_written_twice]);
   - no band receives successful writes of band files from both actors ([race_bands_not_shared]);
     each actor puts band files only into the band whose BANDHEAD it wrote itself, successfully
     ([race_puts_only_after_own_head]);
   - the actor whose BANDHEAD write is refused returns the error result and performs no successful
     write at all ([race_loser_fails]); when both compute the same id, exactly one BANDHEAD write
     succeeds ([race_same_id]);
   - each new band id is above every band of the start state ([race_band_ids_fresh]).

   HOW THE COLLISION IS DETECTED.  [Transport::create_dir] (src/transport/local.rs) maps
   AlreadyExists to Ok, and the model's [OpMkdir] follows it: BOTH racers get [ROk] for
   [OpMkdir (DBand b)] and for [OpMkdir (DIndex b)] ([race_mkdir_not_exclusive_refuted]).  What
   separates them is the BANDHEAD write, which is [CreateNew]: at most one succeeds.

   Proof architecture: facts about tagged traces that are genuine executions ([steps]) of add-only
   operations (sections 1-2); a history-indexed emission class of the backup with a postcondition
   on (complete history, result), proved once for all reply sequences (section 3); outcomes of
   [run2] from the actors' own histories (section 4); the theorems (section 5). *)
From Coq Require Import List NArith Bool Lia.
From CV Require Import Base.Str Base.StrP Apath Entry Store StitchProg Backup Ops SafeP Conf ConfP Race RaceP Race2.
Import ListNotations.
Local Open Scope N_scope.

Notation ttrace := (list (bool * (op * reply))).

(* ------------------------------------------------------------------------- *)
(** * 1. Lists, projections                                                   *)
(* ------------------------------------------------------------------------- *)

Lemma proj_In x e tr : In e (proj x tr) <-> In (x, e) tr.
Proof.
  unfold proj. rewrite in_map_iff. split.
  - intros [[y e'] [E H]]. cbn [snd] in E. subst e'. apply filter_In in H. destruct H as [H E].
    cbn [fst] in E. apply Bool.eqb_prop in E. subst y. exact H.
  - intros H. exists (x, e). split; [reflexivity|]. apply filter_In. split; [exact H|].
    cbn [fst]. apply Bool.eqb_reflx.
Qed.

(* the position of a tagged event in its actor's own history *)
Lemma proj_nth x e : forall tr i, nth_error tr i = Some (x, e) ->
  exists i', nth_error (proj x tr) i' = Some e /\ firstn i' (proj x tr) = proj x (firstn i tr).
Proof.
  induction tr as [|[y e0] tr IH]; intros i Hi; [destruct i; discriminate|].
  destruct i as [|i]; cbn [nth_error] in Hi.
  - inversion Hi; subst. exists 0%nat. rewrite proj_cons_same. split; reflexivity.
  - destruct (IH _ Hi) as [i' [H1 H2]]. cbn [firstn].
    destruct (Bool.bool_dec y x) as [-> |Ne].
    + exists (S i'). rewrite !proj_cons_same. cbn [nth_error firstn]. rewrite H2. split; [exact H1 | reflexivity].
    + assert (E : y = negb x) by (destruct x, y; try reflexivity; exfalso; apply Ne; reflexivity). subst y.
      exists i'. rewrite !proj_cons_other. split; assumption.
Qed.

Lemma Forall_proj (Q : op * reply -> Prop) tr :
  Forall Q (proj false tr) -> Forall Q (proj true tr) -> Forall (fun x => Q (snd x)) tr.
Proof.
  induction tr as [|[y e] tr IH]; intros H1 H2; [constructor|].
  destruct y.
  - rewrite proj_cons_same in H2. rewrite (proj_cons_other false) in H1. inversion H2; subst.
    constructor; auto.
  - rewrite proj_cons_same in H1. rewrite (proj_cons_other true) in H2. inversion H1; subst.
    constructor; auto.
Qed.

Lemma nth_split2 {A} (l : list A) i j x y : (i < j)%nat ->
  nth_error l i = Some x -> nth_error l j = Some y ->
  exists t1 t2 t3, l = t1 ++ x :: t2 ++ y :: t3 /\ length t1 = i.
Proof.
  intros Hij Hi Hj. destruct (nth_error_split _ _ Hj) as [l1 [t3 [E L]]]. subst l.
  rewrite nth_error_app1 in Hi by lia.
  destruct (nth_error_split _ _ Hi) as [t1 [t2 [E' L']]]. subst l1.
  exists t1, t2, t3. rewrite <- app_assoc. split; [reflexivity | exact L'].
Qed.

Lemma In_two_nth {A} (l : list A) x y : In x l -> In y l -> x <> y ->
  exists i j, nth_error l i = Some x /\ nth_error l j = Some y /\ ((i < j)%nat \/ (j < i)%nat).
Proof.
  intros Hx Hy Ne. destruct (In_nth_error _ _ Hx) as [i Hi]. destruct (In_nth_error _ _ Hy) as [j Hj].
  exists i, j. split; [exact Hi|]. split; [exact Hj|].
  destruct (Nat.lt_trichotomy i j) as [H|[H|H]]; auto. subst j. congruence.
Qed.

Lemma follows_eo {R} (P : op -> Prop) (p : prog R) :
  emits_only P p -> forall t, follows p t -> Forall (fun x => P (fst x)) t.
Proof.
  intros H. induction H as [r| |o k Ho _ IH]; intros t Ht; inversion Ht; subst; constructor; eauto.
Qed.

(* ------------------------------------------------------------------------- *)
(** * 2. Executions of add-only operations                                    *)
(* ------------------------------------------------------------------------- *)

Definition adds (tr : ttrace) : Prop := Forall (fun x => add_only (fst (snd x))) tr.

Lemma adds_app t u : adds (t ++ u) <-> adds t /\ adds u.
Proof. apply Forall_app. Qed.

Section Steps.
  Variable pre : bytes -> N.

  Lemma steps_inv a x o r t af :
    steps pre a ((x, (o, r)) :: t) af ->
    r = snd (exec pre a o NoFault) /\ steps pre (fst (exec pre a o NoFault)) t af.
  Proof. intros H. inversion H; subst. split; [reflexivity | assumption]. Qed.

  Lemma steps_app_inv t : forall a u af,
    steps pre a (t ++ u) af -> exists am, steps pre a t am /\ steps pre am u af.
  Proof.
    induction t as [|[x [o r]] t IH]; intros a u af H; cbn [app] in H.
    - exists a. split; [constructor | exact H].
    - destruct (steps_inv _ _ _ _ _ _ H) as [-> H'].
      destruct (IH _ _ _ H') as [am [H1 H2]]. exists am. split; [constructor; exact H1 | exact H2].
  Qed.

  Lemma steps_Old a tr af : steps pre a tr af -> adds tr -> Old a af.
  Proof.
    induction 1 as [a|a b o tr af _ IH]; intros Ha; [apply Old_refl|].
    inversion Ha as [|? ? Ho Ht]; subst. cbn [fst snd] in Ho.
    eapply Old_trans; [apply exec_add_Old; exact Ho | apply IH; exact Ht].
  Qed.

  Lemma Old_has_dir a a' d : Old a a' -> has_dir a d = true -> has_dir a' d = true.
  Proof. intros [HD _] H. apply HD. apply has_dir_In. exact H. Qed.

  Lemma Old_get a a' f c : Old a a' -> get a f = Some c -> nonempty c = true -> get a' f = Some c.
  Proof. intros [_ HF] G Hc. apply HF; [exact G|]. intros ->. discriminate. Qed.

  (* every intermediate state *)
  Lemma trace_states_Old tr : forall a, adds tr -> Forall (Old a) (trace_states pre a tr).
  Proof.
    induction tr as [|[x [o r]] tr IH]; intros a Ha; cbn [trace_states]; [constructor|].
    inversion Ha as [|? ? Ho Ht]; subst. cbn [fst snd] in Ho.
    assert (H1 : Old a (fst (exec pre a o NoFault))) by (apply exec_add_Old; exact Ho).
    constructor; [exact H1|].
    eapply Forall_impl; [|apply IH; exact Ht]. intros a' Ha'. eapply Old_trans; eauto.
  Qed.

  Lemma steps_last' a tr af : steps pre a tr af -> forall d, last (a :: trace_states pre a tr) d = af.
  Proof.
    induction 1 as [a|a b o tr af _ IH]; intros d; [reflexivity|].
    cbn [trace_states]. rewrite <- (IH d). reflexivity.
  Qed.

  Lemma steps_last a tr af : steps pre a tr af -> last (trace_states pre a tr) a = af.
  Proof.
    intros H. rewrite <- (steps_last' _ _ _ H a).
    destruct (trace_states pre a tr); reflexivity.
  Qed.
End Steps.

Section Steps2.
  Variable pre : bytes -> N.

  (* ---- single operations ---- *)

  (* what one add-only operation does to one path: nothing, or it is a successful create-new
     write of that very path, which was absent or zero-length *)
  Lemma exec_add_get a o g : add_only o ->
    get (fst (exec pre a o NoFault)) g = get a g
    \/ exists pl, o = OpWrite g pl CreateNew /\ snd (exec pre a o NoFault) = ROk
                  /\ (get a g = None \/ get a g = Some Empty)
                  /\ get (fst (exec pre a o NoFault)) g = Some (Good pl).
  Proof.
    intros Ho. destruct o as [f|f p m|d|d|f|f|d]; cbn in Ho; try contradiction; cbn [exec exec_ok].
    - destruct (get a f); left; reflexivity.
    - destruct m; [|contradiction].
      destruct (has_dir a (parent_f pre f)); [|left; reflexivity].
      assert (Hset : get {| dirs := dirs a; files := set_file f (Good p) (files a) |} g
                     = if fpath_eqb g f then Some (Good p) else get a g).
      { unfold get. cbn [files]. apply lookup_set_file. }
      destruct (get a f) as [[q| |]|] eqn:G; cbn [fst snd]; try (left; reflexivity);
        rewrite Hset; (destruct (fpath_eqb_spec g f) as [-> |Ne]; [right; exists p; auto | left; reflexivity]).
    - destruct (has_dir a d); left; reflexivity.
    - destruct (has_dir a d); [left; reflexivity|].
      destruct (parent_d d) as [p|]; [destruct (has_dir a p)|]; left; reflexivity.
    - destruct (get a f); left; reflexivity.
  Qed.

  Lemma exec_list_ok a d ds fs : snd (exec pre a (OpList d) NoFault) = RList ds fs -> has_dir a d = true.
  Proof. cbn [exec exec_ok]. destruct (has_dir a d); [reflexivity | discriminate]. Qed.

  Lemma has_dir_snoc (a : arch) d : has_dir {| dirs := dirs a ++ [d]; files := files a |} d = true.
  Proof. apply has_dir_In. cbn [dirs]. apply in_or_app. right. left. reflexivity. Qed.

  Lemma exec_mkdir_ok a d :
    snd (exec pre a (OpMkdir d) NoFault) = ROk -> has_dir (fst (exec pre a (OpMkdir d) NoFault)) d = true.
  Proof.
    cbn [exec exec_ok]. destruct (has_dir a d) eqn:Hd; [intros _; exact Hd|].
    destruct (parent_d d) as [p|]; [destruct (has_dir a p)|]; cbn [fst snd];
      try discriminate; intros _; apply has_dir_snoc.
  Qed.

  (* create_dir on an existing directory, or under an existing parent, answers Ok *)
  Lemma exec_mkdir_reply a d p :
    parent_d d = Some p -> has_dir a p = true -> snd (exec pre a (OpMkdir d) NoFault) = ROk.
  Proof.
    intros Hp Hd. cbn [exec exec_ok]. destruct (has_dir a d); [reflexivity|]. rewrite Hp, Hd. reflexivity.
  Qed.

  (* a create-new write whose directory exists answers Ok, or AlreadyExists on a non-empty file *)
  Lemma exec_create_reply a f p :
    has_dir a (parent_f pre f) = true ->
    (snd (exec pre a (OpWrite f p CreateNew) NoFault) = ROk /\ (get a f = None \/ get a f = Some Empty))
    \/ (snd (exec pre a (OpWrite f p CreateNew) NoFault) = RErr EAlreadyExists
        /\ exists c, get a f = Some c /\ nonempty c = true).
  Proof.
    intros Hd. cbn [exec exec_ok]. rewrite Hd.
    destruct (get a f) as [[q| |]|]; cbn [snd]; auto; right; split; try reflexivity; eexists; split; reflexivity.
  Qed.

  (* ---- along an execution ---- *)

  (* NO PATH WRITTEN TWICE, on executions *)
  Lemma steps_written_twice a t1 x f p1 m1 t2 y p2 m2 t3 af :
    steps pre a (t1 ++ (x, (OpWrite f p1 m1, ROk)) :: t2 ++ (y, (OpWrite f p2 m2, ROk)) :: t3) af ->
    adds (t1 ++ (x, (OpWrite f p1 m1, ROk)) :: t2 ++ (y, (OpWrite f p2 m2, ROk)) :: t3) -> False.
  Proof.
    intros Hs Ha.
    apply adds_app in Ha. destruct Ha as [_ Ha]. inversion Ha as [|? ? Ho1 Ha2]; subst.
    apply adds_app in Ha2. destruct Ha2 as [Ha2 Ha3]. inversion Ha3 as [|? ? Ho2 _]; subst.
    cbn [fst snd add_only] in Ho1, Ho2. destruct m1; [|contradiction]. destruct m2; [|contradiction].
    destruct (steps_app_inv pre _ _ _ _ Hs) as [a1 [_ Hs1]].
    destruct (steps_inv pre _ _ _ _ _ _ Hs1) as [E1 Hs2].
    destruct (exec_create_ok' pre a1 f p1 NoFault (eq_sym E1)) as [_ G1].
    destruct (steps_app_inv pre _ _ _ _ Hs2) as [a2 [Hs3 Hs4]].
    destruct (steps_inv pre _ _ _ _ _ _ Hs4) as [E2 _].
    destruct (exec_create_ok' pre a2 f p2 NoFault (eq_sym E2)) as [G2 _].
    pose proof (steps_Old pre _ _ _ Hs3 Ha2) as HO.
    rewrite (Old_get _ _ _ _ HO G1 eq_refl) in G2. destruct G2; discriminate.
  Qed.

  (* what an execution does to one path: nothing, or exactly one successful create-new write
     of it, which found it absent or zero-length *)
  Lemma steps_get a tr af : steps pre a tr af -> adds tr -> forall f,
    get af f = get a f
    \/ exists x pl, In (x, (OpWrite f pl CreateNew, ROk)) tr
                    /\ (get a f = None \/ get a f = Some Empty) /\ get af f = Some (Good pl).
  Proof.
    induction 1 as [a|a b o tr af Hs IH]; intros Ha f; [left; reflexivity|].
    inversion Ha as [|? ? Ho Ht]; subst. cbn [fst snd] in Ho.
    destruct (exec_add_get a o f Ho) as [E|[pl [-> [Er [G0 G1]]]]].
    - destruct (IH Ht f) as [E'|[x [pl [Hin [G0 G1]]]]].
      + left. congruence.
      + right. exists x, pl. rewrite <- E. split; [right; exact Hin | auto].
    - right. exists b, pl. split; [left; rewrite Er; reflexivity|]. split; [exact G0|].
      apply (Old_get _ _ _ _ (steps_Old pre _ _ _ Hs Ht) G1 eq_refl).
  Qed.

  Lemma steps_list_ok a tr af x d ds fs :
    steps pre a tr af -> adds tr -> In (x, (OpList d, RList ds fs)) tr -> has_dir af d = true.
  Proof.
    induction 1 as [a|a b o tr af Hs IH]; intros Ha Hin; [destruct Hin|].
    inversion Ha as [|? ? Ho Ht]; subst. cbn [fst snd] in Ho. destruct Hin as [E|Hin]; [|auto].
    inversion E; subst. apply (Old_has_dir _ _ _ (steps_Old pre _ _ _ Hs Ht)).
    rewrite (exec_read_same pre a (OpList d) NoFault I). eapply exec_list_ok; eauto.
  Qed.

  Lemma steps_mkdir_ok a tr af x d :
    steps pre a tr af -> adds tr -> In (x, (OpMkdir d, ROk)) tr -> has_dir af d = true.
  Proof.
    induction 1 as [a|a b o tr af Hs IH]; intros Ha Hin; [destruct Hin|].
    inversion Ha as [|? ? Ho Ht]; subst. cbn [fst snd] in Ho. destruct Hin as [E|Hin]; [|auto].
    inversion E as [[E1 E2 E3]]; subst. apply (Old_has_dir _ _ _ (steps_Old pre _ _ _ Hs Ht)).
    apply exec_mkdir_ok. exact E3.
  Qed.

  (* a root listing names every band directory there was when the execution began *)
  Lemma steps_listing_sees a tr af x ds fs b :
    steps pre a tr af -> adds tr -> In (x, (OpList DRoot, RList ds fs)) tr ->
    has_dir a (DBand b) = true -> In (DBand b) ds.
  Proof.
    induction 1 as [a|a y o tr af Hs IH]; intros Ha Hin Hb; [destruct Hin|].
    inversion Ha as [|? ? Ho Ht]; subst. cbn [fst snd] in Ho. destruct Hin as [E|Hin].
    - inversion E as [[E1 E2 E3]]; subst. apply (list_root_complete pre a NoFault ds fs b); [exact E3 | exact Hb].
    - apply IH; [exact Ht | exact Hin|]. apply (Old_has_dir _ _ _ (exec_add_Old pre a o NoFault Ho)). exact Hb.
  Qed.

  Lemma next_id_above ds b : In (DBand b) ds -> b < next_id ds.
  Proof. apply next_id_fresh. Qed.

  (* ... and the id computed from it names no directory of the state it was taken in *)
  Lemma steps_listing_state a tr af x ds fs :
    steps pre a tr af -> In (x, (OpList DRoot, RList ds fs)) tr ->
    exists t1 t2 aj, tr = t1 ++ (x, (OpList DRoot, RList ds fs)) :: t2
      /\ steps pre a t1 aj /\ steps pre aj t2 af /\ has_dir aj (DBand (next_id ds)) = false.
  Proof.
    intros Hs Hin. destruct (in_split _ _ Hin) as [t1 [t2 E]]. subst tr.
    destruct (steps_app_inv pre _ _ _ _ Hs) as [aj [H1 H2]].
    destruct (steps_inv pre _ _ _ _ _ _ H2) as [Er H3].
    rewrite (exec_read_same pre aj (OpList DRoot) NoFault I) in H3.
    exists t1, t2, aj. repeat split; auto.
    destruct (has_dir aj (DBand (next_id ds))) eqn:Hd; [|reflexivity].
    pose proof (next_id_above _ _ (list_root_complete pre aj NoFault ds fs _ (eq_sym Er) Hd)). lia.
  Qed.

  Lemma steps_WFparents a tr af : steps pre a tr af -> WFparents pre a -> WFparents pre af.
  Proof.
    induction 1 as [a|a b o tr af _ IH]; intros HW; [exact HW|].
    apply IH. apply (exec_ok_WFparents pre a o HW).
  Qed.
End Steps2.

(* ------------------------------------------------------------------------- *)
(** * 3. What a backup may emit after which history, and how it ends          *)
(* ------------------------------------------------------------------------- *)

Definition no_mut (h : hist) : Prop := forall x, In x h -> is_mutation (fst x) = false.
Definition no_wr (h : hist) : Prop := forall x, In x h -> is_write (fst x) = false.
Definition listed (h : hist) (id : N) : Prop :=
  exists ds fs, In (OpList DRoot, RList ds fs) h /\ id = next_id ds.
Definition no_ok_write (h : hist) : Prop := forall o r, In (o, r) h -> is_write o = true -> r <> ROk.

(* The class.  Band creation: the id comes from a root listing of this run, and nothing was
   mutated before; bNNNN/i after bNNNN/ answered Ok; BANDHEAD after both, as the FIRST write of
   the run.  Everything else that is put into a band — hunk sub-directories, hunks, the tail —
   and every block comes after this run's own BANDHEAD write answered Ok. *)
Definition b2_class (h : hist) (o : op) : Prop :=
  match o with
  | OpRead _ | OpList _ | OpMeta _ => True
  | OpMkdir (DBand id) => no_mut h /\ listed h id
  | OpMkdir (DIndex b) => In (OpMkdir (DBand b), ROk) h /\ no_wr h
  | OpMkdir (DHunkSub b _) => In (head_w b, ROk) h
  | OpMkdir (DBlockSub _) => exists b, In (head_w b, ROk) h
  | OpWrite (PHead b) (PlHead HvOk) CreateNew =>
      In (OpMkdir (DBand b), ROk) h /\ In (OpMkdir (DIndex b), ROk) h /\ no_wr h /\ listed h b
  | OpWrite (PTail b) (PlTail _) CreateNew => In (head_w b, ROk) h
  | OpWrite (PHunk b _) (PlHunk _) CreateNew => In (head_w b, ROk) h
  | OpWrite (PBlock c) (PlBlock c') CreateNew => c' = c /\ exists b, In (head_w b, ROk) h
  | _ => False
  end.

(* The end ([Some r]: returned [r]; [None]: panicked): a refused BANDHEAD write ends the run with
   the error result, and no write of the run succeeded; band creation goes on to bNNNN/i and then
   to BANDHEAD as long as the replies are Ok; any other end than the early error comes after a
   successful BANDHEAD write. *)
Definition b2_end (h : hist) (r : option bres) : Prop :=
  (forall b pl m rep, In (OpWrite (PHead b) pl m, rep) h -> rep <> ROk -> r = Some fail0 /\ no_ok_write h)
  /\ (forall b, In (OpMkdir (DBand b), ROk) h -> exists rep, In (OpMkdir (DIndex b), rep) h)
  /\ (forall b, In (OpMkdir (DIndex b), ROk) h -> exists rep, In (head_w b, rep) h)
  /\ (r <> Some fail0 -> exists b, In (head_w b, ROk) h).

(* [emits_hp] with a postcondition for a panic as well *)
Inductive emits_hq {R : Type} (P : hist -> op -> Prop) (Q : hist -> option R -> Prop) : hist -> prog R -> Prop :=
| ehq_ret : forall h r, Q h (Some r) -> emits_hq P Q h (Ret r)
| ehq_panic : forall h, Q h None -> emits_hq P Q h Panic
| ehq_do : forall h o k, P h o -> (forall rep, emits_hq P Q (h ++ [(o, rep)]) (k rep)) -> emits_hq P Q h (Do o k).

Lemma ehq_eh {R} P Q h (p : prog R) : emits_hq P Q h p -> emits_h P h p.
Proof. intros H. induction H; constructor; auto. Qed.

Lemma eo_ehq {R} (C : op -> Prop) (P : hist -> op -> Prop) (Q : hist -> option R -> Prop) (p : prog R) h0 :
  emits_only C p ->
  (forall h' o, Forall (fun x => C (fst x)) h' -> C o -> P (h0 ++ h') o) ->
  (forall h' r, Forall (fun x => C (fst x)) h' -> Q (h0 ++ h') r) ->
  forall h, Forall (fun x => C (fst x)) h -> emits_hq P Q (h0 ++ h) p.
Proof.
  intros H HP HQ. induction H as [r| |o k Ho _ IH]; intros h Hh; constructor; auto.
  intros rep. rewrite <- app_assoc. apply IH. apply Forall_app. split; [exact Hh|].
  constructor; [exact Ho | constructor].
Qed.

(* the postcondition holds of the complete history *)
Lemma ehq_residual {R} P (Q : hist -> option R -> Prop) h (p : prog R) :
  emits_hq P Q h p -> forall t e, follows p t -> end_of (residual p t) = Some e -> Q (h ++ t) e.
Proof.
  intros H. induction H as [h r Hr|h Hr|h o k Ho _ IH]; intros t e Ht E.
  - destruct t as [|[o' r''] t]; cbn [residual end_of] in E; inversion E; subst.
    + rewrite app_nil_r. exact Hr.
    + inversion Ht.
  - destruct t as [|[o' r''] t]; cbn [residual end_of] in E; inversion E; subst.
    + rewrite app_nil_r. exact Hr.
    + inversion Ht.
  - destruct t as [|[o' r''] t]; cbn [residual end_of] in E; [discriminate|].
    inversion Ht; subst. specialize (IH _ _ _ H0 E). rewrite <- app_assoc in IH. exact IH.
Qed.

Lemma body_no_head id b pl m : ~ body_op id (OpWrite (PHead b) pl m).
Proof. cbn. auto. Qed.

Ltac in_cases H :=
  cbn [app In] in H;
  repeat (destruct H as [H|H]; [try (inversion H; fail)|]); try contradiction.

Ltac here := cbn [In app]; repeat (first [left; reflexivity | right]).

Section Backup2.
  Variable pre : bytes -> N.

  Theorem backup_class2 : forall c src, emits_hq b2_class b2_end [] (backup_prog pre c src).
  Proof.
    intros c src. unfold backup_prog, open_archive.
    (* the results before the band exists: nothing was mutated *)
    assert (Early : forall h, no_mut h -> b2_end h (Some fail0)).
    { intros h Hn. unfold b2_end. split; [|split; [|split]].
      - intros b pl m rep Hin. discriminate (Hn _ Hin).
      - intros b Hin. discriminate (Hn _ Hin).
      - intros b Hin. discriminate (Hn _ Hin).
      - intros Hne. contradiction Hne. reflexivity. }
    assert (NM : forall (h : hist), Forall (fun x => is_mutation (fst x) = false) h -> no_mut h).
    { intros h Hh x Hx. rewrite Forall_forall in Hh. auto. }
    apply ehq_do; [exact I|]. intros r0.
    destruct r0 as [| |[[| | | |]| |]| |]; try (apply ehq_ret, Early, NM; repeat constructor).
    apply ehq_do; [exact I|]. intros r.
    destruct r as [|[| | |]| | |]; try (apply ehq_ret, Early, NM; repeat constructor).
    apply ehq_do; [exact I|]. intros r1.
    destruct r1 as [| | |ds1 fs1|]; try (apply ehq_ret, Early, NM; repeat constructor).
    apply ehq_do; [exact I|]. intros r2.
    destruct r2 as [| | |ds2 fs2|]; try (apply ehq_ret, Early, NM; repeat constructor).
    cbv zeta. fold (next_id ds2). set (id := next_id ds2). cbn [app].
    assert (HL : forall h', listed ([(OpRead PHeader, RData (Good PlJson)); (OpMeta PLock, RErr ENotFound);
                               (OpList DRoot, RList ds1 fs1); (OpList DRoot, RList ds2 fs2)] ++ h') id).
    { intros h'. exists ds2, fs2. split; [|reflexivity]. apply in_or_app. left. here. }
    apply ehq_do.
    { cbn [b2_class]. split; [apply NM; repeat constructor|]. rewrite <- (app_nil_r [_; _; _; _]). apply HL. }
    intros r3. cbn [app]. destruct (is_ok r3) eqn:E3.
    2:{ apply ehq_ret. unfold b2_end. split; [|split; [|split]].
        - intros b pl m rep Hin. in_cases Hin.
        - intros b Hin. in_cases Hin. inversion Hin; subst. discriminate.
        - intros b Hin. in_cases Hin.
        - intros Hne. contradiction Hne. reflexivity. }
    apply is_ok_ROk in E3. subst r3.
    apply ehq_do.
    { cbn [b2_class]. split; [here|]. intros x Hx. in_cases Hx; subst x; reflexivity. }
    intros r4. cbn [app]. destruct (is_ok r4) eqn:E4.
    2:{ apply ehq_ret. unfold b2_end. split; [|split; [|split]].
        - intros b pl m rep Hin. in_cases Hin.
        - intros b Hin. in_cases Hin. inversion Hin; subst. eexists. here.
        - intros b Hin. in_cases Hin. inversion Hin; subst. discriminate.
        - intros Hne. contradiction Hne. reflexivity. }
    apply is_ok_ROk in E4. subst r4.
    apply ehq_do.
    { cbn [b2_class]. split; [here|]. split; [here|]. split.
      - intros x Hx. in_cases Hx; subst x; reflexivity.
      - apply (HL [_; _]). }
    intros r5. cbn [app]. destruct (is_ok r5) eqn:E5.
    2:{ apply ehq_ret. unfold b2_end. split; [|split; [|split]].
        - intros b pl m rep Hin Hne. split; [reflexivity|].
          intros o r Hor Hw. in_cases Hor; try (inversion Hor; subst; try discriminate).
          intros ->. discriminate.
        - intros b Hin. in_cases Hin. inversion Hin; subst. eexists. here.
        - intros b Hin. in_cases Hin. inversion Hin; subst. eexists. here.
        - intros Hne. contradiction Hne. reflexivity. }
    apply is_ok_ROk in E5. subst r5.
    (* the body: every operation is a [body_op id], and the own BANDHEAD write answered Ok *)
    match goal with |- emits_hq _ _ ?h _ => set (h0 := h) end.
    assert (Hhead : forall h', In (head_w id, ROk) (h0 ++ h')).
    { intros h'. apply in_or_app. left. unfold h0, head_w. here. }
    rewrite <- (app_nil_r h0). apply (eo_ehq (body_op id)).
    - repeat eo_step. apply list_blocks_eo; [apply reads_body|].
      intros [ex|]; [|constructor]. apply merge_loop_eo. reflexivity.
    - intros h' o _ Ho. destruct o as [f|f p m|d|d|f|f|d]; cbn in Ho; try contradiction; try exact I.
      + destruct f; try contradiction; destruct p; try contradiction; destruct m; try contradiction;
          subst; cbn [b2_class]; eauto.
      + destruct d; try contradiction; subst; cbn [b2_class]; eauto.
    - intros h' r Hh'. rewrite Forall_forall in Hh'.
      assert (Hb : forall o rep, In (o, rep) (h0 ++ h') -> In (o, rep) h0 \/ body_op id o).
      { intros o rep Hin. apply in_app_or in Hin. destruct Hin as [Hin|Hin]; [left; exact Hin|].
        right. apply (Hh' _ Hin). }
      unfold b2_end. split; [|split; [|split]].
      + intros b pl m rep Hin Hne. exfalso. destruct (Hb _ _ Hin) as [H|H].
        * unfold h0 in H. in_cases H. inversion H; subst. apply Hne. reflexivity.
        * exact (body_no_head _ _ _ _ H).
      + intros b Hin. destruct (Hb _ _ Hin) as [H|H]; [|contradiction H].
        unfold h0 in H. in_cases H. inversion H; subst. eexists. apply in_or_app. left. unfold h0. here.
      + intros b Hin. destruct (Hb _ _ Hin) as [H|H]; [|contradiction H].
        unfold h0 in H. in_cases H. inversion H; subst. eexists. apply Hhead.
      + intros _. exists id. apply Hhead.
    - constructor.
  Qed.
End Backup2.

(* ------------------------------------------------------------------------- *)
(** * 4. The outcomes of [run2], from the actors' own histories               *)
(* ------------------------------------------------------------------------- *)

Section Outcome.
  Variable pre : bytes -> N.

  (* a complete fault-free run ends where the program stands after its trace, and it never
     "crashes" *)
  Lemma run_end {R} (p : prog R) : forall a,
    out_end (snd (run pre p a [])) = end_of (residual p (fst (fst (run pre p a [])))) /\
    out_end (snd (run pre p a [])) <> None.
  Proof.
    induction p as [r|o k IH|]; intros a.
    - cbn. split; [reflexivity | discriminate].
    - rewrite run_nofault_Do. cbn [fst snd residual]. apply IH.
    - cbn. split; [reflexivity | discriminate].
  Qed.

  (* every schedule lets both actors run to their end; each outcome is determined by the
     actor's own sub-trace *)
  Theorem run2_outcome {R S} sigma : forall (p : prog R) (q : prog S) a,
    let x := run2 pre p q a sigma in
    (out_end (out1 x) = end_of (residual p (proj false (tr2 x))) /\ out_end (out1 x) <> None) /\
    (out_end (out2 x) = end_of (residual q (proj true (tr2 x))) /\ out_end (out2 x) <> None).
  Proof.
    induction sigma as [|b s IH]; intros p q a; cbv zeta.
    - cbn [run2]. pose proof (run_end p a) as H1. destruct (run pre p a []) as [[t1 a1] o1].
      pose proof (run_end q a1) as H2. destruct (run pre q a1 []) as [[t2 a2] o2].
      unfold out1, out2, tr2. cbn [fst snd] in *. rewrite !proj_app.
      rewrite (@proj_tag_same false), (@proj_tag_other true), (@proj_tag_other false), (@proj_tag_same true).
      rewrite app_nil_r. cbn [app]. split; assumption.
    - destruct b.
      + destruct q as [r|o k|]; try (cbn [run2]; apply IH).
        cbn [run2]. destruct (exec pre a o NoFault) as [a' r].
        specialize (IH p (k r) a'). cbv zeta in IH.
        destruct (run2 pre p (k r) a' s) as [[[t af] o1] o2].
        unfold out1, out2, tr2 in *. cbn [fst snd] in *.
        rewrite proj_cons_same. rewrite (proj_cons_other false). cbn [residual]. exact IH.
      + destruct p as [r|o k|]; try (cbn [run2]; apply IH).
        cbn [run2]. destruct (exec pre a o NoFault) as [a' r].
        specialize (IH (k r) q a'). cbv zeta in IH.
        destruct (run2 pre (k r) q a' s) as [[[t af] o1] o2].
        unfold out1, out2, tr2 in *. cbn [fst snd] in *.
        rewrite proj_cons_same. rewrite (proj_cons_other true). cbn [residual]. exact IH.
  Qed.
End Outcome.

(* ------------------------------------------------------------------------- *)
(** * 5. Two add-only programs; two backups                                   *)
(* ------------------------------------------------------------------------- *)

Section TwoAdders.
  Variable pre : bytes -> N.
  Variables R S : Type.
  Variable p : prog R.
  Variable q : prog S.
  Hypothesis Hp : emits_only add_only p.
  Hypothesis Hq : emits_only add_only q.
  Variable a0 : arch.
  Variable sigma : list bool.

  Lemma run2_adds : adds (tr2 (run2 pre p q a0 sigma)).
  Proof.
    destruct (run2_follows pre p q a0 sigma) as [F1 F2].
    apply (Forall_proj (fun e => add_only (fst e)));
      [exact (follows_eo add_only p Hp _ F1) | exact (follows_eo add_only q Hq _ F2)].
  Qed.

  Theorem adders_keep_files :
    let x := run2 pre p q a0 sigma in
    Forall (Old a0) (trace_states pre a0 (tr2 x))
    /\ last (trace_states pre a0 (tr2 x)) a0 = st2 x
    /\ Old a0 (st2 x)
    /\ (forall f, get a0 f = Some Empty ->
          get (st2 x) f = Some Empty
          \/ exists who pl, In (who, (OpWrite f pl CreateNew, ROk)) (tr2 x) /\ get (st2 x) f = Some (Good pl)).
  Proof.
    cbv zeta. pose proof run2_adds as Ha. pose proof (run2_steps pre p q a0 sigma) as Hs.
    split; [apply trace_states_Old; exact Ha|]. split; [apply steps_last; exact Hs|].
    split; [apply (steps_Old pre _ _ _ Hs Ha)|].
    intros f G. destruct (steps_get pre _ _ _ Hs Ha f) as [E|[x [pl [Hin [_ G1]]]]].
    - left. congruence.
    - right. exists x, pl. auto.
  Qed.

  Theorem adders_no_path_written_twice : forall i j x y f p1 m1 p2 m2,
    (i < j)%nat ->
    nth_error (tr2 (run2 pre p q a0 sigma)) i = Some (x, (OpWrite f p1 m1, ROk)) ->
    nth_error (tr2 (run2 pre p q a0 sigma)) j = Some (y, (OpWrite f p2 m2, ROk)) -> False.
  Proof.
    intros i j x y f p1 m1 p2 m2 Hij Hi Hj.
    destruct (nth_split2 _ _ _ _ _ Hij Hi Hj) as [t1 [t2 [t3 [E _]]]].
    pose proof run2_adds as Ha. pose proof (run2_steps pre p q a0 sigma) as Hs.
    rewrite E in Ha, Hs. eapply steps_written_twice; [exact Hs | exact Ha].
  Qed.
End TwoAdders.

Lemma firstn_length_app {A} (l1 l2 : list A) : firstn (length l1) (l1 ++ l2) = l1.
Proof. induction l1 as [|x l1 IH]; cbn [length app firstn]; [destruct l2; reflexivity | rewrite IH; reflexivity]. Qed.

Section TwoBackups.
  Variable pre : bytes -> N.
  Variables c1 c2 : cfg.
  Variables src1 src2 : list sitem.
  Variable a0 : arch.
  Variable sigma : list bool.

  Notation P1 := (backup_prog pre c1 src1).
  Notation P2 := (backup_prog pre c2 src2).
  Notation X := (run2 pre P1 P2 a0 sigma).
  Notation tr := (tr2 X).
  Notation bk_of x := (if x then P2 else P1).

  Lemma bb_adds : adds tr.
  Proof. apply run2_adds; apply backup_emits_add_only. Qed.

  Lemma bb_steps : steps pre a0 tr (st2 X).
  Proof. apply run2_steps. Qed.

  Lemma bb_follows (x : bool) : follows (bk_of x) (proj x tr).
  Proof. destruct (run2_follows pre P1 P2 a0 sigma) as [F1 F2]. destruct x; assumption. Qed.

  Lemma bb_class2 (x : bool) : emits_hq b2_class b2_end [] (bk_of x).
  Proof. destruct x; apply backup_class2. Qed.

  (* every operation of an actor obeys the class of that actor's OWN earlier operations *)
  Lemma bb_class i x o r : nth_error tr i = Some (x, (o, r)) -> b2_class (proj x (firstn i tr)) o.
  Proof.
    intros Hi. destruct (proj_nth _ _ _ _ Hi) as [i' [H1 H2]]. rewrite <- H2.
    exact (emits_h_follows b2_class [] _ (ehq_eh _ _ _ _ (bb_class2 x)) _ (bb_follows x) i' o r H1).
  Qed.

  Lemma bb_before x e i : In e (proj x (firstn i tr)) -> exists j, (j < i)%nat /\ nth_error tr j = Some (x, e).
  Proof. intros H. apply proj_In in H. apply In_firstn_nth. exact H. Qed.

  Lemma bb_before_In x e i : In e (proj x (firstn i tr)) -> In (x, e) tr.
  Proof. intros H. destruct (bb_before _ _ _ H) as [j [_ Hj]]. eapply nth_error_In. exact Hj. Qed.

  (* each actor ends (returns or panics), and the end obeys the postcondition of its own history *)
  Lemma bb_end (x : bool) : exists e, out_end (out_of x X) = Some e /\ b2_end (proj x tr) e.
  Proof.
    destruct (run2_outcome pre sigma P1 P2 a0) as [[E1 N1] [E2 N2]].
    assert (H : out_end (out_of x X) = end_of (residual (bk_of x) (proj x tr)) /\ out_end (out_of x X) <> None)
      by (destruct x; split; assumption).
    destruct H as [E Nn]. destruct (out_end (out_of x X)) as [e|] eqn:Eo; [|contradiction Nn; reflexivity].
    exists e. split; [reflexivity|].
    exact (ehq_residual b2_class b2_end [] _ (bb_class2 x) _ e (bb_follows x) (eq_sym E)).
  Qed.

  (* the state an operation ran in, and its truthful reply *)
  Lemma bb_reply_at i x o r : nth_error tr i = Some (x, (o, r)) ->
    exists ai, steps pre a0 (firstn i tr) ai /\ adds (firstn i tr) /\ r = snd (exec pre ai o NoFault).
  Proof.
    intros Hi. pose proof bb_adds as Ha. pose proof bb_steps as Hs.
    destruct (nth_error_split _ _ Hi) as [l1 [l2 [E L]]]. rewrite E in Ha, Hs |- *. subst i.
    rewrite firstn_length_app.
    destruct (steps_app_inv pre _ _ _ _ Hs) as [ai [H1 H2]].
    destruct (steps_inv pre _ _ _ _ _ _ H2) as [Er _].
    apply adds_app in Ha. destruct Ha as [Ha _]. exists ai. auto.
  Qed.

  (* a BANDHEAD write is [head_w] *)
  Lemma bb_head_shape x b pl m r : In (x, (OpWrite (PHead b) pl m, r)) tr -> OpWrite (PHead b) pl m = head_w b.
  Proof.
    intros Hin. destruct (In_nth_error _ _ Hin) as [i Hi]. pose proof (bb_class _ _ _ _ Hi) as Hc.
    cbn [b2_class] in Hc. destruct pl as [|v| | |]; try contradiction. destruct v; try contradiction.
    destruct m; [reflexivity | contradiction].
  Qed.

  (** ** 2. No path is written twice *)
  Theorem bb_no_path_written_twice : forall i j x y f p1 m1 p2 m2,
    (i < j)%nat ->
    nth_error tr i = Some (x, (OpWrite f p1 m1, ROk)) ->
    nth_error tr j = Some (y, (OpWrite f p2 m2, ROk)) -> False.
  Proof. apply adders_no_path_written_twice; apply backup_emits_add_only. Qed.

  Lemma bb_one_ok_write x y f p1 m1 p2 m2 :
    In (x, (OpWrite f p1 m1, ROk)) tr -> In (y, (OpWrite f p2 m2, ROk)) tr -> x <> y -> False.
  Proof.
    intros H1 H2 Ne.
    destruct (In_two_nth _ _ _ H1 H2) as [i [j [Hi [Hj [L|L]]]]]; [congruence| |];
      eapply bb_no_path_written_twice; eauto.
  Qed.

  (** ** 3. Bands are not shared *)

  (* whatever an actor puts into a band comes after its OWN successful BANDHEAD write there;
     the BANDHEAD write itself comes after its own create_dir of the band and of its index *)
  Theorem bb_puts_only_after_own_head : forall i x o rep b,
    nth_error tr i = Some (x, (o, rep)) -> band_put o = Some b ->
    (o = head_w b /\ exists j, (j < i)%nat /\ nth_error tr j = Some (x, (OpMkdir (DBand b), ROk)))
    \/ (exists j, (j < i)%nat /\ nth_error tr j = Some (x, (head_w b, ROk))).
  Proof.
    intros i x o rep b Hi Hb. pose proof (bb_class _ _ _ _ Hi) as Hc.
    destruct o as [f|f p m|d|d|f|f|d]; cbn [band_put] in Hb; try discriminate.
    - destruct f; try discriminate; inversion Hb; subst; cbn [b2_class] in Hc.
      + left. destruct p as [|v| | |]; try contradiction. destruct v; try contradiction.
        destruct m; [|contradiction]. split; [reflexivity|]. destruct Hc as [H _]. exact (bb_before _ _ _ H).
      + right. destruct p; try contradiction. destruct m; [|contradiction]. exact (bb_before _ _ _ Hc).
      + right. destruct p; try contradiction. destruct m; [|contradiction]. exact (bb_before _ _ _ Hc).
    - destruct d; try discriminate; inversion Hb; subst; cbn [b2_class] in Hc.
      right. exact (bb_before _ _ _ Hc).
  Qed.

  Lemma bb_own_head i x o b :
    nth_error tr i = Some (x, (o, ROk)) -> band_put o = Some b -> In (x, (head_w b, ROk)) tr.
  Proof.
    intros Hi Hb. destruct (bb_puts_only_after_own_head _ _ _ _ _ Hi Hb) as [[-> _]|[j [_ Hj]]].
    - eapply nth_error_In. exact Hi.
    - eapply nth_error_In. exact Hj.
  Qed.

  Theorem bb_bands_not_shared : forall b i j o1 o2,
    nth_error tr i = Some (false, (o1, ROk)) -> band_put o1 = Some b ->
    nth_error tr j = Some (true, (o2, ROk)) -> band_put o2 = Some b -> False.
  Proof.
    intros b i j o1 o2 Hi H1 Hj H2.
    apply (bb_one_ok_write false true (PHead b) (PlHead HvOk) CreateNew (PlHead HvOk) CreateNew);
      [exact (bb_own_head _ _ _ _ Hi H1) | exact (bb_own_head _ _ _ _ Hj H2) | discriminate].
  Qed.

  (** ** 4. The loser fails *)

  Theorem bb_loser_fails : forall x b pl m rep,
    In (x, (OpWrite (PHead b) pl m, rep)) tr -> rep <> ROk ->
    out_of x X = Done fail0 /\ (forall o r, In (x, (o, r)) tr -> is_write o = true -> r <> ROk).
  Proof.
    intros x b pl m rep Hin Hne. destruct (bb_end x) as [e [Eo [H1 _]]].
    apply proj_In in Hin. destruct (H1 _ _ _ _ Hin Hne) as [-> Hno]. split.
    - destruct (out_of x X); cbn [out_end] in Eo; inversion Eo; reflexivity.
    - intros o r Hor. apply proj_In in Hor. exact (Hno _ _ Hor).
  Qed.

  (* create_dir never refuses a racer: once the root has been listed, the band directory and its
     index directory "are created" whoever else created them, and the BANDHEAD write is attempted *)
  Theorem bb_band_creation_proceeds : forall x b rep,
    In (x, (OpMkdir (DBand b), rep)) tr ->
    rep = ROk /\ In (x, (OpMkdir (DIndex b), ROk)) tr /\ exists rep', In (x, (head_w b, rep')) tr.
  Proof.
    intros x b rep Hin. destruct (In_nth_error _ _ Hin) as [i Hi].
    assert (E : rep = ROk).
    { pose proof (bb_class _ _ _ _ Hi) as Hc. cbn [b2_class] in Hc. destruct Hc as [_ [ds [fs [Hl _]]]].
      destruct (bb_reply_at _ _ _ _ Hi) as [ai [Hs [Ha ->]]]. apply proj_In in Hl.
      apply (exec_mkdir_reply pre ai (DBand b) DRoot eq_refl). exact (steps_list_ok pre _ _ _ _ _ _ _ Hs Ha Hl). }
    subst rep. split; [reflexivity|].
    destruct (bb_end x) as [e [_ [_ [H2 [H3 _]]]]].
    destruct (H2 b (proj2 (proj_In _ _ _) Hin)) as [r4 Hin4]. apply proj_In in Hin4.
    assert (E : r4 = ROk).
    { destruct (In_nth_error _ _ Hin4) as [i4 Hi4].
      pose proof (bb_class _ _ _ _ Hi4) as Hc. cbn [b2_class] in Hc. destruct Hc as [Hm _].
      destruct (bb_reply_at _ _ _ _ Hi4) as [ai [Hs [Ha ->]]]. apply proj_In in Hm.
      apply (exec_mkdir_reply pre ai (DIndex b) (DBand b) eq_refl). exact (steps_mkdir_ok pre _ _ _ _ _ Hs Ha Hm). }
    subst r4. split; [exact Hin4|].
    destruct (H3 b (proj2 (proj_In _ _ _) Hin4)) as [r5 Hin5]. exists r5. apply proj_In. exact Hin5.
  Qed.

  (* a BANDHEAD write answers Ok or AlreadyExists, nothing else *)
  Lemma bb_head_reply x b rep : In (x, (head_w b, rep)) tr -> rep = ROk \/ rep = RErr EAlreadyExists.
  Proof.
    intros Hin. destruct (In_nth_error _ _ Hin) as [i Hi].
    pose proof (bb_class _ _ _ _ Hi) as Hc. cbn [b2_class head_w] in Hc. destruct Hc as [Hm _].
    destruct (bb_reply_at _ _ _ _ Hi) as [ai [Hs [Ha ->]]]. apply proj_In in Hm.
    pose proof (steps_mkdir_ok pre _ _ _ _ _ Hs Ha Hm) as Hd.
    destruct (exec_create_reply pre ai (PHead b) (PlHead HvOk) Hd) as [[E _]|[E _]]; auto.
  Qed.

  (* with every file's directory present at the start: whenever a BANDHEAD write is attempted,
     one succeeds (this attempt, or an earlier one of the other actor) *)
  Theorem bb_head_attempted_then_won : WFparents pre a0 -> forall x b rep,
    In (x, (head_w b, rep)) tr -> exists y, In (y, (head_w b, ROk)) tr.
  Proof.
    intros HW x b rep Hin. destruct (In_nth_error _ _ Hin) as [i Hi].
    pose proof (bb_class _ _ _ _ Hi) as Hc. cbn [b2_class head_w] in Hc.
    destruct Hc as [Hm [_ [_ [ds [fs [Hl ->]]]]]].
    destruct (bb_reply_at _ _ _ _ Hi) as [ai [Hs [Ha Er]]]. apply proj_In in Hm. apply proj_In in Hl.
    destruct (steps_listing_state pre _ _ _ _ _ _ Hs Hl) as [u1 [u2 [aj [E [S1 [S2 Hno]]]]]].
    assert (Hsub : forall e, In e u2 -> In e tr).
    { intros e He. assert (H : In e (firstn i tr)) by (rewrite E; apply in_or_app; right; right; exact He).
      destruct (In_firstn_nth _ _ _ H) as [j [_ Hj]]. eapply nth_error_In. exact Hj. }
    assert (G : get aj (PHead (next_id ds)) = None).
    { destruct (get aj (PHead (next_id ds))) as [c|] eqn:G; [|reflexivity].
      destruct (steps_WFparents pre _ _ _ S1 HW) as [HF _]. specialize (HF _ _ G).
      cbn [parent_f] in HF. congruence. }
    assert (Ha2 : adds u2).
    { rewrite E in Ha. apply adds_app in Ha. destruct Ha as [_ Ha]. inversion Ha; assumption. }
    destruct (steps_get pre _ _ _ S2 Ha2 (PHead (next_id ds))) as [G'|[y [pl [Hy _]]]].
    - exists x. rewrite G in G'.
      pose proof (steps_mkdir_ok pre _ _ _ _ _ Hs Ha Hm) as Hd.
      destruct (exec_create_reply pre ai (PHead (next_id ds)) (PlHead HvOk) Hd) as [[Eok _]|[_ [c0 [G0 _]]]];
        [|congruence].
      unfold head_w in Er. rewrite Eok in Er. subst rep. exact Hin.
    - exists y. apply Hsub in Hy. rewrite <- (bb_head_shape _ _ _ _ _ Hy). exact Hy.
  Qed.

  (* both compute the same id: both create_dir answer Ok, both BANDHEAD writes are attempted, at
     most one succeeds; with a well-formed start state exactly one does; the other actor gets
     AlreadyExists, returns the error result, and none of its writes succeeded *)
  Theorem bb_same_id : forall b r1 r2,
    In (false, (OpMkdir (DBand b), r1)) tr -> In (true, (OpMkdir (DBand b), r2)) tr ->
    r1 = ROk /\ r2 = ROk
    /\ (exists h1 h2, In (false, (head_w b, h1)) tr /\ In (true, (head_w b, h2)) tr /\ ~ (h1 = ROk /\ h2 = ROk))
    /\ (WFparents pre a0 ->
        exists w, In (w, (head_w b, ROk)) tr /\ In (negb w, (head_w b, RErr EAlreadyExists)) tr
                  /\ out_of (negb w) X = Done fail0
                  /\ (forall o r, In (negb w, (o, r)) tr -> is_write o = true -> r <> ROk)).
  Proof.
    intros b r1 r2 H1 H2.
    destruct (bb_band_creation_proceeds _ _ _ H1) as [-> [_ [h1 Hh1]]].
    destruct (bb_band_creation_proceeds _ _ _ H2) as [-> [_ [h2 Hh2]]].
    assert (Hnot : ~ (h1 = ROk /\ h2 = ROk)).
    { intros [-> ->]. apply (bb_one_ok_write _ _ _ _ _ _ _ Hh1 Hh2). discriminate. }
    split; [reflexivity|]. split; [reflexivity|]. split; [exists h1, h2; auto|].
    intros HW. destruct (bb_head_attempted_then_won HW _ _ _ Hh1) as [w Hw]. exists w.
    assert (Hl : exists hl, In (negb w, (head_w b, hl)) tr) by (destruct w; eauto).
    destruct Hl as [hl Hl].
    assert (Hne : hl <> ROk).
    { intros ->. apply (bb_one_ok_write _ _ _ _ _ _ _ Hw Hl). destruct w; discriminate. }
    destruct (bb_head_reply _ _ _ Hl) as [-> | ->]; [contradiction Hne; reflexivity|].
    split; [exact Hw|]. split; [exact Hl|]. exact (bb_loser_fails _ _ _ _ _ Hl Hne).
  Qed.

  (** ** 5. New ids are above every band of the start state *)
  Theorem bb_band_ids_fresh : forall x id rep b,
    In (x, (OpMkdir (DBand id), rep)) tr -> has_dir a0 (DBand b) = true -> b < id.
  Proof.
    intros x id rep b Hin Hb. destruct (In_nth_error _ _ Hin) as [i Hi].
    pose proof (bb_class _ _ _ _ Hi) as Hc. cbn [b2_class] in Hc. destruct Hc as [_ [ds [fs [Hl ->]]]].
    apply next_id_above. apply bb_before_In in Hl.
    exact (steps_listing_sees pre _ _ _ _ _ _ _ bb_steps bb_adds Hl Hb).
  Qed.

  (** ** 1. Existing files are kept *)
  Theorem bb_existing_files_kept :
    Forall (Old a0) (trace_states pre a0 tr)
    /\ last (trace_states pre a0 tr) a0 = st2 X
    /\ Old a0 (st2 X)
    /\ (forall f, get a0 f = Some Empty ->
          get (st2 X) f = Some Empty
          \/ exists who pl, In (who, (OpWrite f pl CreateNew, ROk)) tr /\ get (st2 X) f = Some (Good pl)).
  Proof. apply adders_keep_files; apply backup_emits_add_only. Qed.
End TwoBackups.

(** ** 5b. The two new ids: the next free id of the start state, or the one after it *)

Lemma fold_max_In l : forall x, In (fold_left N.max l x) (x :: l).
Proof.
  induction l as [|z l IH]; intros x; cbn [fold_left]; [left; reflexivity|].
  destruct (IH (N.max x z)) as [E|H].
  - rewrite <- E. destruct (N.max_spec x z) as [[_ ->]|[_ ->]]; [right; left | left]; reflexivity.
  - right. right. exact H.
Qed.

Lemma max_id_In l m : max_id l = Some m -> In m l.
Proof. destruct l as [|x l]; cbn [max_id]; [discriminate|]. intros E. inversion E. apply fold_max_In. Qed.

Lemma band_ids_In_inv ds b : In b (band_ids ds) -> In (DBand b) ds.
Proof.
  unfold band_ids. rewrite in_flat_map. intros [d [Hd Hb]].
  destruct d; try contradiction. destruct Hb as [-> |[]]. exact Hd.
Qed.

Lemma next_id_inv ds : next_id ds = 0 \/ In (DBand (next_id ds - 1)) ds.
Proof.
  unfold next_id. destruct (max_id (band_ids ds)) as [m|] eqn:E; [right | left; reflexivity].
  rewrite N.add_sub. apply band_ids_In_inv. apply max_id_In. exact E.
Qed.

Lemma next_id_spec ds n :
  (forall b, In (DBand b) ds -> b < n) -> (n = 0 \/ In (DBand (n - 1)) ds) -> next_id ds = n.
Proof.
  intros H1 H2. destruct (next_id_inv ds) as [E|Hin].
  - destruct H2 as [-> |H2]; [exact E|]. pose proof (next_id_above _ _ H2). lia.
  - pose proof (H1 _ Hin) as L1. pose proof (next_id_above _ _ Hin) as L0.
    destruct H2 as [-> |H2]; [lia|]. pose proof (next_id_above _ _ H2). lia.
Qed.

Lemma nth_In_firstn {A} (l : list A) : forall k i e, (k < i)%nat -> nth_error l k = Some e -> In e (firstn i l).
Proof.
  induction l as [|y l IH]; intros k i e Hk He; [destruct k; discriminate|].
  destruct i as [|i]; [lia|]. cbn [firstn]. destruct k as [|k]; cbn [nth_error] in He.
  - inversion He. left. reflexivity.
  - right. apply (IH k); [lia | exact He].
Qed.

Section Steps3.
  Variable pre : bytes -> N.

  Lemma exec_add_dirs a o d : add_only o ->
    has_dir (fst (exec pre a o NoFault)) d = true -> has_dir a d = true \/ o = OpMkdir d.
  Proof.
    intros Ho. destruct o as [f|f p m|d'|d'|f|f|d']; cbn in Ho; try contradiction; cbn [exec exec_ok].
    - destruct (get a f); auto.
    - destruct (has_dir a (parent_f pre f)); [|auto]. destruct (get a f) as [[q| |]|]; destruct m; cbn [fst]; auto.
    - destruct (has_dir a d'); auto.
    - destruct (has_dir a d') eqn:Hd'; [auto|].
      assert (Hadd : has_dir {| dirs := dirs a ++ [d']; files := files a |} d = true ->
                     has_dir a d = true \/ OpMkdir d' = OpMkdir d).
      { intros H. apply has_dir_In in H. cbn [dirs] in H. apply in_app_or in H.
        destruct H as [H|[-> |[]]]; [left; apply has_dir_In; exact H | right; reflexivity]. }
      destruct (parent_d d') as [p|]; [destruct (has_dir a p)|]; cbn [fst]; auto.
    - destruct (get a f); auto.
  Qed.

  (* a band directory present after an execution was there before, or some create_dir of the
     execution named it *)
  Lemma steps_new_dirs a tr af : steps pre a tr af -> adds tr -> forall d,
    has_dir af d = true -> has_dir a d = true \/ exists y r, In (y, (OpMkdir d, r)) tr.
  Proof.
    induction 1 as [a|a b o tr af Hs IH]; intros Ha d Hd; [left; exact Hd|].
    inversion Ha as [|? ? Ho Ht]; subst. cbn [fst snd] in Ho.
    destruct (IH Ht d Hd) as [H|[y [r Hin]]].
    - destruct (exec_add_dirs a o d Ho H) as [H'| ->]; [left; exact H'|].
      right. eexists. eexists. left. reflexivity.
    - right. exists y, r. right. exact Hin.
  Qed.

  (* the state a root listing was taken in: it names exactly the band directories of that state *)
  Lemma steps_listing_exact a tr af x ds fs :
    steps pre a tr af -> In (x, (OpList DRoot, RList ds fs)) tr ->
    exists t1 t2 aj, tr = t1 ++ (x, (OpList DRoot, RList ds fs)) :: t2
      /\ steps pre a t1 aj /\ (forall b, In (DBand b) ds <-> has_dir aj (DBand b) = true).
  Proof.
    intros Hs Hin. destruct (in_split _ _ Hin) as [t1 [t2 E]]. subst tr.
    destruct (steps_app_inv pre _ _ _ _ Hs) as [aj [H1 H2]].
    destruct (steps_inv pre _ _ _ _ _ _ H2) as [Er _].
    exists t1, t2, aj. split; [reflexivity|]. split; [exact H1|]. intros b. split.
    - intros Hb. cbn [exec exec_ok] in Er. destruct (has_dir aj DRoot); cbn [snd] in Er; [|discriminate].
      inversion Er; subst. unfold children_dirs in Hb. apply filter_In in Hb. apply has_dir_In. tauto.
    - intros Hb. exact (list_root_complete pre aj NoFault ds fs b (eq_sym Er) Hb).
  Qed.

  (* no create_dir of a band directory before the listing: the id computed is the next free id
     of the start state *)
  Lemma listing_untouched a t1 aj ds :
    steps pre a t1 aj -> adds t1 -> (forall e, In e t1 -> is_mkband e = false) ->
    (forall b, In (DBand b) ds <-> has_dir aj (DBand b) = true) ->
    next_id ds = next_id (dirs a).
  Proof.
    intros Hs Ha Hno Hds. apply next_id_spec.
    - intros b Hb. apply Hds in Hb. destruct (steps_new_dirs _ _ _ Hs Ha _ Hb) as [H|[y [r Hin]]].
      + apply next_id_above. apply has_dir_In. exact H.
      + discriminate (Hno _ Hin).
    - destruct (next_id_inv (dirs a)) as [E|Hin]; [left; exact E|]. right. apply Hds.
      apply (Old_has_dir _ _ _ (steps_Old pre _ _ _ Hs Ha)). apply has_dir_In. exact Hin.
  Qed.
End Steps3.

Section TwoBackupsIds.
  Variable pre : bytes -> N.
  Variables c1 c2 : cfg.
  Variables src1 src2 : list sitem.
  Variable a0 : arch.
  Variable sigma : list bool.

  Notation X := (run2 pre (backup_prog pre c1 src1) (backup_prog pre c2 src2) a0 sigma).
  Notation tr := (tr2 X).
  Notation M := (next_id (dirs a0)).

  (* before an actor's create_dir of its band it has mutated nothing: every earlier create_dir of
     a band directory is the other actor's *)
  Lemma bb_mkband_before i x id rep : nth_error tr i = Some (x, (OpMkdir (DBand id), rep)) ->
    forall y o r, In (y, (o, r)) (firstn i tr) -> is_mutation o = true -> y = negb x.
  Proof.
    intros Hi y o r Hin Hm. pose proof (bb_class pre c1 c2 src1 src2 a0 sigma _ _ _ _ Hi) as Hc.
    cbn [b2_class] in Hc. destruct Hc as [Hno _].
    destruct (Bool.bool_dec y x) as [-> |Ne]; [|destruct x, y; try reflexivity; contradiction Ne; reflexivity].
    apply proj_In in Hin. specialize (Hno _ Hin). cbn [fst] in Hno. congruence.
  Qed.

  (* each actor creates at most one band directory *)
  Lemma bb_mkband_unique i k x b r b' r' :
    nth_error tr i = Some (x, (OpMkdir (DBand b), r)) ->
    nth_error tr k = Some (x, (OpMkdir (DBand b'), r')) -> i = k.
  Proof.
    intros Hi Hk. destruct (Nat.lt_trichotomy i k) as [L|[E|L]]; [|exact E|]; exfalso.
    - pose proof (bb_mkband_before _ _ _ _ Hk _ _ _ (nth_In_firstn _ _ _ _ L Hi) eq_refl). destruct x; discriminate.
    - pose proof (bb_mkband_before _ _ _ _ Hi _ _ _ (nth_In_firstn _ _ _ _ L Hk) eq_refl). destruct x; discriminate.
  Qed.

  (* the listing the id was computed from, and the state it was taken in *)
  Lemma bb_mkband_listing i x id rep : nth_error tr i = Some (x, (OpMkdir (DBand id), rep)) ->
    exists u1 ds fs u2 aj, firstn i tr = u1 ++ (x, (OpList DRoot, RList ds fs)) :: u2
      /\ id = next_id ds /\ steps pre a0 u1 aj /\ adds u1
      /\ (forall b, In (DBand b) ds <-> has_dir aj (DBand b) = true).
  Proof.
    intros Hi. pose proof (bb_class pre c1 c2 src1 src2 a0 sigma _ _ _ _ Hi) as Hc.
    cbn [b2_class] in Hc. destruct Hc as [_ [ds [fs [Hl ->]]]]. apply proj_In in Hl.
    destruct (bb_reply_at pre c1 c2 src1 src2 a0 sigma _ _ _ _ Hi) as [ai [Hs [Ha _]]].
    destruct (steps_listing_exact pre _ _ _ _ _ _ Hs Hl) as [u1 [u2 [aj [E [S1 Hds]]]]].
    exists u1, ds, fs, u2, aj. split; [exact E|]. split; [reflexivity|]. split; [exact S1|]. split; [|exact Hds].
    rewrite E in Ha. apply adds_app in Ha. tauto.
  Qed.

  Lemma bb_firstn_In i e : In e (firstn i tr) -> exists k, (k < i)%nat /\ nth_error tr k = Some e.
  Proof. apply In_firstn_nth. Qed.

  Theorem bb_band_ids_exact : forall x id rep,
    In (x, (OpMkdir (DBand id), rep)) tr ->
    id = M \/ (id = M + 1 /\ exists r, In (negb x, (OpMkdir (DBand M), r)) tr).
  Proof.
    intros x id rep Hin. destruct (In_nth_error _ _ Hin) as [i Hi].
    destruct (bb_mkband_listing _ _ _ _ Hi) as [u1 [ds [fs [u2 [aj [E [-> [S1 [A1 Hds]]]]]]]]].
    assert (Hu1 : forall e, In e u1 -> In e (firstn i tr)) by (intros e He; rewrite E; apply in_or_app; left; exact He).
    destruct (existsb is_mkband u1) eqn:Ex.
    2:{ left. apply (listing_untouched pre a0 u1 aj ds S1 A1); [|exact Hds].
        intros e He. destruct (is_mkband e) eqn:Em; [|reflexivity].
        assert (existsb is_mkband u1 = true) by (apply existsb_exists; eauto). congruence. }
    right. apply existsb_exists in Ex. destruct Ex as [[y [o r]] [He Em]].
    destruct o as [f|f p m|d|d|f|f|d]; try discriminate. destruct d as [| |b'| | |]; try discriminate.
    assert (Ey : y = negb x) by exact (bb_mkband_before _ _ _ _ Hi _ _ _ (Hu1 _ He) eq_refl). subst y.
    destruct (bb_firstn_In _ _ (Hu1 _ He)) as [k [Lk Hk]].
    (* the other actor's id is M: nothing had created a band directory before ITS listing *)
    assert (Eb' : b' = M).
    { destruct (bb_mkband_listing _ _ _ _ Hk) as [v1 [ds' [fs' [v2 [aj' [E' [-> [S1' [A1' Hds']]]]]]]]].
      apply (listing_untouched pre a0 v1 aj' ds' S1' A1'); [|exact Hds'].
      intros e Hev. destruct (is_mkband e) eqn:Em'; [exfalso|reflexivity].
      destruct e as [z [o' r']]. destruct o' as [f|f p m|d|d|f|f|d]; try discriminate.
      destruct d as [| |b''| | |]; try discriminate.
      assert (Hev' : In (z, (OpMkdir (DBand b''), r')) (firstn k tr)) by (rewrite E'; apply in_or_app; left; exact Hev).
      pose proof (bb_mkband_before _ _ _ _ Hk _ _ _ Hev' eq_refl) as Ez. rewrite Bool.negb_involutive in Ez. subst z.
      destruct (bb_firstn_In _ _ Hev') as [k' [Lk' Hk']].
      pose proof (bb_mkband_unique _ _ _ _ _ _ _ Hi Hk'). lia. }
    subst b'. split.
    - apply next_id_spec.
      + intros b Hb. apply Hds in Hb. destruct (steps_new_dirs pre _ _ _ S1 A1 _ Hb) as [H|[z [r' Hz]]].
        * pose proof (next_id_above (dirs a0) b (proj1 (has_dir_In _ _) H)). lia.
        * assert (Ez : z = negb x) by exact (bb_mkband_before _ _ _ _ Hi _ _ _ (Hu1 _ Hz) eq_refl). subst z.
          destruct (bb_firstn_In _ _ (Hu1 _ Hz)) as [k' [_ Hk']].
          pose proof (bb_mkband_unique _ _ _ _ _ _ _ Hk Hk') as Ek. subst k'.
          rewrite Hk in Hk'. inversion Hk'. lia.
      + right. rewrite N.add_sub. apply Hds.
        assert (Er : r = ROk).
        { apply (bb_band_creation_proceeds pre c1 c2 src1 src2 a0 sigma (negb x) M r). eapply nth_error_In. exact Hk. }
        subst r. exact (steps_mkdir_ok pre _ _ _ _ _ S1 A1 He).
    - exists r. eapply nth_error_In. exact Hk.
  Qed.
End TwoBackupsIds.

(* ------------------------------------------------------------------------- *)
(** * 6. The statements, closed                                               *)
(* ------------------------------------------------------------------------- *)

(* 1. EXISTING FILES ARE KEPT.  At every intermediate state of every interleaving and at the end:
   every directory of the start state is there, every non-empty file of the start state is there
   with the same content; a zero-length file of the start state is still zero-length at the end,
   or one successful create-new write completed it. *)
Theorem race_existing_files_kept : forall pre c1 src1 c2 src2 a0 sigma,
  let x := run2 pre (backup_prog pre c1 src1) (backup_prog pre c2 src2) a0 sigma in
  Forall (Old a0) (trace_states pre a0 (tr2 x))
  /\ last (trace_states pre a0 (tr2 x)) a0 = st2 x
  /\ (forall f c, get a0 f = Some c -> nonempty c = true -> get (st2 x) f = Some c)
  /\ (forall d, has_dir a0 d = true -> has_dir (st2 x) d = true)
  /\ (forall f, get a0 f = Some Empty ->
        get (st2 x) f = Some Empty
        \/ exists who pl, In (who, (OpWrite f pl CreateNew, ROk)) (tr2 x) /\ get (st2 x) f = Some (Good pl)).
Proof.
  intros pre c1 src1 c2 src2 a0 sigma. cbv zeta.
  destruct (bb_existing_files_kept pre c1 c2 src1 src2 a0 sigma) as [H1 [H2 [H3 H4]]].
  split; [exact H1|]. split; [exact H2|]. split; [|split; [|exact H4]].
  - intros f c G Hc. exact (Old_get _ _ _ _ H3 G Hc).
  - intros d Hd. exact (Old_has_dir _ _ _ H3 Hd).
Qed.

(* 2. NO PATH IS WRITTEN TWICE, by the same actor or by both. *)
Theorem race_no_path_written_twice : forall pre c1 src1 c2 src2 a0 sigma i j x y f p1 m1 p2 m2,
  let tr := tr2 (run2 pre (backup_prog pre c1 src1) (backup_prog pre c2 src2) a0 sigma) in
  (i < j)%nat ->
  nth_error tr i = Some (x, (OpWrite f p1 m1, ROk)) ->
  nth_error tr j = Some (y, (OpWrite f p2 m2, ROk)) -> False.
Proof. intros pre c1 src1 c2 src2 a0 sigma. cbv zeta. apply bb_no_path_written_twice. Qed.

(* 3. BANDS ARE NOT SHARED: no band receives a successful write of one of its files (head, hunk,
   tail; or the creation of a hunk sub-directory) from both actors ... *)
Theorem race_bands_not_shared : forall pre c1 src1 c2 src2 a0 sigma b i j o1 o2,
  let tr := tr2 (run2 pre (backup_prog pre c1 src1) (backup_prog pre c2 src2) a0 sigma) in
  nth_error tr i = Some (false, (o1, ROk)) -> band_put o1 = Some b ->
  nth_error tr j = Some (true, (o2, ROk)) -> band_put o2 = Some b -> False.
Proof. intros pre c1 src1 c2 src2 a0 sigma. cbv zeta. apply bb_bands_not_shared. Qed.

(* ... because whatever an actor puts into a band (with whatever reply) comes after its OWN
   BANDHEAD write there was answered Ok, and that write comes after its own create_dir. *)
Theorem race_puts_only_after_own_head : forall pre c1 src1 c2 src2 a0 sigma i x o rep b,
  let tr := tr2 (run2 pre (backup_prog pre c1 src1) (backup_prog pre c2 src2) a0 sigma) in
  nth_error tr i = Some (x, (o, rep)) -> band_put o = Some b ->
  (o = head_w b /\ exists j, (j < i)%nat /\ nth_error tr j = Some (x, (OpMkdir (DBand b), ROk)))
  \/ (exists j, (j < i)%nat /\ nth_error tr j = Some (x, (head_w b, ROk))).
Proof. intros pre c1 src1 c2 src2 a0 sigma. cbv zeta. apply bb_puts_only_after_own_head. Qed.

(* 4. THE LOSER FAILS: the actor whose BANDHEAD write is refused returns the error result
   ([b_ok = false], no band), and NONE of its writes succeeded, before or after. *)
Theorem race_loser_fails : forall pre c1 src1 c2 src2 a0 sigma x b pl m rep,
  let X := run2 pre (backup_prog pre c1 src1) (backup_prog pre c2 src2) a0 sigma in
  In (x, (OpWrite (PHead b) pl m, rep)) (tr2 X) -> rep <> ROk ->
  out_of x X = Done fail0 /\ (forall o r, In (x, (o, r)) (tr2 X) -> is_write o = true -> r <> ROk).
Proof. intros pre c1 src1 c2 src2 a0 sigma. cbv zeta. apply bb_loser_fails. Qed.

(* When both compute the same id: BOTH create_dir are answered Ok (see the refutation below), both
   go on to write BANDHEAD, not both succeed; from a start state where every file has its directory
   exactly one succeeds, the other is answered AlreadyExists, returns the error result, and none of
   its writes succeeded. *)
Theorem race_same_id : forall pre c1 src1 c2 src2 a0 sigma b r1 r2,
  let X := run2 pre (backup_prog pre c1 src1) (backup_prog pre c2 src2) a0 sigma in
  In (false, (OpMkdir (DBand b), r1)) (tr2 X) -> In (true, (OpMkdir (DBand b), r2)) (tr2 X) ->
  r1 = ROk /\ r2 = ROk
  /\ (exists h1 h2, In (false, (head_w b, h1)) (tr2 X) /\ In (true, (head_w b, h2)) (tr2 X)
                    /\ ~ (h1 = ROk /\ h2 = ROk))
  /\ (WFparents pre a0 ->
      exists w, In (w, (head_w b, ROk)) (tr2 X) /\ In (negb w, (head_w b, RErr EAlreadyExists)) (tr2 X)
                /\ out_of (negb w) X = Done fail0
                /\ (forall o r, In (negb w, (o, r)) (tr2 X) -> is_write o = true -> r <> ROk)).
Proof. intros pre c1 src1 c2 src2 a0 sigma. cbv zeta. apply bb_same_id. Qed.

(* an attempted BANDHEAD write is won by someone (well-formed start state) *)
Theorem race_head_attempted_then_won : forall pre c1 src1 c2 src2 a0 sigma x b rep,
  let X := run2 pre (backup_prog pre c1 src1) (backup_prog pre c2 src2) a0 sigma in
  WFparents pre a0 -> In (x, (head_w b, rep)) (tr2 X) -> exists y, In (y, (head_w b, ROk)) (tr2 X).
Proof. intros pre c1 src1 c2 src2 a0 sigma x b rep. cbv zeta. intros HW. apply bb_head_attempted_then_won. exact HW. Qed.

(* 5. NEW IDS ARE FRESH: the id either actor creates is above every band directory of the start
   state. *)
Theorem race_band_ids_fresh : forall pre c1 src1 c2 src2 a0 sigma x id rep b,
  In (x, (OpMkdir (DBand id), rep)) (tr2 (run2 pre (backup_prog pre c1 src1) (backup_prog pre c2 src2) a0 sigma)) ->
  has_dir a0 (DBand b) = true -> b < id.
Proof. intros pre c1 src1 c2 src2 a0 sigma. apply bb_band_ids_fresh. Qed.

(* ... more precisely it is the next free id of the start state, or the one after it when the
   other actor created that one first: the two ids are equal or differ by one. *)
Theorem race_band_ids_exact : forall pre c1 src1 c2 src2 a0 sigma x id rep,
  let tr := tr2 (run2 pre (backup_prog pre c1 src1) (backup_prog pre c2 src2) a0 sigma) in
  In (x, (OpMkdir (DBand id), rep)) tr ->
  id = next_id (dirs a0)
  \/ (id = next_id (dirs a0) + 1 /\ exists r, In (negb x, (OpMkdir (DBand (next_id (dirs a0))), r)) tr).
Proof. intros pre c1 src1 c2 src2 a0 sigma. cbv zeta. apply bb_band_ids_exact. Qed.

(* FALSE of the model and of the code:

     forall pre c1 src1 c2 src2 a0 sigma b,
       let tr := tr2 (run2 pre (backup_prog pre c1 src1) (backup_prog pre c2 src2) a0 sigma) in
       In (false, (OpMkdir (DBand b), ROk)) tr -> In (true, (OpMkdir (DBand b), ROk)) tr -> False

   ("create_dir of the new band directory is answered Ok to at most one racer").
   [Transport::create_dir] maps AlreadyExists to Ok; [exec] answers [ROk] for [OpMkdir] of an
   existing directory.  The collision is detected one step later, by the create-new BANDHEAD write
   ([race_same_id]). *)
Theorem race_mkdir_exclusive_refuted :
  exists pre c1 src1 c2 src2 a0 sigma b,
    let tr := tr2 (run2 pre (backup_prog pre c1 src1) (backup_prog pre c2 src2) a0 sigma) in
    WFparents pre a0 /\
    In (false, (OpMkdir (DBand b), ROk)) tr /\ In (true, (OpMkdir (DBand b), ROk)) tr.
Proof.
  exists SafeExamples.ex_pre, SafeExamples.ex_cfg, (SafeExamples.ex_src 6), SafeExamples.ex_cfg,
    (SafeExamples.ex_src 7), SafeExamples.ex_a2, (repeat false 4 ++ repeat true 40), 1.
  cbv zeta. split; [apply wfparents_b_sound; vm_compute; reflexivity|].
  split; [apply (nth_error_In _ 28) | apply (nth_error_In _ 8)]; vm_compute; reflexivity.
Qed.

(* ------------------------------------------------------------------------- *)
(** * 7. Examples (non-vacuity), by computation                               *)
(* ------------------------------------------------------------------------- *)
Module Race2Examples.
  Import SafeExamples.
  Definition bkA := backup_prog ex_pre ex_cfg (ex_src 6).
  Definition bkB := backup_prog ex_pre ex_cfg (ex_src 7).
  (* both list the root before either creates its band: both compute b0001; actor true wins *)
  Definition sig_same := repeat false 4 ++ repeat true 40.
  (* actor false creates b0001 before actor true lists the root: b0001 and b0002 *)
  Definition sig_diff := repeat false 5 ++ repeat true 40.
  (* they alternate, actor true first *)
  Definition sig_alt := [true; false; true; false; true; false; true; false; true; false; true; false;
                         true; false; true; false; true; false; true; false].

  Example ex_next_id : next_id (dirs ex_a2) = 1.
  Proof. vm_compute. reflexivity. Qed.

  Example ex_a2_wf : WFparents ex_pre ex_a2 /\ has_dir ex_a2 (DBand 0) = true.
  Proof. split; [apply wfparents_b_sound; vm_compute; reflexivity | vm_compute; reflexivity]. Qed.

  (* same id: both create_dir Ok; the loser's BANDHEAD write is refused, it returns the error
     result and put nothing anywhere; the winner completes b0001 *)
  Example ex_same :
    let x := run2 ex_pre bkA bkB ex_a2 sig_same in
    mkdir_bands false (tr2 x) = [(1, ROk)] /\ mkdir_bands true (tr2 x) = [(1, ROk)]
    /\ head_writes false (tr2 x) = [(1, RErr EAlreadyExists)] /\ head_writes true (tr2 x) = [(1, ROk)]
    /\ ok_puts false (tr2 x) = [] /\ ok_puts true (tr2 x) = [1; 1; 1; 1; 1]
    /\ map fst (ok_writes (tr2 x)) = [true; true; true; true; true]
    /\ out1 x = Done fail0
    /\ (exists r, out2 x = Done r /\ b_ok r = true /\ b_band r = Some 1)
    /\ get (st2 x) (PTail 1) = Some (Good (PlTail (Some 2)))
    /\ length (tr2 x) = 31%nat.
  Proof. vm_compute. repeat split; try reflexivity. eexists. repeat split; reflexivity. Qed.

  (* the same race with the turns alternating: actor true (first to move) wins again *)
  Example ex_alt :
    let x := run2 ex_pre bkA bkB ex_a2 sig_alt in
    mkdir_bands false (tr2 x) = [(1, ROk)] /\ mkdir_bands true (tr2 x) = [(1, ROk)]
    /\ head_writes false (tr2 x) = [(1, RErr EAlreadyExists)] /\ head_writes true (tr2 x) = [(1, ROk)]
    /\ ok_puts false (tr2 x) = [] /\ out1 x = Done fail0.
  Proof. vm_compute. repeat split; reflexivity. Qed.

  (* different ids: each completes its own band; no band gets files from both *)
  Example ex_diff :
    let x := run2 ex_pre bkA bkB ex_a2 sig_diff in
    mkdir_bands false (tr2 x) = [(1, ROk)] /\ mkdir_bands true (tr2 x) = [(2, ROk)]
    /\ head_writes false (tr2 x) = [(1, ROk)] /\ head_writes true (tr2 x) = [(2, ROk)]
    /\ ok_puts false (tr2 x) = [1; 1; 1; 1; 1] /\ ok_puts true (tr2 x) = [2; 2; 2; 2; 2]
    /\ (exists r, out1 x = Done r /\ b_ok r = true /\ b_band r = Some 1)
    /\ (exists r, out2 x = Done r /\ b_ok r = true /\ b_band r = Some 2)
    /\ length (tr2 x) = 49%nat.
  Proof. vm_compute. repeat split; try reflexivity; eexists; repeat split; reflexivity. Qed.

  (* a zero-length leftover of a killed write ([ex_c1]: d/.../[1;2] is empty) is completed by one
     actor; the other's write of the same path is refused *)
  Definition sig_left := repeat false 8 ++ repeat true 14 ++ repeat false 40.
  Example ex_leftover :
    let x := run2 ex_pre bkA bkB ex_c1 sig_left in
    get ex_c1 (PBlock [1;2]) = Some Empty
    /\ get (st2 x) (PBlock [1;2]) = Some (Good (PlBlock [1;2]))
    /\ In (false, (OpWrite (PBlock [1;2]) (PlBlock [1;2]) CreateNew, ROk)) (tr2 x)
    /\ In (true, (OpWrite (PBlock [1;2]) (PlBlock [1;2]) CreateNew, RErr EAlreadyExists)) (tr2 x).
  Proof.
    cbv zeta. split; [vm_compute; reflexivity|]. split; [vm_compute; reflexivity|].
    split; [apply (nth_error_In _ 29) | apply (nth_error_In _ 44)]; vm_compute; reflexivity.
  Qed.

  (* instances of the theorems *)
  Example ex_same_thm :
    let X := run2 ex_pre bkA bkB ex_a2 sig_same in
    exists w, In (w, (head_w 1, ROk)) (tr2 X) /\ In (negb w, (head_w 1, RErr EAlreadyExists)) (tr2 X)
              /\ out_of (negb w) X = Done fail0
              /\ (forall o r, In (negb w, (o, r)) (tr2 X) -> is_write o = true -> r <> ROk).
  Proof.
    cbv zeta.
    assert (H1 : In (false, (OpMkdir (DBand 1), ROk)) (tr2 (run2 ex_pre bkA bkB ex_a2 sig_same)))
      by (apply (nth_error_In _ 28); vm_compute; reflexivity).
    assert (H2 : In (true, (OpMkdir (DBand 1), ROk)) (tr2 (run2 ex_pre bkA bkB ex_a2 sig_same)))
      by (apply (nth_error_In _ 8); vm_compute; reflexivity).
    destruct (race_same_id ex_pre ex_cfg (ex_src 6) ex_cfg (ex_src 7) ex_a2 sig_same 1 ROk ROk H1 H2)
      as [_ [_ [_ H]]].
    exact (H (proj1 ex_a2_wf)).
  Qed.

  Example ex_kept_thm :
    Forall (Old ex_a2) (trace_states ex_pre ex_a2 (tr2 (run2 ex_pre bkA bkB ex_a2 sig_diff)))
    /\ length (trace_states ex_pre ex_a2 (tr2 (run2 ex_pre bkA bkB ex_a2 sig_diff))) = 49%nat.
  Proof.
    split; [|vm_compute; reflexivity].
    exact (proj1 (race_existing_files_kept ex_pre ex_cfg (ex_src 6) ex_cfg (ex_src 7) ex_a2 sig_diff)).
  Qed.

  Example ex_fresh_thm : forall x id rep,
    In (x, (OpMkdir (DBand id), rep)) (tr2 (run2 ex_pre bkA bkB ex_a2 sig_diff)) -> 0 < id.
  Proof.
    intros x id rep H.
    exact (race_band_ids_fresh ex_pre ex_cfg (ex_src 6) ex_cfg (ex_src 7) ex_a2 sig_diff x id rep 0 H (proj2 ex_a2_wf)).
  Qed.

  (* THE ATOMICITY OF A WRITE IS LOAD-BEARING.  [run2] interleaves whole transport operations.  The
     local transport's create-new write is two system calls (open with O_EXCL, then write_all), and
     since "a zero-length leftover may be completed" a create-new write on a zero-length file is
     accepted.  In the state [exec_empty] describes — the winner's BANDHEAD created, its content not
     yet written — the other racer's BANDHEAD write is answered Ok: below the granularity of [run2]
     the exclusion above does not hold. *)
  Example ex_inflight_head_not_exclusive :
    let a := snd (fst (run ex_pre (Do (OpMkdir (DBand 1)) (fun _ => Do (OpMkdir (DIndex 1)) (fun _ => Ret tt))) ex_a2 [])) in
    let a_mid := exec_empty ex_pre a (head_w 1) in
    get a_mid (PHead 1) = Some Empty /\ snd (exec ex_pre a_mid (head_w 1) NoFault) = ROk.
  Proof. vm_compute. split; reflexivity. Qed.
End Race2Examples.

Print Assumptions race_existing_files_kept.
Print Assumptions race_no_path_written_twice.
Print Assumptions race_bands_not_shared.
Print Assumptions race_puts_only_after_own_head.
Print Assumptions race_loser_fails.
Print Assumptions race_same_id.
Print Assumptions race_head_attempted_then_won.
Print Assumptions race_band_ids_fresh.
Print Assumptions race_band_ids_exact.
Print Assumptions race_mkdir_exclusive_refuted.
Print Assumptions backup_class2.
Print Assumptions run2_outcome.
Print Assumptions adders_keep_files.
Print Assumptions adders_no_path_written_twice.
