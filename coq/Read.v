(* Reading operations as programs over storage: band selection, listing, restore (its
   archive side), validate.  Model file: definitions only. *)
From CV Require Import Base.Str Apath Entry Store Stitch StitchProg Backup Delete Codec Tree.
Local Open Scope N_scope.

Inductive policy := LatestClosed | Latest | Specified (b : N).

Section Read.
  Variable pre : bytes -> N.
  Notation prog := (Store.prog).

  (* Archive::resolve_band_id; None = an error is returned *)
  Section Resolve.
    Context {R : Type}.
    Fixpoint last_complete (ids : list N) (k : option N -> prog R) : prog R :=   (* ids descending *)
      match ids with
      | [] => k None                                         (* NoCompleteBands *)
      | b :: ids' =>
          Do (OpRead (PHead b)) (fun r =>
            match head_status r with
            | HPanic => Panic
            | HErr => last_complete ids' k                   (* a band that cannot be opened is skipped (warn! + continue) *)
            | HOk =>
                Do (OpMeta (PTail b)) (fun r2 =>
                  match r2 with
                  | RMeta true => k (Some b)
                  | RMeta false | RErr ENotFound => last_complete ids' k
                  | _ => k None
                  end)
            end)
      end.

    Definition resolve (p : policy) (k : option N -> prog R) : prog R :=
      match p with
      | Specified b => k (Some b)
      | Latest =>
          Do (OpList DRoot) (fun r => match r with RList ds _ => k (max_id (band_ids ds)) | _ => k None end)
      | LatestClosed =>
          Do (OpList DRoot) (fun r =>
            match r with
            | RList ds _ => last_complete (rev (sorted_N (band_ids ds))) k
            | _ => k None
            end)
      end.

    (* StoredTree::open = Band::open *)
    Definition open_tree (p : policy) (k : option N -> prog R) : prog R :=
      resolve p (fun o =>
        match o with
        | None => k None
        | Some b =>
            Do (OpRead (PHead b)) (fun r =>
              match head_status r with HPanic => Panic | HErr => k None | HOk => k (Some b) end)
        end).
  End Resolve.

  Record lres := { l_ok : bool; l_entries : list entry; l_merr : N }.

  (* archive.iter_entries(policy, subtree, exclude) collected *)
  Definition list_prog (p : policy) (keep : entry -> bool) : prog lres :=
    Do (OpRead PHeader) (fun r0 =>
      match r0 with
      | RData (Good PlJson) =>
          open_tree p (fun o =>
            match o with
            | None => Ret {| l_ok := false; l_entries := []; l_merr := 0 |}
            | Some b =>
                bind (snext keep (fun _ => true) (SBefore (N.to_nat b)) None 0) (fun r =>
                  let '(es, _, _, _, merr) := r in Ret {| l_ok := true; l_entries := es; l_merr := merr |})
            end)
      | _ => Ret {| l_ok := false; l_entries := []; l_merr := 0 |}
      end).

  (* ---- restore: what is read from the archive and what each file's content is ---- *)
  Inductive rfile := RFile (e : entry) (content : option bytes).   (* None: a block could not be read *)
  Record rres := { r_ok : bool; r_files : list rfile; r_merr : N }.
  Definition rfail : rres := {| r_ok := false; r_files := []; r_merr := 0 |}.

  (* BlockDir::read_address through the block cache *)
  Fixpoint read_file (cache : list (bytes * bytes)) (addrs : list addr) (acc : bytes)
           (k : list (bytes * bytes) -> option bytes -> prog rres) : prog rres :=
    match addrs with
    | [] => k cache (Some acc)
    | a :: addrs' =>
        let use (cache' : list (bytes * bytes)) (content : bytes) :=
          match slice content (a_start a) (a_len a) with
          | Some s => read_file cache' addrs' (acc ++ s) k
          | None => k cache' None                              (* BlockTooShort *)
          end in
        match find (fun p => str_eqb (fst p) (a_hash a)) cache with
        | Some (_, content) => use cache content
        | None =>
            Do (OpRead (PBlock (a_hash a))) (fun r =>
              match r with
              | RData (Good (PlBlock c)) =>
                  if str_eqb c (a_hash a) then use ((a_hash a, c) :: cache) c
                  else k cache None                            (* BlockCorrupt *)
              | _ => k cache None
              end)
        end
    end.

  Fixpoint restore_entries (es : list entry) (cache : list (bytes * bytes)) (acc : list rfile) (merr : N)
    : prog rres :=
    match es with
    | [] => Ret {| r_ok := true; r_files := acc; r_merr := merr |}
    | e :: es' =>
        match e_kind e with
        | KFile =>
            read_file cache (e_addrs e) [] (fun cache' o =>
              restore_entries es' cache' (acc ++ [RFile e o])
                (match o with Some _ => merr | None => merr + 1 end))
        | KUnknown => restore_entries es' cache (acc ++ [RFile e None]) (merr + 1)
        | _ => restore_entries es' cache (acc ++ [RFile e (Some [])]) merr
        end
    end.

  Fixpoint list_blocks_r (subs : list N) (ok : bool) (k : bool -> prog rres) : prog rres :=
    match subs with
    | [] => k ok
    | s :: subs' =>
        Do (OpList (DBlockSub s)) (fun r => match r with RList _ _ => list_blocks_r subs' ok k | _ => list_blocks_r subs' false k end)
    end.

  (* The stitched listing is read lazily in the Rust code, interleaved with block reads;
     the hunks are only read, so the interleaving does not change any reply: the model reads
     the listing first.  (The trace comparison for restore is on the multiset of reads.) *)
  Definition restore_prog (p : policy) (keep : entry -> bool) : prog rres :=
    Do (OpRead PHeader) (fun r0 =>
      match r0 with
      | RData (Good PlJson) =>
          open_tree p (fun o =>
            match o with
            | None => Ret rfail
            | Some b =>
                Do (OpList DBlocks) (fun r1 =>
                  match r1 with
                  | RList ds _ =>
                      list_blocks_r (block_subdirs ds) true (fun ok =>
                        if ok then
                          bind (snext keep (fun _ => true) (SBefore (N.to_nat b)) None 0) (fun r =>
                            let '(es, _, _, _, merr) := r in restore_entries es [] [] merr)
                        else Ret rfail)
                  | _ => Ret rfail
                  end)
            end)
      | _ => Ret rfail
      end).

  (* ---- validate ---- *)
  Record vres := { v_ok : bool; v_errors : N }.

  Definition upd_max (h : bytes) (len : N) (m : list (bytes * N)) : list (bytes * N) :=
    if existsb (fun p => str_eqb (fst p) h) m
    then map (fun p => if str_eqb (fst p) h then (h, N.max (snd p) len) else p) m
    else m ++ [(h, len)].

  Definition entry_lens (es : list entry) (m : list (bytes * N)) : list (bytes * N) :=
    fold_left (fun m e =>
      match e_kind e with
      | KFile => fold_left (fun m a => upd_max (a_hash a) (a_start a + a_len a) m) (e_addrs e) m
      | _ => m
      end) es m.

  (* validate_bands *)
  Fixpoint validate_bands (ids : list N) (lens : list (bytes * N)) (errs : N)
           (k : list (bytes * N) -> N -> prog vres) : prog vres :=
    match ids with
    | [] => k lens errs
    | b :: ids' =>
        Do (OpRead (PHead b)) (fun r =>
          match head_status r with
          | HPanic => Panic
          | HErr => validate_bands ids' lens (errs + 1) k
          | HOk =>
              (* Band::validate *)
              Do (OpList (DBand b)) (fun r2 =>
                match r2 with
                | RList _ fs =>
                    let errs1 := if existsb (fun p => fpath_eqb (fst p) (PHead b)) fs then errs else errs + 1 in
                    (* open_stored_tree(Specified(b)) *)
                    Do (OpRead (PHead b)) (fun r3 =>
                      match head_status r3 with
                      | HPanic => Panic
                      | HErr => validate_bands ids' lens (errs1 + 1) k
                      | HOk =>
                          bind (snext keep_all (fun _ => true) (SBefore (N.to_nat b)) None 0) (fun r4 =>
                            let '(es, _, _, _, merr) := r4 in
                            validate_bands ids' (entry_lens es lens) (errs1 + merr) k)
                      end)
                | _ => validate_bands ids' lens (errs + 1) k
                end)
          end)
    end.

  Fixpoint list_blocks_v (subs : list N) (acc : list bytes) (failed : bool) (k : option (list bytes) -> prog vres) : prog vres :=
    match subs with
    | [] => k (if failed then None else Some acc)
    | s :: subs' =>
        Do (OpList (DBlockSub s)) (fun r =>
          match r with
          | RList _ fs =>
              list_blocks_v subs' (acc ++ flat_map (fun p => match p with (PBlock c, true) => [c] | _ => [] end) fs) failed k
          | _ => list_blocks_v subs' acc true k
          end)
    end.

  (* BlockDir::validate: read every present block (concurrently; order supplied) *)
  Fixpoint read_all (l : list bytes) (acc : list (bytes * N)) (errs : N)
           (k : list (bytes * N) -> N -> prog vres) : prog vres :=
    match l with
    | [] => k acc errs
    | c :: l' =>
        Do (OpRead (PBlock c)) (fun r =>
          match r with
          | RData (Good (PlBlock d)) =>
              if str_eqb d c then read_all l' (acc ++ [(c, N.of_nat (length d))]) errs k
              else read_all l' acc (errs + 1) k                 (* BlockCorrupt *)
          | _ => read_all l' acc (errs + 1) k
          end)
    end.

  Definition validate_prog (skip_hashes : bool) (hint : list bytes) : prog vres :=
    Do (OpRead PHeader) (fun r0 =>
      match r0 with
      | RData (Good PlJson) =>
          Do (OpList DRoot) (fun r1 =>                            (* validate_archive_dir *)
            match r1 with
            | RList _ _ =>
                Do (OpList DRoot) (fun r2 =>                      (* list_band_ids *)
                  match r2 with
                  | RList ds _ =>
                      validate_bands (sorted_N (band_ids ds)) [] 0 (fun lens errs =>
                        Do (OpList DBlocks) (fun r3 =>
                          match r3 with
                          | RList ds3 _ =>
                              list_blocks_v (block_subdirs ds3) [] false (fun o =>
                                match o with
                                | None => Ret {| v_ok := false; v_errors := errs |}
                                | Some present0 =>
                                    let present := dedup present0 in
                                    if skip_hashes then
                                      Ret {| v_ok := true;
                                             v_errors := errs + N.of_nat (length (filter (fun p => negb (mem_bytes (fst p) present)) lens)) |}
                                    else
                                      read_all (order_by hint present) [] errs (fun blens errs' =>
                                        Ret {| v_ok := true;
                                               v_errors := errs' + N.of_nat (length (filter (fun p =>
                                                 match find (fun q => str_eqb (fst q) (fst p)) blens with
                                                 | Some (_, actual) => actual <? snd p        (* BlockTooShort *)
                                                 | None => true                               (* BlockMissing *)
                                                 end) lens)) |})
                                end)
                          | _ => Ret {| v_ok := false; v_errors := errs |}
                          end))
                  | _ => Ret {| v_ok := false; v_errors := 0 |}
                  end)
            | _ => Ret {| v_ok := false; v_errors := 0 |}
            end)
      | _ => Ret {| v_ok := false; v_errors := 0 |}
      end).
End Read.
