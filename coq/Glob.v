(* Model of conserve's exclusion globs: src/excludes.rs on top of globset-0.4.18
   (src/glob.rs: `Parser`, `Token`, `Tokens::to_regex_with`), restricted to the
   glob grammar without alternates `{..}` and backslash escapes.
   Model file: executable definitions only.

   What conserve does (excludes.rs, `add_pattern`): for a user pattern P, if P does
   not start with '/', P := "**/" + P; then the two globs `P` and `P + "/**"` are
   compiled with `literal_separator(true)` and put in a `GlobSet`.  An apath is
   excluded iff some glob's regex matches the whole apath (bytes, `(?-u)^...$`,
   `dot_matches_new_line(true)`).  The GlobSet's literal/basename/extension/
   prefix/suffix strategies agree with the regex on every valid apath (they only
   differ on paths whose last component is ".."), so the regex is the semantics. *)
From CV Require Import Base.Str Apath.

(* ------------------------------------------------------------------ *)
(** * globset tokens and their regex semantics *)

Inductive token : Type :=
| Literal (b : N)                 (* one byte of a `Token::Literal(char)` (a non-ASCII
                                     char is its UTF-8 bytes, each escaped)        *)
| Any                             (* `?`   -> `[^/]`   (one BYTE, not one char)   *)
| ZeroOrMore                      (* `*`   -> `[^/]*`                              *)
| RecursivePrefix                 (* leading `**/` -> `(?:/?|.*/)`                 *)
| RecursiveSuffix                 (* trailing `/**` -> `/.*`                       *)
| RecursiveZeroOrMore             (* inner `/**/` -> `(?:/|/.*/)`                  *)
| Class (negated : bool) (ranges : list (N * N)).
                                  (* `[a-z]`, `[!a-z]` -> `[a-z]`, `[^a-z]`: a negated
                                     class DOES match '/' (globset does not add '/'
                                     to it under literal_separator)               *)

Definition in_range (c : N) (r : N * N) : bool := (fst r <=? c) && (c <=? snd r).

Definition class_match (negated : bool) (ranges : list (N * N)) (c : N) : bool :=
  xorb negated (existsb (in_range c) ranges).

(* `[^/]*` then k *)
Fixpoint star_noslash (k : str -> bool) (s : str) : bool :=
  k s || match s with
         | c :: s' => negb (N.eqb c SLASH) && star_noslash k s'
         | [] => false
         end.

(* `.*` then k *)
Fixpoint any_then (k : str -> bool) (s : str) : bool :=
  k s || match s with
         | _ :: s' => any_then k s'
         | [] => false
         end.

(* `.*/` then k *)
Fixpoint upto_slash_then (k : str -> bool) (s : str) : bool :=
  match s with
  | c :: s' => (N.eqb c SLASH && k s') || upto_slash_then k s'
  | [] => false
  end.

(* `Tokens::tokens_to_regex`, matched against the whole string. *)
Fixpoint seq_match (ts : list token) (s : str) {struct ts} : bool :=
  match ts with
  | [] => match s with [] => true | _ :: _ => false end
  | t :: ts' =>
      match t with
      | Literal b =>
          match s with c :: s' => N.eqb c b && seq_match ts' s' | [] => false end
      | Any =>
          match s with c :: s' => negb (N.eqb c SLASH) && seq_match ts' s' | [] => false end
      | Class neg rs =>
          match s with c :: s' => class_match neg rs c && seq_match ts' s' | [] => false end
      | ZeroOrMore => star_noslash (seq_match ts') s
      | RecursivePrefix =>                       (* (?:/?|.*/) = "" or anything ending in '/' *)
          seq_match ts' s || upto_slash_then (seq_match ts') s
      | RecursiveSuffix =>                       (* /.* *)
          match s with c :: s' => N.eqb c SLASH && any_then (seq_match ts') s' | [] => false end
      | RecursiveZeroOrMore =>                   (* (?:/|/.*/) *)
          match s with
          | c :: s' => N.eqb c SLASH && (seq_match ts' s' || upto_slash_then (seq_match ts') s')
          | [] => false
          end
      end
  end.

(* `Tokens::to_regex_with`: the glob that is exactly `**` is special-cased to `^.*$`. *)
Definition tok_match (ts : list token) (s : str) : bool :=
  match ts with
  | [RecursivePrefix] => true
  | _ => seq_match ts s
  end.

(* ------------------------------------------------------------------ *)
(** * Pattern syntax *)

Definition STAR : N := 42.      Definition QMARK : N := 63.
Definition LBRACK : N := 91.    Definition RBRACK : N := 93.
Definition LBRACE : N := 123.   Definition RBRACE : N := 125.
Definition COMMA : N := 44.     Definition BACKSLASH : N := 92.
Definition BANG : N := 33.      Definition DASH : N := 45.
Definition CARET : N := 94.

Inductive atom : Type :=
| Lit (b : N)
| AnyChar                                   (* ? *)
| Star                                      (* * *)
| Cls (negated : bool) (ranges : list (N * N)).

Inductive seg : Type :=
| Globstar                                  (* a whole path component `**` *)
| Atoms (l : list atom).

Record pattern : Type := mkPat { anchored : bool; segs : list seg }.

Definition show_range (r : N * N) : str :=
  if N.eqb (fst r) (snd r) then [fst r] else [fst r; DASH; snd r].

Definition show_atom (a : atom) : str :=
  match a with
  | Lit b => [b]
  | AnyChar => [QMARK]
  | Star => [STAR]
  | Cls neg rs => LBRACK :: (if neg then [BANG] else []) ++ concat (map show_range rs) ++ [RBRACK]
  end.

Definition show_seg (sg : seg) : str :=
  match sg with
  | Globstar => [STAR; STAR]
  | Atoms l => concat (map show_atom l)
  end.

(* The glob text: optional leading '/', then the segments joined by '/'. *)
Definition show_segs (lead : bool) (ss : list seg) : str :=
  (if lead then [SLASH] else []) ++ join SLASH (map show_seg ss).

Definition show (p : pattern) : str := show_segs (anchored p) (segs p).

(* Well-formed patterns: the ones the printer renders unambiguously. *)
Definition lit_ok (b : N) : bool :=
  negb (N.eqb b 0) && (b <? 256)
  && negb (N.eqb b STAR) && negb (N.eqb b QMARK) && negb (N.eqb b LBRACK) && negb (N.eqb b RBRACK)
  && negb (N.eqb b LBRACE) && negb (N.eqb b RBRACE) && negb (N.eqb b COMMA)
  && negb (N.eqb b BACKSLASH) && negb (N.eqb b BANG) && negb (N.eqb b SLASH).

(* class members: ASCII, and additionally not '-' or '^' *)
Definition cls_ok (b : N) : bool :=
  lit_ok b && (b <? 128) && negb (N.eqb b DASH) && negb (N.eqb b CARET).

Definition range_ok (r : N * N) : bool := cls_ok (fst r) && cls_ok (snd r) && (fst r <=? snd r).

Definition atom_ok (a : atom) : bool :=
  match a with
  | Lit b => lit_ok b
  | AnyChar | Star => true
  | Cls _ rs => match rs with [] => false | _ => forallb range_ok rs end
  end.

Definition is_two_stars (l : list atom) : bool :=
  match l with [Star; Star] => true | _ => false end.

Definition seg_ok (sg : seg) : bool :=
  match sg with
  | Globstar => true
  | Atoms l => match l with [] => false | _ => forallb atom_ok l && negb (is_two_stars l) end
  end.

(* No empty components, no component that is the two atoms [Star; Star] (it would print
   like [Globstar]), literal bytes are not glob metacharacters / NUL / '/'.  Literal bytes
   >= 128 are allowed: the printed pattern must then be valid UTF-8 to be a Rust &str. *)
Definition pat_ok (p : pattern) : bool := forallb seg_ok (segs p).
Definition pats_ok (ps : list pattern) : Prop := forallb pat_ok ps = true.

(* ------------------------------------------------------------------ *)
(** * What globset's parser produces *)

Definition atom_tok (a : atom) : token :=
  match a with
  | Lit b => Literal b
  | AnyChar => Any
  | Star => ZeroOrMore       (* also for `**`, `***`.. inside a component: `parse_star`
                                pushes two ZeroOrMore unless the `**` is a whole component *)
  | Cls neg rs => Class neg rs
  end.

Definition is_globstar (sg : seg) : bool :=
  match sg with Globstar => true | Atoms _ => false end.

(* Tokens for "/seg/seg/.." where every segment is preceded by a '/'.
   [consumed = true] means the '/' before the head segment was already swallowed
   by the `**` in front of it (`parse_star` bumps the separator after `**`).
   A whole-component `**`:  pops the token before it (the Literal '/', or the
   RecursivePrefix / RecursiveZeroOrMore left by a `**` just before) and pushes
   RecursivePrefix (if that was popped), else RecursiveSuffix at the end of the glob,
   else RecursiveZeroOrMore.  So a run of `**` components collapses into one token,
   and a run at the end of the glob collapses into one RecursiveSuffix. *)
Fixpoint body (consumed : bool) (ss : list seg) : list token :=
  match ss with
  | [] => []
  | Atoms l :: ss' =>
      (if consumed then [] else [Literal SLASH]) ++ map atom_tok l ++ body false ss'
  | Globstar :: ss' =>
      if consumed then body true ss'
      else if forallb is_globstar ss' then [RecursiveSuffix]
      else RecursiveZeroOrMore :: body true ss'
  end.

(* Tokens of the glob text [show_segs lead ss].  GlobP.parse_show_segs proves
   [parse (show_segs lead ss) = POk (segs_toks lead ss)] for the transcribed parser
   [parse] below (segments well-formed, empty components allowed). *)
Definition segs_toks (lead : bool) (ss : list seg) : list token :=
  if lead then
    match ss with
    | [] => [Literal SLASH]
    | _ => body false ss
    end
  else
    match ss with
    | [] => []
    | Globstar :: ss' =>
        if forallb is_globstar ss' then [RecursivePrefix] else RecursivePrefix :: body true ss'
    | Atoms l :: ss' => map atom_tok l ++ body false ss'
    end.

Definition tokens_of (p : pattern) : list token := segs_toks (anchored p) (segs p).

(* ------------------------------------------------------------------ *)
(** * conserve: `add_pattern` *)

(* The segments of the glob text P that conserve hands to globset: P = show p if it
   starts with '/', else "**/" ++ show p.  (An empty segment list prints as the empty
   string, so "**/" ++ "" is the two segments `**` and "".) *)
Definition conserve_segs (p : pattern) : list seg :=
  if anchored p then
    match segs p with [] => [Atoms []] | ss => ss end
  else
    Globstar :: match segs p with [] => [Atoms []] | ss => ss end.

Definition glob_own (p : pattern) : list token :=                (* tokens of P *)
  segs_toks (anchored p) (conserve_segs p).
Definition glob_sfx (p : pattern) : list token :=                (* tokens of P ++ "/**" *)
  segs_toks (anchored p) (conserve_segs p ++ [Globstar]).

Definition conserve_globs (p : pattern) : list (list token) := [glob_own p; glob_sfx p].

(* `Exclude::from_strings(map show ps).matches(path)` *)
Definition excl (ps : list pattern) (path : str) : bool :=
  existsb (fun p => existsb (fun g => tok_match g path) (conserve_globs p)) ps.

(* ------------------------------------------------------------------ *)
(** * The parser itself, on glob text (globset `Parser::parse`, `parse_star`, `parse_class`)

   A byte-at-a-time transcription for the grammar without alternates and escapes:
   '{', '}' and '\' give [PUnsupported] (the model makes no claim), as do non-ASCII
   bytes inside a character class (globset works on chars there).  Outside classes a
   non-ASCII char is the sequence of its UTF-8 bytes, each a Literal, which is exactly
   what `char_to_escaped_literal` turns it into.  [prev] is the parser's `self.prev` at
   the moment the current char has been bumped, i.e. the char consumed before it. *)

Inductive perr : Type := UnclosedClass | InvalidRange (lo hi : N).

Inductive presult : Type :=
| POk (ts : list token)
| PErr (e : perr)
| PUnsupported
| PPanic.                      (* an `assert!`/`unwrap` of the parser would fail: unreachable *)

Inductive pmode : Type :=
| MNormal
| MClass (negated first in_range : bool) (ranges : list (N * N)).   (* ranges: last pushed first *)

Definition is_sep (c : N) : bool := N.eqb c SLASH.
Definition opt_is_sep (o : option N) : bool :=
  match o with Some c => is_sep c | None => false end.

(* end of `parse_star`: the popped token decides what is pushed back *)
Definition star_top (is_suffix : bool) (top : token) : token :=
  match top with
  | RecursivePrefix => RecursivePrefix
  | RecursiveSuffix => RecursiveSuffix
  | _ => if is_suffix then RecursiveSuffix else RecursiveZeroOrMore
  end.

Fixpoint go (m : pmode) (prev : option N) (acc : list token) (s : str) {struct s} : presult :=
  match m with
  | MNormal =>
      match s with
      | [] => POk (rev acc)
      | c :: s1 =>
          if N.eqb c QMARK then go MNormal (Some c) (Any :: acc) s1
          else if N.eqb c STAR then
            match s1 with
            | [] => go MNormal (Some c) (ZeroOrMore :: acc) s1
            | c2 :: s2 =>
                if negb (N.eqb c2 STAR) then go MNormal (Some c) (ZeroOrMore :: acc) s1
                else (* the second '*' is bumped *)
                  match acc with
                  | [] =>                                           (* !have_tokens *)
                      match s2 with
                      | [] => POk [RecursivePrefix]
                      | c3 :: s3 =>
                          if is_sep c3 then go MNormal (Some c3) [RecursivePrefix] s3
                          else go MNormal (Some STAR) [ZeroOrMore; ZeroOrMore] s2
                      end
                  | top :: rest =>
                      if negb (opt_is_sep prev)
                      then go MNormal (Some STAR) (ZeroOrMore :: ZeroOrMore :: acc) s2
                      else
                        match s2 with
                        | [] => POk (rev (star_top true top :: rest))
                        | c3 :: s3 =>
                            if is_sep c3 then go MNormal (Some c3) (star_top false top :: rest) s3
                            else go MNormal (Some STAR) (ZeroOrMore :: ZeroOrMore :: acc) s2
                        end
                  end
            end
          else if N.eqb c LBRACK then
            match s1 with
            | [] => go (MClass false true false []) (Some c) acc s1
            | c2 :: s2 =>
                if N.eqb c2 BANG || N.eqb c2 CARET
                then go (MClass true true false []) (Some c2) acc s2
                else go (MClass false true false []) (Some c) acc s1
            end
          else if N.eqb c LBRACE || N.eqb c RBRACE || N.eqb c BACKSLASH then PUnsupported
          else go MNormal (Some c) (Literal c :: acc) s1
      end
  | MClass neg first in_range ranges =>
      match s with
      | [] => PErr UnclosedClass
      | c :: s1 =>
          if 128 <=? c then PUnsupported
          else if N.eqb c RBRACK && negb first then
            go MNormal (Some c)
               (Class neg (rev (if in_range then (DASH, DASH) :: ranges else ranges)) :: acc) s1
          else if first && (N.eqb c RBRACK || N.eqb c DASH) then
            go (MClass neg false in_range ((c, c) :: ranges)) (Some c) acc s1
          else if N.eqb c DASH && negb in_range then
            match ranges with
            | [] => PPanic                                  (* assert!(!ranges.is_empty()) *)
            | _ => go (MClass neg false true ranges) (Some c) acc s1
            end
          else if in_range then
            match ranges with
            | [] => PPanic                                  (* ranges.last_mut().unwrap() *)
            | (lo, _) :: rs =>
                if c <? lo then PErr (InvalidRange lo c)
                else go (MClass neg false false ((lo, c) :: rs)) (Some c) acc s1
            end
          else go (MClass neg false false ((c, c) :: ranges)) (Some c) acc s1
      end
  end.

Definition parse (glob : str) : presult := go MNormal None [] glob.

(* `add_pattern`: the two glob texts for a user pattern *)
Definition conserve_glob_strs (pat : str) : list str :=
  let P := if starts_with pat [SLASH] then pat else [STAR; STAR; SLASH] ++ pat in
  [P; P ++ [SLASH; STAR; STAR]].

Inductive cresult : Type :=
| COk (globs : list (list token))
| CError                       (* `Error::ParseGlob` *)
| CUnsupported
| CPanic.

(* globs are built in order; the first failure wins *)
Fixpoint parse_globs (gs : list str) : cresult :=
  match gs with
  | [] => COk []
  | g :: gs' =>
      match parse g with
      | POk ts => match parse_globs gs' with COk l => COk (ts :: l) | r => r end
      | PErr _ => CError
      | PUnsupported => CUnsupported
      | PPanic => CPanic
      end
  end.

Inductive xresult : Type := XBool (b : bool) | XError | XUnsupported | XPanic.

(* `Exclude::from_strings(pats)` then `.matches(path)`, on raw pattern text.
   GlobP.excl_str_show: [excl_str (map show ps) path = XBool (excl ps path)] when [pats_ok ps]. *)
Definition excl_str (pats : list str) (path : str) : xresult :=
  match parse_globs (flat_map conserve_glob_strs pats) with
  | COk gs => XBool (existsb (fun g => tok_match g path) gs)
  | CError => XError
  | CUnsupported => XUnsupported
  | CPanic => XPanic
  end.
