"""Generators: names, trees, options, mutations.  Every random choice comes from the
rng passed in (derived from VERIF_SEED), so a case replays exactly."""
import copy

NAMES = ["a", "b", "ab", "a.b", "a-b", "a b", ".a", "..a", "~", "ñ", "añ", "ñx", "日", "a\nb", "B", "a,b", "a?", "[ab]", "b*", "{a,b}"]
INVALID = ["", ".", "..", "a\0b"]

SIZES = [0, 0, 1, 2, 3, 4, 5, 7, 8, 9, 12, 16, 17, 31, 40]
MODES_SPECIAL = [0o4755, 0o2755, 0o1777, 0o6711, 0o4000, 0o2000, 0o1000, 0o7777, 0o0, 0o644, 0o600, 0o755, 0o444, 0o2745]
OWNERS = [(0, 0), (1, 1), (65534, 65534), (0, 1), (2, 3)]
UID_NAME = {0: "root", 1: "daemon", 2: "bin", 3: "sys", 65534: "nobody"}
GID_NAME = {0: "root", 1: "daemon", 2: "bin", 3: "sys", 65534: "nogroup"}


def rand_mtime(rng, allow_negative_fraction=True):
    cls = rng.choice(["neg", "zero", "pos", "pos", "pos"])
    frac = rng.choice([0, 0, 1, 999999999, rng.randrange(1, 999999999)])
    if cls == "zero":
        sec = 0
    elif cls == "neg":
        sec = -rng.randrange(1, 2_000_000_000)
    else:
        sec = rng.randrange(1, 4_000_000_000)
    ns = sec * 1_000_000_000 + frac
    if cls == "neg" and frac and not allow_negative_fraction:
        ns = sec * 1_000_000_000
    return ns


def rand_bytes(rng, n, pool=None):
    if pool is not None and pool and rng.random() < 0.3:
        b = rng.choice(pool)
        if len(b) == n:
            return b
    # small alphabet so that duplicate contents and shared blocks happen
    return bytes(rng.choice(b"abcxyz01") for _ in range(n))


def rand_mode(rng):
    if rng.random() < 0.5:
        return rng.choice(MODES_SPECIAL)
    return rng.randrange(0, 0o10000)


def rand_name(rng, used):
    for _ in range(20):
        if rng.random() < 0.85:
            n = rng.choice(NAMES)
        else:
            n = "".join(rng.choice("abzAZ09-_. ñé日") for _ in range(rng.randrange(1, 5)))
        if n not in used and n not in ("", ".", "..") and "/" not in n and "\0" not in n and n != "CACHEDIR.TAG":
            return n
    k = 0
    while f"n{k}" in used:
        k += 1
    return f"n{k}"


def rand_tree(rng, depth=3, fanout=4, symlinks=True, owners=True, pool=None, neg_frac=True, sizes=None):
    """A random directory node (the source root)."""
    if pool is None:
        pool = []
    sizes = sizes or SIZES

    def meta(node, is_link=False):
        node["mtime"] = rand_mtime(rng, neg_frac)
        if not is_link:
            node["mode"] = rand_mode(rng)
        if owners:
            u, g = rng.choice(OWNERS)
            node["uid"], node["gid"] = u, g
        return node

    def mkdir(d):
        node = {"k": "d", "c": {}}
        n = rng.randrange(0, fanout + 1) if d > 0 else 0
        if d == depth and n == 0:
            n = rng.randrange(1, fanout + 1)
        for _ in range(n):
            name = rand_name(rng, node["c"])
            r = rng.random()
            if r < 0.3 and d > 0:
                node["c"][name] = mkdir(d - 1)
            elif r < 0.42 and symlinks:
                tgt = rng.choice(["a", "../a", "/nonexistent/x", ".", "..", "b/c", "ñ",
                                  "notes\\2024.txt", "dir\\", "a//b", "./a", "a/", " a ", "-r", "a\nb", "~", "%41", "日/本"])
                node["c"][name] = meta({"k": "l", "target": tgt}, True)
                if rng.random() < 0.5:
                    # a later sibling whose name merely EXTENDS the link's name (lib -> ..., lib64/): it is not beneath the link
                    sib = name + rng.choice(["64", ".d", "-x", "ñ", " 2"])
                    if sib not in node["c"]:
                        if rng.random() < 0.5:
                            node["c"][sib] = meta({"k": "f", "data": rand_bytes(rng, 3, pool).hex()})
                        else:
                            node["c"][sib] = meta({"k": "d", "c": {"in": meta({"k": "f", "data": rand_bytes(rng, 2, pool).hex()})}})
            else:
                data = rand_bytes(rng, rng.choice(sizes), pool)
                pool.append(data)
                node["c"][name] = meta({"k": "f", "data": data.hex()})
        meta(node)
        # directories must stay traversable for the generator's own cleanup; root ignores modes anyway
        return node

    return mkdir(depth)


def rand_opts(rng):
    return {
        "meph": rng.choice([1, 2, 3, 5, 100000]),
        "mbs": rng.choice([1, 3, 4, 8, 64, 20 << 20]),
        "sfc": rng.choice([0, 1, 4, 16, 1 << 20]),
    }


def tree_paths(node, prefix=""):
    """[(apath, node)] for every node, root first (unordered)."""
    out = [(prefix or "/", node)]
    if node["k"] == "d":
        for name, child in node.get("c", {}).items():
            out.extend(tree_paths(child, prefix + "/" + name))
    return out


def apath_key(p):
    """The documented order, coded independently: directory part component-wise
    (bytes), then the final name."""
    parts = p.encode("utf8").split(b"/")
    return (parts[:-1], parts[-1])


def apath_cmp(a, b):
    ka, kb = apath_key(a), apath_key(b)
    return 0 if ka < kb else (1 if ka == kb else 2)


def is_valid_apath(s):
    if not s.startswith("/"):
        return False
    if len(s.encode("utf8")) == 1:
        return True
    for part in s[1:].split("/"):
        if part == "" or part == "." or part == ".." or "\0" in part:
            return False
    return True


def comp_prefix(a, b):
    """a is b or an ancestor of b by whole components (both valid apaths)."""
    ca = [] if a == "/" else a[1:].split("/")
    cb = [] if b == "/" else b[1:].split("/")
    return cb[:len(ca)] == ca


def mutate_tree(rng, tree, pool=None):
    """Return a modified deep copy and the list of mutation descriptions."""
    t = copy.deepcopy(tree)
    muts = []
    nodes = tree_paths(t)
    n = rng.randrange(1, 5)
    for _ in range(n):
        nodes = tree_paths(t)
        kind = rng.choice(["content", "mtime", "chmod", "add", "remove", "swap", "retarget", "chown", "samesize"])
        path, node = rng.choice(nodes)
        if kind == "content":
            files = [(p, x) for p, x in nodes if x["k"] == "f"]
            if not files:
                continue
            p, x = rng.choice(files)
            x["data"] = rand_bytes(rng, rng.choice(SIZES), pool).hex()
            x["mtime"] = x["mtime"] + rng.choice([1, 1_000_000_000, 12345])
            muts.append(("content", p))
        elif kind == "samesize":
            files = [(p, x) for p, x in nodes if x["k"] == "f" and len(x["data"]) > 0]
            if not files:
                continue
            p, x = rng.choice(files)
            x["data"] = rand_bytes(rng, len(x["data"]) // 2).hex()
            x["mtime"] = x["mtime"] + rng.choice([1, 1_000_000_000])
            muts.append(("samesize", p))
        elif kind == "mtime":
            node["mtime"] = node["mtime"] + rng.choice([1, -1, 1_000_000_000])
            muts.append(("mtime", path))
        elif kind == "chmod" and node["k"] != "l":
            node["mode"] = rand_mode(rng)
            muts.append(("chmod", path))
        elif kind == "chown":
            u, g = rng.choice(OWNERS)
            node["uid"], node["gid"] = u, g
            muts.append(("chown", path))
        elif kind == "add":
            dirs = [(p, x) for p, x in nodes if x["k"] == "d"]
            p, x = rng.choice(dirs)
            name = rand_name(rng, x["c"])
            r = rng.random()
            if r < 0.6:
                x["c"][name] = {"k": "f", "data": rand_bytes(rng, rng.choice(SIZES), pool).hex(), "mode": rand_mode(rng),
                                "mtime": rand_mtime(rng, False)}
            elif r < 0.8:
                x["c"][name] = {"k": "d", "c": {}, "mode": 0o755, "mtime": rand_mtime(rng, False)}
            else:
                x["c"][name] = {"k": "l", "target": "a", "mtime": rand_mtime(rng, False)}
            muts.append(("add", (p.rstrip("/") + "/" + name)))
        elif kind == "remove":
            dirs = [(p, x) for p, x in nodes if x["k"] == "d" and x["c"]]
            if not dirs:
                continue
            p, x = rng.choice(dirs)
            name = rng.choice(sorted(x["c"]))
            del x["c"][name]
            muts.append(("remove", p.rstrip("/") + "/" + name))
        elif kind == "swap":
            dirs = [(p, x) for p, x in nodes if x["k"] == "d" and x["c"]]
            if not dirs:
                continue
            p, x = rng.choice(dirs)
            name = rng.choice(sorted(x["c"]))
            old = x["c"][name]
            if old["k"] == "f":
                x["c"][name] = {"k": "d", "c": {"in": {"k": "f", "data": "61", "mode": 0o644, "mtime": 10**18}}, "mode": 0o755,
                                "mtime": old["mtime"]}
            elif old["k"] == "d":
                x["c"][name] = {"k": "f", "data": "7a7a", "mode": 0o644, "mtime": old["mtime"] + 1}
            else:
                x["c"][name] = {"k": "f", "data": "6c", "mode": 0o600, "mtime": old["mtime"] + 1}
            muts.append(("swap", p.rstrip("/") + "/" + name))
        elif kind == "retarget":
            links = [(p, x) for p, x in nodes if x["k"] == "l"]
            if not links:
                continue
            p, x = rng.choice(links)
            x["target"] = x["target"] + "x"
            muts.append(("retarget", p))
    # several mutations of one file can cancel out in mtime (-1 then +1) while its bytes changed and its size did not: that is
    # the edit conserve does not see by design (kind + mtime + size unchanged); keep the generator out of it
    before = dict(tree_paths(tree))
    for p, x in tree_paths(t):
        o = before.get(p)
        if o is not None and x["k"] == "f" and o["k"] == "f" and x["data"] != o["data"] \
                and len(x["data"]) == len(o["data"]) and x["mtime"] == o["mtime"]:
            x["mtime"] = x["mtime"] + 1
    return t, muts


def avoid_unseen_edit(tree, earlier_trees):
    """Bump the mtime of any file of `tree` that has the path, size and mtime of a file in one of `earlier_trees` but other
    bytes: the edit conserve cannot see by design (content_heuristically_unchanged), which the histories keep out of."""
    for p, x in tree_paths(tree):
        if x["k"] != "f":
            continue
        changed = True
        while changed:
            changed = False
            for et in earlier_trees:
                o = dict(tree_paths(et)).get(p)
                if o is not None and o["k"] == "f" and o["data"] != x["data"] and len(o["data"]) == len(x["data"]) and o["mtime"] == x["mtime"]:
                    x["mtime"] += 1
                    changed = True
    return tree
