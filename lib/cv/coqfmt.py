"""Printers from harness JSON to Gallina terms of coq/Entry.v (inside N_scope)."""
from .common import gallina_str, gallina_list, gallina_opt

KINDS = {"File": "KFile", "Dir": "KDir", "Symlink": "KSymlink", "Unknown": "KUnknown"}


def g_bytes_hex(h):
    return gallina_str(bytes.fromhex(h))


def g_block_name(hash_hex, table):
    """A block is named by its content in the model; unknown names map to the
    ASCII of the hex name (distinct from every real content used in the cases)."""
    c = table.get(hash_hex)
    if c is None:
        return gallina_str(("#" + hash_hex[:24]).encode())
    return gallina_str(c)


def g_addr(a, table):
    return "{| a_hash := %s; a_start := %d; a_len := %d |}" % (g_block_name(a["hash"], table), a.get("start", 0), a["len"])


def g_entry(e, table):
    """e: serde JSON of an IndexEntry (as stored in a hunk)."""
    mode = e.get("unix_mode")
    return ("{| e_apath := %s; e_kind := %s; e_mtime := (%d)%%Z; e_nanos := %d; e_mode := %d; e_user := %s; e_group := %s; "
            "e_addrs := %s; e_target := %s |}") % (
        gallina_str(e["apath"]), KINDS.get(e.get("kind", "Unknown"), "KUnknown"), e.get("mtime", 0), e.get("mtime_nanos", 0),
        mode if mode is not None else 4294967296,
        gallina_opt(e.get("user"), gallina_str), gallina_opt(e.get("group"), gallina_str),
        gallina_list([g_addr(a, table) for a in e.get("addrs", [])]),
        gallina_opt(e.get("target"), gallina_str))


def g_sentry(e):
    """e: the harness's entry_json of a source::Entry."""
    mode = e.get("mode")
    return ("{| s_apath := %s; s_kind := %s; s_size := %d; s_target := %s; s_mtime := (%d)%%Z; s_mode := %d; s_user := %s; s_group := %s |}") % (
        gallina_str(e["apath"]), KINDS.get(e["kind"], "KUnknown"), e.get("size") or 0,
        gallina_opt(e.get("target"), gallina_str), e["mtime_ns"], mode if mode is not None else 4294967296,
        gallina_opt(e.get("user"), gallina_str), gallina_opt(e.get("group"), gallina_str))


def hash_table(arch):
    """hash hex -> content bytes, from an independent-reader snapshot."""
    t = {}
    for path, v in arch.get("files", {}).items():
        if v.get("t") == "block":
            t[path.split("/")[-1]] = bytes.fromhex(v["hex"])
    return t
