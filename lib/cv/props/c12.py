"""C12 — Selecting a subtree returns exactly that subtree."""
import json

from .. import gen
from . import c11


def subtree_cases(ctx, ntrees):
    cases = []
    for t in range(ntrees):
        tree = gen.rand_tree(ctx.rng, depth=ctx.rng.choice([2, 3, 3]), fanout=4, neg_frac=False, owners=False)
        # make sure sibling names extending one another and multi-byte names occur
        c = tree["c"]
        for name in ctx.rng.sample(["a", "ab", "a.b", "ñ", "ñx", "añ"], 4):
            if name not in c:
                if ctx.rng.random() < 0.6:
                    c[name] = {"k": "d", "mode": 0o755, "mtime": 10**18, "c": {
                        "f": {"k": "f", "data": "6162", "mode": 0o644, "mtime": 10**18 + 5},
                        "ñ": {"k": "d", "mode": 0o700, "mtime": 10**18, "c": {"g": {"k": "f", "data": "", "mode": 0o600, "mtime": 7 * 10**17}}}}}
                else:
                    c[name] = {"k": "f", "data": "78", "mode": 0o644, "mtime": 10**18 + 1}
        # names made of characters that mean something to a glob matcher, beside plain names those patterns would match
        if t % 2 == 0:
            for name in ctx.rng.sample(["v?", "v1", "x*", "xy", "d [ab]", "d a", "{p,q}", "p", "q", "b\\c", "bc", "[!a]", "z"], 6):
                if name not in c:
                    c[name] = {"k": "d", "mode": 0o755, "mtime": 10**18, "c": {
                        "file": {"k": "f", "data": name.encode().hex(), "mode": 0o644, "mtime": 10**18 + 3}}}
        opts = gen.rand_opts(ctx.rng)
        if t % 2 == 1:
            # a directory beside siblings whose names extend its name by a character sorting below '/', all with several
            # entries, stored in index hunks of a few entries: a hunk then holds contents of the directory without the
            # directory's own entry, followed by the siblings' contents
            def kids(n):
                return {"f%d" % j: {"k": "f", "data": "%02x" % j, "mode": 0o644, "mtime": 10**18 + j} for j in range(n)}
            stem = ctx.rng.choice(["a", "data", "ñ"])
            c[stem] = {"k": "d", "mode": 0o755, "mtime": 10**18, "c": dict(kids(ctx.rng.choice([3, 4, 6])), b={"k": "d", "mode": 0o755, "mtime": 10**18, "c": kids(2)})}
            for suf in ctx.rng.sample([".b", "-old", " (1)", "+", ",v", "!"], 3):
                c[stem + suf] = {"k": "d", "mode": 0o755, "mtime": 10**18, "c": kids(ctx.rng.choice([2, 3, 5]))}
            opts = dict(opts, meph=ctx.rng.choice([2, 3, 4, 5, 7]))
        paths = [p for p, _ in gen.tree_paths(tree)]
        dirs = [p for p, n in gen.tree_paths(tree) if n["k"] == "d"]
        absent = ["/zz", "/a/zz", "/ñ/nope", "/a.", "/añ/f/x", "/v*", "/{v1,p}", "/d [a]", "/?"]
        absent = [p for p in absent if p not in paths]
        absent = absent[:3] + ctx.rng.sample(absent[3:], min(2, len(absent[3:])))
        subtrees = paths + absent
        steps = [{"op": "init"}, {"op": "mktree", "path": "src", "tree": tree}, {"op": "backup", "opts": opts},
                 {"op": "list", "band": 0}, {"op": "restore", "band": 0, "dest": "full"}]
        kinds = []
        for s in subtrees:
            steps.append({"op": "list", "band": 0, "subtree": s})
            kinds.append(("list", s))
        for k, s in enumerate(dirs):
            steps.append({"op": "restore", "band": 0, "subtree": s, "dest": f"sub{k}"})
            kinds.append(("restore", s))
        cases.append({"id": f"s{t}", "tree": tree, "opts": opts, "kinds": kinds, "steps": steps})
    return cases


def incomplete_cases(ctx, ntrees):
    """Subtree selections on an INTERRUPTED version (its listing is stitched with the version below): the second tree has
    lost the entries that sort LAST in some directories, or whole directories, and the second backup is killed at several points."""
    cases = []
    for t in range(ntrees):
        t0 = gen.rand_tree(ctx.rng, depth=ctx.rng.choice([2, 3]), fanout=4, neg_frac=False, owners=False, symlinks=False)
        c = t0["c"]
        for name in ["a", "ab", "gone"]:
            c[name] = {"k": "d", "mode": 0o755, "mtime": 10**18, "c": {
                "f": {"k": "f", "data": "6162", "mode": 0o644, "mtime": 10**18 + 5},
                "sub": {"k": "d", "mode": 0o700, "mtime": 10**18, "c": {"deep": {"k": "f", "data": "64", "mode": 0o600, "mtime": 10**18 + 6}}},
                "y": {"k": "f", "data": "79", "mode": 0o600, "mtime": 10**18 + 7}}}
        t1 = json.loads(json.dumps(t0))
        del t1["c"]["gone"]
        del t1["c"]["a"]["c"]["y"]
        del t1["c"]["a"]["c"]["sub"]
        t1["c"]["a"]["c"]["f"] = {"k": "f", "data": "6e6577", "mode": 0o644, "mtime": 10**18 + 50}
        opts = {"meph": ctx.rng.choice([1, 2, 3]), "mbs": 64, "sfc": ctx.rng.choice([0, 16])}
        dirs = sorted({p for tr in (t0, t1) for p, n in gen.tree_paths(tr) if n["k"] == "d"})
        for crash in ctx.rng.sample(range(14, 70), 4):
            steps = [{"op": "init"}, {"op": "mktree", "path": "src", "tree": t0}, {"op": "backup", "opts": opts},
                     {"op": "mktree", "path": "src", "tree": t1}, {"op": "backup", "opts": opts, "plan": {"crash": crash}},
                     {"op": "list", "band": 1}, {"op": "restore", "band": 1, "dest": "full"}]
            kinds = []
            for s_ in dirs:
                steps.append({"op": "list", "band": 1, "subtree": s_})
                kinds.append(("list", s_))
            for k, s_ in enumerate(dirs[:6]):
                steps.append({"op": "restore", "band": 1, "subtree": s_, "dest": f"sub{k}"})
                kinds.append(("restore", s_))
            cases.append({"id": f"i{t}_{crash}", "tree": t1, "opts": opts, "kinds": kinds, "steps": steps})
    return cases


def check_incomplete_case(ctx, c, r):
    if r is None:
        ctx.oracle_fail("subtree/harness-died", "harness died or hung", {"case": c})
        return
    full_list, full_restore = r[5], r[6]
    if full_list.get("result") != "ok":
        ctx.dist("incomplete_version_not_listable")       # killed before its head existed
        return
    full = full_list["value"]
    full_tree = full_restore.get("tree")
    for (kind, s), res in zip(c["kinds"], r[7:]):
        ctx.count()
        if kind == "list":
            got = [e["apath"] for e in (res.get("value") or [])]
            exp = [e["apath"] for e in full if gen.comp_prefix(s, e["apath"])]
            if res.get("result") != "ok" or got != exp:
                ctx.oracle_fail("subtree/list-exact-incomplete-version", f"listing subtree {s!r} of an interrupted version gives {got[:10]} but exactly {exp[:10]} "
                                f"of its whole listing lie under it", {"steps": c["steps"], "subtree": s})
                return
        elif res.get("tree") is not None and full_tree is not None and not res.get("monitor_errors") and not full_restore.get("monitor_errors"):
            # a directory that has no entry of its own in the stitched listing is made on the way to its files: its time is 'now'
            listed = {e["apath"] for e in full}

            def norm(node, p):
                if node is None or node.get("k") != "d":
                    return node
                n2 = dict(node)
                if (p or "/") not in listed:
                    n2.pop("mtime", None)
                n2["c"] = {k: norm(v, p + "/" + k) for k, v in (node.get("c") or {}).items()}
                return n2
            if node_at(norm(res.get("tree"), ""), s) != node_at(norm(full_tree, ""), s):
                ctx.oracle_fail("subtree/restore-identical-incomplete-version", f"restoring only {s!r} of an interrupted version differs from the same part of its full restore",
                                {"steps": c["steps"], "subtree": s})
                return
    ctx.nontrivial("incomplete:" + c["id"])
    ctx.dist("incomplete_version_selections", len(c["kinds"]))


def node_at(tree, apath):
    node = tree
    if apath == "/":
        return node
    for comp in apath[1:].split("/"):
        if node is None or node.get("k") != "d":
            return None
        node = node.get("c", {}).get(comp)
    return node


def strip_times_of_dirs(n):
    return n


def check_subtree_case(ctx, c, r):
    if r is None:
        ctx.oracle_fail("subtree/harness-died", "harness died or hung", {"case": c})
        return
    bk, full_list, full_restore = r[2], r[3], r[4]
    if bk.get("result") != "ok" or full_list.get("result") != "ok":
        ctx.oracle_fail("subtree/backup-failed", "backup or listing failed: " + json.dumps({k: bk.get(k) for k in ("result", "err", "panic")})[:300], {"case": c})
        return
    full = full_list["value"]
    full_tree = full_restore.get("tree")
    for (kind, s), res in zip(c["kinds"], r[5:]):
        ctx.count()
        if kind == "list":
            if res.get("result") != "ok":
                ctx.oracle_fail("subtree/list-failed", f"listing subtree {s!r} failed: {json.dumps(res.get('err'))[:200]}", {"case": c, "subtree": s})
                return
            got = [e["apath"] for e in res["value"]]
            exp = [e["apath"] for e in full if gen.comp_prefix(s, e["apath"])]
            if got != exp:
                ctx.oracle_fail("subtree/list-exact", f"listing subtree {s!r} gives {got[:10]} but exactly {exp[:10]} lie under it by components",
                                {"case": {"tree": c["tree"], "opts": c["opts"]}, "subtree": s, "got": got, "expected": exp})
                return
            if got and len(got) < len(full):
                ctx.nontrivial("list:" + s + ":" + json.dumps(got))
        else:
            if res.get("result") != "ok" or res.get("monitor_errors"):
                ctx.oracle_fail("subtree/restore-failed", f"restoring subtree {s!r} failed: {json.dumps(res.get('err') or res.get('monitor_errors'))[:300]}",
                                {"case": {"tree": c["tree"], "opts": c["opts"]}, "subtree": s})
                return
            got_node = node_at(res.get("tree"), s)
            exp_node = node_at(full_tree, s)
            if got_node != exp_node:
                ctx.oracle_fail("subtree/restore-identical", f"restoring only {s!r} differs from the same part of a full restore",
                                {"case": {"tree": c["tree"], "opts": c["opts"]}, "subtree": s,
                                 "got": got_node, "expected": exp_node})
                return
            # nothing outside S (other than the chain of parents) may appear
            def only_chain(node, comps):
                if not comps:
                    return True
                if node is None or node.get("k") != "d":
                    return False
                keys = list(node.get("c", {}).keys())
                return keys == [comps[0]] and only_chain(node["c"][comps[0]], comps[1:])
            comps = [] if s == "/" else s[1:].split("/")
            if not only_chain(res.get("tree"), comps):
                ctx.oracle_fail("subtree/restore-extra", f"restoring only {s!r} created entries outside it", {"case": {"tree": c["tree"], "opts": c["opts"]}, "subtree": s, "got": res.get("tree")})
                return
            ctx.nontrivial("restore:" + s + json.dumps(c["opts"]))
    ctx.dist("subtree_selections", len(c["kinds"]))


def run(ctx):
    quick = ctx.tier == "quick"
    alphabet = c11.sub_alphabet(ctx, 5 if quick else 6, 1)
    # always the multi-byte extension pair and an ASCII extension pair
    for must in ["ñ", "ñx", "añ", "a", "ab"]:
        if must not in alphabet:
            alphabet[ctx.rng.randrange(0, len(alphabet) - 1)] = must
    alphabet = list(dict.fromkeys(alphabet))
    depth = 3 if quick else 4
    ctx.cov["rule"] = ("exhaustive (ancestor, path) pairs over a component sub-alphabet containing multi-byte names and names extending "
                       "one another: is_prefix_of model vs implementation + independent component-ancestry oracle; generated trees: "
                       "list with every existing path and absent paths as subtree, restore with every directory as subtree, compared with "
                       "the full listing / full restore. non-trivial = a selection that is a proper non-empty part of the version")
    paths, codes, valid = c11.matrix_correspondence(ctx, alphabet, depth, 4 if quick else 16, mode="prefix")
    c11.direct_order_oracle(ctx, paths, codes, valid, prefix_prop=True, sample=None if quick else 1_500_000)
    ctx.sample({"alphabet": alphabet, "depth": depth, "paths": len(paths)})
    pairs, impl = c11.random_pairs_correspondence(ctx, 2000 if quick else 50000, invalid_frac=0.0, mode="prefix")
    for (a, b), code in zip(pairs, impl):
        if gen.is_valid_apath(a) and gen.is_valid_apath(b):
            exp = 1 if gen.comp_prefix(a, b) else 0
            if (code >> 1) & 1 != exp:
                ctx.oracle_fail("prefix/component-ancestry", f"{a!r}.is_prefix_of({b!r}) = {(code >> 1) & 1}, component-wise ancestry is {exp}",
                                {"fn": "prefix", "a": a, "b": b})
                break
    cases = subtree_cases(ctx, 12 if quick else 200)
    res = ctx.cvh_run(cases)
    for c in cases:
        check_subtree_case(ctx, c, res.get(c["id"]))
    # the destination side of a subtree restore: Dest.restore_into on the subtree's listing vs what restore left there
    from .. import destmodel, scen
    rows, meta = [], []
    for c in cases:
        r = res.get(c["id"])
        if r is None:
            continue
        lists = {sub: rs for (kind, sub), rs in zip(c["kinds"], r[5:]) if kind == "list"}
        content = scen.tree_file_bytes(c["tree"])
        for (kind, sub), rs in zip(c["kinds"], r[5:]):
            if kind != "restore" or rs.get("result") != "ok" or not rs.get("tree") or lists.get(sub, {}).get("result") != "ok":
                continue
            if quick and len(rows) >= 80:
                break
            rows.append(destmodel.row(False, None, lists[sub]["value"], content, rs["tree"], len(rs.get("monitor_errors") or []), False, sub == "/"))
            meta.append((c, sub))
    if rows:
        nums, txt = destmodel.evaluate("C12_dest", rows)
        if nums is None:
            ctx.corr_fail("L2", "Dest.restore_into evaluation failed: " + txt, {})
        else:
            ok_n = 0
            for (c, sub), code in zip(meta, nums):
                if code == 0:
                    ok_n += 1
                else:
                    ctx.corr_fail("L2", f"Dest.restore_into and restore differ for the subtree {sub!r} (code {code}: {destmodel.CODES})",
                                  {"case": {"tree": c["tree"], "opts": c["opts"]}, "subtree": sub})
            ctx.layer("L2-destination-subtree", ok_n, len(meta))
    icases = incomplete_cases(ctx, 3 if quick else 40)
    ires = ctx.cvh_run(icases)
    for c in icases:
        check_incomplete_case(ctx, c, ires.get(c["id"]))
    if cases:
        ctx.sample({"tree_paths": [p for p, _ in gen.tree_paths(cases[0]["tree"])][:14], "subtrees_tried": len(cases[0]["kinds"])})
    ctx.assumptions += ["restoring a single nested FILE by path is left out, as the property states",
                        "listing = Stitch filter at yield time (theorem stitch_filter in StitchP.v)"]


def replay(ctx, rep):
    return c11.replay(ctx, rep)
