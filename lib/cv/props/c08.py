"""C08 — Listing a version follows the stitching rule and is strictly ordered."""
import functools
import json

from .. import common, gen
from ..common import gallina_str, gallina_list, gallina_bool

HEADER = "From CV Require Import Base.Str Apath Stitch StitchInst Corr.Run.\nLocal Open Scope N_scope.\n"

ALPHA = ["/", "/a", "/ab", "/b", "/a/x", "/a/y", "/ab/x", "/b/ñ", "/ñ", "/a/x/z", "/~"]
DIRS = {"/", "/a", "/ab", "/b", "/a/x"}      # the paths of the alphabet that have others below them
STATES = ["absent", "complete", "incomplete", "incomplete", "headless", "unopenable", "unopenable_closed", "nohunks_complete",
          "nohunks_incomplete"]


def sorted_paths(ps):
    return sorted(ps, key=gen.apath_key)


def rand_band(rng, bid, big=False):
    st = rng.choice(STATES)
    if st == "absent":
        return None
    k = rng.randrange(0, (9 if big else 5))
    ps = sorted_paths(rng.sample(ALPHA, min(k, len(ALPHA))))
    if ps and rng.random() < 0.7 and "/" not in ps:
        ps = ["/"] + ps
    # split into hunks
    hunks = []
    cur = []
    for p in ps:
        cur.append(p)
        if rng.random() < 0.45:
            hunks.append(cur)
            cur = []
    if cur:
        hunks.append(cur)
    hs = {}
    num = 0
    for h in hunks:
        r = rng.random()
        if r < 0.08:
            hs[str(num)] = "garbage"
            num += 1
        elif r < 0.14:
            hs[str(num)] = []          # a legal empty hunk
            num += 1
        elif r < 0.2:
            num += 1                   # a gap in the numbering (missing hunk)
        hs[str(num)] = [{"apath": p, "kind": "Dir" if p in DIRS else "File", "mtime": bid} for p in h]
        num += 1
    if rng.random() < 0.05:
        hs[str(10000 + num)] = [{"apath": "/~/zz", "kind": "File", "mtime": bid}]   # second sub-directory
    band = {"hunks": hs}
    if st in ("nohunks_complete", "nohunks_incomplete"):
        band["hunks"] = {}
    if st in ("complete", "nohunks_complete"):
        # the tail of a complete version may state more hunks than are (still) there: missing trailing hunks
        band.update(head=True, tail=True if rng.random() < 0.6 else len(band["hunks"]) + rng.choice([1, 2]))
    elif st in ("incomplete", "nohunks_incomplete"):
        band.update(head=True, tail=False)
    elif st == "headless":
        band.update(head=False, tail=rng.random() < 0.3)
    elif st == "unopenable":
        band.update(head=rng.choice(["garbage", {"start_time": 1, "band_format_version": "99.0.0"},
                                     {"start_time": 1, "band_format_version": "0.6.3", "format_flags": ["zzz"]}]), tail=False)
    else:
        band.update(head={"start_time": 1, "band_format_version": "99.0.0"}, tail=True)
    return band


def band_model(band):
    """(head file exists, opens, tail exists, hunks in number order)"""
    h = band.get("head")
    head = h not in (False, None)
    opens = h is True
    closed = band.get("tail") not in (False, None)
    hunks = []
    for k in sorted(band["hunks"], key=int):
        v = band["hunks"][k]
        hunks.append(None if isinstance(v, str) else [(e["apath"], e["mtime"]) for e in v])
    return head, opens, closed, hunks


def oracle_stitch(layout, n, after=None):
    """The stitching rule of the property, coded directly (15 lines)."""
    bands = layout["bands"]
    b = bands.get(str(n))
    es = []
    closed = False
    if b is not None:
        head, opens, closed, hunks = band_model(b)
        if opens:
            es = [e for h in hunks if h is not None for e in h]
    out = [e for e in es if after is None or gen.apath_cmp(e[0], after) == 2]
    if closed:
        return out
    last = out[-1][0] if out else after
    for p in range(n - 1, -1, -1):
        bp = bands.get(str(p))
        if bp is not None and band_model(bp)[0]:
            return out + oracle_stitch(layout, p, last)
    return out


def gallina_layout(layout):
    items = []
    for k in sorted(layout["bands"], key=int):
        head, opens, closed, hunks = band_model(layout["bands"][k])
        hs = gallina_list(["None" if h is None else "(Some " + gallina_list(
            ["(" + gallina_str(p) + "," + str(t) + ")" for p, t in h]) + ")" for h in hunks])
        items.append(f"({k},({gallina_bool(head)},{gallina_bool(opens)},{gallina_bool(closed)},{hs}))")
    return gallina_list(items)


def run(ctx):
    quick = ctx.tier == "quick"
    n_small, n_big = (260, 80) if quick else (6000, 2500)
    ctx.cov["rule"] = ("archives written by the independent writer: up to 4 bands, each absent / complete / incomplete / without head / "
                       "unopenable / unopenable-with-tail / without hunks, hunk splits with empty, undecodable and missing hunks, entries from "
                       "an 11-path alphabet exercising the order; every band listed (whole, under subtree selections, with an exclusion); model stitch_list vs "
                       "implementation vs a direct coding of the stitching rule. non-trivial = listing that takes entries from >= 2 bands")
    cases = []
    for t in range(n_small + n_big):
        big = t >= n_small
        nb = ctx.rng.randrange(1, 5 if big else 4)
        layout = {"bands": {}}
        ids = sorted(ctx.rng.sample(range(0, 6), nb))
        for bid in ids:
            b = rand_band(ctx.rng, bid, big)
            if b is not None:
                layout["bands"][str(bid)] = b
        if not layout["bands"]:
            continue
        steps = [{"op": "write_archive", "layout": layout}]
        queries = []
        for bid in sorted(layout["bands"], key=int):
            steps.append({"op": "list", "band": int(bid)})
            queries.append((int(bid), "/"))
            # subtree selections: paths of the alphabet (directories and files alike: the selected path's own entry may come
            # from an older band than the entries before it) and an absent one
            b_ = layout["bands"][bid]
            open_band = b_.get("tail") in (False, None)
            for s in ctx.rng.sample(["/a", "/ab", "/a/x", "/b", "/ñ", "/zz", "/a/y", "/b/ñ", "/a/x/z", "/~", "/ab/x"], 3 if open_band else 1):
                if open_band or ctx.rng.random() < 0.5:
                    steps.append({"op": "list", "band": int(bid), "subtree": s})
                    queries.append((int(bid), s))
            # an exclusion filter (an anchored literal path: it and everything below it goes, siblings whose names merely
            # extend it stay)
            if ctx.rng.random() < (0.8 if open_band else 0.4):
                x = ctx.rng.choice(["/a", "/ab", "/a/x", "/b", "/ñ", "/a/y", "/~", "/zz"])
                steps.append({"op": "list", "band": int(bid), "excludes": [x]})
                queries.append((int(bid), "!" + x))
        cases.append({"id": f"l{t}", "layout": layout, "queries": queries, "steps": steps})
    # exhaustive over the STATE of three stacked bands (fixed entries: each older band reaches further)
    fixed = {0: [["/", "/a"], ["/ab", "/b", "/a/x"], ["/a/y", "/b/ñ"]], 1: [["/", "/a", "/ab"], ["/b", "/a/x"]], 2: [["/", "/a"]]}
    import itertools
    states = ["absent", "complete", "incomplete", "headless", "unopenable", "unopenable_closed", "nohunks_incomplete"]
    combos = list(itertools.product(states, repeat=3))
    if quick:
        combos = [c for k, c in enumerate(combos) if (k + ctx.seed) % 2 == 0 or "headless" in c or "absent" in c]
    for k, combo in enumerate(combos):
        layout = {"bands": {}}
        for bid, st in enumerate(combo):
            if st == "absent":
                continue
            hs = {str(n): [{"apath": p, "kind": "Dir" if p in DIRS else "File", "mtime": bid} for p in h] for n, h in enumerate(fixed[bid])}
            band = {"hunks": {} if st.startswith("nohunks") else hs}
            if st == "complete":
                band.update(head=True, tail=True)
            elif st in ("incomplete", "nohunks_incomplete"):
                band.update(head=True, tail=False)
            elif st == "headless":
                band.update(head=False, tail=False)
            elif st == "unopenable":
                band.update(head={"start_time": 1, "band_format_version": "99.0.0"}, tail=False)
            else:
                band.update(head={"start_time": 1, "band_format_version": "99.0.0"}, tail=True)
            layout["bands"][str(bid)] = band
        if not layout["bands"]:
            continue
        steps = [{"op": "write_archive", "layout": layout}]
        queries = []
        for bid in sorted(layout["bands"], key=int):
            steps.append({"op": "list", "band": int(bid)})
            queries.append((int(bid), "/"))
        cases.append({"id": f"x{k}", "layout": layout, "queries": queries, "steps": steps})
    # byte order vs path order: the newer band stops at a root-level name that is byte-wise above
    # deeper paths of the older band (path order puts a directory's children before deeper levels)
    allp = sorted_paths(ALPHA + ["/m", "/d/g", "/d/f", "/z"])
    roots = [p for p in allp if p.count("/") == 1 and p != "/"]
    for ri, r in enumerate(roots):
        newer = [p for p in allp if p.count("/") == 1 and gen.apath_cmp(p, r) != 2]
        for size in (1, 2, 3):
            old_hunks = [allp[i:i + size] for i in range(0, len(allp), size)]
            layout = {"bands": {
                "0": {"head": True, "tail": True, "hunks": {str(n): [{"apath": p, "kind": "Dir" if p in DIRS else "File", "mtime": 0} for p in h] for n, h in enumerate(old_hunks)}},
                "1": {"head": True, "tail": False, "hunks": {"0": [{"apath": p, "kind": "Dir" if p in DIRS else "File", "mtime": 1} for p in newer]}}}}
            cases.append({"id": f"o{ri}_{size}", "layout": layout, "queries": [(1, "/"), (1, "/a")],
                          "steps": [{"op": "write_archive", "layout": layout}, {"op": "list", "band": 1}, {"op": "list", "band": 1, "subtree": "/a"}]})
    res = ctx.cvh_run(cases)
    # ---- direct oracle + collect implementation answers
    model_items = []
    for c in cases:
        r = res.get(c["id"])
        if r is None:
            ctx.oracle_fail("stitch/hang-or-crash", "listing did not terminate (harness died or hung)", {"layout": c["layout"]})
            continue
        for (bid, sub), out in zip(c["queries"], r[1:]):
            ctx.count()
            head, opens, closed, hunks = band_model(c["layout"]["bands"][str(bid)])
            if out.get("panic") or out.get("timeout"):
                ctx.oracle_fail("stitch/hang-or-crash", f"listing band {bid} panicked or hung: {out.get('panic')}", {"layout": c["layout"], "band": bid})
                continue
            if not opens:
                if out.get("result") == "ok":
                    ctx.corr_fail("L3", f"band {bid} should not open but listing succeeded", {"layout": c["layout"], "band": bid})
                continue
            if out.get("result") != "ok":
                ctx.oracle_fail("stitch/list-failed", f"listing band {bid} failed: {json.dumps(out.get('err'))[:200]}", {"layout": c["layout"], "band": bid})
                continue
            got = [(e["apath"], e["raw"]["mtime"]) for e in out["value"]]
            if sub.startswith("!"):
                exp = [e for e in oracle_stitch(c["layout"], bid) if not gen.comp_prefix(sub[1:], e[0])]
            else:
                exp = [e for e in oracle_stitch(c["layout"], bid) if gen.comp_prefix(sub, e[0])]
            bad = None
            for x, y in zip(got, got[1:]):
                if gen.apath_cmp(x[0], y[0]) != 0:
                    bad = (x, y)
            if bad:
                ctx.oracle_fail("stitch/order", f"listing of band {bid} not strictly increasing at {bad}", {"layout": c["layout"], "band": bid, "subtree": sub, "got": got})
                continue
            if got != exp:
                ctx.oracle_fail("stitch/rule", f"listing of band {bid} (subtree {sub}) = {got[:12]} but the stitching rule gives {exp[:12]} ((path, source band))",
                                {"layout": c["layout"], "band": bid, "subtree": sub, "got": got, "expected": exp})
                continue
            if len({t for _, t in got}) >= 2:
                ctx.nontrivial(json.dumps([c["layout"], bid, sub], sort_keys=True))
            model_items.append((c, bid, sub, got))
            ctx.dist("bands_in_listing_%d" % len({t for _, t in got}))
    # ---- model vs implementation
    shards = 4 if quick else 16
    per = (len(model_items) + shards - 1) // shards
    import concurrent.futures
    jobs = []
    for s in range(shards):
        part = model_items[s * per:(s + 1) * per]
        if not part:
            continue
        lines = []
        for c, bid, sub, got in part:
            impl = gallina_list(["(" + gallina_str(p) + "," + str(t) + ")" for p, t in got])
            if sub.startswith("!"):
                lines.append(f"(stitch_check_excl {gallina_layout(c['layout'])} {bid} {gallina_str(sub[1:])} {impl})")
            else:
                lines.append(f"(stitch_check {gallina_layout(c['layout'])} {bid} {gallina_str(sub)} {impl})")
        body = HEADER + """
Definition ient_eqb (x y : ient) : bool := str_eqb (fst x) (fst y) && N.eqb (snd x) (snd y).
Fixpoint ients_eqb (a b : list ient) : bool :=
  match a, b with [], [] => true | x :: a', y :: b' => ient_eqb x y && ients_eqb a' b' | _, _ => false end.
Definition stitch_check (bands : list (N * iband)) (n : N) (sub : str) (impl : list ient) : N :=
  if ients_eqb (stitch_list_keep (fun e => is_prefix_of sub (fst e)) bands n) impl then 0 else 1.
Definition stitch_check_excl (bands : list (N * iband)) (n : N) (x : str) (impl : list ient) : N :=
  if ients_eqb (stitch_list_keep (fun e => negb (is_prefix_of x (fst e))) bands n) impl then 0 else 1.
Definition results : list N := """ + gallina_list(lines) + ".\nEval vm_compute in first_diff results (map (fun _ => 0) results) 0.\n"
        jobs.append((s, part, body))
    agreed = 0
    with concurrent.futures.ThreadPoolExecutor(max_workers=16) as ex:
        futs = {ex.submit(common.coq_eval, f"C08_{s}", body, 1800): (s, part) for s, part, body in jobs}
        for fut in concurrent.futures.as_completed(futs):
            s, part = futs[fut]
            ok, out = fut.result()
            blocks = common.parse_eval_blocks(out)
            if not ok or not blocks:
                ctx.corr_fail("L3", "model evaluation failed: " + out[-500:], {})
            elif blocks[0].strip().startswith("None"):
                agreed += len(part)
            else:
                k = common.parse_nums(blocks[0])[0]
                c, bid, sub, got = part[k]
                ctx.corr_fail("L3", f"stitch model and implementation differ listing band {bid} subtree {sub}: implementation {got[:10]}",
                              {"layout": c["layout"], "band": bid, "subtree": sub, "impl": got})
                agreed += k
    ctx.layer("L3-stitch", agreed, len(model_items))
    if cases:
        ctx.sample({"layout": cases[0]["layout"], "queries": cases[0]["queries"]})
        ctx.sample({"layout": cases[-1]["layout"]})
    ctx.assumptions += ["BandsSorted (each band's own hunks strictly increasing within and across) is the documented format; "
                        "for conserve-written archives it is what C13 checks",
                        "binary search on an unsorted hunk is unspecified in Rust; the model claims nothing there"]


def replay(ctx, rep):
    r = rep.get("replay", rep)
    ctx.build()
    layout = r.get("layout")
    band = r.get("band", 0)
    out = ctx.cvh_run([{"id": "r", "steps": [{"op": "write_archive", "layout": layout}, {"op": "list", "band": band, "subtree": r.get("subtree", "/")}]}])
    print("implementation:", json.dumps(out["r"][1].get("value") and [(e["apath"], e["raw"]["mtime"]) for e in out["r"][1]["value"]]))
    print("stitching rule:", oracle_stitch(layout, band))
    return 0
