"""C17 — The archive is a pure function of the source and the operation history."""
import copy
import json

from .. import gen, l4, scen

RUNTIMES = ["current", "multi1", "multi2", "multi8"]


def canon_files(arch):
    out = {}
    for p, v in arch["files"].items():
        base = p.split("/")[-1]
        if base in ("BANDHEAD", "BANDTAIL") and v.get("t") == "json" and isinstance(v.get("v"), dict):
            j = dict(v["v"])
            j.pop("start_time", None)
            j.pop("end_time", None)
            out[p] = json.dumps(j, sort_keys=True)
        else:
            out[p] = v.get("raw_hash")
    return out


def run(ctx):
    quick = ctx.tier == "quick"
    n, nsteps = (14, 7) if quick else (200, 14)
    ctx.cov["rule"] = ("random histories (source changes, backups with random options, deletes, gc) each replayed into fresh archives "
                       "under four runtime flavours (current-thread, multi-thread with 1, 2 and 8 workers): same set of files, byte-identical "
                       "contents except start_time/end_time in heads and tails; + histories in which a delete or a backup is killed at a fixed storage operation (what it leaves behind, the lock file included, compared the same way); the model's final state (a function of the history by "
                       "construction) equals each of them. non-trivial = distinct history with >= 2 backups")
    cases = []
    groups = []
    for t in range(n):
        steps, marks = scen.rand_history(ctx.rng, nsteps, crashes=False)
        ids = []
        for rt in RUNTIMES:
            st2 = copy.deepcopy(steps)
            for s in st2:
                if s["op"] in ("backup", "delete", "validate", "init"):
                    s["runtime"] = rt
            cid = f"h{t}_{rt}"
            ids.append(cid)
            cases.append({"id": cid, "steps": st2, "marks": marks})
        groups.append((t, steps, marks, ids))
    # many small files with tiny block / hunk limits: combined blocks fill up inside index hunks, which is where a
    # dependence on task scheduling would show; each replayed several times under the multi-thread flavours
    for t in range(2 if quick else 12):
        wide = t % 2 == 0      # wide: hundreds of files per combined block, so a background write would finish mid-block
        nfiles = ctx.rng.choice([600, 900]) if wide else ctx.rng.choice([120, 200, 320])
        tree = {"k": "d", "mode": 0o755, "mtime": 10**18, "c": {}}
        for i in range(nfiles):
            tree["c"][f"f{i:04d}"] = {"k": "f", "data": bytes(ctx.rng.choice(b"abcdefgh") for _ in range(ctx.rng.choice([3, 5, 8]))).hex() + f"{i:04x}",
                                      "mode": 0o644, "mtime": 10**18 + i}
        opts = {"meph": ctx.rng.choice([7, 16, 50]), "mbs": ctx.rng.choice([40, 96, 200]), "sfc": 16}
        if wide:
            opts = {"meph": ctx.rng.choice([260, 410]), "mbs": ctx.rng.choice([1500, 2500]), "sfc": 16}
        steps = [{"op": "init"}, {"op": "mktree", "path": "src", "tree": tree}, {"op": "backup", "opts": opts}, {"op": "arch"}]
        marks = [{"kind": "init"}, {"kind": "mktree"}, {"kind": "backup"}, {"kind": "arch"}]
        ids = []
        for rt in ["current", "multi2", "multi8", "multi2", "multi8", "multi8"]:
            st2 = copy.deepcopy(steps)
            st2[2]["runtime"] = rt
            st2[0]["runtime"] = rt
            cid = f"m{t}_{rt}_{len(ids)}"
            ids.append(cid)
            cases.append({"id": cid, "steps": st2, "marks": marks})
        groups.append((f"m{t}", steps, marks, ids))
    # small files that share their beginning, and one that IS that beginning, all in one combined block: whatever sharing of
    # content a writer attempts inside a block, which copy it points at must not vary between replays
    for t in range(1 if quick else 4):
        head = bytes(ctx.rng.choice(b"abcdefgh") for _ in range(ctx.rng.choice([300, 600])))
        tree = {"k": "d", "mode": 0o755, "mtime": 10**18, "c": {}}
        for i in range(ctx.rng.choice([12, 24])):
            tree["c"][f"p{i:02d}"] = {"k": "f", "data": (head + b"-tail-%03d" % i).hex(), "mode": 0o644, "mtime": 10**18 + i}
        for i in range(3):
            tree["c"][f"same{i}"] = {"k": "f", "data": (head + b"=same").hex(), "mode": 0o644, "mtime": 10**18 + 50 + i}
        tree["c"]["zz_head_only"] = {"k": "f", "data": head.hex(), "mode": 0o644, "mtime": 10**18 + 99}
        steps = [{"op": "init"}, {"op": "mktree", "path": "src", "tree": tree}, {"op": "backup", "opts": {"meph": 100000, "mbs": 1 << 20, "sfc": 1 << 20}}, {"op": "arch"}]
        marks = [{"kind": "init"}, {"kind": "mktree"}, {"kind": "backup"}, {"kind": "arch"}]
        ids = []
        for rt in ["current", "current", "multi1", "multi2", "current", "multi8", "current", "current"]:
            st2 = copy.deepcopy(steps)
            st2[2]["runtime"] = rt
            st2[0]["runtime"] = rt
            cid = f"p{t}_{rt}_{len(ids)}"
            ids.append(cid)
            cases.append({"id": cid, "steps": st2, "marks": marks})
        groups.append((f"p{t}", steps, marks, ids))
    # the wall clock must not decide archive content: a file dated a few seconds AHEAD of the clock, unchanged between two
    # backups; one replay runs at once, the other after that moment has passed
    import time
    for t in range(2 if quick else 6):
        ahead = time.time_ns() + 5_000_000_000
        tree = {"k": "d", "mode": 0o755, "mtime": 10**18, "c": {
            "past": {"k": "f", "data": "70617374", "mode": 0o644, "mtime": 10**18},
            "soon": {"k": "f", "data": "736f6f6e21", "mode": 0o644, "mtime": ahead},
            "soon2": {"k": "f", "data": "3232", "mode": 0o644, "mtime": ahead + 1}}}
        opts = {"meph": ctx.rng.choice([2, 100000]), "mbs": 64, "sfc": ctx.rng.choice([0, 16])}
        steps = [{"op": "init"}, {"op": "mktree", "path": "src", "tree": tree}, {"op": "backup", "opts": opts}, {"op": "arch"},
                 {"op": "backup", "opts": opts}, {"op": "arch"}]
        marks = [{"kind": "init"}, {"kind": "mktree"}, {"kind": "backup"}, {"kind": "arch"}, {"kind": "backup"}, {"kind": "arch"}]
        late = [{"op": "init"}, {"op": "mktree", "path": "src", "tree": tree}, {"op": "sleep", "ms": 8000}, {"op": "backup", "opts": opts}, {"op": "arch"},
                {"op": "backup", "opts": opts}, {"op": "arch"}]
        lmarks = [{"kind": "init"}, {"kind": "mktree"}, {"kind": "sleep"}, {"kind": "backup"}, {"kind": "arch"}, {"kind": "backup"}, {"kind": "arch"}]
        cases.append({"id": f"w{t}_now", "steps": steps, "marks": marks})
        cases.append({"id": f"w{t}_late", "steps": late, "marks": lmarks})
        groups.append((f"w{t}", steps, marks, [f"w{t}_now", f"w{t}_late"]))
    cases.sort(key=lambda c: 0 if c["id"].startswith("w") else 1)      # the clock-sensitive replays start first
    # a gc in which ONE particular block cannot be removed (a storage error, the same in every replay): which of the other
    # unreferenced blocks go must not depend on the iteration order of the set of unreferenced blocks
    for t in range(1 if quick else 4):
        def ff(i, v):
            return {"k": "f", "data": (b"%s-%03d" % (v, i)).hex(), "mode": 0o644, "mtime": 10**18 + i}
        nf = ctx.rng.choice([24, 40])
        ta = {"k": "d", "mode": 0o755, "mtime": 10**18, "c": {f"f{i:03d}": ff(i, b"old") for i in range(nf)}}
        tb = {"k": "d", "mode": 0o755, "mtime": 10**18, "c": {"only": ff(0, b"new")}}
        oo = {"meph": 100000, "mbs": 64, "sfc": 0}
        pre_steps = [{"op": "init"}, {"op": "mktree", "path": "src", "tree": ta}, {"op": "backup", "opts": oo},
                     {"op": "mktree", "path": "src", "tree": tb}, {"op": "backup", "opts": oo}, {"op": "arch"}]
        probe = ctx.cvh_run([{"id": "p", "steps": pre_steps}]).get("p")
        if probe is None:
            continue
        blocks = sorted(p for p in probe[5]["arch"]["files"] if p.startswith("d/"))
        victim = blocks[len(blocks) // 2]
        rule = ["RemoveFile", victim, 0, "PermissionDenied"]
        steps = pre_steps + [{"op": "delete", "bands": [0], "plan": {"rules": [rule]}}, {"op": "arch"}]
        marks = [{"kind": "init"}, {"kind": "mktree"}, {"kind": "backup"}, {"kind": "mktree"}, {"kind": "backup"}, {"kind": "arch"},
                 {"kind": "delete"}, {"kind": "arch"}]
        ids = []
        for rt in ["current", "current", "multi2", "multi8", "current"]:
            st2 = copy.deepcopy(steps)
            for s_ in st2:
                if s_["op"] in ("backup", "delete", "init"):
                    s_["runtime"] = rt
            cid = f"g{t}_{rt}_{len(ids)}"
            ids.append(cid)
            cases.append({"id": cid, "steps": st2, "marks": marks})
        groups.append((f"g{t}", steps, marks, ids))
    # what is in the archive when an operation RETURNS must not depend on detached tasks getting to run afterwards: the
    # archive is looked at the moment each operation has returned (no waiting), under two runtime flavours
    lock_cases = []
    for t in range(3 if quick else 12):
        def fl(d, m):
            return {"k": "f", "data": d.hex(), "mode": 0o644, "mtime": 10**18 + m}
        keep = {f"k{i}": fl(b"keep-%d" % i, i) for i in range(3)}
        ta = {"k": "d", "mode": 0o755, "mtime": 10**18, "c": dict(keep)}
        tb = {"k": "d", "mode": 0o755, "mtime": 10**18, "c": dict(keep, extra=fl(b"extra", 9))}
        if t % 3 == 1:
            ta["c"]["gone"] = fl(b"only-in-the-first", 5)          # this delete does orphan a block
        oo = {"meph": 100000, "mbs": 64, "sfc": ctx.rng.choice([0, 16])}
        dsteps = [{"op": "delete", "bands": [0], "dry": t % 3 == 2, "plan": {"no_quiesce": True}}, {"op": "arch"},
                  {"op": "delete", "bands": [], "plan": {"no_quiesce": True}}, {"op": "arch"},
                  {"op": "backup", "opts": oo, "plan": {"no_quiesce": True}}, {"op": "arch"}]
        steps = [{"op": "init"}, {"op": "mktree", "path": "src", "tree": ta}, {"op": "backup", "opts": oo},
                 {"op": "mktree", "path": "src", "tree": tb}, {"op": "backup", "opts": oo}] + dsteps
        for rt in ("current", "multi2"):
            st2 = copy.deepcopy(steps)
            for s_ in st2:
                if s_["op"] in ("backup", "delete", "init"):
                    s_["runtime"] = rt
            lock_cases.append({"id": f"q{t}_{rt}", "steps": st2})
    lres = ctx.cvh_run(lock_cases)
    for c in lock_cases:
        r = lres.get(c["id"])
        ctx.count()
        if r is None:
            ctx.oracle_fail("determinism/crash", "history replay crashed or hung", {"steps": c["steps"]})
            continue
        for i, (st, rs) in enumerate(zip(c["steps"], r)):
            if st["op"] in ("delete", "backup") and i >= 5 and rs.get("result") != "ok":
                ctx.oracle_fail("determinism/operation-refused-after-returned-delete", f"step {i} ({st['op']}) failed under runtime {st.get('runtime')}: "
                                f"{json.dumps(rs.get('err'))[:160]} although every earlier operation had returned successfully", {"steps": c["steps"][:i + 1]})
                break
            if st["op"] == "arch" and c["steps"][i - 1]["op"] == "delete" and r[i - 1].get("result") == "ok" and "GC_LOCK" in rs["arch"]["files"]:
                ctx.oracle_fail("determinism/lock-left-by-returned-delete", f"a delete that returned Ok (runtime {c['steps'][i - 1].get('runtime')}) left GC_LOCK in the "
                                f"archive: its removal was left to a detached task", {"steps": c["steps"][:i + 1]})
                break
        else:
            ctx.nontrivial("returned:" + c["id"])
            ctx.dist("looked_at_on_return")
    # slow storage must not change what is written: the same history with some operations taking a minute and a half each
    # (virtual time: a paused clock) against the same history at full speed
    for t in range(2 if quick else 8):
        def sf(d, m):
            return {"k": "f", "data": d.hex(), "mode": 0o644, "mtime": 10**18 + m}
        tr_ = {"k": "d", "mode": 0o755, "mtime": 10**18, "c": {f"s{i}": sf(b"small-%d" % i, i) for i in range(6)}}
        tr_["c"]["big"] = sf(bytes(ctx.rng.choice(b"abcdefgh") for _ in range(300)), 50)
        tr2_ = copy.deepcopy(tr_)
        tr2_["c"]["s2"] = sf(b"changed-2", 99)
        oo = {"meph": 100000, "mbs": ctx.rng.choice([64, 1000]), "sfc": ctx.rng.choice([16, 1 << 20])}
        base_steps = [{"op": "init"}, {"op": "mktree", "path": "src", "tree": tr_}, {"op": "backup", "opts": oo}, {"op": "arch"},
                      {"op": "mktree", "path": "src", "tree": tr2_}, {"op": "backup", "opts": oo}, {"op": "arch"}]
        marks_ = [{"kind": "init"}, {"kind": "mktree"}, {"kind": "backup"}, {"kind": "arch"}, {"kind": "mktree"}, {"kind": "backup"}, {"kind": "arch"}]
        ids = []
        for name, rt, delays in (("fast", "paused", None), ("slow", "paused", [[k, 90000] for k in range(9 + t, 60, 4)]), ("real", "current", None)):
            st2 = copy.deepcopy(base_steps)
            for s_ in st2:
                if s_["op"] in ("backup", "init"):
                    s_["runtime"] = rt
                    if delays and s_["op"] == "backup":
                        s_["plan"] = {"delays": delays}
            cid = f"z{t}_{name}"
            ids.append(cid)
            cases.append({"id": cid, "steps": st2, "marks": marks_})
        groups.append((f"z{t}", base_steps, marks_, ids))
    # histories in which an operation is killed at a fixed point (named by the storage operation it is about to make, so the
    # same in every replay): a delete dying with the lock held, a backup dying before its tail; what they leave behind, lock
    # file included, must be the same bytes in every replay
    for t in range(3 if quick else 12):
        def fk(d, m):
            return {"k": "f", "data": d.hex(), "mode": 0o644, "mtime": 10**18 + m}
        ta = {"k": "d", "mode": 0o755, "mtime": 10**18, "c": {"a": fk(b"first-a", 1), "b": fk(b"first-b", 2)}}
        tb = {"k": "d", "mode": 0o755, "mtime": 10**18, "c": {"a": fk(b"second-a", 11), "c": fk(b"second-c", 12)}}
        oo = {"meph": ctx.rng.choice([1, 100000]), "mbs": 64, "sfc": ctx.rng.choice([0, 16])}
        kill_delete = [["RemoveDirAll", "b0000", 0, "crash"], ["ListDir", "d", 0, "crash"], ["Write", "GC_LOCK", 0, "crash_empty"]][t % 3]
        kill_backup = [["Write", "b0002/BANDTAIL", 0, "crash"], ["Write", "b0002/BANDHEAD", 0, "crash_empty"], ["CreateDir", "b0002/i", 0, "crash"]][(t // 3) % 3]
        steps = [{"op": "init"}, {"op": "mktree", "path": "src", "tree": ta}, {"op": "backup", "opts": oo},
                 {"op": "mktree", "path": "src", "tree": tb}, {"op": "backup", "opts": oo}, {"op": "arch"},
                 {"op": "delete", "bands": [0], "plan": {"rules": [kill_delete]}}, {"op": "arch"},
                 {"op": "delete", "bands": [], "break_lock": True}, {"op": "arch"},
                 {"op": "backup", "opts": oo, "plan": {"rules": [kill_backup]}}, {"op": "arch"},
                 {"op": "backup", "opts": oo}, {"op": "arch"}]
        marks = [{"kind": k} for k in ("init", "mktree", "backup", "mktree", "backup", "arch", "delete", "arch", "delete", "arch", "backup", "arch", "backup", "arch")]
        ids = []
        for rt in ("current", "multi2", "multi8"):
            st2 = copy.deepcopy(steps)
            for s_ in st2:
                if s_["op"] in ("backup", "delete", "init"):
                    s_["runtime"] = rt
            cid = f"k{t}_{rt}"
            ids.append(cid)
            cases.append({"id": cid, "steps": st2, "marks": marks})
        groups.append((f"k{t}", steps, marks, ids))
    # a storage error while a backup sets up its version (the index directory refused, the head refused), answered at once
    # in one replay and after a long (virtual) while in another: what the failed backup leaves behind, and what the next
    # backup writes, must be the same
    for t in range(2 if quick else 8):
        def fe(d, m):
            return {"k": "f", "data": d.hex(), "mode": 0o644, "mtime": 10**18 + m}
        ta = {"k": "d", "mode": 0o755, "mtime": 10**18, "c": {"a": fe(b"one", 1)}}
        tb = {"k": "d", "mode": 0o755, "mtime": 10**18, "c": {"a": fe(b"two!", 2), "b": fe(b"bee", 3)}}
        oo = {"meph": 100000, "mbs": 64, "sfc": ctx.rng.choice([0, 16])}
        pre = [{"op": "init", "runtime": "paused"}, {"op": "mktree", "path": "src", "tree": ta}, {"op": "backup", "opts": oo, "runtime": "paused"},
               {"op": "mktree", "path": "src", "tree": tb}]
        probe = ctx.cvh_run([{"id": "p", "steps": pre + [{"op": "backup", "opts": oo, "runtime": "paused"}]}]).get("p")
        if not probe or not probe[4].get("trace"):
            continue
        target = [("CreateDir", "b0001/i"), ("Write", "b0001/BANDHEAD")][t % 2]
        ks = [it.get("i") for it in probe[4]["trace"] if it.get("verb") == target[0] and it.get("path") == target[1]]
        if not ks or ks[0] is None:
            continue
        rule = [target[0], target[1], 0, ctx.rng.choice(["PermissionDenied", "Other"])]
        steps = pre + [{"op": "backup", "opts": oo, "plan": {"rules": [rule]}}, {"op": "arch"}, {"op": "backup", "opts": oo}, {"op": "arch"}]
        marks = [{"kind": k_} for k_ in ("init", "mktree", "backup", "mktree", "backup", "arch", "backup", "arch")]
        ids = []
        for name, rt, delays in (("atonce", "paused", None), ("late", "paused", [[ks[0], 90000]]), ("real", "current", None), ("multi", "multi2", None)):
            st2 = copy.deepcopy(steps)
            for s_ in st2:
                if s_["op"] in ("backup", "init"):
                    s_["runtime"] = rt
            if delays:
                st2[4]["plan"]["delays"] = delays
            cid = f"e{t}_{name}"
            ids.append(cid)
            cases.append({"id": cid, "steps": st2, "marks": marks})
        groups.append((f"e{t}", steps, marks, ids))
    res = ctx.cvh_run(cases, timeout=3000)
    hs = []
    for t, steps, marks, ids in groups:
        ctx.count()
        finals = []
        bad = False
        for cid in ids:
            r = res.get(cid)
            if r is None or any(isinstance(x, dict) and x.get("panic") for x in r):
                ctx.oracle_fail("determinism/crash", f"history replay under {cid.split('_')[1]} crashed or hung", {"steps": steps, "runtime": cid.split("_")[1]})
                bad = True
                break
            archs = [x["arch"] for x in r if isinstance(x, dict) and "arch" in x]
            finals.append((cid, archs, r))
        if bad:
            continue
        ref_id, ref_archs, ref_r = finals[0]
        for cid, archs, r in finals[1:]:
            for k, (a, b) in enumerate(zip(ref_archs, archs)):
                ca, cb = canon_files(a), canon_files(b)
                if ca != cb or sorted(a["dirs"]) != sorted(b["dirs"]):
                    diff = [p for p in set(ca) | set(cb) if ca.get(p) != cb.get(p)][:3]
                    ctx.oracle_fail("determinism/archives-differ", f"the same history under {ref_id.split('_')[1]} and {cid.split('_')[1]} gives different archives "
                                                                   f"after mutating step {k}: {diff}", {"steps": steps, "runtimes": [ref_id.split('_')[1], cid.split('_')[1]]})
                    bad = True
                    break
            if bad:
                break
        if bad:
            continue
        if sum(1 for m in marks if m["kind"] == "backup") >= 2:
            ctx.nontrivial(json.dumps([m["kind"] + str(m.get("ids") or "") for m in marks if m["kind"] in ("backup", "delete")]))
        if isinstance(t, str):
            ctx.dist("killed_operation_histories" if t.startswith("k") else ("failed_setup_histories" if t.startswith("e") else "many_small_files_histories"))
            continue
        # the model against the multi-threaded run (traces are compared without the concurrently issued groups' order)
        cid, archs, r = finals[2]
        names = l4.Names()
        scen.collect_names(names, steps, r)
        h = l4.History(f"h{t}", names)
        scen.add_model_history(h, steps, marks, r, names)
        hs.append(h)
    out = l4.evaluate(ctx, "C17", hs, shards=8)
    agreed = total = 0
    for h in hs:
        for desc, code in (out.get(h.cid) or []):
            total += 1
            if code == 0:
                agreed += 1
            else:
                g = next(x for x in groups if f"h{x[0]}" == h.cid)
                ctx.corr_fail("L4", f"history {h.cid} (multi-thread runtime): model and implementation differ at {desc}: code {code}", {"steps": g[1]})
                break
    ctx.layer("L4-multithread", agreed, total)
    if groups:
        ctx.sample({"history": [m["kind"] for m in groups[0][2] if m["kind"] in ("backup", "delete", "validate")], "runtimes": RUNTIMES})
    ctx.assumptions += ["task scheduling inside tokio is observed over four runtime flavours, not modelled",
                        "HashSet iteration order (unreferenced-block deletion order) varies between runs; the final archive must not depend on it"]


def replay(ctx, rep):
    from . import c02
    return c02.replay(ctx, rep)
