"""C15 — Exclusions mean the same thing at backup, list and restore time."""
import concurrent.futures
import json

from .. import common, gen
from ..common import gallina_str, gallina_list

HEADER = "From CV Require Import Base.Str Apath Glob Corr.Run.\nLocal Open Scope N_scope.\n"

LITS = ["a", "b", "ab", "a.b", "a-b", ".a", "~", "ñ", "añ", "ñx", "日", "B", "x", "f", "g", "in"]


def rand_segment(rng, names):
    r = rng.random()
    if r < 0.35:
        return rng.choice(names or LITS)
    if r < 0.45:
        return "**"
    atoms = []
    for _ in range(rng.randrange(1, 4)):
        q = rng.random()
        if q < 0.45:
            atoms.append(rng.choice(["a", "b", "x", ".", "-", "ñ", "f", "B", "~", "ab"]))
        elif q < 0.65:
            atoms.append("*")
        elif q < 0.8:
            atoms.append("?")
        else:
            atoms.append(rng.choice(["[ab]", "[!a]", "[a-c]", "[!a-cx]", "[.~]", "[b-]"]))
    return "".join(atoms)


def rand_pattern(rng, names, weird=True):
    if weird and rng.random() < 0.06:
        return rng.choice(["", "/", "*", "**", "/**", "a**", "*/", "**/", "[", "[!", "a[", "[z-a]", "//", "a//b", "***", "/*/"])
    segs = [rand_segment(rng, names) for _ in range(rng.randrange(1, 4))]
    p = "/".join(segs)
    if rng.random() < 0.45:
        p = "/" + p
    return p


def derived_paths(rng, pat):
    """paths shaped after the pattern itself (each segment instantiated), at the top, nested, and with something below"""
    import re as _re
    segs = [x for x in pat.strip("/").split("/") if x]
    if not segs or len(segs) > 4:
        return []
    inst = []
    for sg in segs:
        if sg == "**":
            inst.append(rng.choice(["m", "m/n"]))
            continue
        t = _re.sub(r"\[[^\]]*\]", "a", sg).replace("*", rng.choice(["", "x", "xy"])).replace("?", "y")
        inst.append(t or "z")
    body = "/".join(inst)
    out = ["/" + body, "/" + body + "/below", "/top/" + body, "/top/deep/" + body + "/below"]
    return [p for p in out if gen.is_valid_apath(p)]


def model_excl(ctx, queries, tag):
    """queries: list of (patterns, [paths]) -> list of lists of codes via Glob.excl_str."""
    shards = 8
    per = (len(queries) + shards - 1) // shards
    jobs = []
    for s in range(shards):
        part = queries[s * per:(s + 1) * per]
        if not part:
            continue
        rows = []
        for pats, paths in part:
            rows.append("(" + gallina_list([gallina_str(p) for p in pats]) + "," + gallina_list([gallina_str(p) for p in paths]) + ")")
        body = HEADER + """
Definition xcode (x : xresult) : N := match x with XBool false => 0 | XBool true => 1 | XError => 2 | XUnsupported => 3 | XPanic => 4 end.
Definition qs : list (list str * list str) := """ + gallina_list(rows) + """.
Eval vm_compute in flat_map (fun q => map (fun p => xcode (excl_str (fst q) p)) (snd q) ++ [9]) qs.
"""
        jobs.append((s, part, body))
    out = {}
    with concurrent.futures.ThreadPoolExecutor(max_workers=16) as ex:
        futs = {ex.submit(common.coq_eval, f"C15_{tag}_{s}", body, 1800): (s, part) for s, part, body in jobs}
        for fut in concurrent.futures.as_completed(futs):
            s, part = futs[fut]
            ok, txt = fut.result()
            blocks = common.parse_eval_blocks(txt)
            if not ok or not blocks:
                ctx.corr_fail("L1", "model evaluation failed: " + txt[-500:], {})
                out[s] = None
                continue
            nums = common.parse_nums(blocks[0].split("%")[0])
            rows, cur = [], []
            for x in nums:
                if x == 9:
                    rows.append(cur)
                    cur = []
                else:
                    cur.append(x)
            out[s] = rows
    res = []
    for s in range(shards):
        part = queries[s * per:(s + 1) * per]
        if not part:
            continue
        rows = out.get(s)
        res.extend(rows if rows is not None and len(rows) == len(part) else [None] * len(part))
    return res


def l1_patterns(ctx, n):
    names = LITS
    queries = []
    for _ in range(n):
        pats = [rand_pattern(ctx.rng, names) for _ in range(ctx.rng.choice([1, 1, 1, 2]))]
        paths = []
        for _ in range(10):
            d = ctx.rng.randrange(0, 4)
            paths.append("/" + "/".join(ctx.rng.choice(names + ["c", "ab.o", "a c", "xa"]) for _ in range(d)))
        for pat in pats:
            paths.extend(derived_paths(ctx.rng, pat))
        queries.append((pats, paths))
    impl = ctx.cvh_eval([{"fn": "excl", "pats": p, "paths": q} for p, q in queries])
    model = model_excl(ctx, queries, "l1")
    agreed = total = 0
    for (pats, paths), im, mo in zip(queries, impl, model):
        ctx.count(len(paths))
        if mo is None:
            continue
        icodes = [2] * len(paths) if isinstance(im, dict) else im
        if any(x == 3 for x in mo):
            ctx.dist("patterns_outside_modelled_syntax")
            continue
        total += 1
        if 4 in mo:
            ctx.corr_fail("L1", f"model parser reached an unreachable state on {pats!r}", {"pats": pats})
            continue
        if icodes != mo:
            k = next(i for i in range(len(paths)) if icodes[i] != mo[i])
            ctx.corr_fail("L1", f"exclusion model and implementation differ: patterns {pats!r} path {paths[k]!r}: model {mo[k]} implementation {icodes[k]} (0 no, 1 excluded, 2 pattern error)",
                          {"pats": pats, "path": paths[k]})
        else:
            agreed += 1
            if 1 in mo and 0 in mo:
                ctx.nontrivial("pat:" + json.dumps(pats))
        ctx.dist("pattern_error" if 2 in mo else "pattern_ok")
    ctx.layer("L1-exclude", agreed, total)
    ctx.sample({"patterns": queries[0][0], "paths": queries[0][1][:5]})


def tree_names(tree):
    return sorted({p.rsplit("/", 1)[1] for p, _ in gen.tree_paths(tree) if p != "/"})


def add_prefix_trap(rng, tree):
    """Give some directory a sub-directory D with contents plus siblings whose names merely EXTEND D's name
    (D.rs, D-x/..., D2, Dñ): an exclusion of D must drop D's contents and none of those.  Returns a pattern for D."""
    def f(data):
        return {"k": "f", "data": data.hex(), "mode": 0o644, "mtime": 10**18}

    def d(children):
        return {"k": "d", "mode": 0o755, "mtime": 10**18, "c": children}
    node, path = tree, ""
    for _ in range(rng.randrange(0, 3)):
        subs = [(k, v) for k, v in node["c"].items() if v["k"] == "d"]
        if not subs:
            break
        k, node = rng.choice(subs)
        path += "/" + k
    base = rng.choice(["build", "t", "ñ", "a"])
    for k in [k for k in node["c"] if k.startswith(base)]:
        del node["c"][k]
    node["c"][base] = d({"out.o": f(b"o"), "deep": d({"more": f(b"m")})})
    for suf in rng.sample([".rs", "-x", "2", "ñ", " y", "~", "!"], 3):
        if rng.random() < 0.5:
            node["c"][base + suf] = f(b"sib" + suf.encode())
        else:
            node["c"][base + suf] = d({"in": f(b"in" + suf.encode())})
    # also patterns that END in a single '*' and match the directory: its contents are excluded with it
    return rng.choice([path + "/" + base, base, "**/" + base, path + "/" + base[:-1] + "*", base + "*", base[:1] + "*"])


def end_to_end(ctx, n):
    cases = []
    for t in range(n):
        tree = gen.rand_tree(ctx.rng, depth=ctx.rng.choice([2, 3, 3]), fanout=4, neg_frac=False, owners=False)
        trap = None
        if t % 3 == 0:
            trap = add_prefix_trap(ctx.rng, tree)
        names = tree_names(tree)
        pats = []
        if trap is not None:
            pats.append(trap)
        if t % 3 == 1:
            # an unanchored pattern of two plain names, parent/child, taken from the tree: it matches at any depth
            nested = [(p, n) for p, n in gen.tree_paths(tree) if p.count("/") >= 2 and not set(p) & set("*?[]{},\\!\n")]
            if nested:
                pp = ctx.rng.choice(nested)[0]
                pats.append("/".join(pp.split("/")[-2:]))
        for _ in range(ctx.rng.choice([1, 1, 2, 3])):
            for _try in range(20):
                p = rand_pattern(ctx.rng, [x for x in names if not set(x) & set("*?[]{},\\!\n")] or LITS, weird=False)
                if p not in ("", "/"):
                    break
            pats.append(p)
        if t % 5 == 1:
            # unanchored patterns whose wildcard is followed by more text, or that begin with a one-character wildcard: the
            # wildcard matches within ONE name, never across a '/'
            leaf1 = {"k": "f", "data": "6c", "mode": 0o644, "mtime": 10**18 + 8}
            def d1(c_):
                return {"k": "d", "mode": 0o755, "mtime": 10**18, "c": c_}
            tree["c"].update({"libx.a": dict(leaf1), "libs": d1({"größe.a": dict(leaf1), "other": dict(leaf1)}),
                              "libfoo": d1({"pkg.a": d1({"data": dict(leaf1)}), "readme": dict(leaf1)}),
                              "tmp": d1({"keep": dict(leaf1)}), "xtmp": dict(leaf1), "sub": d1({"ytmp": dict(leaf1), "tmp": dict(leaf1)})})
            pats = ctx.rng.choice([["lib*.a", "?tmp"], ["lib*.a"], ["?tmp"], ["lib[!x]*.a", "[!a]tmp"]])
            names = tree_names(tree)
        if t % 5 == 2:
            # a recursive wildcard in the MIDDLE of a pattern also stands for no directory at all: /src/**/gen matches /src/gen
            leaf = {"k": "f", "data": "67", "mode": 0o644, "mtime": 10**18 + 6}
            def dd(c_):
                return {"k": "d", "mode": 0o755, "mtime": 10**18, "c": c_}
            tree["c"]["src"] = dd({"gen": dd({"out.rs": dict(leaf)}), "mod": dd({"gen": dd({"x": dict(leaf)}), "keep": dict(leaf)}), "general": dict(leaf)})
            pats = [ctx.rng.choice(["/src/**/gen", "src/**/gen", "/src/**/gen/*", "/src/**/mod/gen"])]
            if ctx.rng.random() < 0.3:
                pats.append("/src/mod/**/x")
            names = tree_names(tree)
        if t % 5 == 3:
            # a narrow pattern followed by a broader one whose TEXT the narrow one matches ("backup.?" then "backup.*"):
            # the set means the union; entries that only the broader one matches are in the tree
            stem = ctx.rng.choice(["backup.", "a", "x-", "tmp"])
            kid = {"k": "f", "data": "64", "mode": 0o644, "mtime": 10**18 + 4}
            tree["c"][stem + "1"] = dict(kid)
            tree["c"][stem + "old"] = dict(kid)
            tree["c"][stem + "2021"] = {"k": "d", "mode": 0o755, "mtime": 10**18, "c": {"data": dict(kid)}}
            tree["c"]["keep-" + stem] = dict(kid)
            pair = ctx.rng.choice([(stem + "?", stem + "*"), (stem + "[!0-9]", stem + "*"), ("/" + stem + "?", "/" + stem + "*"), (stem + "?", stem + "?*")])
            pats = list(pair) if ctx.rng.random() < 0.8 else [pair[1], pair[0]]
            names = tree_names(tree)
        if t % 5 == 4:
            # pattern sets in which EVERY pattern is anchored and one has a character class in a directory component (not the
            # last one): what the class matches is a directory, what is excluded lies one level further down
            yrs = ["2018", "2019", "20x", "2o19"]
            tree["c"]["logs"] = {"k": "d", "mode": 0o755, "mtime": 10**18, "c": {
                y: {"k": "d", "mode": 0o755, "mtime": 10**18, "c": {
                    "raw": {"k": "d", "mode": 0o755, "mtime": 10**18, "c": {"f": {"k": "f", "data": "72", "mode": 0o644, "mtime": 10**18 + 1}}},
                    "kept": {"k": "f", "data": "6b", "mode": 0o644, "mtime": 10**18 + 2}}} for y in yrs}}
            pats = [ctx.rng.choice(["/logs/201[0-9]/raw", "/logs/20[1x][89x]/raw", "/logs/2[0o]1[89]/raw/f", "/logs/201[!8]/raw"])]
            if ctx.rng.random() < 0.5:
                pats.append("/logs/20x/kept")
            names = tree_names(tree)
        opts = gen.rand_opts(ctx.rng)
        if t % 3 == 2:
            # a directory whose children alternate between a matching and a non-matching name, stored in index hunks of an
            # odd number of entries: whatever the alignment, some hunk begins and ends with an excluded entry and has kept
            # ones in between
            ext = ctx.rng.choice([".o", "~", ".tmp"])
            kids = {}
            for k in range(11):
                nm = "%x%s" % (k, ext if k % 2 == 0 else ctx.rng.choice([".c", ".h", ""]))
                kids[nm] = {"k": "f", "data": gen.rand_bytes(ctx.rng, 3).hex(), "mode": 0o644, "mtime": 10**18 + k}
            tree["c"][ctx.rng.choice(["dd", "src~", "données"])] = {"k": "d", "mode": 0o755, "mtime": 10**18, "c": kids}
            pats.append("*" + ext)
            opts = dict(opts, meph=ctx.rng.choice([3, 5]))
        steps = [{"op": "init"}, {"op": "mktree", "path": "src", "tree": tree},
                 {"op": "backup", "opts": opts},
                 {"op": "list", "band": 0},
                 {"op": "list", "band": 0, "excludes": pats},
                 {"op": "restore", "band": 0, "excludes": pats, "dest": "out"},
                 {"op": "backup", "opts": dict(opts, excludes=pats)},
                 {"op": "list", "band": 1}]
        cases.append({"id": f"e{t}", "tree": tree, "pats": pats, "opts": opts, "steps": steps})
    res = ctx.cvh_run(cases)
    # which paths does each pattern set match, according to the implementation's matcher
    allpaths = [[p for p, _ in gen.tree_paths(c["tree"])] for c in cases]
    match = ctx.cvh_eval([{"fn": "excl", "pats": c["pats"], "paths": ps} for c, ps in zip(cases, allpaths)])
    model = model_excl(ctx, [(c["pats"], ps) for c, ps in zip(cases, allpaths)], "e2e")
    agreed = total = 0
    for c, paths, m, mo in zip(cases, allpaths, match, model):
        r = res.get(c["id"])
        ctx.count()
        small = {"tree": c["tree"], "pats": c["pats"], "opts": c["opts"]}
        if r is None:
            ctx.oracle_fail("excl/harness-died", "harness died or hung", small)
            continue
        if isinstance(m, dict):
            continue     # pattern set rejected by globset: nothing to compare
        if mo is not None and 3 not in mo:
            total += 1
            if mo == m:
                agreed += 1
            else:
                k = next(i for i in range(len(paths)) if m[i] != mo[i])
                ctx.corr_fail("L1", f"exclusion model and implementation differ: patterns {c['pats']!r} path {paths[k]!r}", {"pats": c["pats"], "path": paths[k]})
        pan = [x.get("panic") for x in r if isinstance(x, dict) and x.get("panic")]
        if pan or any(r[k].get("result") != "ok" for k in (2, 3, 4, 5, 6, 7)):
            ctx.oracle_fail("excl/op-failed", "an operation failed or crashed: " + json.dumps(pan or [x.get("err") for x in r if isinstance(x, dict) and x.get("err")])[:300], small)
            continue
        if mo is not None and 3 not in mo and mo != m:
            # the documented meaning of the patterns (the model) against what was stored / listed / restored
            mmatched = {p for p, b in zip(paths, mo) if b == 1 and p != "/"}
            mexpect = sorted((p for p in paths if p != "/" and not any(gen.comp_prefix(q, p) for q in mmatched)), key=gen.apath_key)
            stored = [e["apath"] for e in r[7]["value"] if e["apath"] != "/"]
            if stored != mexpect:
                extra = [p for p in stored if p not in mexpect][:5]
                missing = [p for p in mexpect if p not in stored][:5]
                ctx.oracle_fail("excl/pattern-meaning", f"backup with {c['pats']!r}: by the documented meaning of the patterns (anchored with a leading '/', "
                                f"otherwise matching at any depth; a match excludes everything below) it wrongly kept {extra}, wrongly dropped {missing}", small)
                continue
        matched = {p for p, b in zip(paths, m) if b and p != "/"}
        expect = sorted((p for p in paths if p != "/" and not any(gen.comp_prefix(q, p) for q in matched)), key=gen.apath_key)
        full = [e["apath"] for e in r[3]["value"]]
        a = [e["apath"] for e in r[7]["value"] if e["apath"] != "/"]
        b = [e["apath"] for e in r[4]["value"] if e["apath"] != "/"]
        cset = sorted((p for p, _ in gen.tree_paths(r[5]["tree"]) if p != "/"), key=gen.apath_key) if r[5].get("tree") else []
        if sorted(full, key=gen.apath_key) != sorted(paths, key=gen.apath_key):
            ctx.oracle_fail("excl/full-backup", "a backup without exclusions did not store every entry", small)
            continue
        for name, got in (("backup-with-exclusions", a), ("list-with-exclusions", b), ("restore-with-exclusions", cset)):
            if got != expect:
                extra = [p for p in got if p not in expect][:5]
                missing = [p for p in expect if p not in got][:5]
                ctx.oracle_fail("excl/" + name, f"{name} with {c['pats']!r}: wrongly kept {extra}, wrongly dropped {missing}", small)
                break
        else:
            if matched and expect:
                ctx.nontrivial("e2e:" + json.dumps([c["pats"], expect[:6]]))
            ctx.dist("e2e_cases")
            ctx.dist("e2e_excluded_entries", len(paths) - 1 - len(expect))
    ctx.layer("L1-exclude-tree-paths", agreed, total)
    if cases:
        ctx.sample({"patterns": cases[0]["pats"], "tree_paths": allpaths[0][:10]})


def run(ctx):
    quick = ctx.tier == "quick"
    ctx.cov["rule"] = ("pattern strings from a grammar (anchored/unanchored literals incl. non-ASCII and directory names of the tree, '*', '?', '**', "
                       "classes, plus malformed and odd ones) x paths: Exclude::matches vs Glob.excl_str (the modelled globset parser + matcher); "
                       "trees x pattern sets of size 1-3: entries stored by backup-with-exclusions == listing-with-exclusions == restore-with-"
                       "exclusions == paths with no matching ancestor-or-self (root aside). non-trivial = pattern set that excludes some but not all")
    l1_patterns(ctx, 400 if quick else 20000)
    end_to_end(ctx, 50 if quick else 1500)
    ctx.assumptions += ["globset syntax outside the model ({a,b} alternates, backslash escapes, non-ASCII inside classes) is exercised only end-to-end",
                        "cache-tagged directories are set aside, as in the property", "'?' and classes match one BYTE (globset bytes mode)"]


def replay(ctx, rep):
    r = rep.get("replay", rep)
    ctx.build()
    if "path" in r:
        print("implementation:", ctx.cvh_eval([{"fn": "excl", "pats": r["pats"], "paths": [r["path"]]}]))
        print("model:", model_excl(ctx, [(r["pats"], [r["path"]])], "replay"))
    else:
        print(json.dumps(r)[:1500])
    return 0
