"""C10 — Damage to one stored file is contained and never crashes the tool."""
import json

from .. import damage, gen, scen


def run(ctx):
    quick = ctx.tier == "quick"
    bases, cases, info, res = damage.build_cases(ctx, 2 if quick else 20, 1 if quick else 6)
    ctx.cov["rule"] = ("archives from varied histories (three versions, sometimes an interrupted one): EVERY archive file other than the header x "
                       "{delete, truncate to 0, truncate to half, garbage} + seeded bit flips; then versions, ls and restore of every band, "
                       "restore of the latest complete one, validate full/quick, a new backup and its restore. Oracle: nothing crashes or hangs; in "
                       "every version that still opens a restore either equals the undamaged restore or reports an error; after delete/empty damage "
                       "a new backup completes and restores exactly. non-trivial = distinct (file class, damage kind) whose damage changes some restore")
    for c in cases:
        b, f, cls, kind, dmg = info[c["id"]]
        r = res.get(c["id"])
        ctx.count()
        small = {"base_steps": b["steps"], "damage": dmg}
        if cls in ("header", "lock"):
            continue
        if r is None:
            ctx.oracle_fail("damage/hang", f"after {kind} of {f} the tool hung or the process died", small)
            continue
        nb = len(b["steps"])
        probe = r[nb + 2:]
        idx = damage.probe_index(b["nbands"])
        names = {v: k for k, v in idx.items()}
        failed = False
        for k, pr in enumerate(probe):
            if isinstance(pr, dict) and (pr.get("panic") or pr.get("timeout")):
                what = names.get(k)
                sig = "damage/panic"
                if pr.get("panic") and "semver" in str(pr.get("panic")).lower() or "ParseError" in str(pr.get("panic")) or "unexpected character" in str(pr.get("panic")):
                    sig = "damage/panic-band-version"
                ctx.oracle_fail(sig, f"after {kind} of {f} ({cls}), {what} crashed: {str(pr.get('panic') or 'timeout')[:140]}", small)
                failed = True
                break
        if failed:
            continue
        ref = b["probe_ref"]
        changed_any = False
        after = r[nb + 1]["arch"]["files"].get(f)
        still_decodable = after is not None and cls in ("hunk", "head", "tail") and after.get("t") in ("hunk", "json") \
            and kind in ("bitflip", "garbage", "trunchalf", "hunkaddr", "tailcount")
        touched = damage.touched_paths(b["arch"], f) if cls in ("hunk", "block") else None
        for band in range(b["nbands"]):
            got, want = probe[idx[("restore", band)]], ref[idx[("restore", band)]]
            if want.get("result") != "ok":
                continue
            if touched is not None and got.get("tree") is not None and not still_decodable:
                # every file / symlink whose index hunk and blocks are untouched restores exactly
                for pth, node in gen.tree_paths(want["tree"]):
                    if node["k"] == "d" or pth in touched:
                        continue
                    gn = damage.tree_node(got["tree"], pth)
                    if gn is None or any(gn.get(k) != node.get(k) for k in ("k", "data", "target", "mtime", "mode", "uid", "gid")):
                        ctx.oracle_fail("damage/untouched-file-not-restored", f"after {kind} of {f} ({cls}), restoring b{band:04d}: {pth!r}, whose index hunk and "
                                        f"blocks are untouched, {'is missing' if gn is None else 'differs'} (errors reported: {damage.errs(got)})", small)
                        failed = True
                        break
                if failed:
                    break
            if got.get("tree") is not None and cls == "block" and not failed:
                # per file: a file that restores differently (or not at all) is NAMED in an error, not merely accompanied by one
                errtext = json.dumps(got.get("monitor_errors") or []) + json.dumps(got.get("err") or "")
                for pth, node in gen.tree_paths(want["tree"]):
                    if node["k"] != "f":
                        continue
                    gn = damage.tree_node(got["tree"], pth)
                    if (gn is None or gn.get("data") != node.get("data")) and json.dumps(pth)[1:-1] not in errtext:
                        ctx.oracle_fail("damage/file-altered-without-its-own-error", f"after {kind} of {f} ({cls}), restoring b{band:04d}: {pth!r} is "
                                        f"{'missing' if gn is None else 'restored with other bytes'} and no reported error names it "
                                        f"({damage.errs(got)} errors reported for other files)", small)
                        failed = True
                        break
                if failed:
                    break
            if got.get("result") == "ok" or got.get("tree") is not None:
                d = scen.first_difference(scen.strip(want.get("tree")), scen.strip(got.get("tree")))
                if d is not None:
                    changed_any = True
                    if damage.errs(got) == 0 and not still_decodable:
                        sig = "damage/silent-hunk" if cls == "hunk" else "damage/silent-" + cls
                        if kind == "delete" and damage.is_last_hunk_of_open_band(b["arch"], f):
                            sig = "damage/last-hunk-of-open-band-silent"
                        if kind == "delete" and cls == "head" and f != f"b{band:04d}/BANDHEAD" \
                                and b["arch"]["files"].get(f"b{band:04d}/BANDTAIL") is None:
                            sig = "damage/deleted-head-of-older-band-silent"
                        ctx.oracle_fail(sig, f"after {kind} of {f} ({cls}), restoring b{band:04d} differs at {d[0]!r} ({d[1]}) "
                                             f"from the undamaged restore but no error was reported", small)
                        failed = True
                        break
            else:
                changed_any = True
        if failed:
            continue
        if kind in ("delete", "trunc0"):
            bk, rn = probe[idx["backup"]], probe[idx["restore_new"]]
            if bk.get("result") != "ok" or bk["value"]["errors"] != 0:
                # a band whose head is gone cannot be opened as basis; that must not stop a new backup
                ctx.oracle_fail("damage/backup-does-not-heal", f"after {kind} of {f} ({cls}) a new backup did not complete cleanly: "
                                                               f"{json.dumps(bk.get('err') or bk.get('monitor_errors'))[:200]}", small)
                continue
            if rn.get("result") != "ok" or damage.errs(rn) or scen.first_difference(scen.strip(r[nb - 3]["tree"]), scen.strip(rn.get("tree"))):
                ctx.oracle_fail("damage/new-backup-does-not-restore", f"after {kind} of {f} ({cls}) the new backup does not restore exactly: "
                                                                      f"{json.dumps(rn.get('err') or rn.get('monitor_errors'))[:200]}", small)
                continue
        if changed_any:
            ctx.nontrivial(cls + ":" + kind)
        ctx.dist(f"damage_{cls}_{kind}")
    damage.model_probe(ctx, "C10d", cases, info, res, every=1 if quick else 4)
    k = damage.open_band_last_hunk_case(ctx)
    ctx.count()
    if k is not None:
        steps, dmg, before, after, v, vq = k
        d = scen.first_difference(scen.strip(before.get("tree")), scen.strip(after.get("tree"))) if before.get("result") == "ok" else None
        if d is not None and damage.errs(after) == 0:
            ctx.oracle_fail("damage/last-hunk-of-open-band-silent", f"an interrupted version (no BANDTAIL) that loses its LAST index hunk restores {d[0]!r} "
                            f"differently ({d[1]}) with no error reported", {"base_steps": steps, "damage": dmg})
    k = damage.deleted_head_case(ctx)
    ctx.count()
    if k is not None:
        steps, dmg, before, after = k
        d = scen.first_difference(scen.strip(before.get("tree")), scen.strip(after.get("tree"))) if before.get("result") == "ok" else None
        if d is not None and damage.errs(after) == 0:
            ctx.oracle_fail("damage/deleted-head-of-older-band-silent", f"restoring an interrupted version after the BANDHEAD of the version below it was "
                            f"deleted: {d[0]!r} differs ({d[1]}) with no error reported", {"base_steps": steps, "damage": dmg})
    if cases:
        ctx.sample({"damaged_file": info[cases[0]["id"]][1], "kind": info[cases[0]["id"]][3]})
    ctx.assumptions += ["panics or hangs inside snap / serde_json / jiff on odd bytes are only observed (bit-flip stream), not proved absent",
                        "the archive header is excluded, as in the property",
                        "removing or emptying a BANDTAIL turns the band into the format's legal 'incomplete' state and is not counted as damage"]


def replay(ctx, rep):
    r = rep.get("replay", rep)
    ctx.build()
    steps = r["base_steps"] + [r["damage"]] + damage.probe_steps(3, {})
    out = ctx.cvh_run([{"id": "r", "steps": steps}])["r"]
    for st, rs in zip(steps, out):
        if isinstance(rs, dict) and st["op"] not in ("mktree", "snap"):
            print(st["op"], st.get("band"), {k: rs.get(k) for k in ("result", "panic", "timeout") if rs.get(k)}, "errors:", damage.errs(rs))
    return 0
