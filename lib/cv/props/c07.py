"""C07 — Archive files are write-once: backup never alters or removes existing files."""
import json

from .. import common, gen, l4, scen
from ..common import gallina_list

HEADER = l4.HEADER
HEAD_JSON = b'{"start_time":1,"band_format_version":"0.6.3"}\n'
TAIL_JSON = b'{"end_time":2,"index_hunk_count":0}\n'

# typed path -> (real path, gallina term, payload bytes, gallina payload)
FILES = {
    "head": ("b0000/BANDHEAD", "(PHead 0)", HEAD_JSON, "(PlHead HvOk)"),
    "tail": ("b0000/BANDTAIL", "(PTail 0)", TAIL_JSON, "(PlTail (Some 0))"),
    "lock": ("GC_LOCK", "PLock", b"{}\n", "PlJson"),
    "head1": ("b0001/BANDHEAD", "(PHead 1)", HEAD_JSON, "(PlHead HvOk)"),
}
DIRS = {"band": ("b0000", "(DBand 0)"), "band1": ("b0001", "(DBand 1)"), "index": ("b0000/i", "(DIndex 0)"), "root": ("", "DRoot")}


def transport_contract(ctx, n):
    """Direct Transport calls: model exec vs implementation, plus the write-once oracle."""
    cases, metas = [], []
    for t in range(n):
        calls, msteps, kinds = [], [], []
        steps = [{"op": "init"}]
        seq = []
        for _ in range(ctx.rng.randrange(4, 14)):
            r = ctx.rng.random()
            if r < 0.2:
                d = ctx.rng.choice(list(DIRS))
                seq.append(("mkdir", d))
            elif r < 0.6:
                f = ctx.rng.choice(list(FILES))
                seq.append(("write", f, "CreateNew" if ctx.rng.random() < 0.8 else "Overwrite"))
            elif r < 0.7:
                seq.append(("truncate", ctx.rng.choice(list(FILES))))
            elif r < 0.8:
                seq.append(("read", ctx.rng.choice(list(FILES))))
            elif r < 0.87:
                seq.append(("meta", ctx.rng.choice(list(FILES))))
            elif r < 0.94:
                seq.append(("list", ctx.rng.choice(list(DIRS))))
            else:
                seq.append(("remove", ctx.rng.choice(list(FILES))))
        # group consecutive transport calls into one step; truncation is a damage step
        cur = []
        for s in seq:
            if s[0] == "truncate":
                if cur:
                    steps.append({"op": "transport", "calls": cur})
                    cur = []
                steps.append({"op": "damage", "file": FILES[s[1]][0], "kind": "trunc0_if_exists"})
            else:
                path = (DIRS if s[0] in ("mkdir", "list") else FILES)[s[1]][0]
                if s[0] == "write":
                    cur.append({"verb": "write", "path": path, "hex": FILES[s[1]][2].hex(), "mode": s[2]})
                else:
                    cur.append({"verb": {"mkdir": "create_dir", "read": "read", "meta": "metadata", "list": "list_dir", "remove": "remove_file"}[s[0]], "path": path})
        if cur:
            steps.append({"op": "transport", "calls": cur})
        steps.append({"op": "arch"})
        cases.append({"id": f"t{t}", "steps": steps})
        metas.append(seq)
    res = ctx.cvh_run(cases)
    lines = []
    expect = []
    for c, seq in zip(cases, metas):
        r = res.get(c["id"])
        ctx.count()
        if r is None:
            ctx.oracle_fail("contract/harness-died", "harness died", {"seq": seq})
            continue
        # flatten implementation replies in sequence order; track which files exist and are empty
        replies = []
        for st, rs in zip(c["steps"], r):
            if st["op"] == "transport":
                replies.extend(rs.get("value") or [])
        # write-once oracle on the implementation alone
        exists = {}
        k = 0
        bad = None
        have_dir = {"root"}
        for s in seq:
            if s[0] == "truncate":
                if s[1] in exists:
                    exists[s[1]] = "empty"
                continue
            rep = replies[k]
            k += 1
            if s[0] == "mkdir" and rep["ok"]:
                have_dir.add(s[1])
            if s[0] == "write":
                if s[2] == "CreateNew" and exists.get(s[1]) == "full" and rep["ok"]:
                    bad = f"a second CreateNew write of {FILES[s[1]][0]} succeeded over existing content"
                    break
                if rep["ok"]:
                    exists[s[1]] = "full"
            if s[0] == "remove" and rep["ok"]:
                exists.pop(s[1], None)
        if bad:
            ctx.oracle_fail("contract/createnew-overwrites", bad, {"seq": seq})
            continue
        # model
        ts = []
        for s in seq:
            if s[0] == "truncate":
                ts.append(f"TTrunc {FILES[s[1]][1]}")
            elif s[0] == "mkdir":
                ts.append(f"TOp (OpMkdir {DIRS[s[1]][1]})")
            elif s[0] == "list":
                ts.append(f"TOp (OpList {DIRS[s[1]][1]})")
            elif s[0] == "write":
                ts.append(f"TOp (OpWrite {FILES[s[1]][1]} {FILES[s[1]][3]} {s[2]})")
            elif s[0] == "read":
                ts.append(f"TOp (OpRead {FILES[s[1]][1]})")
            elif s[0] == "meta":
                ts.append(f"TOp (OpMeta {FILES[s[1]][1]})")
            elif s[0] == "remove":
                ts.append(f"TOp (OpRemoveFile {FILES[s[1]][1]})")
        names = l4.Names()
        impl = []
        k = 0
        for s in seq:
            if s[0] == "truncate":
                continue
            rep = replies[k]
            k += 1
            path = (DIRS if s[0] in ("mkdir", "list") else FILES)[s[1]][0]
            if not rep["ok"]:
                impl.append(f"(RErr {l4.KIND.get(rep['err'], 'EOther')})")
            elif s[0] == "read":
                from ..common import gallina_str
                data = bytes.fromhex(rep["v"])
                if not data:
                    impl.append("(RData Empty)")
                else:
                    impl.append("(RData (Good %s))" % FILES[s[1]][3])
            elif s[0] == "meta":
                impl.append("(RMeta %s)" % ("true" if rep["v"][1] > 0 else "false"))
            elif s[0] == "list":
                it = {"path": path, "reply": {"ok": True, "list": rep["v"]}}
                impl.append(l4.g_reply(it, names))
            else:
                impl.append("ROk")
        lines.append((seq, gallina_list(ts), gallina_list(impl)))
    body = HEADER + """
Definition TTrunc (f : fpath) : tstep := TTruncate f.
Definition a_init : Store.arch := {| dirs := [DRoot; DBlocks]; files := [(PHeader, Good PlJson)] |}.
(* truncating a file that does not exist is a no-op in the harness *)
Fixpoint norm (a : Store.arch) (l : list tstep) : list tstep := l.
Definition chk (l : list tstep) (impl : list reply) : N :=
  match replies_diff (fst (run_tsteps (fun _ => 0) a_init l)) impl 0 with None => 0 | Some i => 1 + i end.
Definition results : list N := """ + gallina_list([f"(chk {ts} {impl})" for _, ts, impl in lines]) + ".\nEval vm_compute in results.\n"
    ok, out = common.coq_eval("C07_contract", body, 900)
    blocks = common.parse_eval_blocks(out)
    if not ok or not blocks:
        ctx.corr_fail("L1", "model evaluation failed: " + out[-500:], {})
        return
    nums = common.parse_nums(blocks[0].split("%")[0])
    agreed = 0
    for (seq, _, _), code in zip(lines, nums):
        if code == 0:
            agreed += 1
            ctx.nontrivial("contract:" + json.dumps(seq))
        else:
            ctx.corr_fail("L1", f"Transport contract: model exec and the local transport differ at call {code - 1} of {seq}", {"seq": seq})
    ctx.layer("L1-transport-contract", agreed, len(lines))
    ctx.sample({"transport_calls": metas[0]})


def history_write_once(ctx, n, nsteps):
    cases = []
    for t in range(n):
        steps, marks = scen.rand_history(ctx.rng, nsteps)
        cases.append({"id": f"h{t}", "steps": steps, "marks": marks})
    # a backup killed around the creation of its band (directory only, directory + i/, empty head), then another backup:
    # the new version gets an id above EVERY existing directory and nothing lands in the leftover
    for k in (4, 5, 6, 7):
        for kind in ("crash", "crash_empty"):
            t0 = scen.small_tree(ctx.rng)
            t1, _ = gen.mutate_tree(ctx.rng, t0)
            o = scen.small_opts(ctx.rng)
            steps = [{"op": "init"}, {"op": "mktree", "path": "src", "tree": t0}, {"op": "snap", "path": "src"}, {"op": "walk"},
                     {"op": "backup", "opts": o}, {"op": "arch"},
                     {"op": "backup", "opts": o, "plan": {kind: k}}, {"op": "arch"},
                     {"op": "mktree", "path": "src", "tree": t1}, {"op": "snap", "path": "src"}, {"op": "walk"},
                     {"op": "backup", "opts": o}, {"op": "arch"}]
            marks = [{"kind": "init"}, {"kind": "mktree", "tree": t0}, {"kind": "snap"}, {"kind": "walk"},
                     {"kind": "backup", "plan": None, "tree": t0, "snap_at": 2}, {"kind": "arch"},
                     {"kind": "backup", "plan": {kind: k}, "tree": t0, "snap_at": 2}, {"kind": "arch"},
                     {"kind": "mktree", "tree": t1}, {"kind": "snap"}, {"kind": "walk"},
                     {"kind": "backup", "plan": None, "tree": t1, "snap_at": 9}, {"kind": "arch"}]
            cases.append({"id": f"b{k}{kind[-1]}", "steps": steps, "marks": marks})
    # an interrupted version (hunks, no tail) whose blocks nothing else refers to; later a completed backup of a changed
    # source, then gc and a delete of another version: the interrupted version's blocks are referenced and must stay
    for kk in (26, 33, 41):
        def uf(d, m):
            return {"k": "f", "data": d.hex(), "mode": 0o644, "mtime": 10**18 + m}
        u0 = {"k": "d", "mode": 0o755, "mtime": 10**18, "c": {f"u{i}": uf(b"first-%d" % i, i) for i in range(4)}}
        u1 = {"k": "d", "mode": 0o755, "mtime": 10**18, "c": {f"u{i}": uf(b"second-%d!" % i, 10 + i) for i in range(4)}}
        u2 = {"k": "d", "mode": 0o755, "mtime": 10**18, "c": {f"u{i}": uf(b"third--%d!!" % i, 20 + i) for i in range(4)}}
        o = {"meph": 1, "mbs": 64, "sfc": 0}
        steps = [{"op": "init"}, {"op": "mktree", "path": "src", "tree": u0}, {"op": "snap", "path": "src"}, {"op": "walk"},
                 {"op": "backup", "opts": o}, {"op": "arch"},
                 {"op": "mktree", "path": "src", "tree": u1}, {"op": "snap", "path": "src"}, {"op": "walk"},
                 {"op": "backup", "opts": o, "plan": {"crash": kk}}, {"op": "arch"},
                 {"op": "mktree", "path": "src", "tree": u2}, {"op": "snap", "path": "src"}, {"op": "walk"},
                 {"op": "backup", "opts": o}, {"op": "arch"},
                 {"op": "delete", "bands": [], "dry": False}, {"op": "arch"},
                 {"op": "delete", "bands": [0], "dry": False}, {"op": "arch"}]
        marks = [{"kind": "init"}, {"kind": "mktree", "tree": u0}, {"kind": "snap"}, {"kind": "walk"},
                 {"kind": "backup", "plan": None, "tree": u0, "snap_at": 2}, {"kind": "arch"},
                 {"kind": "mktree", "tree": u1}, {"kind": "snap"}, {"kind": "walk"},
                 {"kind": "backup", "plan": {"crash": kk}, "tree": u1, "snap_at": 7}, {"kind": "arch"},
                 {"kind": "mktree", "tree": u2}, {"kind": "snap"}, {"kind": "walk"},
                 {"kind": "backup", "plan": None, "tree": u2, "snap_at": 12}, {"kind": "arch"},
                 {"kind": "delete", "ids": [], "dry": False}, {"kind": "arch"},
                 {"kind": "delete", "ids": [0], "dry": False}, {"kind": "arch"}]
        cases.append({"id": f"i{kk}", "steps": steps, "marks": marks})
    # a delete killed while it holds the lock leaves GC_LOCK behind; a later delete / gc without --break-lock is refused and
    # must leave everything, that lock included, where it is
    for k in (6, 8, 11):
        t0 = scen.small_tree(ctx.rng)
        t1, _ = gen.mutate_tree(ctx.rng, t0)
        o = scen.small_opts(ctx.rng)
        steps = [{"op": "init"}, {"op": "mktree", "path": "src", "tree": t0}, {"op": "snap", "path": "src"}, {"op": "walk"},
                 {"op": "backup", "opts": o}, {"op": "arch"},
                 {"op": "mktree", "path": "src", "tree": t1}, {"op": "snap", "path": "src"}, {"op": "walk"},
                 {"op": "backup", "opts": o}, {"op": "arch"},
                 {"op": "delete", "bands": [0], "dry": False, "plan": {"crash": k}}, {"op": "arch"},
                 {"op": "delete", "bands": [], "dry": False}, {"op": "arch"},
                 {"op": "delete", "bands": [0], "dry": False}, {"op": "arch"}]
        marks = [{"kind": "init"}, {"kind": "mktree", "tree": t0}, {"kind": "snap"}, {"kind": "walk"},
                 {"kind": "backup", "plan": None, "tree": t0, "snap_at": 2}, {"kind": "arch"},
                 {"kind": "mktree", "tree": t1}, {"kind": "snap"}, {"kind": "walk"},
                 {"kind": "backup", "plan": None, "tree": t1, "snap_at": 7}, {"kind": "arch"},
                 {"kind": "delete", "ids": [0], "dry": False, "killed": True}, {"kind": "arch"},
                 {"kind": "delete", "ids": [], "dry": False}, {"kind": "arch"},
                 {"kind": "delete", "ids": [0], "dry": False}, {"kind": "arch"}]
        cases.append({"id": f"l{k}", "steps": steps, "marks": marks, "nomodel": True})
    res = ctx.cvh_run(cases)
    hs = []
    for c in cases:
        r = res.get(c["id"])
        ctx.count()
        if r is None:
            ctx.oracle_fail("writeonce/harness-died", "harness died or hung", {"steps": c["steps"]})
            continue
        prev = None
        prev_dec = None
        pending = None
        okcase = True
        for i, (st, mk, rs) in enumerate(zip(c["steps"], c["marks"], r)):
            if mk["kind"] in ("backup", "delete"):
                pending = (i, mk, rs)
                if rs.get("panic"):
                    ctx.oracle_fail("writeonce/panic", f"{mk['kind']} panicked: {rs['panic'][:150]}", {"steps": c["steps"][:i + 1]})
                    okcase = False
                    break
            if mk["kind"] == "arch":
                cur = scen.raw_files(rs["arch"])
                cur_arch = rs["arch"]
                if prev is not None and pending is not None:
                    j, pmk, prs = pending
                    if pmk["kind"] == "backup":
                        for p, hsh in prev.items():
                            was_empty = prev_arch["files"][p].get("t") == "empty"
                            if p == "GC_LOCK":
                                continue
                            if p not in cur:
                                ctx.oracle_fail("writeonce/backup-removed-file", f"backup removed existing archive file {p}", {"steps": c["steps"][:j + 2]})
                                okcase = False
                            elif cur[p] != hsh and not was_empty:
                                ctx.oracle_fail("writeonce/backup-altered-file", f"backup altered existing archive file {p}", {"steps": c["steps"][:j + 2]})
                                okcase = False
                        old_ids = [int(d[1:]) for d in prev_arch["dirs"] if scen.BAND_RE.match(d)]
                        new_ids = [int(d[1:]) for d in cur_arch["dirs"] if scen.BAND_RE.match(d) and d not in prev_arch["dirs"]]
                        if old_ids and new_ids and min(new_ids) <= max(old_ids):
                            ctx.oracle_fail("writeonce/band-id-not-fresh", f"new version id {new_ids} is not above existing {old_ids}", {"steps": c["steps"][:j + 2]})
                            okcase = False
                        # nothing is written into a version directory that existed before this backup started
                        for it in prs.get("trace", []):
                            top = it["path"].split("/")[0]
                            if it["verb"] == "Write" and (it.get("reply") or {}).get("ok") and scen.BAND_RE.match(top) and top in prev_arch["dirs"]:
                                ctx.oracle_fail("writeonce/wrote-into-existing-version", f"backup wrote {it['path']} into {top}, a version directory that already existed "
                                                f"(existing ids {sorted(old_ids)})", {"steps": c["steps"][:j + 2]})
                                okcase = False
                                break
                        # no path written successfully twice within the run (zero-length leftovers aside)
                        seen = set()
                        for it in prs.get("trace", []):
                            if it["verb"] == "Write" and (it.get("reply") or {}).get("ok"):
                                if it["path"] in seen:
                                    ctx.oracle_fail("writeonce/path-written-twice", f"{it['path']} was written twice in one backup", {"steps": c["steps"][:j + 2]})
                                    okcase = False
                                seen.add(it["path"])
                            if it["verb"] in ("RemoveFile", "RemoveDirAll"):
                                ctx.oracle_fail("writeonce/backup-issued-remove", f"backup issued {it['verb']} {it['path']}", {"steps": c["steps"][:j + 2]})
                                okcase = False
                    else:
                        # delete: only requested band directories, unreferenced blocks, its own lock
                        dec = scen.decode(prev_arch)
                        kept = [b for b in dec["bands"] if b not in pmk["ids"]]
                        referenced = set()
                        for b in kept:
                            for e in scen.band_entries(dec["bands"][b]):
                                for a in e.get("addrs", []):
                                    referenced.add(a["hash"])
                        if "GC_LOCK" in prev and "GC_LOCK" not in cur and prs.get("result") != "ok" and not c["steps"][j].get("break_lock"):
                            ctx.oracle_fail("writeonce/refused-delete-removed-foreign-lock", f"a delete that was refused ({json.dumps(prs.get('err'))[:120]}) removed "
                                            f"the GC_LOCK that was already there (not its own)", {"steps": c["steps"][:j + 2]})
                            okcase = False
                        for p in prev:
                            if p in cur or p == "GC_LOCK":
                                continue
                            parts = p.split("/")
                            m = scen.BAND_RE.match(parts[0])
                            allowed = (m and int(m.group(1)) in pmk["ids"]) or (parts[0] == "d" and parts[-1] not in referenced)
                            if pmk["dry"] or not allowed:
                                ctx.oracle_fail("writeonce/delete-removed-other", f"delete of {pmk['ids']} (dry={pmk['dry']}) removed {p}", {"steps": c["steps"][:j + 2]})
                                okcase = False
                        for p, hsh in prev.items():
                            if p in cur and cur[p] != hsh:
                                ctx.oracle_fail("writeonce/delete-altered-file", f"delete altered {p}", {"steps": c["steps"][:j + 2]})
                                okcase = False
                pending = None          # (also when there was nothing to compare with: the first snapshot)
                prev, prev_arch = cur, cur_arch
            if not okcase:
                break
        if not okcase:
            continue
        ctx.nontrivial(json.dumps([m["kind"] + str(m.get("plan") or m.get("ids") or "") for m in c["marks"] if m["kind"] in ("backup", "delete")]))
        for m in c["marks"]:
            if m["kind"] in ("backup", "delete"):
                ctx.dist("step_" + m["kind"] + ("_crashed" if m.get("plan") else ""))
        if c.get("nomodel"):
            ctx.dist("stale_lock_histories")
            continue
        names = l4.Names()
        scen.collect_names(names, c["steps"], r)
        h = l4.History(c["id"], names)
        scen.add_model_history(h, c["steps"], c["marks"], r, names)
        hs.append(h)
    out = l4.evaluate(ctx, "C07h", hs, shards=8)
    agreed = total = 0
    for h in hs:
        rr = out.get(h.cid)
        if rr is None:
            continue
        for desc, code in rr:
            total += 1
            if code == 0:
                agreed += 1
            else:
                c = next(x for x in cases if x["id"] == h.cid)
                ctx.corr_fail("L4", f"history {h.cid}: model and implementation differ at {desc}: code {code}", {"steps": c["steps"]})
                break
    ctx.layer("L4-histories", agreed, total)
    if cases:
        ctx.sample({"history": [m["kind"] + (":" + json.dumps(m.get("plan")) if m.get("plan") else "") for m in cases[0]["marks"] if m["kind"] in ("backup", "delete", "validate")]})


def faults_in_band_creation(ctx, n):
    """every single failure among the first operations of a backup (lock check .. head write):
    nothing that existed may change, and the backup may not remove anything"""
    cases = []
    for t in range(n):
        t0, t1 = scen.small_tree(ctx.rng), scen.small_tree(ctx.rng)
        for k in range(1, 9):
            kind = ctx.rng.choice(["NotFound", "AlreadyExists", "PermissionDenied", "Other"])
            steps = [{"op": "init"}, {"op": "mktree", "path": "src", "tree": t0}, {"op": "backup", "opts": scen.small_opts(ctx.rng)},
                     {"op": "mktree", "path": "src", "tree": t1}, {"op": "arch"},
                     {"op": "backup", "opts": scen.small_opts(ctx.rng), "plan": {"faults": [[k, kind]]}}, {"op": "arch"}]
            cases.append({"id": f"f{t}_{k}", "steps": steps, "k": k, "kind": kind})
    res = ctx.cvh_run(cases)
    for c in cases:
        r = res.get(c["id"])
        ctx.count()
        small = {"steps": c["steps"]}
        if r is None:
            ctx.oracle_fail("writeonce/harness-died", "harness died or hung", small)
            continue
        bk = r[-2]
        rm = [it for it in bk.get("trace", []) if it["verb"] in ("RemoveFile", "RemoveDirAll")]
        if rm:
            ctx.oracle_fail("writeonce/backup-issued-remove", f"after operation {c['k']} failed with {c['kind']} the backup issued {rm[0]['verb']} {rm[0]['path']}", small)
            continue
        before, after = scen.raw_files(r[-3]["arch"]), scen.raw_files(r[-1]["arch"])
        bad = [p for p, h in before.items() if after.get(p) != h]
        if bad:
            ctx.oracle_fail("writeonce/backup-altered-file", f"after operation {c['k']} failed the backup changed or removed {bad[0]}", small)
            continue
        ctx.nontrivial(f"bandcreate-fault:{c['k']}:{c['kind']}")


def racing_backups(ctx, n):
    cases = []
    for t in range(n):
        ta, tb = scen.small_tree(ctx.rng), scen.small_tree(ctx.rng)
        # always at least one differing file
        ta["c"]["who"] = {"k": "f", "data": "41", "mode": 0o644, "mtime": 10**18}
        tb["c"]["who"] = {"k": "f", "data": "4242", "mode": 0o644, "mtime": 10**18 + 1}
        pre = ctx.rng.random() < 0.5
        steps = [{"op": "init"}]
        if pre:
            steps += [{"op": "mktree", "path": "src", "tree": ta}, {"op": "backup", "opts": scen.small_opts(ctx.rng)}]
        npre = ctx.rng.randrange(0, 3)
        sched = []
        cur = ctx.rng.randrange(2)
        if t % 2 == 0:
            # the window in which both pick the same id: one actor gets as far as listing the
            # archive for its new band (3-4 ops), then the other runs through its band creation
            sched = [cur] * ctx.rng.choice([3, 4, 4]) + [1 - cur] * ctx.rng.choice([7, 8, 12, 40, 200])
        else:
            for _ in range(npre + 1):
                sched += [cur] * ctx.rng.randrange(1, 14)
                cur = 1 - cur
        steps += [{"op": "mktree", "path": "srca", "tree": ta}, {"op": "mktree", "path": "srcb", "tree": tb},
                  {"op": "snap", "path": "srca"}, {"op": "snap", "path": "srcb"}, {"op": "arch"},
                  {"op": "race", "schedule": sched,
                   "a": {"op": "backup", "src": "srca", "opts": scen.small_opts(ctx.rng)},
                   "b": {"op": "backup", "src": "srcb", "opts": scen.small_opts(ctx.rng)}},
                  {"op": "arch"}, {"op": "versions"}]
        cases.append({"id": f"r{t}", "steps": steps, "sched": sched, "pre": pre})
    # two backups that share content: one has listed the block directory (the shared block is not there), the other then
    # stores the shared block and finishes, and the first reaches its own write of that block: it must not write over it
    for k in range(7, 19):
        ta, tb = scen.small_tree(ctx.rng), scen.small_tree(ctx.rng)
        shared = {"k": "f", "data": gen.rand_bytes(ctx.rng, 24).hex(), "mode": 0o644, "mtime": 10**18}
        ta["c"][".0shared"] = dict(shared)
        tb["c"][".0shared"] = dict(shared)
        ta["c"]["who"] = {"k": "f", "data": "41", "mode": 0o644, "mtime": 10**18}
        tb["c"]["who"] = {"k": "f", "data": "4242", "mode": 0o644, "mtime": 10**18 + 1}
        first = k % 2
        sched = [first] * k + [1 - first] * 400
        o = {"meph": 100000, "mbs": 64, "sfc": 0}
        steps = [{"op": "init"}, {"op": "mktree", "path": "srca", "tree": ta}, {"op": "mktree", "path": "srcb", "tree": tb},
                 {"op": "snap", "path": "srca"}, {"op": "snap", "path": "srcb"}, {"op": "arch"},
                 {"op": "race", "schedule": sched, "a": {"op": "backup", "src": "srca", "opts": o}, "b": {"op": "backup", "src": "srcb", "opts": o}},
                 {"op": "arch"}, {"op": "versions"}]
        cases.append({"id": f"s{k}", "steps": steps, "sched": sched, "pre": False})
    res = ctx.cvh_run(cases)
    for c in cases:
        r = res.get(c["id"])
        ctx.count()
        small = {"steps": c["steps"]}
        if r is None:
            ctx.oracle_fail("race/harness-died", "harness died or hung", small)
            continue
        race = r[-3]
        if race.get("panic") or race.get("timeout"):
            ctx.oracle_fail("race/panic-or-hang", f"two racing backups: {race.get('panic') or 'timeout'}", small)
            continue
        before = scen.raw_files(r[-4]["arch"])
        after = scen.raw_files(r[-2]["arch"])
        bad = [p for p, h in before.items() if after.get(p) != h]
        if bad:
            ctx.oracle_fail("race/old-file-changed", f"racing backups changed existing files {bad[:3]}", small)
            continue
        written = {}
        viol = None
        for it in race["trace"]:
            if it["verb"] in ("RemoveFile", "RemoveDirAll"):
                viol = f"a backup (actor {it['actor']}) issued {it['verb']} {it['path']}"
                break
            if it["verb"] == "Write" and (it.get("reply") or {}).get("ok"):
                if it["path"] in written:
                    viol = f"{it['path']} was written successfully by actor {written[it['path']]} and again by actor {it['actor']}"
                    break
                written[it["path"]] = it["actor"]
        if viol is None:
            # no band directory receives files from both actors
            owners = {}
            for p, a in written.items():
                m = scen.BAND_RE.match(p.split("/")[0])
                if m:
                    owners.setdefault(p.split("/")[0], set()).add(a)
            mixed = [b for b, s in owners.items() if len(s) > 1]
            if mixed:
                viol = f"both backups wrote into version {mixed[0]}"
        if viol is None:
            # everything either backup wrote successfully is still there at the end
            gone = [p for p in written if p not in after]
            if gone:
                viol = f"{gone[0]} was written successfully during the race but is gone at the end"
        if viol:
            ctx.oracle_fail("race/loser-wrote-into-winner", "two racing backups: " + viol, small)
            continue
        ctx.nontrivial("race:" + json.dumps([c["sched"], race["a"].get("result"), race["b"].get("result")]))
        ctx.dist("race_results_%s_%s" % (race["a"].get("result"), race["b"].get("result")))
    if cases:
        ctx.sample({"race_schedule": cases[0]["sched"]})


def collector_beside_backup(ctx, n):
    """gc / delete removes only unreferenced blocks also when another client's backup runs beside it: the collector makes its
    first j storage operations, a whole backup of another tree runs, the collector goes on (and the mirror image).  Nothing in
    these archives is garbage and nothing a remaining version refers to may go."""
    cases = []
    for t in range(n):
        t0, t1, t2 = scen.small_tree(ctx.rng), scen.small_tree(ctx.rng), scen.small_tree(ctx.rng)
        t0["c"]["only0"] = {"k": "f", "data": gen.rand_bytes(ctx.rng, 7).hex(), "mode": 0o644, "mtime": 10**18}
        t2["c"]["new2"] = {"k": "f", "data": gen.rand_bytes(ctx.rng, 9).hex(), "mode": 0o644, "mtime": 10**18 + 2}
        ids = [[], [0], []][t % 3]
        for j in list(range(0, 9)) + [12, 20]:
            sched = [1] * j + [0] * 400 + [1] * 400
            steps = [{"op": "init"}, {"op": "mktree", "path": "src", "tree": t0}, {"op": "backup", "opts": scen.small_opts(ctx.rng)},
                     {"op": "mktree", "path": "src", "tree": t1}, {"op": "backup", "opts": scen.small_opts(ctx.rng)},
                     {"op": "mktree", "path": "srca", "tree": t2}, {"op": "arch"},
                     {"op": "race", "schedule": sched, "a": {"op": "backup", "src": "srca", "opts": scen.small_opts(ctx.rng)},
                      "b": {"op": "delete", "bands": ids}},
                     {"op": "arch"}]
            cases.append({"id": f"g{t}_{j}", "steps": steps, "ids": ids, "j": j})
    res = ctx.cvh_run(cases, shards=16)
    for c in cases:
        r = res.get(c["id"])
        ctx.count()
        small = {"steps": c["steps"]}
        if r is None:
            ctx.oracle_fail("race/harness-died", "harness died or hung", small)
            continue
        before, race, after = r[-3], r[-2], r[-1]
        if race.get("panic") or race.get("timeout"):
            ctx.oracle_fail("race/panic-or-hang", f"collector beside a backup: {race.get('panic') or 'timeout'}", small)
            continue
        dec = scen.decode(after["arch"])
        bad = None
        for bid, band in dec["bands"].items():
            for e in scen.band_entries(band):
                if e.get("kind") == "File":
                    c_ = scen.entry_content(e, dec["blocks"])
                    if isinstance(c_, str):
                        bad = f"version b{bid:04d} still present refers to a block that is gone ({e['apath']}: {c_})"
                        break
            if bad:
                break
        if bad:
            ctx.oracle_fail("writeonce/delete-removed-referenced-block", f"delete of {c['ids']} after {c['j']} of its operations a whole backup ran beside it "
                                                                         f"(backup {race['a'].get('result')}, collector {race['b'].get('result')}): {bad}", small)
            continue
        gone = [p for p in scen.raw_files(before["arch"]) if p not in scen.raw_files(after["arch"]) and p != "GC_LOCK"
                and not any(p.startswith("b%04d/" % i) for i in c["ids"])]
        blocks_gone = [p for p in gone if p.startswith("d/")]
        if race["b"].get("result") != "ok" and gone:
            ctx.oracle_fail("writeonce/refused-delete-removed", f"a collector that was refused removed {gone[:3]}", small)
            continue
        ctx.dist("collector_%s_backup_%s" % (race["b"].get("result"), race["a"].get("result")))
        if race["a"].get("result") == "ok" and race["b"].get("result") == "ok":
            ctx.nontrivial(json.dumps([c["id"], c["j"]]))


def failing_deletes(ctx, n):
    """A delete that cannot remove one of the named versions (it does not exist, or the storage refuses) removes no block
    that a version still present refers to."""
    cases = []
    for t in range(n):
        trees = []
        for j in range(3):
            tr = scen.small_tree(ctx.rng)
            tr["c"][f"only{j}"] = {"k": "f", "data": gen.rand_bytes(ctx.rng, 6 + j).hex(), "mode": 0o644, "mtime": 10**18 + j}
            trees.append(tr)
        steps = [{"op": "init"}]
        for tr in trees:
            steps += [{"op": "mktree", "path": "src", "tree": tr}, {"op": "backup", "opts": scen.small_opts(ctx.rng)}]
        variant = t % 3
        if variant == 0:
            d = {"op": "delete", "bands": [7, ctx.rng.choice([0, 1])]}                     # an absent version named first
        elif variant == 1:
            b = ctx.rng.choice([0, 1])
            d = {"op": "delete", "bands": [b], "plan": {"rules": [["RemoveDirAll", f"b{b:04d}", 0, ctx.rng.choice(["PermissionDenied", "Other", "NotFound"])]]}}
        else:
            d = {"op": "delete", "bands": [1, 0], "plan": {"rules": [["RemoveDirAll", "b0001", 0, "Other"]]}}
        steps += [{"op": "arch"}, d, {"op": "arch"}]
        cases.append({"id": f"fd{t}", "steps": steps})
    res = ctx.cvh_run(cases)
    for c in cases:
        r = res.get(c["id"])
        ctx.count()
        small = {"steps": c["steps"]}
        if r is None or r[-2].get("panic"):
            ctx.oracle_fail("writeonce/panic", "a failing delete crashed or hung", small)
            continue
        dec = scen.decode(r[-1]["arch"])
        bad = None
        for bid, band in dec["bands"].items():
            for e in scen.band_entries(band):
                if e.get("kind") == "File":
                    c_ = scen.entry_content(e, dec["blocks"])
                    if isinstance(c_, str):
                        bad = f"version b{bid:04d} is still there but {e['apath']} refers to a block that is gone ({c_})"
                        break
            if bad:
                break
        if bad:
            ctx.oracle_fail("writeonce/delete-removed-referenced-block", f"delete {c['steps'][-2]} ended with {r[-2].get('result')} "
                                                                         f"({json.dumps(r[-2].get('err'))[:120]}): {bad}", small)
            continue
        ctx.dist("failing_delete_" + str(r[-2].get("result")))
        ctx.nontrivial("failing-delete:" + c["id"])


def leftover_blocks(ctx, n):
    """A backup killed between creating a block file and writing it leaves the file empty.  A later backup may complete it
    (documented exception) but no backup -- in particular one of an unrelated tree -- removes it."""
    cases = []
    for t in range(n):
        ta = scen.small_tree(ctx.rng)
        tb = json.loads(json.dumps(ta))
        tb["c"]["fresh-content"] = {"k": "f", "data": gen.rand_bytes(ctx.rng, 9).hex(), "mode": 0o644, "mtime": 10**18 + 70}
        tc = {"k": "d", "mode": 0o755, "mtime": 10**18, "c": {"unrelated": {"k": "f", "data": gen.rand_bytes(ctx.rng, 7).hex(), "mode": 0o644, "mtime": 10**18 + 80}}}
        o = {"meph": ctx.rng.choice([2, 100000]), "mbs": 64, "sfc": ctx.rng.choice([0, 16])}
        pre = [{"op": "init"}, {"op": "mktree", "path": "src", "tree": ta}, {"op": "backup", "opts": o}, {"op": "mktree", "path": "src", "tree": tb}]
        probe = ctx.cvh_run([{"id": "p", "steps": pre + [{"op": "backup", "opts": o}]}]).get("p")
        if not probe or not probe[4].get("trace"):
            continue
        w = [it for it in probe[4]["trace"] if it.get("verb") == "Write" and str(it.get("path", "")).startswith("d/")]
        if not w:
            continue
        rule = ["Write", w[0]["path"], 0, "crash_empty"]
        steps = pre + [{"op": "backup", "opts": o, "plan": {"rules": [rule]}}, {"op": "arch"},
                       {"op": "mktree", "path": "src", "tree": tc if t % 2 == 0 else tb}, {"op": "backup", "opts": o}, {"op": "arch"}]
        cases.append({"id": f"lo{t}", "steps": steps, "leftover": w[0]["path"], "unrelated": t % 2 == 0})
    res = ctx.cvh_run(cases)
    for c in cases:
        r = res.get(c["id"])
        ctx.count()
        small = {"steps": c["steps"]}
        if r is None or any(isinstance(x, dict) and x.get("panic") for x in r):
            ctx.oracle_fail("writeonce/panic", "a backup beside a leftover block file crashed or hung", small)
            continue
        before, after = scen.raw_files(r[5]["arch"]), scen.raw_files(r[8]["arch"])
        if c["leftover"] not in before:
            continue        # the kill did not leave the file (the block was not new after all)
        gone = [p_ for p_ in before if p_ not in after]
        if gone:
            ctx.oracle_fail("writeonce/backup-removed-file", f"a backup of {'an unrelated' if c['unrelated'] else 'the same'} tree removed {gone[:2]} "
                                                             f"(the zero-length leftover of a killed backup is {c['leftover']})", small)
            continue
        changed = [p_ for p_ in before if after.get(p_) != before[p_] and p_ != c["leftover"]]
        if changed:
            ctx.oracle_fail("writeonce/backup-altered-file", f"a backup beside a leftover block altered {changed[:2]}", small)
            continue
        ctx.dist("leftover_block_" + ("kept" if c["unrelated"] else "completed_or_kept"))
        ctx.nontrivial("leftover:" + c["id"])


def faults_in_large_files(ctx, n):
    """A file of several blocks whose leading blocks are already in the archive (an earlier version holds the same file with
    another tail); every write and directory creation under d/ of the next backup fails in turn: the backup removes nothing
    and alters nothing that was there."""
    cases = []
    for t in range(n):
        mbs = ctx.rng.choice([8, 16])
        body = bytes(ctx.rng.randrange(1, 255) for _ in range(3 * mbs))
        ta = scen.small_tree(ctx.rng)
        ta["c"]["big"] = {"k": "f", "data": body.hex(), "mode": 0o644, "mtime": 10**18 + 1}
        tb = json.loads(json.dumps(ta))
        tb["c"]["big"] = {"k": "f", "data": (body[:2 * mbs] + bytes(ctx.rng.randrange(1, 255) for _ in range(mbs + 3))).hex(), "mode": 0o644, "mtime": 10**18 + 2}
        o = {"meph": 100000, "mbs": mbs, "sfc": 0}
        pre = [{"op": "init"}, {"op": "mktree", "path": "src", "tree": ta}, {"op": "backup", "opts": o}, {"op": "mktree", "path": "src", "tree": tb}, {"op": "arch"}]
        probe = ctx.cvh_run([{"id": "p", "steps": pre + [{"op": "backup", "opts": o}]}]).get("p")
        if not probe or not probe[5].get("trace"):
            continue
        targets = [(it["verb"], it["path"]) for it in probe[5]["trace"] if it.get("verb") in ("Write", "CreateDir") and str(it.get("path", "")).startswith("d/")]
        for k, (verb, path) in enumerate(targets[:6]):
            rule = [verb, path, 0, ctx.rng.choice(["Other", "PermissionDenied", "AlreadyExists", "NotFound"])]
            cases.append({"id": f"lf{t}_{k}", "steps": pre + [{"op": "backup", "opts": o, "plan": {"rules": [rule]}}, {"op": "arch"}], "rule": rule})
    res = ctx.cvh_run(cases)
    for c in cases:
        r = res.get(c["id"])
        ctx.count()
        small = {"steps": c["steps"]}
        if r is None or r[5].get("panic"):
            ctx.oracle_fail("writeonce/panic", f"a backup with a failing block operation {c['rule']} crashed or hung", small)
            continue
        rm = [it for it in r[5].get("trace", []) if it.get("verb") in ("RemoveFile", "RemoveDirAll")]
        if rm:
            ctx.oracle_fail("writeonce/backup-issued-remove", f"after {c['rule']} failed the backup issued {rm[0]['verb']} {rm[0]['path']}", small)
            continue
        before, after = scen.raw_files(r[4]["arch"]), scen.raw_files(r[6]["arch"])
        bad = [p_ for p_ in before if after.get(p_) != before[p_]]
        if bad:
            ctx.oracle_fail("writeonce/backup-altered-file", f"after {c['rule']} failed the backup changed or removed {bad[0]}", small)
            continue
        ctx.dist("faulted_large_file_backups")
        ctx.nontrivial("large-file-fault:" + c["id"])


def exclusive_creation(ctx, rounds):
    """The atomicity the interleaving model (run2: whole transport operations) takes for granted: of several writers creating
    the same fresh path with CreateNew at the same moment, exactly one wins and the file holds the winner's bytes."""
    cases = [{"id": f"x{w}", "steps": [{"op": "write_race", "n": rounds, "writers": w}]} for w in (2, 4)]
    res = ctx.cvh_run(cases)
    for c in cases:
        r = res.get(c["id"])
        ctx.count()
        if r is None or r[0].get("result") != "ok":
            ctx.oracle_fail("contract/harness-died", "the write race could not be run", {"steps": c["steps"]})
            continue
        v = r[0]["value"]
        if v["more_than_one_ok"] or v["content_not_a_winners"] or v["no_writer_ok"]:
            ctx.oracle_fail("contract/createnew-not-exclusive", f"{v['writers']} writers creating the same new file with CreateNew at once, {v['rounds']} rounds: "
                            f"in {v['more_than_one_ok']} more than one write returned Ok, in {v['content_not_a_winners']} the file does not hold a winner's "
                            f"content, in {v['no_writer_ok']} nobody won", {"steps": c["steps"]})
            continue
        ctx.nontrivial(f"write_race:{v['writers']}")
        ctx.dist("exclusive_creation_rounds", v["rounds"])


def run(ctx):
    quick = ctx.tier == "quick"
    ctx.cov["rule"] = ("(a) random direct Transport call sequences (CreateNew/Overwrite writes, zero-length leftovers, mkdir, list, metadata, "
                       "remove): exec model vs the local transport, and the write-once oracle; (b) random histories (source changes, backups, "
                       "backups killed at a random storage operation incl. the empty-file state, deletes, gc, validate): raw archive snapshot "
                       "before/after every operation (nothing pre-existing altered or removed by backup; fresh band id; no path written twice; "
                       "delete removes only requested bands, unreferenced blocks, its lock) + exact L4 trace correspondence; (c) two racing "
                       "backups under explicit schedules; (c') a gc / delete with a whole backup of another tree run after its first j storage operations: nothing a remaining "
                       "version refers to is removed; (c'') deletes that cannot remove a named version (absent, or the storage refuses): no block of a version still present goes; (d) exclusive creation under contention: several writers creating the same new path at once, "
                       "thousands of rounds: exactly one wins. non-trivial = distinct call sequence / history / schedule")
    transport_contract(ctx, 60 if quick else 2000)
    history_write_once(ctx, 14 if quick else 300, 7 if quick else 16)
    faults_in_band_creation(ctx, 3 if quick else 40)
    racing_backups(ctx, 30 if quick else 600)
    collector_beside_backup(ctx, 3 if quick else 30)
    failing_deletes(ctx, 9 if quick else 90)
    leftover_blocks(ctx, 6 if quick else 60)
    faults_in_large_files(ctx, 2 if quick else 20)
    exclusive_creation(ctx, 4000 if quick else 60000)
    ctx.assumptions += ["the local transport is the one exercised; S3/SFTP are outside (they already refuse an existing path)",
                        "a zero-length leftover of a killed write may be completed (documented exception)"]


def replay(ctx, rep):
    r = rep.get("replay", rep)
    ctx.build()
    if "steps" in r:
        out = ctx.cvh_run([{"id": "r", "steps": r["steps"]}])["r"]
        for st, rs in zip(r["steps"], out):
            print(st["op"], {k: rs.get(k) for k in ("result", "err", "panic", "crashed") if isinstance(rs, dict) and rs.get(k)})
    else:
        print(json.dumps(r)[:2000])
    return 0
