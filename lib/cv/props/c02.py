"""C02 — Every completed version keeps restoring to its own snapshot."""
import json

from .. import gen, l4, scen


def build(ctx, n, nsteps):
    """histories where after every mutating step every existing band is restored"""
    cases = []
    for t in range(n):
        steps, marks = scen.rand_history(ctx.rng, nsteps)
        out, om = [], []
        nb = 0
        for st, mk in zip(steps, marks):
            out.append(st)
            om.append(mk)
            if mk["kind"] == "backup":
                nb += 1
            if mk["kind"] == "arch":
                for b in range(nb):
                    out.append({"op": "restore", "band": b, "dest": f"r{len(out)}"})
                    om.append({"kind": "restore", "band": b})
                out.append({"op": "restore", "dest": f"r{len(out)}"})
                om.append({"kind": "restore_latest"})
                out.append({"op": "versions"})
                om.append({"kind": "versions"})
        cases.append({"id": f"h{t}", "steps": out, "marks": om})
    return cases


def high_numbers(ctx):
    """Version numbers whose directory names differ in length (b9999, b10000, ...): an archive that has seen more than ten
    thousand backups.  Two real versions are renumbered (a version carries its id only in its directory name); 'latest
    complete' must select the numerically newest, a further backup gets the next id, every version restores to its snapshot."""
    ta = scen.small_tree(ctx.rng)
    tb, _ = gen.mutate_tree(ctx.rng, ta)
    tc, _ = gen.mutate_tree(ctx.rng, tb)
    for k, t in enumerate((ta, tb, tc)):
        t["c"]["gen"] = {"k": "f", "data": (b"generation %d" % k).hex(), "mode": 0o644, "mtime": 10**18 + k}
    o = scen.small_opts(ctx.rng)
    for lo, hi in ((9999, 10000), (99, 100000), (9998, 9999)):
        steps = [{"op": "init"},
                 {"op": "mktree", "path": "src", "tree": ta}, {"op": "snap", "path": "src"}, {"op": "backup", "opts": o},
                 {"op": "mktree", "path": "src", "tree": tb}, {"op": "snap", "path": "src"}, {"op": "backup", "opts": o},
                 {"op": "rename", "from": "b0001", "to": f"b{hi:04d}"}, {"op": "rename", "from": "b0000", "to": f"b{lo:04d}"},
                 {"op": "versions"}, {"op": "restore", "dest": "latest1"}, {"op": "restore", "band": lo, "dest": "lo"}, {"op": "restore", "band": hi, "dest": "hi"},
                 {"op": "mktree", "path": "src", "tree": tc}, {"op": "snap", "path": "src"}, {"op": "backup", "opts": o}, {"op": "arch"},
                 {"op": "restore", "dest": "latest2"}, {"op": "restore", "band": hi + 1, "dest": "new"}]
        r = ctx.cvh_run([{"id": "hn", "steps": steps}]).get("hn")
        ctx.count()
        small = {"steps": steps}
        if r is None or any(isinstance(x, dict) and x.get("panic") for x in r):
            ctx.oracle_fail("history/panic", "an operation crashed on an archive with five-digit version numbers", small)
            continue
        sa, sb, sc_ = r[2]["tree"], r[5]["tree"], r[14]["tree"]
        checks = [("latest complete (two versions)", r[10], sb), (f"b{lo:04d}", r[11], sa), (f"b{hi:04d}", r[12], sb),
                  ("latest complete (after a third backup)", r[17], sc_), (f"b{hi + 1:04d}", r[18], sc_)]
        bad = None
        for what, got, want in checks:
            if got.get("result") != "ok" or got.get("monitor_errors") or scen.first_difference(scen.strip(want), scen.strip(got.get("tree"))):
                bad = what
                break
        if bad is None and f"b{hi + 1:04d}" not in r[16]["arch"]["dirs"]:
            bad = f"the third backup did not get id {hi + 1}"
        if bad:
            sig = "history/latest-not-newest" if bad.startswith("latest") else "history/version-differs"
            ctx.oracle_fail(sig, f"versions b{lo:04d} and b{hi:04d} (directory names of different lengths): {bad} does not restore to its snapshot", small)
        else:
            ctx.nontrivial(f"high:{lo}:{hi}")
            ctx.dist("five_digit_version_numbers")


def long_lived_handle(ctx, n):
    """One client keeps its archive handle across several backups (as a service using the library would) while another client
    deletes versions, collects garbage or makes backups of its own in between; contents come back that only a deleted version
    held.  Every version completed and not deleted must restore to its snapshot."""
    cases = []
    for t in range(n):
        def img(tag, m):
            return {"k": "f", "data": (tag * ctx.rng.choice([3, 40])).hex(), "mode": 0o644, "mtime": 10**18 + m}
        base = scen.small_tree(ctx.rng)
        ta, tb, tc = (json.loads(json.dumps(base)) for _ in range(3))
        ta["c"]["image"] = img(b"content-A-", 1)
        tb["c"]["image"] = img(b"content-B-", 2)
        tc["c"]["image"] = dict(ta["c"]["image"], mtime=10**18 + 3)          # the old content again, newer mtime
        o = {"meph": ctx.rng.choice([2, 100000]), "mbs": ctx.rng.choice([8, 64]), "sfc": ctx.rng.choice([0, 4, 1 << 20])}
        variant = t % 3
        if variant == 0:      # another client deletes the first version, then the held handle backs up the old content again
            ops = [{"op": "mktree", "tree": ta}, {"op": "backup", "opts": o}, {"op": "mktree", "tree": tb}, {"op": "backup", "opts": o},
                   {"op": "delete", "bands": [0], "other": True}, {"op": "mktree", "tree": tc}, {"op": "backup", "opts": o}]
            expect = {1: tb, 2: tc}
        elif variant == 1:    # the deletion is the held handle's own, the next backup another client's
            ops = [{"op": "mktree", "tree": ta}, {"op": "backup", "opts": o}, {"op": "mktree", "tree": tb}, {"op": "backup", "opts": o, "other": True},
                   {"op": "delete", "bands": [0]}, {"op": "mktree", "tree": tc}, {"op": "backup", "opts": o, "other": True},
                   {"op": "mktree", "tree": ta}, {"op": "backup", "opts": o}]
            expect = {1: tb, 2: tc, 3: ta}
        else:                 # two clients back up alternately, a third collects garbage in between
            ops = [{"op": "mktree", "tree": ta}, {"op": "backup", "opts": o}, {"op": "mktree", "tree": tb}, {"op": "backup", "opts": o, "other": True},
                   {"op": "delete", "bands": [0], "other": True}, {"op": "delete", "bands": [], "other": True},
                   {"op": "mktree", "tree": tc}, {"op": "backup", "opts": o},
                   {"op": "mktree", "tree": tb}, {"op": "backup", "opts": o, "other": True}, {"op": "mktree", "tree": ta}, {"op": "backup", "opts": o}]
            expect = {1: tb, 2: tc, 3: tb, 4: ta}
        steps = [{"op": "init"}, {"op": "session", "ops": ops}, {"op": "versions"}]
        for b in sorted(expect):
            steps.append({"op": "restore", "band": b, "dest": f"out{b}"})
        cases.append({"id": f"ll{t}", "steps": steps, "expect": expect})
    res = ctx.cvh_run(cases)
    for c in cases:
        r = res.get(c["id"])
        ctx.count()
        small = {"steps": c["steps"]}
        if r is None or any(isinstance(x, dict) and x.get("panic") for x in r):
            ctx.oracle_fail("history/panic", "a session through a long-lived archive handle crashed or hung", small)
            continue
        sess = r[1]
        subs = sess.get("value") if sess.get("result") == "ok" else None
        if not subs or any(x.get("result") != "ok" for x in subs):
            ctx.oracle_fail("history/backup-failed", f"an operation of the session failed: {json.dumps(sess.get('err') or [x for x in subs or [] if x.get('result') != 'ok'])[:300]}", small)
            continue
        bad = None
        for k, b in enumerate(sorted(c["expect"])):
            got = r[3 + k]
            want = c["expect"][b]
            if got.get("result") != "ok" or got.get("monitor_errors"):
                bad = f"completed version b{b:04d} does not restore: {json.dumps(got.get('err') or got.get('monitor_errors'))[:200]}"
                break
            gb, wb = scen.tree_file_bytes(got.get("tree") or {}), scen.tree_file_bytes(want)
            if gb != wb:
                p_ = next(iter(sorted(set(gb) ^ set(wb)) or [q for q in wb if gb.get(q) != wb[q]]))
                bad = f"completed version b{b:04d} restores differently from what was backed up at {p_!r}"
                break
        if bad:
            ctx.oracle_fail("history/version-does-not-restore" if "does not restore" in bad else "history/version-differs",
                            "long-lived handle beside another client: " + bad, small)
            continue
        ctx.nontrivial("long-lived:" + c["id"])
        ctx.dist("long_lived_handle_sessions")


def content_returns(ctx, n):
    """A file's content goes A, B, A again (new mtime) over three versions -- stored as blocks of its own, so the third version
    shares blocks with the first by content, not by inheritance -- then the FIRST version is deleted (and garbage collected):
    the second and third must still restore.  Variants: an interrupted backup or a version made with the file excluded sits
    in between."""
    cases = []
    for t in range(n):
        def img(tag, m):
            return {"k": "f", "data": (tag * ctx.rng.choice([2, 5])).hex(), "mode": 0o644, "mtime": 10**18 + m}
        base = scen.small_tree(ctx.rng)
        ta, tb, tc = (json.loads(json.dumps(base)) for _ in range(3))
        ta["c"]["image"] = img(b"content-A-", 1)
        tb["c"]["image"] = img(b"content-B-", 2)
        tc["c"]["image"] = dict(ta["c"]["image"], mtime=10**18 + 3)
        o = {"meph": ctx.rng.choice([2, 100000]), "mbs": ctx.rng.choice([8, 64]), "sfc": ctx.rng.choice([0, 0, 4])}
        steps = [{"op": "init"}, {"op": "mktree", "path": "src", "tree": ta}, {"op": "backup", "opts": o}]
        variant = t % 3
        if variant == 0:
            steps += [{"op": "mktree", "path": "src", "tree": tb}, {"op": "backup", "opts": o}]
        elif variant == 1:
            steps += [{"op": "mktree", "path": "src", "tree": tb}, {"op": "backup", "opts": o, "plan": {"crash": ctx.rng.choice([14, 18, 22])}}]
        else:
            steps += [{"op": "backup", "opts": dict(o, excludes=["/image"])}]
        steps += [{"op": "mktree", "path": "src", "tree": tc}, {"op": "backup", "opts": o}, {"op": "versions"},
                  {"op": "delete", "bands": [0]}, {"op": "restore", "band": 2, "dest": "out2"},
                  {"op": "delete", "bands": []}, {"op": "restore", "band": 2, "dest": "out2b"}]
        cases.append({"id": f"cr{t}", "steps": steps, "tc": tc, "variant": variant})
    res = ctx.cvh_run(cases)
    for c in cases:
        r = res.get(c["id"])
        ctx.count()
        small = {"steps": c["steps"]}
        if r is None or any(isinstance(x, dict) and x.get("panic") for x in r):
            ctx.oracle_fail("history/panic", "an operation crashed or hung", small)
            continue
        n_ = len(c["steps"])
        bk3, dele = r[n_ - 6], r[n_ - 4]
        if bk3.get("result") != "ok" or dele.get("result") != "ok":
            continue        # (a kill that left the second backup without a head makes the delete legitimately different; not this family's point)
        want = scen.tree_file_bytes(c["tc"])
        bad = None
        for what, got in (("after deleting the first version", r[n_ - 3]), ("after a garbage collection too", r[n_ - 1])):
            if got.get("result") != "ok" or got.get("monitor_errors"):
                bad = f"{what} the third version does not restore: {json.dumps(got.get('err') or got.get('monitor_errors'))[:200]}"
                break
            if scen.tree_file_bytes(got.get("tree") or {}) != want:
                bad = f"{what} the third version restores other bytes"
                break
        if bad:
            ctx.oracle_fail("history/version-does-not-restore" if "does not restore" in bad else "history/version-differs",
                            "content A, B, A again, then the first version deleted: " + bad, small)
            continue
        ctx.nontrivial("content-returns:" + c["id"])
        ctx.dist("content_returns_histories")


def gaps_below_interrupted(ctx, n):
    """Deleting versions leaves holes in the numbering: here directly below an interrupted version that has become the newest
    one.  'Latest complete' must still be the newest completed version that was not deleted, however far down it sits."""
    cases = []
    for t in range(n):
        trees = [scen.small_tree(ctx.rng)]
        for _ in range(3):
            nt, _m = gen.mutate_tree(ctx.rng, trees[-1])
            nt["c"][f"gen{len(trees)}"] = {"k": "f", "data": ("version %d" % len(trees)).encode().hex(), "mode": 0o644, "mtime": 10**18 + len(trees)}
            trees.append(nt)
        o = scen.small_opts(ctx.rng)
        steps = [{"op": "init"}]
        for j, tr in enumerate(trees):
            st = {"op": "backup", "opts": o}
            if j == 2:
                st["plan"] = {"crash": ctx.rng.choice([18, 22, 26])}          # the third backup is interrupted
            steps += [{"op": "mktree", "path": "src", "tree": tr}, {"op": "snap", "path": "src"}, st]
        dels = [[1], [3]] if t % 2 == 0 else [[3, 1]]
        for d in dels:
            steps.append({"op": "delete", "bands": d})
        steps += [{"op": "versions"}, {"op": "restore", "dest": "latest"}, {"op": "restore", "band": 0, "dest": "zero"}]
        cases.append({"id": f"gp{t}", "steps": steps, "ndel": len(dels)})
    res = ctx.cvh_run(cases)
    for c in cases:
        r = res.get(c["id"])
        ctx.count()
        small = {"steps": c["steps"]}
        if r is None or any(isinstance(x, dict) and x.get("panic") for x in r):
            ctx.oracle_fail("history/panic", "an operation crashed or hung", small)
            continue
        n_ = len(c["steps"])
        snap0 = r[2]["tree"]
        if not r[9].get("crashed") or any(r[k].get("result") != "ok" for k in (3, 6, 12)) or any(r[n_ - 4 - i].get("result") != "ok" for i in range(c["ndel"])):
            continue          # (the kill landed before the interrupted version had a head, or a delete was refused: another history)
        latest, zero = r[n_ - 2], r[n_ - 1]
        if zero.get("result") != "ok" or scen.first_difference(scen.strip(snap0), scen.strip(zero.get("tree"))):
            ctx.oracle_fail("history/version-differs", "after deleting other versions, completed version b0000 does not restore to its snapshot", small)
            continue
        if latest.get("result") != "ok" or latest.get("monitor_errors") or scen.first_difference(scen.strip(snap0), scen.strip(latest.get("tree"))):
            ctx.oracle_fail("history/latest-complete-fails" if latest.get("result") != "ok" else "history/latest-complete-not-newest",
                            f"versions: b0000 complete, b0002 interrupted, b0001 and b0003 deleted: 'latest complete' does not give b0000: "
                            f"{json.dumps(latest.get('err') or latest.get('monitor_errors'))[:200]}", small)
            continue
        ctx.nontrivial("gaps:" + c["id"])
        ctx.dist("gaps_below_interrupted_histories")


def run(ctx):
    quick = ctx.tier == "quick"
    gaps_below_interrupted(ctx, 4 if quick else 40)
    long_lived_handle(ctx, 6 if quick else 60)
    content_returns(ctx, 6 if quick else 60)
    cases = build(ctx, 36 if quick else 400, 8 if quick else 18)
    ctx.cov["rule"] = ("random histories over {source changes (content+mtime, same-size content, chmod, add/remove, kind swaps), backup(options), backup "
                       "killed at a random storage operation (incl. the empty-file state) and later resumed, delete(subset), gc, validate}; after "
                       "every step every version that was completed and not deleted is restored by id and must equal the snapshot taken when "
                       "that backup ran, and 'latest complete' must select the newest of them; + exact L4 trace correspondence of the whole "
                       "history; + sessions in which one client keeps ONE archive handle across its backups while another client deletes, collects or "
                       "backs up in between and deleted contents come back. non-trivial = distinct history with >= 2 completed versions")
    res = ctx.cvh_run(cases, timeout=3000)
    hs = []
    for c in cases:
        r = res.get(c["id"])
        ctx.count()
        if r is None:
            ctx.oracle_fail("history/harness-died", "harness died or hung", {"steps": c["steps"]})
            continue
        snaps = {}       # band id -> snapshot tree
        last_snap = None
        alive = set()
        known_bands = set()
        pending_backup = None
        ok = True
        nb = 0
        for i, (st, mk, rs) in enumerate(zip(c["steps"], c["marks"], r)):
            small = {"steps": c["steps"][:i + 1]}
            if isinstance(rs, dict) and rs.get("panic"):
                ctx.oracle_fail("history/panic", f"{st['op']} panicked: {rs['panic'][:160]}", small)
                ok = False
                break
            if mk["kind"] == "snap":
                last_snap = rs["tree"]
            elif mk["kind"] == "backup":
                nb += 1
                pending_backup = None
                if rs.get("result") == "ok" and not rs.get("crashed"):
                    if rs["value"]["errors"] or rs.get("monitor_errors") and any(e["class"] not in ("BandHeadMissing", "DeserializeJson", "InvalidMetadata", "SnapCompressionError") for e in rs["monitor_errors"]):
                        ctx.oracle_fail("history/backup-errors", f"fault-free backup reported errors {json.dumps(rs.get('monitor_errors'))[:200]}", small)
                        ok = False
                        break
                    pending_backup = last_snap          # its band id is read off the next archive snapshot
                elif not rs.get("crashed"):
                    ctx.oracle_fail("history/backup-failed", f"fault-free backup failed: {json.dumps(rs.get('err'))[:200]}", small)
                    ok = False
                    break
            elif mk["kind"] == "delete":
                if rs.get("result") == "ok" and not mk["dry"]:
                    alive -= set(mk["ids"])
                elif rs.get("result") != "ok" and not mk["dry"]:
                    # a failed delete may have removed some of the requested bands before failing
                    pass
            elif mk["kind"] == "arch":
                present = {int(d[1:]) for d in rs["arch"]["dirs"] if scen.BAND_RE.match(d)}
                if pending_backup is not None:
                    new = present - known_bands
                    if new:
                        snaps[max(new)] = pending_backup
                        alive.add(max(new))
                    elif present:
                        pass
                    pending_backup = None
                known_bands = set(present)
                alive &= present
            elif mk["kind"] == "restore":
                b = mk["band"]
                if b in alive:
                    if rs.get("result") != "ok" or rs.get("monitor_errors"):
                        ctx.oracle_fail("history/version-does-not-restore", f"completed version b{b:04d} no longer restores: "
                                                                            f"{json.dumps(rs.get('err') or rs.get('monitor_errors'))[:200]}", small)
                        ok = False
                        break
                    d = scen.first_difference(scen.strip(snaps[b]), scen.strip(rs.get("tree")))
                    if d:
                        ctx.oracle_fail("history/version-differs", f"completed version b{b:04d} restores differently from its snapshot at {d[0]!r} ({d[1]})", small)
                        ok = False
                        break
            elif mk["kind"] == "restore_latest":
                if alive:
                    newest = max(alive)
                    if rs.get("result") != "ok":
                        ctx.oracle_fail("history/latest-complete-fails", f"restoring the latest complete version fails: {json.dumps(rs.get('err'))[:200]}", small)
                        ok = False
                        break
                    d = scen.first_difference(scen.strip(snaps[newest]), scen.strip(rs.get("tree")))
                    if d:
                        ctx.oracle_fail("history/latest-complete-not-newest", f"'latest complete' did not select b{newest:04d} (differs at {d[0]!r})", small)
                        ok = False
                        break
        if not ok:
            continue
        if len(snaps) >= 2:
            ctx.nontrivial(json.dumps([m["kind"] + str(m.get("plan") or m.get("ids") or "") for m in c["marks"] if m["kind"] in ("backup", "delete")]))
        ctx.dist("completed_versions_%d" % min(len(snaps), 5))
        names = l4.Names()
        scen.collect_names(names, c["steps"], r)
        h = l4.History(c["id"], names)
        keep = [(st, mk, rs) for st, mk, rs in zip(c["steps"], c["marks"], r) if mk["kind"] not in ("restore", "restore_latest", "versions")]
        scen.add_model_history(h, [x[0] for x in keep], [x[1] for x in keep], [x[2] for x in keep], names)
        hs.append(h)
    high_numbers(ctx)
    out = l4.evaluate(ctx, "C02", hs, shards=8 if quick else 16)
    agreed = total = 0
    for h in hs:
        for desc, code in (out.get(h.cid) or []):
            total += 1
            if code == 0:
                agreed += 1
            else:
                c = next(x for x in cases if x["id"] == h.cid)
                ctx.corr_fail("L4", f"history {h.cid}: model and implementation differ at {desc}: code {code}", {"steps": c["steps"]})
                break
    ctx.layer("L4-histories", agreed, total)
    if cases:
        ctx.sample({"history": [m["kind"] + (":" + json.dumps(m.get("plan")) if m.get("plan") else "") + (str(m.get("ids")) if m.get("ids") is not None else "")
                                for m in cases[0]["marks"] if m["kind"] in ("backup", "delete", "validate")]})
    ctx.assumptions += ["a content change comes with a new mtime or size (the property's proviso); hash identity = content identity (BLAKE2b collisions excluded)"]


def replay(ctx, rep):
    r = rep.get("replay", rep)
    ctx.build()
    out = ctx.cvh_run([{"id": "r", "steps": r["steps"]}])["r"]
    for st, rs in zip(r["steps"], out):
        if isinstance(rs, dict) and st["op"] in ("backup", "delete", "restore", "validate"):
            print(st["op"], st.get("band"), st.get("bands"), st.get("plan"), {k: rs.get(k) for k in ("result", "crashed", "panic") if rs.get(k)},
                  json.dumps(rs.get("err") or rs.get("monitor_errors"))[:160])
    return 0
