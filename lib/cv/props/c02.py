"""C02 — Every completed version keeps restoring to its own snapshot."""
import json

from .. import gen, l4, scen


def build(ctx, n, nsteps):
    """histories where after every mutating step every existing band is restored"""
    cases = []
    for t in range(n):
        steps, marks = scen.rand_history(ctx.rng, nsteps)
        out, om = [], []
        nb = 0
        for st, mk in zip(steps, marks):
            out.append(st)
            om.append(mk)
            if mk["kind"] == "backup":
                nb += 1
            if mk["kind"] == "arch":
                for b in range(nb):
                    out.append({"op": "restore", "band": b, "dest": f"r{len(out)}"})
                    om.append({"kind": "restore", "band": b})
                out.append({"op": "restore", "dest": f"r{len(out)}"})
                om.append({"kind": "restore_latest"})
                out.append({"op": "versions"})
                om.append({"kind": "versions"})
        cases.append({"id": f"h{t}", "steps": out, "marks": om})
    return cases


def high_numbers(ctx):
    """Version numbers whose directory names differ in length (b9999, b10000, ...): an archive that has seen more than ten
    thousand backups.  Two real versions are renumbered (a version carries its id only in its directory name); 'latest
    complete' must select the numerically newest, a further backup gets the next id, every version restores to its snapshot."""
    ta = scen.small_tree(ctx.rng)
    tb, _ = gen.mutate_tree(ctx.rng, ta)
    tc, _ = gen.mutate_tree(ctx.rng, tb)
    for k, t in enumerate((ta, tb, tc)):
        t["c"]["gen"] = {"k": "f", "data": (b"generation %d" % k).hex(), "mode": 0o644, "mtime": 10**18 + k}
    o = scen.small_opts(ctx.rng)
    for lo, hi in ((9999, 10000), (99, 100000), (9998, 9999)):
        steps = [{"op": "init"},
                 {"op": "mktree", "path": "src", "tree": ta}, {"op": "snap", "path": "src"}, {"op": "backup", "opts": o},
                 {"op": "mktree", "path": "src", "tree": tb}, {"op": "snap", "path": "src"}, {"op": "backup", "opts": o},
                 {"op": "rename", "from": "b0001", "to": f"b{hi:04d}"}, {"op": "rename", "from": "b0000", "to": f"b{lo:04d}"},
                 {"op": "versions"}, {"op": "restore", "dest": "latest1"}, {"op": "restore", "band": lo, "dest": "lo"}, {"op": "restore", "band": hi, "dest": "hi"},
                 {"op": "mktree", "path": "src", "tree": tc}, {"op": "snap", "path": "src"}, {"op": "backup", "opts": o}, {"op": "arch"},
                 {"op": "restore", "dest": "latest2"}, {"op": "restore", "band": hi + 1, "dest": "new"}]
        r = ctx.cvh_run([{"id": "hn", "steps": steps}]).get("hn")
        ctx.count()
        small = {"steps": steps}
        if r is None or any(isinstance(x, dict) and x.get("panic") for x in r):
            ctx.oracle_fail("history/panic", "an operation crashed on an archive with five-digit version numbers", small)
            continue
        sa, sb, sc_ = r[2]["tree"], r[5]["tree"], r[14]["tree"]
        checks = [("latest complete (two versions)", r[10], sb), (f"b{lo:04d}", r[11], sa), (f"b{hi:04d}", r[12], sb),
                  ("latest complete (after a third backup)", r[17], sc_), (f"b{hi + 1:04d}", r[18], sc_)]
        bad = None
        for what, got, want in checks:
            if got.get("result") != "ok" or got.get("monitor_errors") or scen.first_difference(scen.strip(want), scen.strip(got.get("tree"))):
                bad = what
                break
        if bad is None and f"b{hi + 1:04d}" not in r[16]["arch"]["dirs"]:
            bad = f"the third backup did not get id {hi + 1}"
        if bad:
            sig = "history/latest-not-newest" if bad.startswith("latest") else "history/version-differs"
            ctx.oracle_fail(sig, f"versions b{lo:04d} and b{hi:04d} (directory names of different lengths): {bad} does not restore to its snapshot", small)
        else:
            ctx.nontrivial(f"high:{lo}:{hi}")
            ctx.dist("five_digit_version_numbers")


def run(ctx):
    quick = ctx.tier == "quick"
    cases = build(ctx, 36 if quick else 400, 8 if quick else 18)
    ctx.cov["rule"] = ("random histories over {source changes (content+mtime, same-size content, chmod, add/remove, kind swaps), backup(options), backup "
                       "killed at a random storage operation (incl. the empty-file state) and later resumed, delete(subset), gc, validate}; after "
                       "every step every version that was completed and not deleted is restored by id and must equal the snapshot taken when "
                       "that backup ran, and 'latest complete' must select the newest of them; + exact L4 trace correspondence of the whole "
                       "history. non-trivial = distinct history with >= 2 completed versions")
    res = ctx.cvh_run(cases, timeout=3000)
    hs = []
    for c in cases:
        r = res.get(c["id"])
        ctx.count()
        if r is None:
            ctx.oracle_fail("history/harness-died", "harness died or hung", {"steps": c["steps"]})
            continue
        snaps = {}       # band id -> snapshot tree
        last_snap = None
        alive = set()
        known_bands = set()
        pending_backup = None
        ok = True
        nb = 0
        for i, (st, mk, rs) in enumerate(zip(c["steps"], c["marks"], r)):
            small = {"steps": c["steps"][:i + 1]}
            if isinstance(rs, dict) and rs.get("panic"):
                ctx.oracle_fail("history/panic", f"{st['op']} panicked: {rs['panic'][:160]}", small)
                ok = False
                break
            if mk["kind"] == "snap":
                last_snap = rs["tree"]
            elif mk["kind"] == "backup":
                nb += 1
                pending_backup = None
                if rs.get("result") == "ok" and not rs.get("crashed"):
                    if rs["value"]["errors"] or rs.get("monitor_errors") and any(e["class"] not in ("BandHeadMissing", "DeserializeJson", "InvalidMetadata", "SnapCompressionError") for e in rs["monitor_errors"]):
                        ctx.oracle_fail("history/backup-errors", f"fault-free backup reported errors {json.dumps(rs.get('monitor_errors'))[:200]}", small)
                        ok = False
                        break
                    pending_backup = last_snap          # its band id is read off the next archive snapshot
                elif not rs.get("crashed"):
                    ctx.oracle_fail("history/backup-failed", f"fault-free backup failed: {json.dumps(rs.get('err'))[:200]}", small)
                    ok = False
                    break
            elif mk["kind"] == "delete":
                if rs.get("result") == "ok" and not mk["dry"]:
                    alive -= set(mk["ids"])
                elif rs.get("result") != "ok" and not mk["dry"]:
                    # a failed delete may have removed some of the requested bands before failing
                    pass
            elif mk["kind"] == "arch":
                present = {int(d[1:]) for d in rs["arch"]["dirs"] if scen.BAND_RE.match(d)}
                if pending_backup is not None:
                    new = present - known_bands
                    if new:
                        snaps[max(new)] = pending_backup
                        alive.add(max(new))
                    elif present:
                        pass
                    pending_backup = None
                known_bands = set(present)
                alive &= present
            elif mk["kind"] == "restore":
                b = mk["band"]
                if b in alive:
                    if rs.get("result") != "ok" or rs.get("monitor_errors"):
                        ctx.oracle_fail("history/version-does-not-restore", f"completed version b{b:04d} no longer restores: "
                                                                            f"{json.dumps(rs.get('err') or rs.get('monitor_errors'))[:200]}", small)
                        ok = False
                        break
                    d = scen.first_difference(scen.strip(snaps[b]), scen.strip(rs.get("tree")))
                    if d:
                        ctx.oracle_fail("history/version-differs", f"completed version b{b:04d} restores differently from its snapshot at {d[0]!r} ({d[1]})", small)
                        ok = False
                        break
            elif mk["kind"] == "restore_latest":
                if alive:
                    newest = max(alive)
                    if rs.get("result") != "ok":
                        ctx.oracle_fail("history/latest-complete-fails", f"restoring the latest complete version fails: {json.dumps(rs.get('err'))[:200]}", small)
                        ok = False
                        break
                    d = scen.first_difference(scen.strip(snaps[newest]), scen.strip(rs.get("tree")))
                    if d:
                        ctx.oracle_fail("history/latest-complete-not-newest", f"'latest complete' did not select b{newest:04d} (differs at {d[0]!r})", small)
                        ok = False
                        break
        if not ok:
            continue
        if len(snaps) >= 2:
            ctx.nontrivial(json.dumps([m["kind"] + str(m.get("plan") or m.get("ids") or "") for m in c["marks"] if m["kind"] in ("backup", "delete")]))
        ctx.dist("completed_versions_%d" % min(len(snaps), 5))
        names = l4.Names()
        scen.collect_names(names, c["steps"], r)
        h = l4.History(c["id"], names)
        keep = [(st, mk, rs) for st, mk, rs in zip(c["steps"], c["marks"], r) if mk["kind"] not in ("restore", "restore_latest", "versions")]
        scen.add_model_history(h, [x[0] for x in keep], [x[1] for x in keep], [x[2] for x in keep], names)
        hs.append(h)
    high_numbers(ctx)
    out = l4.evaluate(ctx, "C02", hs, shards=8 if quick else 16)
    agreed = total = 0
    for h in hs:
        for desc, code in (out.get(h.cid) or []):
            total += 1
            if code == 0:
                agreed += 1
            else:
                c = next(x for x in cases if x["id"] == h.cid)
                ctx.corr_fail("L4", f"history {h.cid}: model and implementation differ at {desc}: code {code}", {"steps": c["steps"]})
                break
    ctx.layer("L4-histories", agreed, total)
    if cases:
        ctx.sample({"history": [m["kind"] + (":" + json.dumps(m.get("plan")) if m.get("plan") else "") + (str(m.get("ids")) if m.get("ids") is not None else "")
                                for m in cases[0]["marks"] if m["kind"] in ("backup", "delete", "validate")]})
    ctx.assumptions += ["a content change comes with a new mtime or size (the property's proviso); hash identity = content identity (BLAKE2b collisions excluded)"]


def replay(ctx, rep):
    r = rep.get("replay", rep)
    ctx.build()
    out = ctx.cvh_run([{"id": "r", "steps": r["steps"]}])["r"]
    for st, rs in zip(r["steps"], out):
        if isinstance(rs, dict) and st["op"] in ("backup", "delete", "restore", "validate"):
            print(st["op"], st.get("band"), st.get("bands"), st.get("plan"), {k: rs.get(k) for k in ("result", "crashed", "panic") if rs.get(k)},
                  json.dumps(rs.get("err") or rs.get("monitor_errors"))[:160])
    return 0
