"""C01 — Backup then restore reproduces the source tree exactly."""
import concurrent.futures
import json

from .. import common, gen, coqfmt, scen
from ..common import gallina_str, gallina_list

HEADER = "From CV Require Import Base.Str Apath Entry Codec Tree Corr.Run.\nLocal Open Scope N_scope.\n"
KCODE = {"File": 0, "Dir": 1, "Symlink": 2, "Unknown": 3}


def g_tree(node, ids):
    """Gallina `tree N`: metadata = a running node number."""
    my = len(ids)
    ids.append(my)
    if node["k"] == "d":
        kids = gallina_list(["(" + gallina_str(n) + "," + g_tree(c, ids) + ")" for n, c in node.get("c", {}).items()])
        return f"(TDir {my} {kids})"
    return f"(TLeaf {'KFile' if node['k'] == 'f' else 'KSymlink'} {my})"


def strip(node):
    """Comparable form of a snapshot."""
    if node is None:
        return None
    out = {k: node.get(k) for k in ("k", "mode", "mtime", "uid", "gid", "data", "target")}
    if node.get("k") == "d":
        out["c"] = {n: strip(c) for n, c in (node.get("c") or {}).items()}
    return out


def first_difference(a, b, path="/"):
    if a is None or b is None:
        return (path, "missing", a is None, b is None)
    for k in ("k", "data", "target", "mtime", "mode", "uid", "gid"):
        if a.get(k) != b.get(k):
            return (path, k, a.get(k), b.get(k))
    if a.get("k") == "d":
        ca, cb = a.get("c") or {}, b.get("c") or {}
        for n in sorted(set(ca) | set(cb)):
            d = first_difference(ca.get(n), cb.get(n), path.rstrip("/") + "/" + n)
            if d:
                return d
    return None


def make_cases(ctx, n):
    cases = []
    for t in range(n):
        big = ctx.rng.random() < 0.15
        sizes = gen.SIZES + ([64, 65, 100, 128, 129] if big else [])
        tree = gen.rand_tree(ctx.rng, depth=ctx.rng.choice([1, 2, 3, 3, 4]), fanout=ctx.rng.choice([3, 4, 5]), sizes=sizes)
        if t % 4 == 1:
            # sibling directories D and D<c>... with c sorting below '/': the order in which restore meets them (path order:
            # D's whole subtree before D<c>) and the string order of their paths disagree; all of them hold something, and
            # all have old modification times that restore must put back AFTER filling them
            def f_(d, m):
                return {"k": "f", "data": d.hex(), "mode": 0o644, "mtime": 10**18 + m}

            def d_(c, m):
                return {"k": "d", "mode": ctx.rng.choice([0o755, 0o700, 0o2775]), "mtime": 9 * 10**17 + m, "c": c}
            base = ctx.rng.choice(["data", "a", "ñ", "proj"])
            host = tree
            subs = [v for v in tree["c"].values() if v["k"] == "d"]
            if subs and ctx.rng.random() < 0.4:
                host = ctx.rng.choice(subs)
            host["c"][base] = d_({"sub": d_({"deep": f_(b"deep", 1), "deeper": d_({"x": f_(b"x", 2)}, 3)}, 4), "top": f_(b"top", 5)}, 6)
            for k_, suf in enumerate(ctx.rng.sample(["-old", ".b", " 2", "(1)", ",v", "+", "!"], 3)):
                host["c"][base + suf] = d_({"inside": f_(b"in", 7), "more": d_({"y": f_(b"y", 8)}, 9)}, 10 + k_)
        opts = gen.rand_opts(ctx.rng)
        steps = [{"op": "init"}]
        band = 0
        if t % 3 == 2:
            # the archive already holds an earlier version of (a variant of) this tree: metadata-only
            # changes (chmod, chown, retarget) and content changes must all show in the new version
            earlier, _ = gen.mutate_tree(ctx.rng, tree)
            # a file rewritten with the same length a fraction of a second after a WHOLE-second mtime (and one the other way
            # round): the new version must hold the new bytes
            sec = ctx.rng.randrange(1, 2_000_000_000) * 10**9
            earlier["c"]["tick"] = {"k": "f", "data": b"balance: 100".hex(), "mode": 0o644, "mtime": sec}
            tree["c"]["tick"] = {"k": "f", "data": b"balance: 999".hex(), "mode": 0o644, "mtime": sec + ctx.rng.choice([1, 250_000_000, 999_999_999])}
            earlier["c"]["tock"] = {"k": "f", "data": b"0123456789".hex(), "mode": 0o644, "mtime": sec + 500_000_000}
            tree["c"]["tock"] = {"k": "f", "data": b"9876543210".hex(), "mode": 0o644, "mtime": sec}
            steps += [{"op": "mktree", "path": "src", "tree": earlier}, {"op": "walk"}, {"op": "backup", "opts": gen.rand_opts(ctx.rng)}]
            band = 1
        steps += [{"op": "mktree", "path": "src", "tree": tree}, {"op": "snap", "path": "src"},
                  {"op": "walk"}, {"op": "backup", "opts": opts}, {"op": "list", "band": band}, {"op": "arch"},
                  {"op": "restore", "dest": "out"}, {"op": "versions"}]
        cases.append({"id": f"r{t}", "tree": tree, "opts": opts, "steps": steps, "earlier": band == 1})
    return cases


def content_shapes(ctx, n):
    """Larger files whose CONTENT has a shape a writer or reader might treat specially: long runs of zero bytes (whole file, at
    the start, in the middle, at the end, a whole last block), long runs of one byte, a block repeated, sizes at and around the
    block size; with block sizes from a few KiB to the default.  Direct oracle only: the restored bytes are the source bytes."""
    cases = []
    for t in range(n):
        mbs = ctx.rng.choice([4096, 8192, 65536, 20 << 20])
        sfc = ctx.rng.choice([0, 4096, 1 << 20])

        def rnd(k):
            return bytes(ctx.rng.randrange(1, 256) for _ in range(k))
        z = lambda k: bytes(k)
        shapes = {
            "all_zeros_small": z(ctx.rng.choice([4096, 5000, 7000])),
            "all_zeros_blocks": z(mbs * 2 if mbs <= 65536 else 3 * 65536),
            "zeros_at_end": rnd(700) + z(ctx.rng.choice([4096, 6000, 9000])),
            "zero_last_block": (rnd(mbs) + z(mbs)) if mbs <= 65536 else rnd(5000) + z(70000),
            "zeros_at_start": z(ctx.rng.choice([4096, 9000])) + rnd(300),
            "zeros_in_the_middle": rnd(500) + z(8192) + rnd(500),
            "one_byte_run": b"\xff" * ctx.rng.choice([4096, 10000]),
            "block_repeated": rnd(mbs if mbs <= 8192 else 4096) * 3,
            "just_below_block": rnd(max(1, min(mbs, 65536) - 1)),
            "just_above_block": rnd(min(mbs, 65536) + 1),
            "short_zeros": z(100),
            "one_zero": z(1),
        }
        tree = {"k": "d", "mode": 0o755, "mtime": 10**18, "c": {
            nm: {"k": "f", "data": d.hex(), "mode": 0o644, "mtime": 10**18 + i} for i, (nm, d) in enumerate(sorted(shapes.items()))}}
        opts = {"meph": ctx.rng.choice([3, 100000]), "mbs": mbs, "sfc": sfc}
        steps = [{"op": "init"}, {"op": "mktree", "path": "src", "tree": tree}, {"op": "snap", "path": "src"},
                 {"op": "backup", "opts": opts}, {"op": "restore", "dest": "out"}]
        cases.append({"id": f"z{t}", "tree": tree, "opts": opts, "steps": steps})
    res = ctx.cvh_run(cases)
    for c in cases:
        r = res.get(c["id"])
        ctx.count()
        small = {"opts": c["opts"], "steps": c["steps"]}
        if r is None:
            ctx.oracle_fail("roundtrip/harness-died", "harness died or hung", small)
            continue
        snap, bk, rs = r[2], r[3], r[4]
        if bk.get("panic") or rs.get("panic"):
            ctx.oracle_fail("roundtrip/panic", f"backup or restore crashed: {(bk.get('panic') or rs.get('panic'))[:200]}", small)
            continue
        if bk.get("result") != "ok" or bk.get("monitor_errors") or rs.get("result") != "ok" or rs.get("monitor_errors"):
            ctx.oracle_fail("roundtrip/restore-error", "backup or restore of shaped contents returned or reported errors: "
                            + json.dumps(bk.get("err") or bk.get("monitor_errors") or rs.get("err") or rs.get("monitor_errors"))[:300], small)
            continue
        d = first_difference(snap.get("tree"), rs.get("tree"))
        if d and d[1] == "data":
            a, b = bytes.fromhex(d[2] or ""), bytes.fromhex(d[3] or "")
            ctx.oracle_fail("roundtrip/bytes", f"{d[0]} ({len(a)} bytes in the source) restored as {len(b)} bytes"
                                               f"{'' if len(a) != len(b) else ' with other content'} (options {c['opts']})", small)
            continue
        if d:
            ctx.oracle_fail("roundtrip/paths", f"restored tree differs from the source at {d[:2]}", small)
            continue
        ctx.dist("content_shape_trees")
        ctx.nontrivial("shapes:" + json.dumps(c["opts"]))


def run(ctx):
    quick = ctx.tier == "quick"
    content_shapes(ctx, 6 if quick else 60)
    cases = make_cases(ctx, 120 if quick else 4000)
    ctx.cov["rule"] = ("generated trees (depth<=4; names non-ASCII / leading dots / bytes below and above '/'; file sizes 0, around the "
                       "small-file threshold, multiples of the block size +-1, duplicate contents; modes drawn from all of 0..0o7777 with a bias "
                       "to setuid/setgid/sticky; mtimes {<0,0,>0} x {nanos 0, !=0}; owners root/daemon/bin/sys/nobody) x option triples; "
                       "direct oracle: restored snapshot == source snapshot, no errors; + larger files with content shapes (runs of zeros at the start / middle / end / a whole last block, one-byte runs, repeated blocks, sizes around the block size) restored byte for byte; model: walk_q vs the walk (L2), enc_time_floor vs stored "
                       "mtime fields, read_addrs over the decoded archive == source bytes and file_addrs == stored addresses for large files. "
                       "non-trivial = distinct (tree, options) with at least one non-empty file")
    res = ctx.cvh_run(cases)
    items = []
    modes_seen = set()
    for c in cases:
        r = res.get(c["id"])
        ctx.count()
        small = {"tree": c["tree"], "opts": c["opts"]} if not c.get("earlier") else {"steps": c["steps"], "tree": c["tree"], "opts": c["opts"]}
        if r is None:
            ctx.oracle_fail("roundtrip/harness-died", "harness died or hung", small)
            continue
        snap, walk, bk, lst, arch, rs, vers = r[-7], r[-6], r[-5], r[-4], r[-3], r[-2], r[-1]
        pan = [x.get("panic") for x in r if isinstance(x, dict) and x.get("panic")]
        if pan:
            ctx.oracle_fail("roundtrip/panic", f"backup or restore crashed: {pan[0][:200]}", small)
            continue
        if bk.get("result") != "ok":
            ctx.oracle_fail("roundtrip/backup-error", "backup returned an error: " + json.dumps(bk.get("err"))[:300], small)
            continue
        if bk["value"]["errors"] != 0 or bk.get("monitor_errors"):
            ctx.oracle_fail("roundtrip/backup-reported-errors", "backup reported errors: " + json.dumps(bk.get("monitor_errors"))[:300], small)
            continue
        if rs.get("result") != "ok" or rs.get("monitor_errors"):
            ctx.oracle_fail("roundtrip/restore-error", "restore returned or reported errors: " + json.dumps(rs.get("err") or rs.get("monitor_errors"))[:300], small)
            continue
        d = first_difference(strip(snap["tree"]), strip(rs["tree"]))
        if d:
            what = d[1]
            sig = {"mode": "roundtrip/mode", "mtime": "roundtrip/mtime", "uid": "roundtrip/owner", "gid": "roundtrip/owner",
                   "data": "roundtrip/bytes", "target": "roundtrip/target"}.get(what, "roundtrip/paths")
            val = (oct(d[2]), oct(d[3])) if what == "mode" and d[2] is not None and d[3] is not None else (d[2], d[3])
            ctx.oracle_fail(sig, f"restored tree differs from the source at {d[0]!r}: {what} source={val[0]} restored={val[1]}", small)
            continue
        if any(n["k"] == "f" and n["data"] for _, n in gen.tree_paths(c["tree"])):
            ctx.nontrivial(json.dumps(small, sort_keys=True))
        for _, n in gen.tree_paths(c["tree"]):
            if "mode" in n:
                modes_seen.add(n["mode"])
            ctx.dist("node_" + n["k"])
            if n["k"] == "f":
                ctx.dist("mtime_%s_%s" % ("neg" if n["mtime"] < 0 else ("zero" if n["mtime"] < 10**9 else "pos"), "frac" if n["mtime"] % 10**9 else "whole"))
        ctx.dist("opts_" + json.dumps(c["opts"], sort_keys=True))
        items.append((c, snap, walk, lst, arch))
    ctx.cov["input_distribution"]["distinct_modes"] = len(modes_seen)
    # ---- model vs implementation
    shards = 4 if quick else 16
    per = (len(items) + shards - 1) // shards
    jobs = []
    for s in range(shards):
        part = items[s * per:(s + 1) * per]
        if not part:
            continue
        defs = []
        for c, snap, walk, lst, arch in part:
            table = coqfmt.hash_table(arch["arch"])
            ids = []
            tree = g_tree(c["tree"], ids)
            wimpl = gallina_list(["(" + gallina_str(e["apath"]) + "," + str(KCODE[e["kind"]]) + ")" for e in walk["value"]])
            nodes = dict(gen.tree_paths(snap["tree"]))
            # per listed entry: stored (sec, nanos) vs source mtime; file bytes vs read_addrs
            ents = []
            for e in lst["value"]:
                n = nodes.get(e["apath"])
                if n is None:
                    continue
                raw = e["raw"]
                content = bytes.fromhex(n["data"]) if n["k"] == "f" else b""
                large = 1 if (n["k"] == "f" and len(content) > c["opts"]["sfc"] and not c.get("earlier")) else 0
                ents.append("(%s, (%d)%%Z, %s, %s, %d)" % (coqfmt.g_entry(raw, table), n["mtime"], gallina_str(content),
                                                         "true" if n["k"] == "f" else "false", large))
            blocks = gallina_list([gallina_str(v) for v in table.values()])
            mbs = min(c["opts"]["mbs"], 4096)
            defs.append(f"(check_case {tree} {wimpl} {gallina_list(ents)} {blocks} {mbs})")
        body = HEADER + """
Definition kcode (k : kind) : N := kind_code k.
Fixpoint wl_eqb (a : list (item N)) (b : list (str * N)) : bool :=
  match a, b with [], [] => true
  | x :: a', y :: b' => str_eqb (path x) (fst y) && N.eqb (kcode (ikind x)) (snd y) && wl_eqb a' b' | _, _ => false end.
Definition walk_ok (t : tree N) (impl : list (str * N)) : bool :=
  match walk_q (fun _ => false) t with Some l => wl_eqb l impl | None => false end.
Definition obytes_eqb (o : option bytes) (b : bytes) : bool := match o with Some x => str_eqb x b | None => false end.
Definition ent_ok (blocks : list bytes) (mbs : N) (x : entry * Z * bytes * bool * N) : bool :=
  let '(e, t, content, isfile, large) := x in
  let '(s, n) := enc_time_floor t in
  Z.eqb (e_mtime e) s && N.eqb (e_nanos e) n
  && (if isfile then obytes_eqb (read_addrs (store_of blocks) (e_addrs e)) content
                     && N.eqb (e_size e) (N.of_nat (length content))
                     && (if N.eqb large 1 then list_eqb addr_eqb (e_addrs e) (file_addrs (N.to_nat mbs) content) else true)
      else match e_addrs e with [] => true | _ => false end).
Definition check_case t wimpl ents blocks mbs : N :=
  (if walk_ok t wimpl then 0 else 1) + (if forallb (ent_ok blocks mbs) ents then 0 else 2).
Definition results : list N := """ + gallina_list(defs) + ".\nEval vm_compute in first_diff results (map (fun _ => 0) results) 0.\n"
        jobs.append((s, part, body))
    agreed = 0
    with concurrent.futures.ThreadPoolExecutor(max_workers=16) as ex:
        futs = {ex.submit(common.coq_eval, f"C01_{s}", body, 1800): (s, part) for s, part, body in jobs}
        for fut in concurrent.futures.as_completed(futs):
            s, part = futs[fut]
            ok, out = fut.result()
            blocks = common.parse_eval_blocks(out)
            if not ok or not blocks:
                ctx.corr_fail("L2", "model evaluation failed: " + out[-600:], {})
            elif blocks[0].strip().startswith("None"):
                agreed += len(part)
            else:
                nums = common.parse_nums(blocks[0])
                c = part[nums[0]][0]
                ctx.corr_fail("L2", f"model and implementation differ (bit 1: source walk vs walk_q; bit 2: stored mtime / addresses / content "
                                    f"vs enc_time_floor / file_addrs / read_addrs): code {nums[1]}", {"tree": c["tree"], "opts": c["opts"]})
                agreed += nums[0]
    ctx.layer("L2-walk+codec", agreed, len(items))
    # ---- L4: init, backup and restore as programs over storage (restore's reads as a set)
    # the destination side: Dest.restore_into on the version's listing vs the restored tree
    from .. import destmodel
    rows, meta = [], []
    for c in cases:
        r = res.get(c["id"])
        if r is None or any(isinstance(x, dict) and (x.get("panic") or x.get("result") == "err") for x in r):
            continue
        lst, rs = r[-4], r[-2]
        if lst.get("result") != "ok" or rs.get("result") != "ok" or not rs.get("tree"):
            continue
        rows.append(destmodel.row(False, None, lst["value"], scen.tree_file_bytes(c["tree"]), rs["tree"], len(rs.get("monitor_errors") or []), False, True))
        meta.append(c)
    if rows:
        nums, txt = destmodel.evaluate("C01_dest", rows)
        if nums is None:
            ctx.corr_fail("L2", "Dest.restore_into evaluation failed: " + txt, {})
        else:
            ok_n = 0
            for c, code in zip(meta, nums):
                if code == 0:
                    ok_n += 1
                else:
                    ctx.corr_fail("L2", f"Dest.restore_into and restore differ on the listing of a complete version (code {code}: {destmodel.CODES})",
                                  {"tree": c["tree"], "opts": c["opts"], "steps": c["steps"]})
            ctx.layer("L2-destination", ok_n, len(meta))
    from .. import l4
    hs = []
    for c in cases[:: (2 if quick else 4)]:
        r = res.get(c["id"])
        if r is None or any(isinstance(x, dict) and (x.get("panic") or x.get("result") == "err") for x in r):
            continue
        names = l4.Names()
        for st, rs in zip(c["steps"], r):
            if isinstance(rs, dict) and "arch" in rs:
                names.add_arch(rs["arch"])
            if isinstance(rs, dict) and "trace" in rs:
                names.add_trace(rs["trace"])
        h = l4.History(c["id"], names)
        h.expect_ready = True
        h.expect_tree = True
        for st, rs in zip(c["steps"], r):
            if st["op"] in ("init", "mktree", "walk", "backup", "arch", "restore"):
                if st["op"] == "backup" and "walk" not in [s2["op"] for s2 in c["steps"][:c["steps"].index(st)]]:
                    h.set_state_from_arch  # (earlier backup without a recorded walk: resynchronise below)
                h.add(st, rs)
        hs.append(h)
    out = l4.evaluate(ctx, "C01h", hs, shards=8 if quick else 16)
    agreed = total = 0
    for h in hs:
        for desc, code in (out.get(h.cid) or []):
            total += 1
            if code == 0:
                agreed += 1
            else:
                c = next(x for x in cases if x["id"] == h.cid)
                ctx.corr_fail("L4", f"case {h.cid}: model and implementation differ at {desc}: code {code}", {"tree": c["tree"], "opts": c["opts"], "steps": c["steps"]})
                break
    ctx.layer("L4-backup-restore", agreed, total)
    if cases:
        ctx.sample({"tree_paths": [p for p, _ in gen.tree_paths(cases[0]["tree"])][:12], "opts": cases[0]["opts"]})
    ctx.assumptions += ["runs as root, so owner and group are restored; kernel, jiff, filetime and uzers are modelled by arithmetic only",
                        "max_block_size >= 1 (with 0 a large file is recorded with no addresses: invalid configuration)"]


def replay(ctx, rep):
    r = rep.get("replay", rep)
    ctx.build()
    if "steps" in r:
        out = ctx.cvh_run([{"id": "r", "steps": r["steps"]}])["r"]
        print("backup:", out[-5].get("result"), out[-5].get("err"), out[-5].get("panic"), out[-5].get("monitor_errors"))
        print("restore:", out[-2].get("result"), out[-2].get("err"), out[-2].get("panic"), out[-2].get("monitor_errors"))
        print("first difference (path, field, source, restored):", first_difference(strip(out[-7]["tree"]), strip(out[-2].get("tree"))))
        return 0
    c = {"id": "r", "steps": [{"op": "init"}, {"op": "mktree", "path": "src", "tree": r["tree"]}, {"op": "snap", "path": "src"},
                              {"op": "backup", "opts": r.get("opts", {})}, {"op": "restore", "dest": "out"}]}
    out = ctx.cvh_run([c])["r"]
    print("backup:", out[3].get("result"), out[3].get("err"), out[3].get("panic"), out[3].get("monitor_errors"))
    print("restore:", out[4].get("result"), out[4].get("err"), out[4].get("panic"), out[4].get("monitor_errors"))
    print("first difference (path, field, source, restored):", first_difference(strip(out[2]["tree"]), strip(out[4].get("tree"))))
    return 0
