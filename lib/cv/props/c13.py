"""C13 — Everything written conforms to the documented archive format."""
import json

from .. import gen, l4, scen


def run(ctx):
    quick = ctx.tier == "quick"
    n, nsteps = (40, 8) if quick else (500, 16)
    cases = []
    for t in range(n):
        steps, marks = scen.rand_history(ctx.rng, nsteps, faults=True)
        cases.append({"id": f"h{t}", "steps": steps, "marks": marks})
    ctx.cov["rule"] = ("random histories (backups with random option triples incl. 1-entry hunks and 1-byte blocks, backups killed at a random "
                       "operation incl. the empty-file state, deletes, gc): after EVERY mutating operation an independent reader of the 0.6 "
                       "format (snap + serde_json + blake2, never conserve's own) checks: hunks numbered consecutively from zero, non-empty, valid "
                       "strictly increasing paths within and across hunks, tail states the true hunk count, blocks named by and filed under the "
                       "BLAKE2b of their content, addresses inside their blocks, only files carry addresses summing to... , only symlinks carry a "
                       "target. + exact L4 correspondence. non-trivial = distinct history")
    # a systematic family: identical contents that become separate blocks x EVERY single failing operation
    for t in range(1 if quick else 10):
        tree = scen.small_tree(ctx.rng)
        dup = gen.rand_bytes(ctx.rng, 5)
        for k in range(3):
            tree["c"][f"dup{k}"] = {"k": "f", "data": dup.hex(), "mode": 0o600, "mtime": 10**18 + k}
        opts = {"meph": ctx.rng.choice([2, 3, 100000]), "mbs": 8, "sfc": ctx.rng.choice([0, 1])}
        for k in range(8, 60 if quick else 90):
            steps = [{"op": "init"}, {"op": "mktree", "path": "src", "tree": tree}, {"op": "snap", "path": "src"}, {"op": "walk"},
                     {"op": "backup", "opts": opts, "plan": {"faults": [[k, ctx.rng.choice(["NotFound", "AlreadyExists", "PermissionDenied", "Other"])]]}},
                     {"op": "arch"}]
            marks = [{"kind": "init"}, {"kind": "mktree", "tree": tree}, {"kind": "snap"}, {"kind": "walk"},
                     {"kind": "backup", "plan": steps[4]["plan"], "tree": tree, "snap_at": 2}, {"kind": "arch"}]
            cases.append({"id": f"f{t}_{k}", "steps": steps, "marks": marks})
    # the source changes while it is being backed up: a file shrinks after its directory was listed and stat-ed
    for t in range(12 if quick else 150):
        tree = {"k": "d", "mode": 0o755, "mtime": 10**18, "c": {}}
        names_ = ["a", "b", "c", "d", "e"]
        for i, nm in enumerate(names_):
            tree["c"][nm] = {"k": "f", "data": gen.rand_bytes(ctx.rng, ctx.rng.choice([6, 10, 24, 40])).hex(), "mode": 0o644, "mtime": 10**18 + i}
        victim = ctx.rng.choice(names_[1:])
        after = "/" + ctx.rng.choice(names_[:names_.index(victim)])
        full = len(tree["c"][victim]["data"]) // 2
        newlen = ctx.rng.randrange(1, full) if t % 2 else 0        # every other: cut to nothing (read returns no byte)
        sfc, mbs = [(1000, 1000), (16, 30), (0, 8), (1000, 30)][(t // 2) % 4]   # all small and queued together / some / none
        opts = {"meph": ctx.rng.choice([2, 3, 100000]), "mbs": mbs, "sfc": sfc,
                "mutate": [{"after": after, "path": victim, "len": newlen}]}
        if newlen == 0 and sfc == 1000 and mbs == 1000:
            opts["meph"] = 100000          # the emptied file is recorded at once while the earlier small files are still queued
            if t % 4 == 0:
                opts["mutate"][0]["after"] = "/" + names_[names_.index(victim) - 1]
        steps = [{"op": "init"}, {"op": "mktree", "path": "src", "tree": tree}, {"op": "snap", "path": "src"}, {"op": "walk"},
                 {"op": "backup", "opts": opts}, {"op": "arch"}]
        marks = [{"kind": "init"}, {"kind": "mktree", "tree": tree}, {"kind": "snap"}, {"kind": "walk"},
                 {"kind": "backup", "plan": None, "tree": tree, "snap_at": 2}, {"kind": "arch"}]
        cases.append({"id": f"m{t}", "steps": steps, "marks": marks, "mutating": True})
    # the removal of the NEWEST version stopped part-way (its head, tail and first hunks are gone, later hunks are still
    # there), then a backup: what that backup writes must be a well-formed version of its own
    for t in range(2 if quick else 12):
        ta = {"k": "d", "mode": 0o755, "mtime": 10**18, "c": {f"f{i}": {"k": "f", "data": gen.rand_bytes(ctx.rng, 4).hex(), "mode": 0o644, "mtime": 10**18 + i}
                                                              for i in range(ctx.rng.choice([7, 9, 11]))}}
        tb, _ = gen.mutate_tree(ctx.rng, ta)
        o_ = {"meph": ctx.rng.choice([2, 3, 4]), "mbs": 64, "sfc": ctx.rng.choice([0, 16])}
        gone = ["b0001/BANDHEAD", "b0001/BANDTAIL", "b0001/i/00000/000000000"] + (["b0001/i/00000/000000001"] if t % 2 else [])
        steps = [{"op": "init"}, {"op": "mktree", "path": "src", "tree": ta}, {"op": "backup", "opts": o_},
                 {"op": "mktree", "path": "src", "tree": tb}, {"op": "backup", "opts": o_}]
        marks = [{"kind": "init"}, {"kind": "mktree", "tree": ta}, {"kind": "backup", "plan": None, "tree": ta, "snap_at": 1},
                 {"kind": "mktree", "tree": tb}, {"kind": "backup", "plan": None, "tree": tb, "snap_at": 3}]
        for g_ in gone:
            steps.append({"op": "damage", "file": g_, "kind": "delete"})
            marks.append({"kind": "damage"})
        tc = {"k": "d", "mode": 0o755, "mtime": 10**18, "c": {"f0": dict(ta["c"]["f0"], mtime=10**18 + 500)}}     # fits one hunk
        steps += [{"op": "mktree", "path": "src", "tree": tc}, {"op": "backup", "opts": o_}, {"op": "arch"}]
        marks += [{"kind": "mktree", "tree": tc}, {"kind": "backup", "plan": None, "tree": tc, "snap_at": len(steps) - 3}, {"kind": "arch"}]
        cases.append({"id": f"pd{t}", "steps": steps, "marks": marks, "oracle_only": True})
    # a delete whose removal of the version's directory is refused by the storage (or which is killed there): the version is
    # still there, and still well-formed
    for t in range(3 if quick else 12):
        ta = {"k": "d", "mode": 0o755, "mtime": 10**18, "c": {f"f{i}": {"k": "f", "data": gen.rand_bytes(ctx.rng, 4).hex(), "mode": 0o644, "mtime": 10**18 + i}
                                                              for i in range(ctx.rng.choice([5, 7, 9]))}}
        tb, _ = gen.mutate_tree(ctx.rng, ta)
        o_ = {"meph": ctx.rng.choice([2, 3]), "mbs": 64, "sfc": ctx.rng.choice([0, 16])}
        b_ = t % 2
        kindf = ["PermissionDenied", "Other", "crash"][t % 3]
        steps = [{"op": "init"}, {"op": "mktree", "path": "src", "tree": ta}, {"op": "backup", "opts": o_},
                 {"op": "mktree", "path": "src", "tree": tb}, {"op": "backup", "opts": o_},
                 {"op": "delete", "bands": [b_], "plan": {"rules": [["RemoveDirAll", f"b{b_:04d}", 0, kindf]]}}, {"op": "arch"}]
        marks = [{"kind": "init"}, {"kind": "mktree", "tree": ta}, {"kind": "backup", "plan": None, "tree": ta, "snap_at": 1},
                 {"kind": "mktree", "tree": tb}, {"kind": "backup", "plan": None, "tree": tb, "snap_at": 3}, {"kind": "delete"}, {"kind": "arch"}]
        cases.append({"id": f"fd{t}", "steps": steps, "marks": marks, "oracle_only": True})
    # directory entries whose names are not UTF-8 (two of them differing only in such bytes): whatever the backup does with
    # them, what it writes is well-formed (strictly increasing paths) and it does not crash
    for t in range(2 if quick else 6):
        tr_ = {"k": "d", "mode": 0o755, "mtime": 10**18, "c": {"plain": {"k": "f", "data": "70", "mode": 0o644, "mtime": 10**18 + 1},
                                                            "sub": {"k": "d", "mode": 0o755, "mtime": 10**18, "c": {}}}}
        raw = [(b"x" + bytes([b_])).hex() for b_ in ctx.rng.sample([0xfe, 0xff, 0xe9, 0x80, 0xc3], 3)]
        steps = [{"op": "init"}, {"op": "mktree", "path": "src", "tree": tr_}, {"op": "mkraw", "dir": "src/sub", "names_hex": raw, "empty": True},
                 {"op": "mkraw", "dir": "src", "names_hex": raw[:2], "empty": True},
                 {"op": "backup", "opts": {"meph": ctx.rng.choice([1, 2, 100000]), "mbs": 64, "sfc": 16}}, {"op": "arch"}]
        marks = [{"kind": "init"}, {"kind": "mktree", "tree": tr_}, {"kind": "mkraw"}, {"kind": "mkraw"},
                 {"kind": "backup", "plan": None, "tree": tr_, "snap_at": 1}, {"kind": "arch"}]
        cases.append({"id": f"un{t}", "steps": steps, "marks": marks, "oracle_only": True})
    # a version with more index hunks than fit one index sub-directory (10000): the numbering carries on into i/00001/
    big = {"k": "d", "mode": 0o755, "mtime": 10**18, "c": {f"e{i:05d}": {"k": "f", "data": "", "mode": 0o644, "mtime": 10**18} for i in range(10040)}}
    steps = [{"op": "init"}, {"op": "mktree", "path": "src", "tree": big}, {"op": "backup", "opts": {"meph": 1, "mbs": 64, "sfc": 0}}, {"op": "arch"}]
    marks = [{"kind": "init"}, {"kind": "mktree", "tree": big}, {"kind": "backup", "plan": None, "tree": big, "snap_at": 1}, {"kind": "arch"}]
    cases.append({"id": "big", "steps": steps, "marks": marks, "oracle_only": True})
    res = ctx.cvh_run(cases, timeout=3000)
    hs = []
    for c in cases:
        r = res.get(c["id"])
        ctx.count()
        if r is None:
            ctx.oracle_fail("format/harness-died", "harness died or hung", {"steps": c["steps"]})
            continue
        ok = True
        src_sizes = {}
        for i, (st, mk, rs) in enumerate(zip(c["steps"], c["marks"], r)):
            if isinstance(rs, dict) and rs.get("panic"):
                ctx.oracle_fail("format/panic", f"step {i} ({st['op']}) crashed: {rs['panic'][:200]}", {"steps": c["steps"][:i + 1]})
                ok = False
                break
            if mk["kind"] == "mktree":
                src_sizes = {p: len(b) for p, b in scen.tree_file_bytes(mk["tree"]).items()}
            if mk["kind"] == "arch":
                dec = scen.decode(rs["arch"])
                # a killed write may leave the newest band's last file empty: legal leftover
                probs = [p for p in scen.conformance_problems(dec, rs["arch"]) if not p.endswith(": empty") or True]
                probs = [p for p in probs if not (p.endswith(": empty") and "hunk" in p)]
                if c["id"].startswith("pd"):
                    # what a stopped removal left behind (a directory without a head) is not a version anyone wrote
                    headless = {"b%04d" % b_ for b_, bd in dec["bands"].items() if bd.get("head") is None}
                    probs = [p for p in probs if p.split(":")[0] not in headless]
                if probs:
                    ctx.oracle_fail("format/" + ("order" if "sort after" in probs[0] else "nonconforming"), f"after step {i} the independent reader finds: {probs[0]}",
                                    {"steps": c["steps"][:i + 1]})
                    ok = False
                    break
                # file sizes: addresses of every file entry sum to the size the file had
                for bid, band in dec["bands"].items():
                    for e in scen.band_entries(band):
                        if e.get("kind") == "File":
                            total = sum(a["len"] for a in e.get("addrs", []))
                            if total == 0 and e.get("addrs"):
                                ctx.oracle_fail("format/zero-length-address", f"{e['apath']} has zero-length addresses", {"steps": c["steps"][:i + 1]})
                                ok = False
                if not ok:
                    break
        if not ok:
            continue
        ctx.nontrivial(json.dumps([m["kind"] + str(m.get("plan") or m.get("ids") or "") + json.dumps(s.get("opts", "")) for s, m in zip(c["steps"], c["marks"]) if m["kind"] in ("backup", "delete")]))
        if c.get("oracle_only"):
            ctx.dist("version_with_more_than_10000_hunks")
            continue
        names = l4.Names()
        scen.collect_names(names, c["steps"], r)
        h = l4.History(c["id"], names)
        if c.get("mutating"):
            h.check_premises = False       # SrcWF (bytes read = stat size) is exactly what such a run does not satisfy
            ctx.dist("source_shrinks_during_backup")
        scen.add_model_history(h, c["steps"], c["marks"], r, names)
        hs.append(h)
    out = l4.evaluate(ctx, "C13", hs, shards=8 if quick else 16)
    agreed = total = 0
    for h in hs:
        for desc, code in (out.get(h.cid) or []):
            total += 1
            if code == 0:
                agreed += 1
            else:
                c = next(x for x in cases if x["id"] == h.cid)
                ctx.corr_fail("L4", f"history {h.cid}: model and implementation differ at {desc}: code {code}", {"steps": c["steps"]})
                break
    ctx.layer("L4-histories", agreed, total)
    if cases:
        ctx.sample({"history": [m["kind"] + (":" + json.dumps(m.get("plan")) if m.get("plan") else "") for m in cases[0]["marks"] if m["kind"] in ("backup", "delete")]})
    ctx.assumptions += ["the independent reader is itself trusted (doc/format.md coded directly on snap, serde_json::Value, blake2-rfc)"]


def replay(ctx, rep):
    from . import c02
    return c02.replay(ctx, rep)
