"""C05 — Deleting versions and collecting garbage never harm what is kept."""
import itertools
import json

from .. import gen, l4, scen


def make_base(ctx, k, long=False):
    nb = ctx.rng.choice([2, 3, 3, 4])
    trees = [scen.small_tree(ctx.rng)]
    for _ in range(nb - 1):
        t, _m = gen.mutate_tree(ctx.rng, trees[-1])
        trees.append(t)
    if long:
        # a long history: many kept versions, one file rewritten in every version (a block only that version refers to)
        nb = ctx.rng.choice([10, 12, 14])
        t0 = {"k": "d", "mode": 0o755, "mtime": 10**18, "c": {
            "stable": {"k": "f", "data": gen.rand_bytes(ctx.rng, 6).hex(), "mode": 0o644, "mtime": 10**18 + 1}}}
        trees = []
        for j in range(nb):
            t = json.loads(json.dumps(t0))
            t["c"]["changing"] = {"k": "f", "data": (b"v%02d-" % j + gen.rand_bytes(ctx.rng, 3)).hex(), "mode": 0o644, "mtime": 10**18 + 10 + j}
            trees.append(t)
    combo = None
    if k % 3 == 2 and not long:
        # small files sharing ONE combined block; the next version drops (or rewrites) the file at the block's start and keeps
        # the others unchanged, so it refers to that block only at offsets above zero
        def cf(d, m):
            return {"k": "f", "data": d.hex(), "mode": 0o644, "mtime": 10**18 + m}
        base_files = {"c1x": cf(b"xxxxx", 1), "c2y": cf(b"yyyyyyy", 2), "c3z": cf(b"zzz", 3)}
        for j, t in enumerate(trees):
            t["c"] = {nm: dict(nd) for nm, nd in base_files.items() if not (j >= 1 and nm == "c1x")}     # nothing else: c1x starts the block
            if j >= 1 and ctx.rng.random() < 0.5:
                t["c"]["c1x"] = cf(b"XXXXXXXXX", 50 + j)
            if j >= 2:
                t["c"]["c4w"] = cf(b"w%d" % j, 60 + j)
        combo = {"meph": 100000, "mbs": 64, "sfc": 1 << 20}
    steps = [{"op": "init"}]
    # every third base: a version in the middle is the file-less leftover of a backup killed before it wrote its head
    # (a listed version directory that cannot be opened): deleting it must work like deleting any other
    headless = [ctx.rng.randrange(0, nb - 1)] if (k % 3 == 1 and nb >= 2 and not long) else []
    for j, t in enumerate(trees):
        st = {"op": "backup", "opts": combo or ({"meph": 100000, "mbs": 64, "sfc": 0} if long else scen.small_opts(ctx.rng))}
        if j in headless:
            st["plan"] = {"crash": ctx.rng.choice([5, 6])}
        steps += [{"op": "mktree", "path": "src", "tree": t}, {"op": "walk"}, st]
    orphans = (k % 4 == 3) and not long
    if orphans:
        # blocks nothing refers to, left by an earlier delete that was killed after it had removed a version's directory and
        # before it removed the blocks: one more version with a file of its own, then only its directory goes
        tx = json.loads(json.dumps(trees[-1]))
        tx["c"]["only-in-the-lost-version"] = {"k": "f", "data": gen.rand_bytes(ctx.rng, 11).hex(), "mode": 0o644, "mtime": 10**18 + 77}
        steps += [{"op": "mktree", "path": "src", "tree": tx}, {"op": "walk"}, {"op": "backup", "opts": combo or scen.small_opts(ctx.rng)},
                  {"op": "damage", "file": "b%04d" % nb, "kind": "rmdir"}]
    steps.append({"op": "arch"})
    for b in range(nb):
        steps.append({"op": "restore", "band": b, "dest": f"ref{b}"})
    return {"id": f"D{k}", "nb": nb, "trees": trees, "steps": steps, "headless": headless, "combo": combo is not None, "long": long, "orphans": orphans}


def after_steps(nb):
    return [{"op": "arch"}] + [{"op": "restore", "band": b, "dest": f"after{b}"} for b in range(nb)] + [{"op": "versions"}]


def check_after(ctx, base, ids, dry, rules_desc, r_del, post, kind, pre_arch):
    small = {"base_steps": base["steps"], "delete": {"bands": ids, "dry": dry}, "plan": rules_desc}
    nb = base["nb"]
    if r_del.get("panic"):
        ctx.oracle_fail("delete/panic", f"delete panicked ({kind} {rules_desc}): {r_del['panic'][:150]}", small)
        return False
    arch = post[0]["arch"]
    dec = scen.decode(arch)
    ref = base["ref"]
    nbase = len(base["steps"])
    for b in range(nb):
        want = ref[nbase - nb + b]
        got = post[1 + b]
        must_survive = (b not in ids) or dry
        if kind == "ok" and not dry and b in ids:
            if b in dec["bands"]:
                ctx.oracle_fail("delete/band-not-removed", f"delete of {ids} succeeded but b{b:04d} is still there", small)
                return False
            continue
        if not must_survive and kind in ("crash", "fault") and b in dec["bands"]:
            # a version the delete was asked to remove but that is STILL THERE and complete after the kill / failure
            # is a remaining complete version: it must restore exactly as before
            band = dec["bands"][b]
            still_complete = band["head"] is not None and band["tail"] is not None and band["tail"].get("t") == "json" \
                and arch["files"].get(f"b{b:04d}/BANDHEAD") == pre_arch["files"].get(f"b{b:04d}/BANDHEAD")
            if still_complete and want.get("result") == "ok" and (got.get("result") != "ok" or got.get("monitor_errors") or scen.first_difference(scen.strip(want.get("tree")), scen.strip(got.get("tree")))):
                ctx.oracle_fail("delete/remaining-version-harmed", f"delete of {ids} stopped ({kind} {rules_desc}) with b{b:04d} still present and complete, "
                                                                   f"but it no longer restores exactly: {json.dumps(got.get('err') or got.get('monitor_errors'))[:160]}", small)
                return False
        if must_survive and want.get("result") == "ok":
            if got.get("result") != "ok" or got.get("monitor_errors") or scen.first_difference(scen.strip(want.get("tree")), scen.strip(got.get("tree"))):
                ctx.oracle_fail("delete/kept-version-harmed", f"after delete of {ids} (dry={dry}, {kind} {rules_desc}) kept version b{b:04d} no longer restores "
                                                              f"exactly: {json.dumps(got.get('err') or got.get('monitor_errors'))[:160]}", small)
                return False
    if kind == "ok" and dry:
        before = scen.raw_files(pre_arch)
        if scen.raw_files(arch) != before:
            ctx.oracle_fail("delete/dry-run-changed-archive", f"a dry run of delete {ids} changed the archive", small)
            return False
    if kind == "ok" and not dry:
        referenced = set()
        for b, band in dec["bands"].items():
            for e in scen.band_entries(band):
                for a in e.get("addrs", []):
                    referenced.add(a["hash"])
        orphans = [h for h, c in dec["blocks"].items() if h not in referenced and arch["files"]["d/%s/%s" % (h[:3], h)].get("t") != "empty"]
        if orphans:
            ctx.oracle_fail("delete/unreferenced-block-remains", f"after delete of {ids} an unreferenced block remains: {orphans[0][:16]}", small)
            return False
        if dec["lock"]:
            ctx.oracle_fail("delete/lock-left-behind", f"after a successful delete of {ids} GC_LOCK is still there", small)
            return False
    probs = [p for p in scen.refint_problems(dec) if int(p[1:5]) not in ids or dry]
    if probs:
        ctx.oracle_fail("delete/referenced-block-removed", f"after delete of {ids} ({kind} {rules_desc}): {probs[0]}", small)
        return False
    return True


def run(ctx):
    quick = ctx.tier == "quick"
    bases = [make_base(ctx, k) for k in range(4 if quick else 40)]
    bases += [make_base(ctx, len(bases) + j, long=True) for j in range(1 if quick else 4)]
    ctx.cov["rule"] = ("archives from histories of 2-4 versions x subsets of versions to delete (none = pure gc, some, all) x {dry-run, real}; for real "
                       "runs EVERY crash point of the delete's storage trace and EVERY single failing read/list operation; oracle: exactly the "
                       "requested versions are gone, every kept complete version restores exactly as before, no referenced block removed, no "
                       "unreferenced block left, dry run changes nothing; model delete_prog under the same plans: exact trace, outcome, final "
                       "state. non-trivial = distinct (archive, subset, plan)")
    ref = ctx.cvh_run([{"id": b["id"], "steps": b["steps"]} for b in bases])
    cases, info = [], {}
    for b in bases:
        r = ref.get(b["id"])
        if r is None:
            continue
        b["ref"] = r
        nb = b["nb"]
        subsets = [[]] + [list(s) for k in range(1, nb + 1) for s in itertools.combinations(range(nb), k)]
        if b.get("long"):
            subsets = [[], sorted(ctx.rng.sample(range(nb), 2)), [0], [nb - 1]]
        elif quick:
            subsets = [[]] + ctx.rng.sample(subsets[1:], min(3, len(subsets) - 1))
            if nb >= 2 and not any(len(x) >= 2 for x in subsets):
                subsets.append(list(range(nb))[-2:])
            if b.get("combo") and [0] not in subsets:
                subsets.append([0])
        # the versions may be named in ANY order (and once more than needed): descending and shuffled lists too
        ordered = []
        for x in subsets:
            y = list(x)
            if len(y) >= 2:
                if ctx.rng.random() < 0.5:
                    y.reverse()
                else:
                    ctx.rng.shuffle(y)
                    if y == sorted(y):
                        y.reverse()
            ordered.append(y)
        subsets = ordered
        for ids in subsets:
            for dry in (False, True):
                cid = f"{b['id']}_{'-'.join(map(str, ids)) or 'gc'}_{'dry' if dry else 'real'}"
                info[cid] = (b, ids, dry, None, "ok")
                st_del = {"op": "delete", "bands": ids, "dry": dry}
                if ctx.rng.random() < (0.5 if dry else 0.2):
                    st_del["break_lock"] = True          # with no lock there to break: must behave the same
                cases.append({"id": cid, "steps": b["steps"] + [st_del] + after_steps(nb)})
    res1 = ctx.cvh_run(cases, shards=16)
    # second wave: crash points and read faults for the real runs
    cases2 = []
    for c in cases:
        b, ids, dry, _, _ = info[c["id"]]
        r = res1.get(c["id"])
        if r is None or dry or b.get("long"):
            continue
        nbase = len(b["steps"])
        if r[nbase].get("result") != "ok":
            continue        # a refused delete: its lock is released from Drop by a detached task, which a kill there does not stop the call from returning
        trace = l4.canon_trace(r[nbase]["trace"])
        n = len(trace)
        ks = range(n) if not quick else sorted(set(range(0, n, 3)) | {k for k in range(n) if trace[k]["verb"] in ("RemoveFile", "RemoveDirAll", "Write")})
        for k in ks:
            cid = f"{c['id']}_crash{k}"
            rule = [trace[k]["verb"], trace[k]["path"], l4.occurrence_index(trace, k), "crash"]
            info[cid] = (b, ids, dry, [rule], "crash", trace, k)
            cases2.append({"id": cid, "steps": b["steps"] + [{"op": "delete", "bands": ids, "plan": {"rules": [rule]}}] + after_steps(b["nb"])})
            hunk_read = trace[k]["verb"] == "Read" and "/i/" in str(trace[k]["path"])
            if trace[k]["verb"] in ("Read", "ListDir", "Metadata") and (not quick or k % 2 == 0 or hunk_read):
                # an index hunk that cannot be found while the delete reads it must stop the delete, not end that version's scan
                kind = "NotFound" if hunk_read else ctx.rng.choice(["NotFound", "PermissionDenied", "Other", "AlreadyExists"])
                cid = f"{c['id']}_fail{k}"
                rule = [trace[k]["verb"], trace[k]["path"], l4.occurrence_index(trace, k), kind]
                info[cid] = (b, ids, dry, [rule], "fault", trace, k)
                cases2.append({"id": cid, "steps": b["steps"] + [{"op": "delete", "bands": ids, "plan": {"rules": [rule]}}] + after_steps(b["nb"])})
    res2 = ctx.cvh_run(cases2, shards=16, timeout=3000)
    good = []
    for c, res in [(c, res1) for c in cases] + [(c, res2) for c in cases2]:
        inf = info[c["id"]]
        b, ids, dry, rules, kind = inf[:5]
        r = res.get(c["id"])
        ctx.count()
        if r is None:
            ctx.oracle_fail("delete/harness-died", "harness died or hung", {"base_steps": b["steps"], "delete": ids, "plan": rules})
            continue
        nbase = len(b["steps"])
        rd = r[nbase]
        post = r[nbase + 1:]
        eff_kind = kind
        if kind == "ok" and rd.get("result") != "ok" and any(h not in ids for h in b.get("headless", [])):
            # a version that is kept cannot be opened: which blocks it references is unknown, so the delete refuses
            ctx.dist("refused_kept_version_unopenable")
            if check_after(ctx, b, ids, dry, rules, rd, post, "fault", r[nbase - b["nb"] - 1]["arch"]):
                good.append((c, r, inf))
            continue
        if kind == "ok" and rd.get("result") != "ok":
            ctx.oracle_fail("delete/fault-free-delete-failed", f"fault-free delete of {ids} failed: {json.dumps(rd.get('err'))[:200]}", {"base_steps": b["steps"], "delete": ids})
            continue
        if kind == "fault" and rd.get("result") == "ok":
            eff_kind = "ok" if not dry else "ok"
        if check_after(ctx, b, ids, dry, rules, rd, post, eff_kind if kind != "fault" or rd.get("result") == "ok" else "fault",
                       r[nbase - b["nb"] - 1]["arch"]):
            ctx.nontrivial(c["id"])
            ctx.dist("plan_" + kind)
            good.append((c, r, inf))
    # ---- model
    hs = []
    by_base = {}
    for c, r, inf in good:
        by_base.setdefault(inf[0]["id"], []).append((c, r, inf))
    for b in bases:
        if "ref" not in b or b["id"] not in by_base:
            continue
        names = l4.Names()
        scen.collect_names(names, b["steps"], b["ref"])
        for c, r, inf in by_base[b["id"]]:
            scen.collect_names(names, c["steps"], r)
        base = l4.History(b["id"], names)
        resync = False
        for st, rs in zip(b["steps"], b["ref"]):
            if st["op"] == "backup" and st.get("plan") and rs.get("crashed"):
                base.add(st, rs, mode=1, crash=(st["plan"]["crash"], False))
            elif st["op"] == "damage":
                resync = True            # the model takes the archive as the independent reader finds it afterwards
            elif st["op"] == "arch" and resync:
                base.set_state_from_arch(rs["arch"])
                resync = False
            elif st["op"] not in ("arch", "restore"):
                base.add(st, rs)
        hs.append(base)
        sel = by_base[b["id"]]
        if quick and len(sel) > 60:
            sel = sel[::max(1, len(sel) // 60)]
        nbase = len(b["steps"])
        for c, r, inf in sel:
            h = base.fork(c["id"].replace("-", "x"))
            kind = inf[4]
            if kind in ("crash", "fault"):
                trace, k = inf[5], inf[6]
                rule_items = [(trace[k], l4.occurrence_index(trace, k), inf[3][0][3])]
                h.add(c["steps"][nbase], r[nbase], rules=rule_items, mode=1 if kind == "crash" else 0)
            else:
                h.add(c["steps"][nbase], r[nbase])
            h.add({"op": "arch"}, r[nbase + 1])
            hs.append(h)
    out = l4.evaluate(ctx, "C05", hs, shards=8 if quick else 16)
    agreed = total = 0
    for h in hs:
        for desc, code in (out.get(h.cid) or []):
            total += 1
            if code == 0:
                agreed += 1
            else:
                ctx.corr_fail("L4", f"case {h.cid}: delete model and implementation differ at {desc}: code {code}", {"case": h.cid})
                break
    ctx.layer("L4-delete", agreed, total)
    if bases:
        ctx.sample({"bands": bases[0]["nb"], "example_case": cases[1]["id"] if len(cases) > 1 else None})
    ctx.assumptions += ["removing one version's directory is one storage operation (remove_dir_all), the granularity the property fixes"]


def replay(ctx, rep):
    r = rep.get("replay", rep)
    ctx.build()
    d = r["delete"] if isinstance(r["delete"], dict) else {"bands": r["delete"], "dry": False}
    st = {"op": "delete", "bands": d["bands"], "dry": d.get("dry", False)}
    if r.get("plan"):
        st["plan"] = {"rules": r["plan"]}
    steps = r["base_steps"] + [st, {"op": "arch"}]
    out = ctx.cvh_run([{"id": "r", "steps": steps}])["r"]
    print("delete:", out[-2].get("result"), out[-2].get("err"), out[-2].get("value"), out[-2].get("panic"))
    print("reference problems:", scen.refint_problems(scen.decode(out[-1]["arch"])))
    return 0
