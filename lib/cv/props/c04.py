"""C04 — Storage errors never make the archive record wrong content or a false success."""
import json

from .. import gen, l4, scen

KINDS = ["NotFound", "AlreadyExists", "PermissionDenied", "Other"]


def base_steps(sc):
    steps = [{"op": "init"}]
    if sc["t0"] is not None:
        steps += [{"op": "mktree", "path": "src", "tree": sc["t0"]}, {"op": "walk"}, {"op": "backup", "opts": sc["o0"]}]
        if sc.get("prior_incomplete"):
            # the newest earlier version is an INTERRUPTED one: the faulted backup stitches its basis across two versions
            steps += [{"op": "mktree", "path": "src", "tree": sc["tmid"]}, {"op": "walk"},
                      {"op": "backup", "opts": sc["o0"], "plan": {"crash": sc["prior_incomplete"]}}]
    steps += [{"op": "mktree", "path": "src", "tree": sc["t1"]}, {"op": "snap", "path": "src"}, {"op": "walk"}, {"op": "arch"}]
    return steps


def make_scenarios(ctx, n):
    out = []
    for i in range(n):
        t0 = scen.small_tree(ctx.rng) if ctx.rng.random() < 0.6 else None
        if t0 is not None and ctx.rng.random() < 0.7:
            t1, _ = gen.mutate_tree(ctx.rng, t0)
        else:
            t1 = scen.small_tree(ctx.rng)
        # several small files so that combined-block flushes happen mid-run
        for k in range(ctx.rng.randrange(2, 5)):
            t1["c"].setdefault(f"s{k}", {"k": "f", "data": gen.rand_bytes(ctx.rng, ctx.rng.choice([1, 2, 3, 5])).hex(),
                                          "mode": 0o644, "mtime": 10**18 + k})
        # duplicate contents: identical files that become separate blocks (each stored on its own, or each
        # filling a combined block alone), so that a block's content recurs later in the same run
        dup = gen.rand_bytes(ctx.rng, ctx.rng.choice([3, 4, 6]))
        for k in range(ctx.rng.randrange(2, 4)):
            t1["c"][f"dup{k}"] = {"k": "f", "data": dup.hex(), "mode": 0o600, "mtime": 10**18 + 100 + k}
        o1 = dict(scen.small_opts(ctx.rng), sfc=ctx.rng.choice([4, 16, 1 << 20]), mbs=ctx.rng.choice([3, 4, 8]))
        if i % 2 == 1:
            o1 = dict(o1, sfc=ctx.rng.choice([0, 1, 2]), mbs=ctx.rng.choice([8, 64]))       # every file its own block
            # files of several distinct blocks each: a failing write of a middle or last block must not leave an entry
            # that covers only part of the file
            for nm, nblocks in (("multi3", 3), ("multi4", 4)):
                t1["c"][nm] = {"k": "f", "data": bytes(ctx.rng.randrange(1, 255) for _ in range(nblocks * o1["mbs"] - ctx.rng.choice([0, 3]))).hex(),
                               "mode": 0o644, "mtime": 10**18 + 300}
        elif i % 4 == 2:
            o1 = dict(o1, sfc=1 << 20, mbs=len(dup))                                       # each dup fills a combined block alone
        if i % 4 == 0:
            # larger small files (past any size threshold a combiner might apply) whose contents recur after a
            # combined block has been flushed in between: A C | D A | C ...  with two files per combined block
            size = ctx.rng.choice([512, 520, 640])
            big = [gen.rand_bytes(ctx.rng, size) for _ in range(3)]
            for k, which in enumerate([0, 1, 2, 0, 1]):
                t1["c"][f"q{k}"] = {"k": "f", "data": big[which].hex(), "mode": 0o644, "mtime": 10**18 + 200 + k}
            o1 = dict(o1, sfc=1 << 20, mbs=size + size // 2)
        o0 = scen.small_opts(ctx.rng)
        if i % 2 == 1 and t0 is not None:
            # the earlier version holds the same multi-block files with another LAST block (stored with the same block size):
            # their leading blocks are already in the archive when the faulted backup reaches them
            o0 = dict(o1)
            for nm in ("multi3", "multi4"):
                d = bytes.fromhex(t1["c"][nm]["data"])
                t0["c"][nm] = dict(t1["c"][nm], data=(d[:-o1["mbs"] + 1] + bytes(ctx.rng.randrange(1, 255) for _ in range(o1["mbs"] - 1))).hex(), mtime=10**18 + 299)
        sc_ = {"id": f"S{i}", "t0": t0, "o0": o0, "t1": t1, "o1": o1}
        if t0 is not None and i % 4 in (1, 3) and i >= 1:
            tmid, _m = gen.mutate_tree(ctx.rng, t0)
            tmid["c"]["mid-only"] = {"k": "f", "data": "6d6964", "mode": 0o644, "mtime": 10**18 + 250}
            sc_.update(prior_incomplete=ctx.rng.choice([16, 20, 24]), tmid=tmid)
        out.append(sc_)
    return out


def check_faulted(ctx, sc, rules_desc, pre_arch, src_snap, r_backup, r_arch, r_restore):
    """Direct oracle on one faulted backup."""
    small = {"t0": sc["t0"], "o0": sc["o0"], "t1": sc["t1"], "o1": sc["o1"], "rules": rules_desc}
    if r_backup.get("panic") or r_backup.get("timeout"):
        listing = any(r[0] == "ListDir" and "/i" in r[1] for r in rules_desc)
        ctx.oracle_fail("faults/panic-index-listing" if listing else "faults/panic",
                        f"backup crashed under storage errors {rules_desc}: {str(r_backup.get('panic'))[:160]}", small)
        return
    dec = scen.decode(r_arch["arch"])
    before = scen.raw_files(pre_arch)
    after = scen.raw_files(r_arch["arch"])
    for p, h in before.items():
        if after.get(p) != h:
            ctx.oracle_fail("faults/old-file-changed", f"earlier archive file {p} changed or vanished under faults {rules_desc}", small)
            return
    src_bytes = scen.tree_file_bytes(sc["t1"])
    old_bytes = scen.tree_file_bytes(sc["t0"]) if sc["t0"] else {}
    newest = max(dec["bands"]) if dec["bands"] else None
    for bid, band in dec["bands"].items():
        for e in scen.band_entries(band):
            if e.get("kind") != "File":
                continue
            c = scen.entry_content(e, dec["blocks"])
            want = src_bytes if (bid == newest and (sc["t0"] is None or bid > 0)) else old_bytes
            if sc.get("prior_incomplete") and bid == 1 and (bid != newest or "b0001" in pre_arch.get("dirs", [])):
                want = scen.tree_file_bytes(sc["tmid"])       # the interrupted earlier version (also when the faulted backup made no version at all)
            if isinstance(c, str):
                ctx.oracle_fail("faults/dangling", f"band {bid} records {e['apath']} with a dangling reference ({c}) after faults {rules_desc}", small)
                return
            if want.get(e["apath"]) != c:
                ctx.oracle_fail("faults/wrong-bytes", f"band {bid} records {e['apath']} with bytes {c[:16]!r} but the source file holds "
                                                      f"{(want.get(e['apath']) or b'')[:16]!r} (faults {rules_desc})", small)
                return
    ok = r_backup.get("result") == "ok"
    clean = ok and r_backup["value"]["errors"] == 0 and not r_backup.get("monitor_errors")
    if ok and newest is not None:
        recorded = {e["apath"] for e in scen.band_entries(dec["bands"][newest])}
        missing = [p for p, _ in gen.tree_paths(sc["t1"]) if p not in recorded]
        if missing and clean:
            ctx.oracle_fail("faults/silent-skip", f"backup reported complete success but {missing[:4]} were not recorded (faults {rules_desc})", small)
            return
    if clean:
        if r_restore is None or r_restore.get("result") != "ok" or r_restore.get("monitor_errors"):
            ctx.oracle_fail("faults/false-success", f"backup reported complete success under faults {rules_desc} but the version does not restore cleanly", small)
            return
        d = scen.first_difference(scen.strip(src_snap), scen.strip(r_restore.get("tree")))
        if d:
            ctx.oracle_fail("faults/false-success", f"backup reported complete success under faults {rules_desc} but the restored tree differs at {d[:2]}", small)
            return
    ctx.nontrivial(json.dumps([sc["id"], rules_desc]))
    ctx.dist("outcome_" + ("clean" if clean else ("ok_with_errors" if ok else "err")))


def run(ctx):
    quick = ctx.tier == "quick"
    scs = make_scenarios(ctx, 4 if quick else 60)
    multi = 12 if quick else 80
    ctx.cov["rule"] = ("scenarios (optional earlier version, new source tree with several small files, small block sizes) x EVERY operation of the "
                       "fault-free storage trace of the backup x {NotFound, AlreadyExists, PermissionDenied, Other} + random multi-fault plans; "
                       "direct oracle on the decoded archive (no crash, old files byte-identical, every recorded file entry == source bytes, "
                       "success => restores exactly, skip => error); model backup_prog under the same fault rules: exact trace, outcome and "
                       "final state. non-trivial = distinct (scenario, fault plan)")
    # phase 1: fault-free reference runs
    ref_cases = [{"id": sc["id"], "steps": base_steps(sc) + [{"op": "backup", "opts": sc["o1"]}, {"op": "arch"}]} for sc in scs]
    ref = ctx.cvh_run(ref_cases)
    cases = []
    plans = {}
    for sc in scs:
        r = ref.get(sc["id"])
        if r is None or r[-2].get("result") != "ok":
            ctx.oracle_fail("faults/reference-run", "the fault-free reference backup failed: " + json.dumps(r and r[-2].get("err"))[:200],
                            {"t0": sc["t0"], "t1": sc["t1"], "o1": sc["o1"]})
            continue
        canon = l4.canon_trace(r[-2]["trace"])
        sc["canon"] = canon
        sc["ref"] = r
        nb = len(base_steps(sc))
        plist = []
        for k in range(len(canon)):
            kinds = KINDS if (not quick or k % 2 == ctx.seed % 2 or canon[k]["verb"] == "Write") else [ctx.rng.choice(KINDS)]
            for kind in kinds:
                plist.append([(k, kind)])
        for _ in range(multi):
            ks = sorted(ctx.rng.sample(range(len(canon)), min(len(canon), ctx.rng.choice([2, 2, 3, 4]))))
            plist.append([(k, ctx.rng.choice(KINDS)) for k in ks])
        for j, plan in enumerate(plist):
            rules = [[canon[k]["verb"], canon[k]["path"], l4.occurrence_index(canon, k), kind] for k, kind in plan]
            cid = f"{sc['id']}_{j}"
            plans[cid] = (sc, plan, rules)
            cases.append({"id": cid, "steps": base_steps(sc) + [
                {"op": "backup", "opts": sc["o1"], "plan": {"rules": rules}}, {"op": "arch"},
                {"op": "restore", "band": "latest", "dest": "out"}]})
            ctx.dist("fault_kind_" + plan[0][1])
            ctx.dist("faulted_verb_" + canon[plan[0][0]]["verb"])
    res = ctx.cvh_run(cases, shards=16)
    # direct oracle
    for c in cases:
        sc, plan, rules = plans[c["id"]]
        r = res.get(c["id"])
        ctx.count()
        if r is None:
            ctx.oracle_fail("faults/harness-died", "harness died or hung", {"t1": sc["t1"], "o1": sc["o1"], "rules": rules})
            continue
        nb = len(base_steps(sc))
        check_faulted(ctx, sc, rules, r[nb - 1]["arch"], r[nb - 3]["tree"], r[nb], r[nb + 1], r[nb + 2])
    # model vs implementation
    hs = []
    for sc in scs:
        if "canon" not in sc:
            continue
        names = l4.Names()
        r = sc["ref"]
        steps = base_steps(sc) + [{"op": "backup", "opts": sc["o1"]}, {"op": "arch"}]
        for st, rs in zip(steps, r):
            if st["op"] == "arch":
                names.add_arch(rs["arch"])
            if isinstance(rs, dict) and "trace" in rs:
                names.add_trace(rs["trace"])
        mine = [c for c in cases if plans[c["id"]][0] is sc]
        for c in mine:
            rr = res.get(c["id"])
            if rr:
                for rs in rr:
                    if isinstance(rs, dict) and "trace" in rs:
                        names.add_trace(rs["trace"])
                    if isinstance(rs, dict) and "arch" in rs:
                        names.add_arch(rs["arch"])
        base = l4.History(sc["id"], names)
        nb = len(base_steps(sc))
        for st, rs in zip(steps[:nb], r[:nb]):
            if st["op"] == "backup" and st.get("plan") and "crash" in st["plan"] and rs.get("crashed"):
                base.add(st, rs, mode=1, crash=(st["plan"]["crash"], False))
            elif st["op"] != "arch":
                base.add(st, rs)
        base.set_base(r[nb]["trace"])
        ref_h = base.fork(sc["id"] + "_ref")
        ref_h.add(steps[nb], r[nb])
        ref_h.add(steps[nb + 1], r[nb + 1])
        hs.append(base)
        hs.append(ref_h)
        for c in mine:
            rr = res.get(c["id"])
            if rr is None or rr[nb].get("timeout"):
                continue
            _, plan, rules = plans[c["id"]]
            h = base.fork(c["id"])
            rule_items = [(sc["canon"][k], l4.occurrence_index(sc["canon"], k), kind) for k, kind in plan]
            h.add(c["steps"][nb], rr[nb], rules=rule_items)
            h.add(c["steps"][nb + 1], rr[nb + 1])
            hs.append(h)
    out = l4.evaluate(ctx, "C04", hs, shards=8 if quick else 16)
    agreed = total = 0
    for h in hs:
        r = out.get(h.cid)
        if r is None:
            continue
        for desc, code in r:
            total += 1
            if code == 0:
                agreed += 1
            else:
                info = plans.get(h.cid)
                ctx.corr_fail("L4", f"backup model and implementation differ in case {h.cid} at {desc}: code {code} "
                                    f"(1 outcome, 2 final state, 1000+i trace index i)",
                              {"scenario": {k: info[0][k] for k in ("t0", "o0", "t1", "o1")} if info else h.cid,
                               "rules": info[2] if info else None})
                break
    ctx.layer("L4-backup-under-faults", agreed, total)
    if scs and "canon" in scs[0]:
        ctx.sample({"scenario": scs[0]["id"], "trace_ops": [[t["verb"], t["path"][:24]] for t in scs[0]["canon"][:12]], "opts": scs[0]["o1"]})
    ctx.assumptions += ["a failing operation leaves storage unchanged (the Transport contract's error case); partial writes are C03's crash points",
                        "source files are readable and do not change during the backup"]


def replay(ctx, rep):
    r = rep.get("replay", rep)
    ctx.build()
    sc = {"t0": r.get("t0"), "o0": r.get("o0", {}), "t1": r["t1"], "o1": r.get("o1", {})}
    steps = base_steps(sc) + [{"op": "backup", "opts": sc["o1"], "plan": {"rules": r.get("rules", [])}}, {"op": "arch"}]
    out = ctx.cvh_run([{"id": "r", "steps": steps}])["r"]
    b = out[-2]
    print("backup:", b.get("result"), b.get("err"), b.get("panic"), b.get("value"), b.get("monitor_errors"))
    dec = scen.decode(out[-1]["arch"])
    src = scen.tree_file_bytes(sc["t1"])
    for bid, band in dec["bands"].items():
        for e in scen.band_entries(band):
            if e.get("kind") == "File":
                print(bid, e["apath"], scen.entry_content(e, dec["blocks"]), "source:", src.get(e["apath"]))
    return 0
