"""C16 — Restore stays inside its destination and never clobbers by default."""
import json

from .. import gen, scen

OUTSIDE = {"k": "d", "mode": 0o755, "mtime": 10**18, "c": {
    "sentinel": {"k": "f", "data": "73656e74696e656c", "mode": 0o640, "mtime": 10**18 + 7, "uid": 1, "gid": 1},
    "sdir": {"k": "d", "mode": 0o750, "mtime": 10**18 + 9, "uid": 2, "gid": 2, "c": {
        "inner": {"k": "f", "data": "696e6e6572", "mode": 0o600, "mtime": 10**18 + 11}}},
}}
TARGETS = ["../outside/sentinel", "../outside/sdir", "../outside", "..", "../..", "@WS@/outside/sentinel", "@WS@/outside/sdir",
           "@WS@/outside", "a", ".", "/nonexistent/x", "../outside/sdir/inner", "sub/../../outside/sentinel"]


def tree_with_links(ctx):
    t = scen.small_tree(ctx.rng)

    def rec(node, depth):
        if node["k"] != "d":
            return
        for i in range(ctx.rng.randrange(1, 3)):
            name = gen.rand_name(ctx.rng, node["c"])
            node["c"][name] = {"k": "l", "target": ctx.rng.choice(TARGETS), "mtime": gen.rand_mtime(ctx.rng), "uid": ctx.rng.choice([0, 1, 65534]), "gid": 0}
        for c in list(node["c"].values()):
            rec(c, depth + 1)
    rec(t, 0)
    return t


KCODE = {"File": 0, "Dir": 1, "Symlink": 2}


def guard_correspondence(ctx, cases, res):
    """Valid.guard_links on the stitched listing of the interrupted version vs what restore created and reported."""
    from .. import common
    from ..common import gallina_str, gallina_list
    rows, meta = [], []
    for c in cases:
        r = res.get(c["id"])
        if not c.get("stitched") or r is None:
            continue
        ls, rs, dafter = r[-6], r[-3], r[-1]
        if ls.get("result") != "ok" or rs.get("result") != "ok" or not dafter.get("tree"):
            continue
        ents = [(e["apath"], KCODE.get(e["kind"], 3)) for e in ls["value"]]
        created = sorted((p for p, _ in gen.tree_paths(dafter["tree"])), key=gen.apath_key)
        nerr = len(rs.get("monitor_errors") or [])
        rows.append("(" + gallina_list(["(" + gallina_str(p) + "," + str(k) + ")" for p, k in ents]) + ", "
                    + gallina_list([gallina_str(p) for p in created]) + ", " + str(nerr) + ")")
        meta.append((c, ents, created, nerr))
    if not rows:
        return
    body = ("From CV Require Import Base.Str Apath Entry Valid Corr.Run Corr.Trace.\nLocal Open Scope N_scope.\n"
            "Definition mk (p : str) (k : N) : entry := {| e_apath := p; e_kind := (if N.eqb k 0 then KFile else if N.eqb k 1 then KDir else "
            "if N.eqb k 2 then KSymlink else KUnknown); e_mtime := 0%Z; e_nanos := 0; e_mode := 420; e_user := None; e_group := None; "
            "e_addrs := []; e_target := None |}.\n"
            "Definition one (c : list (str * N) * list str * N) : N := let '(es, created, nerr) := c in "
            "let g := guard_links (map (fun p => mk (fst p) (snd p)) es) in "
            "if list_eqb str_eqb (map e_apath (fst g)) created then (if N.eqb (snd g) nerr then 0 else 2) else 1.\n"
            "Definition cs : list (list (str * N) * list str * N) := " + gallina_list(rows) + ".\n"
            "Eval vm_compute in map one cs.\n")
    ok, txt = common.coq_eval("C16_guard", body, 1200)
    blocks = common.parse_eval_blocks(txt)
    if not ok or not blocks:
        ctx.corr_fail("L2", "guard_links evaluation failed: " + txt[-500:], {})
        return
    nums = common.parse_nums(blocks[0].split("%")[0].split(":")[0])
    agreed = 0
    refused = 0
    for (c, ents, created, nerr), code in zip(meta, nums):
        if code == 0:
            agreed += 1
            refused += 1 if nerr else 0
        else:
            ctx.corr_fail("L2", f"Valid.guard_links and restore differ on the stitched listing {[p for p, _ in ents]!r}: restore created {created!r} "
                                f"with {nerr} errors (code {code}: 1 = created set differs, 2 = error count differs)", {"steps": c["steps"]})
    ctx.layer("L2-guard-links", agreed, len(meta))
    ctx.dist("guard_cases_with_refused_entries", refused)


def dest_correspondence(ctx, cases, res):
    """Dest.restore_into on (what the destination held, the listing restored, overwrite) vs what restore left there and reported."""
    from .. import destmodel
    rows, meta = [], []
    for c in cases:
        r = res.get(c["id"])
        if c.get("stitched") or r is None or "rtree" not in c:
            continue
        ls, dbefore, rs, dafter = r[-6], r[-4], r[-3], r[-1]
        if ls.get("result") != "ok" or rs.get("panic") or rs.get("timeout"):
            continue
        refused = rs.get("result") != "ok"
        if refused and "DestinationNotEmpty" not in json.dumps(rs.get("err")):
            continue
        overwrite = bool(c["steps"][-3].get("overwrite"))
        nerr = len(rs.get("monitor_errors") or [])
        whole = "subtree" not in c["steps"][-3]
        rows.append(destmodel.row(overwrite, dbefore.get("tree"), ls["value"], scen.tree_file_bytes(c["rtree"]), dafter.get("tree"), nerr, refused, whole))
        meta.append((c, overwrite, nerr, refused))
    if not rows:
        return
    nums, txt = destmodel.evaluate("C16_dest", rows)
    if nums is None:
        ctx.corr_fail("L2", "Dest.restore_into evaluation failed: " + txt, {})
        return
    agreed = 0
    for (c, overwrite, nerr, refused), code in zip(meta, nums):
        if code == 0:
            agreed += 1
            ctx.dist("dest_model_" + ("overwrite" if overwrite else ("refused" if refused else "fresh")) + ("_with_errors" if nerr else ""))
        else:
            ctx.corr_fail("L2", f"Dest.restore_into and restore differ (code {code}: {destmodel.CODES}; real errors {nerr}) overwrite={overwrite}",
                          {"steps": c["steps"]})
    ctx.layer("L2-destination", agreed, len(meta))


def run(ctx):
    quick = ctx.tier == "quick"
    ctx.cov["rule"] = ("trees with symlinks aimed at sentinel files and directories beside the destination (relative upward, absolute into the "
                       "sandbox, to directories, dangling, to tree entries) x destinations {absent, empty, pre-populated} x subtree/exclude "
                       "selections: recursive lstat/readlink/content snapshot of the sentinel area before and after restore must be identical; "
                       "a non-empty destination without overwrite is refused and untouched; + histories where a directory is replaced by a "
                       "symlink and the next backup is interrupted (stitched listing has an entry beneath a newer symlink). non-trivial = distinct "
                       "tree containing a link that resolves outside the destination")
    cases = []
    for t in range(40 if quick else 1500):
        tree = tree_with_links(ctx)
        opts = scen.small_opts(ctx.rng)
        destkind = ctx.rng.choice(["absent", "empty", "populated", "absent", "symlinks-only"])
        steps = [{"op": "init"}, {"op": "mktree", "path": "outside", "tree": OUTSIDE}, {"op": "mktree", "path": "src", "tree": tree},
                 {"op": "backup", "opts": opts}]
        if destkind == "empty":
            steps.append({"op": "mktree", "path": "dest", "tree": {"k": "d", "mode": 0o755, "mtime": 5, "c": {}}})
        if destkind == "populated":
            steps.append({"op": "mktree", "path": "dest", "tree": {"k": "d", "mode": 0o755, "mtime": 5, "c": {"mine": {"k": "f", "data": "6d", "mode": 0o600, "mtime": 77}}}})
        if destkind == "symlinks-only":
            # a destination holding nothing but symlinks (named like entries of the tree, aimed outside) is NOT empty
            links = {}
            for nm in ctx.rng.sample(sorted(tree["c"]), min(2, len(tree["c"]))) + ["zz-link"]:
                links[nm] = {"k": "l", "target": ctx.rng.choice(["../outside/sentinel", "../outside/sdir", "../outside"]), "mtime": 10**18 + 1}
            steps.append({"op": "mktree", "path": "dest", "tree": {"k": "d", "mode": 0o755, "mtime": 5, "c": links}})
        if t % 4 == 3:
            # overwrite into a destination that already holds other things at the tree's own paths: links aimed outside
            # where the tree has directories or files, files where it has directories, directories where it has files
            destkind = "mixed-overwrite"

            def other(node, depth):
                out = {}
                for nm in sorted(node["c"]):
                    ch = node["c"][nm]
                    x = ctx.rng.random()
                    if x < 0.3:
                        out[nm] = {"k": "l", "target": ctx.rng.choice(["@WS@/outside/sdir", "@WS@/outside/sentinel", "@WS@/outside", "nowhere"]),
                                   "mtime": 10**18 + 2}
                    elif x < 0.45:
                        out[nm] = {"k": "f", "data": "6f6c64", "mode": 0o600, "mtime": 88}
                    elif x < 0.6:
                        out[nm] = {"k": "d", "mode": 0o755, "mtime": 99, "c": {"kept": {"k": "f", "data": "6b", "mode": 0o600, "mtime": 77}}}
                    elif ch["k"] == "d" and x < 0.9:
                        out[nm] = {"k": "d", "mode": 0o755, "mtime": 99, "c": other(ch, depth + 1)}
                return out
            steps.append({"op": "mktree", "path": "dest", "tree": {"k": "d", "mode": 0o755, "mtime": 5, "c": other(tree, 0)}})
        rs = {"op": "restore", "band": 0, "dest": "dest"}
        if destkind == "mixed-overwrite":
            rs["overwrite"] = True
        if ctx.rng.random() < 0.3:
            dirs = [p for p, n in gen.tree_paths(tree) if n["k"] == "d" and p != "/"]
            if dirs:
                rs["subtree"] = ctx.rng.choice(dirs)
        ls = {"op": "list", "band": 0}
        if "subtree" in rs:
            ls["subtree"] = rs["subtree"]
        steps += [ls, {"op": "snap", "path": "outside"}, {"op": "snap", "path": "dest"}, rs, {"op": "snap", "path": "outside"}, {"op": "snap", "path": "dest"}]
        cases.append({"id": f"c{t}", "tree": tree, "rtree": tree, "opts": opts, "destkind": destkind, "steps": steps})
    # the stitched-symlink history: a directory replaced by a symlink, the next backup killed at EVERY point
    for t in range(5 if quick else 60):
        t0 = scen.small_tree(ctx.rng) if t % 2 else {"k": "d", "mode": 0o755, "mtime": 10**18, "c": {}}
        t0["c"]["d"] = {"k": "d", "mode": 0o755, "mtime": 10**18, "c": {
            "f": {"k": "f", "data": gen.rand_bytes(ctx.rng, 6).hex(), "mode": 0o644, "mtime": 10**18 + 3},
            "sub": {"k": "d", "mode": 0o700, "mtime": 10**18, "c": {"g": {"k": "f", "data": "67", "mode": 0o600, "mtime": 10**18 + 4}}}}}
        # ... and a regular file replaced by a symlink to a file outside (the older version's entry for the same path lying
        # in the middle of an index hunk, at its start or at its end, depending on the hunk size)
        t0["c"]["m"] = {"k": "f", "data": gen.rand_bytes(ctx.rng, 5).hex(), "mode": 0o644, "mtime": 10**18 + 5}
        t0["c"].setdefault("a", {"k": "f", "data": "61", "mode": 0o644, "mtime": 10**18 + 6})
        t0["c"].setdefault("z", {"k": "f", "data": "7a", "mode": 0o644, "mtime": 10**18 + 7})
        t1 = json.loads(json.dumps(t0))
        t1["c"]["d"] = {"k": "l", "target": ctx.rng.choice(["../outside/sdir", "../outside", "@WS@/outside/sdir"]), "mtime": 10**18 + 50}
        t1["c"]["m"] = {"k": "l", "target": ctx.rng.choice(["../outside/sentinel", "@WS@/outside/sentinel", "../outside/newfile"]), "mtime": 10**18 + 51}
        o2 = {"meph": ctx.rng.choice([1, 2, 3]), "mbs": 8, "sfc": 4}
        o1 = {"meph": [2, 3, 4, 5, 7][t % 5], "mbs": 8, "sfc": 4}
        for k in range(10, 70 if quick else 120):
            steps = [{"op": "init"}, {"op": "mktree", "path": "outside", "tree": OUTSIDE}, {"op": "mktree", "path": "src", "tree": t0},
                     {"op": "backup", "opts": o1},
                     {"op": "mktree", "path": "src", "tree": t1},
                     {"op": "backup", "opts": o2, "plan": {"crash": k}},
                     {"op": "list", "band": 1},
                     {"op": "snap", "path": "outside"}, {"op": "snap", "path": "dest"},
                     {"op": "restore", "band": 1, "dest": "dest"},
                     {"op": "snap", "path": "outside"}, {"op": "snap", "path": "dest"}]
            cases.append({"id": f"s{t}_{k}", "tree": t1, "opts": {}, "destkind": "absent", "stitched": True, "steps": steps})
    # one version restored over another with the overwrite option: what the first restore put there (symlinks from the
    # source) must not be written through by the second
    for t in range(24 if quick else 400):
        ta = tree_with_links(ctx)
        # always one link to a directory that exists beside the destination
        ta["c"]["lnk"] = {"k": "l", "target": ctx.rng.choice(["../outside/sdir", "../outside", "@WS@/outside/sdir"]), "mtime": 10**18 + 40}
        # ... and dangling links whose target's directory exists beside the destination: the other version has files there
        ta["c"]["notes"] = {"k": "l", "target": ctx.rng.choice(["../outside/notyet", "@WS@/outside/sdir/notyet", "../outside/sdir/new file"]), "mtime": 10**18 + 41}
        tb = json.loads(json.dumps(ta))
        swapped = []

        def swap(node, path):
            for nm in sorted(node["c"]):
                ch = node["c"][nm]
                if ch["k"] == "l":
                    if ctx.rng.random() < 0.7 or nm in ("lnk", "notes"):
                        if nm != "lnk" and ("sentinel" in ch["target"] or "inner" in ch["target"] or nm == "notes" or ctx.rng.random() < 0.3):
                            node["c"][nm] = {"k": "f", "data": gen.rand_bytes(ctx.rng, 5).hex(), "mode": 0o604, "mtime": 10**18 + 321}
                        else:
                            node["c"][nm] = {"k": "d", "mode": 0o701, "mtime": 10**18 + 322, "c": {
                                "inner": {"k": "f", "data": "4e4557", "mode": 0o666, "mtime": 10**18 + 323},
                                "sentinel": {"k": "f", "data": "4e", "mode": 0o666, "mtime": 10**18 + 324},
                                "fresh": {"k": "d", "mode": 0o755, "mtime": 10**18 + 328, "c": {
                                    "f": {"k": "f", "data": "66", "mode": 0o644, "mtime": 10**18 + 329},
                                    "l": {"k": "l", "target": "f", "mtime": 10**18 + 330}}},
                                "sdir": {"k": "d", "mode": 0o777, "mtime": 10**18 + 325, "c": {
                                    "inner": {"k": "l", "target": "x", "mtime": 10**18 + 326},
                                    "deep": {"k": "f", "data": "64", "mode": 0o644, "mtime": 10**18 + 327}}}}}
                            swapped.append(path + "/" + nm)
                elif ch["k"] == "d":
                    swap(ch, path + "/" + nm)
        swap(tb, "")
        first, second = (0, 1) if t % 3 else (1, 0)
        rs = {"op": "restore", "band": second, "dest": "dest", "overwrite": True}
        if swapped and second == 1 and t % 2:
            rs["subtree"] = ctx.rng.choice(swapped + ["/lnk"]) + ctx.rng.choice(["", "/sdir", "/fresh", "/fresh"])
        steps = [{"op": "init"}, {"op": "mktree", "path": "outside", "tree": OUTSIDE}, {"op": "mktree", "path": "src", "tree": ta},
                 {"op": "backup", "opts": scen.small_opts(ctx.rng)}, {"op": "mktree", "path": "src", "tree": tb},
                 {"op": "backup", "opts": scen.small_opts(ctx.rng)},
                 {"op": "restore", "band": first, "dest": "dest"},
                 dict({"op": "list", "band": second}, **({"subtree": rs["subtree"]} if "subtree" in rs else {})),
                 {"op": "snap", "path": "outside"}, {"op": "snap", "path": "dest"}, rs, {"op": "snap", "path": "outside"}, {"op": "snap", "path": "dest"}]
        cases.append({"id": f"o{t}", "tree": ta, "rtree": (tb if second == 1 else ta), "opts": {}, "destkind": "absent", "over": True, "steps": steps})
    res = ctx.cvh_run(cases)
    for c in cases:
        r = res.get(c["id"])
        ctx.count()
        small = {"steps": c["steps"]}
        if r is None:
            ctx.oracle_fail("confine/harness-died", "harness died or hung", small)
            continue
        before, dbefore, rs, after, dafter = r[-5], r[-4], r[-3], r[-2], r[-1]
        if rs.get("panic"):
            ctx.oracle_fail("confine/panic", f"restore panicked: {rs['panic'][:150]}", small)
            continue
        d = scen.first_difference(scen.strip(before.get("tree")), scen.strip(after.get("tree")))
        if d:
            sig = "confine/stitched-symlink-ancestor" if c.get("stitched") else ("confine/overwrite-through-restored-symlink" if c.get("over") else "confine/outside-modified")
            ctx.oracle_fail(sig, f"restore changed something outside its destination: {d[0]!r} ({d[1]}: {d[2]} -> {d[3]})", small)
            continue
        if c["destkind"] == "mixed-overwrite":
            pass
        elif c["destkind"] in ("populated", "symlinks-only"):
            if rs.get("result") == "ok":
                ctx.oracle_fail("confine/clobbered-nonempty-destination", "restore into a non-empty destination without overwrite was not refused", small)
                continue
            if scen.first_difference(scen.strip(dbefore.get("tree")), scen.strip(dafter.get("tree"))):
                ctx.oracle_fail("confine/refused-but-touched", "restore refused a non-empty destination but changed it", small)
                continue
        if c["destkind"] not in ("populated", "symlinks-only") and not c.get("stitched") and not c.get("over") and rs.get("result") != "ok":
            ctx.oracle_fail("confine/restore-failed", f"restore failed: {json.dumps(rs.get('err'))[:200]}", small)
            continue
        links = [n["target"] for _, n in gen.tree_paths(c["tree"]) if n["k"] == "l"]
        if any("outside" in t or t.startswith("..") for t in links):
            ctx.nontrivial(json.dumps([c["destkind"], sorted(links), c.get("stitched", False)]))
        ctx.dist("dest_" + c["destkind"] + ("_stitched" if c.get("stitched") else "") + ("_overwrite_after_restore" if c.get("over") else ""))
    guard_correspondence(ctx, cases, res)
    dest_correspondence(ctx, cases, res)
    if cases:
        ctx.sample({"link_targets": sorted({n["target"] for _, n in gen.tree_paths(cases[0]["tree"]) if n["k"] == "l"})})
    ctx.assumptions += ["kernel path resolution and metadata semantics are observed on this machine, not modelled; runs as root (so absolute targets are confined to the sandbox by construction)"]


def replay(ctx, rep):
    r = rep.get("replay", rep)
    ctx.build()
    out = ctx.cvh_run([{"id": "r", "steps": r["steps"]}])["r"]
    print("restore:", out[-3].get("result"), out[-3].get("err"), json.dumps(out[-3].get("monitor_errors"))[:300])
    print("outside changed:", scen.first_difference(scen.strip(out[-5].get("tree")), scen.strip(out[-2].get("tree"))))
    return 0
