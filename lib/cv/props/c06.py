"""C06 — A garbage collection and a backup running together never lose data."""
import json

from .. import gen, l4, scen


def scenario(ctx, k):
    """band 0 holds blocks that only it references; the racing backup's source contains the
    same contents again (so it deduplicates against what the collector is about to remove)."""
    shared = [gen.rand_bytes(ctx.rng, n) for n in (5, 9, 3)]
    t0 = scen.small_tree(ctx.rng)
    for i, c in enumerate(shared):
        t0["c"][f"g{i}"] = {"k": "f", "data": c.hex(), "mode": 0o644, "mtime": 10**18 + i}
    t2 = scen.small_tree(ctx.rng)
    for i, c in enumerate(shared):
        t2["c"][f"again{i}"] = {"k": "f", "data": c.hex(), "mode": 0o600, "mtime": 10**18 + 50 + i}
    if ctx.rng.random() < 0.5:
        # some entries unchanged from band 0, so that addresses are copied from the basis
        for i in range(2):
            t2["c"][f"g{i}"] = dict(t0["c"][f"g{i}"])
    opts = {"meph": ctx.rng.choice([2, 3, 100000]), "mbs": ctx.rng.choice([4, 8, 64]), "sfc": ctx.rng.choice([0, 4, 1 << 20])}
    variant = ctx.rng.choice(["delete0", "gc_after_delete", "delete0"])
    return {"id": f"G{k}", "t0": t0, "t2": t2, "opts": opts, "variant": variant}


def steps_for(sc, schedule):
    steps = [{"op": "init"}, {"op": "mktree", "path": "src", "tree": sc["t0"]}, {"op": "backup", "opts": sc["opts"]}]
    if sc["variant"] == "gc_after_delete":
        # leave garbage behind: a second version without the shared files, then remove band 0's directory only
        steps += [{"op": "mktree", "path": "src", "tree": {"k": "d", "mode": 0o755, "mtime": 10**18, "c": {}}},
                  {"op": "backup", "opts": sc["opts"]}, {"op": "damage", "file": "b0000", "kind": "rmdir"}]
        b = {"op": "delete", "bands": []}
    else:
        b = {"op": "delete", "bands": [0]}
    steps += [{"op": "mktree", "path": "srca", "tree": sc["t2"]}, {"op": "snap", "path": "srca"},
              {"op": "race", "schedule": schedule, "a": {"op": "backup", "src": "srca", "opts": sc["opts"]}, "b": b},
              {"op": "arch"}, {"op": "versions"}, {"op": "restore", "band": "latest", "dest": "out"}, {"op": "validate"}]
    return steps


def run(ctx):
    quick = ctx.tier == "quick"
    scs = [scenario(ctx, k) for k in range(2 if quick else 20)]
    cases = []
    info = {}
    for sc in scs:
        scheds = []
        # exhaustive over two preemption points (actor 0 = backup, 1 = collector)
        imax, jmax = (7, 46) if quick else (12, 70)
        for i in range(0, imax):
            for j in range(0, jmax, 1 if i < 5 else 3):
                scheds.append([0] * i + [1] * j)
        for j in range(0, 12 if quick else 30):
            for i in range(0, 30 if quick else 60, 3 if quick else 1):
                scheds.append([1] * j + [0] * i)
        # three preemption points around the creation of the backup's band: the backup has made its directory (no head yet),
        # the collector starts and looks at the archive, the backup writes its head and reads the lock and the block
        # directory, the collector runs to its end, the backup finishes
        for k1 in (4, 5, 6, 7):
            for k2 in range(1, 8 if quick else 12):
                for k3 in (range(2, 14, 2) if quick else range(1, 16)):
                    scheds.append([0] * k1 + [1] * k2 + [0] * k3 + [1] * 300)
        # the backup makes its first i operations -- up to its very last ones: the last hunk, the tail -- then the collector
        # runs to its end, then the backup finishes (operations the backup has issued together are released in name order,
        # so the tail can go out before a hunk issued with it)
        for i in range(8, 52 if quick else 90):
            scheds.append([0] * i + [1] * 400)
        for _ in range(60 if quick else 3000):
            s, cur = [], ctx.rng.randrange(2)
            for _ in range(ctx.rng.randrange(1, 5)):
                s += [cur] * ctx.rng.randrange(1, 25)
                cur = 1 - cur
            scheds.append(s)
        for n, s in enumerate(scheds):
            cid = f"{sc['id']}_{n}"
            info[cid] = (sc, s)
            cases.append({"id": cid, "steps": steps_for(sc, s)})
    ctx.cov["rule"] = ("archives where one version's blocks are referenced by nothing else and reappear in the new source; a delete/gc and a backup "
                       "interleaved at storage-operation granularity: all schedules with two preemption points over a grid (backup runs i ops, the "
                       "collector j ops, then both to completion; and the mirror image) + a three-preemption grid around the creation of the backup's band + random schedules with up to 4 switches; oracle: both finish, "
                       "no crash, every version marked complete has all its blocks and restores to its source. non-trivial = distinct schedule in which "
                       "both actors performed operations before either finished")
    res = ctx.cvh_run(cases, shards=16, timeout=3000)
    for c in cases:
        sc, sched = info[c["id"]]
        r = res.get(c["id"])
        ctx.count()
        small = {"t0": sc["t0"], "t2": sc["t2"], "opts": sc["opts"], "variant": sc["variant"], "schedule": sched}
        if r is None:
            ctx.oracle_fail("race/harness-died", "harness died or hung", small)
            continue
        race, arch, restore = r[-5], r[-4], r[-2]
        if race.get("panic") or race.get("timeout"):
            ctx.oracle_fail("race/panic-or-hang", f"gc and backup together: {race.get('panic') or 'timeout'}", small)
            continue
        dec = scen.decode(arch["arch"])
        bad = None
        for bid, band in dec["bands"].items():
            if scen.complete(band):
                for e in scen.band_entries(band):
                    if e.get("kind") == "File":
                        c_ = scen.entry_content(e, dec["blocks"])
                        if isinstance(c_, str):
                            bad = f"complete version b{bid:04d} lists {e['apath']} but {c_}"
                            break
            if bad:
                break
        if bad:
            # the window in which neither side can see the other
            tr = race["trace"]
            def first(actor, verb, path_pred):
                for n, it in enumerate(tr):
                    if it["actor"] == actor and it["verb"] == verb and path_pred(it["path"]):
                        return n
                return None
            ctx.oracle_fail("race/collector-removed-referenced-block",
                            f"gc and backup interleaved (schedule {sched[:40]}): {bad}; backup result {race['a'].get('result')}, collector {race['b'].get('result')}", small)
            continue
        newest = max(dec["bands"]) if dec["bands"] else None
        if race["a"].get("result") == "ok" and newest is not None and scen.complete(dec["bands"][newest]):
            if restore.get("result") != "ok" or restore.get("monitor_errors"):
                ctx.oracle_fail("race/new-version-does-not-restore", f"after gc || backup the new version does not restore: {json.dumps(restore.get('err') or restore.get('monitor_errors'))[:200]}", small)
                continue
            d = scen.first_difference(scen.strip(r[-6]["tree"]), scen.strip(restore.get("tree")))
            if d:
                ctx.oracle_fail("race/new-version-differs", f"after gc || backup the new version restores differently at {d[:2]}", small)
                continue
        acts = [it["actor"] for it in race["trace"]]
        if 0 in acts and 1 in acts and acts != sorted(acts) and acts != sorted(acts, reverse=True):
            ctx.nontrivial(json.dumps(sched))
        ctx.dist("results_backup_%s_gc_%s" % (race["a"].get("result"), race["b"].get("result")))
    if cases:
        ctx.sample({"variant": scs[0]["variant"], "example_schedule": info[cases[len(cases) // 3]["id"]][1]})
    ctx.assumptions += ["sequentially consistent storage (the local file system); weakly consistent stores are outside the model",
                        "interleaving granularity = one transport operation; concurrently issued listings of one actor are released in name order"]


def replay(ctx, rep):
    r = rep.get("replay", rep)
    ctx.build()
    sc = {"t0": r["t0"], "t2": r["t2"], "opts": r["opts"], "variant": r.get("variant", "delete0")}
    out = ctx.cvh_run([{"id": "r", "steps": steps_for(sc, r["schedule"])}])["r"]
    race = out[-5]
    print("backup:", race["a"].get("result"), race["a"].get("err"), " collector:", race["b"].get("result"), race["b"].get("err"))
    for it in race["trace"]:
        if it["verb"] in ("Write", "RemoveFile", "RemoveDirAll", "CreateDir") or it["path"] in ("GC_LOCK", ""):
            print(it["actor"], it["verb"], it["path"][:40], (it.get("reply") or {}).get("ok"))
    dec = scen.decode(out[-4]["arch"])
    print("reference problems:", scen.refint_problems(dec))
    return 0
