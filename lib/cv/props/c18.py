"""C18 — Diff and change reports agree with the real differences."""
import concurrent.futures
import json

from .. import common, gen, coqfmt
from ..common import gallina_str, gallina_list

HEADER = "From CV Require Import Base.Str Apath Entry Diff Corr.Run.\nLocal Open Scope N_scope.\n"
SIG = {".": 0, "+": 1, "-": 2, "*": 3}


def owner(node):
    return (gen.UID_NAME.get(node.get("uid", 0)), gen.GID_NAME.get(node.get("gid", 0)))


def node_changed(a, b):
    if a["k"] != b["k"]:
        return True
    if owner(a) != owner(b):
        return True
    ma = a.get("mode") if a["k"] != "l" else 0o777
    mb = b.get("mode") if b["k"] != "l" else 0o777
    if ma != mb:
        return True
    if a["k"] == "f" and (len(a["data"]) != len(b["data"]) or a["mtime"] != b["mtime"]):
        return True
    if a["k"] == "l" and a["target"] != b["target"]:
        return True
    return False


def true_diff(t0, t1, include_unchanged):
    m0 = dict(gen.tree_paths(t0))
    m1 = dict(gen.tree_paths(t1))
    out = []
    for p in sorted(set(m0) | set(m1), key=gen.apath_key):
        if p not in m0:
            out.append(("+", p))
        elif p not in m1:
            out.append(("-", p))
        elif node_changed(m0[p], m1[p]):
            out.append(("*", p))
        elif include_unchanged:
            out.append((".", p))
    return out


def true_backup_changes(t0, t1):
    m0 = dict(gen.tree_paths(t0))
    m1 = dict(gen.tree_paths(t1))
    out = []
    for p in sorted(set(m0) | set(m1), key=gen.apath_key):
        if p not in m1:
            out.append(("-", p))
        elif m1[p]["k"] == "f":
            if p not in m0:
                out.append(("+", p))
            elif node_changed(m0[p], m1[p]):
                out.append(("*", p))
            else:
                out.append((".", p))
    return out


def make_cases(ctx, n):
    cases = []
    for t in range(n):
        t0 = gen.rand_tree(ctx.rng, depth=ctx.rng.choice([1, 2, 3]), fanout=4, neg_frac=False)
        if t % 3 == 0:
            # a directory D with a sub-directory, next to a sibling whose name is D plus a byte that sorts below '/':
            # path order and string order disagree across them; then entries come and go inside D's sub-directory
            def f(d, m):
                return {"k": "f", "data": d.hex(), "mode": 0o644, "mtime": 10**18 + m}
            base = ctx.rng.choice(["proj", "lib", "a", "ñ"])
            sib = base + ctx.rng.choice(["-old", ".bak", " 2", "+", ",x", "!"])
            t0["c"][base] = {"k": "d", "mode": 0o755, "mtime": 10**18, "c": {
                "src": {"k": "d", "mode": 0o755, "mtime": 10**18, "c": {"main": f(b"m", 1), "util": f(b"u", 2)}}, "top": f(b"t", 3)}}
            t0["c"][sib] = {"k": "d", "mode": 0o755, "mtime": 10**18, "c": {"notes": f(b"n", 4)}}
        if t % 4 == 1:
            # owners known only by half: a uid with a passwd name beside a gid without a group name, the reverse, neither
            for nm, (u_, g_) in (("nameless-group", (1, 54321)), ("nameless-user", (54321, 1)), ("nameless-both", (54321, 54322))):
                t0["c"][nm] = {"k": ctx.rng.choice(["f", "f", "d"]), "mode": 0o640, "mtime": 10**18 + 7, "uid": u_, "gid": g_}
                if t0["c"][nm]["k"] == "f":
                    t0["c"][nm]["data"] = "6f"
                else:
                    t0["c"][nm]["c"] = {}
        t1, muts = gen.mutate_tree(ctx.rng, t0)
        if t % 3 == 0 and base in t1["c"] and t1["c"][base]["k"] == "d" and "src" in t1["c"][base]["c"] and t1["c"][base]["c"]["src"]["k"] == "d":
            srcd = t1["c"][base]["c"]["src"]["c"]
            if ctx.rng.random() < 0.5 and "util" in srcd:
                del srcd["util"]
                muts.append(("remove", f"/{base}/src/util"))
            else:
                srcd["zz-new"] = {"k": "f", "data": "6e", "mode": 0o644, "mtime": 10**18 + 9}
                muts.append(("add", f"/{base}/src/zz-new"))
        opts = gen.rand_opts(ctx.rng)
        steps = [
            {"op": "init"}, {"op": "mktree", "path": "src", "tree": t0}, {"op": "backup", "opts": opts},
            {"op": "diff", "band": 0, "include_unchanged": False}, {"op": "diff", "band": 0, "include_unchanged": True},
            {"op": "mktree", "path": "src", "tree": t1},
            {"op": "walk"}, {"op": "list", "band": 0}, {"op": "arch"},
            {"op": "diff", "band": 0, "include_unchanged": False}, {"op": "diff", "band": 0, "include_unchanged": True},
            {"op": "backup", "opts": gen.rand_opts(ctx.rng), "changes": True},
            # the new version against the (unchanged) tree it was just made from, and one more backup of it
            {"op": "diff", "band": 1, "include_unchanged": False}, {"op": "diff", "band": 1, "include_unchanged": True},
            {"op": "backup", "opts": gen.rand_opts(ctx.rng), "changes": True},
        ]
        cases.append({"id": f"d{t}", "t0": t0, "t1": t1, "muts": muts, "opts": opts, "steps": steps})
    return cases


def sigs(res):
    return [(x[0], x[1]) for x in res["value"]]


def run(ctx):
    quick = ctx.tier == "quick"
    cases = make_cases(ctx, 60 if quick else 1500)
    ctx.cov["rule"] = ("generated trees x mutation sets (content+mtime, same-size content, mtime-only, chmod, chown, add/remove, kind swaps, "
                       "retargeted links): diff with and without include_unchanged and the backup change callback, implementation vs the "
                       "true difference computed from the harness's own two tree descriptions (direct oracle) and vs the Diff.v model evaluated "
                       "on the implementation's listing and walk. non-trivial = distinct mutation set producing at least one change")
    res = ctx.cvh_run(cases)
    items = []
    for c in cases:
        r = res.get(c["id"])
        ctx.count()
        small = {"t0": c["t0"], "t1": c["t1"], "opts": c["opts"], "muts": c["muts"]}
        if r is None:
            ctx.oracle_fail("diff/harness-died", "harness died or hung", small)
            continue
        if any(x.get("panic") or x.get("timeout") for x in r if isinstance(x, dict)):
            ctx.oracle_fail("diff/panic", "an operation panicked or hung: " + json.dumps([x.get("panic") for x in r if isinstance(x, dict) and x.get("panic")])[:300], small)
            continue
        if r[2].get("result") != "ok" or any(r[k].get("result") != "ok" for k in (3, 4, 6, 7, 9, 10, 11)):
            ctx.oracle_fail("diff/op-failed", "backup/diff/list failed: " + json.dumps([x.get("err") for x in r if isinstance(x, dict) and x.get("err")])[:300], small)
            continue
        self0, self1 = sigs(r[3]), sigs(r[4])
        if self0 != []:
            ctx.oracle_fail("diff/self-nonempty", f"diff of a version against the very tree it was made from reports {self0[:6]}", small)
            continue
        exp_self = true_diff(c["t0"], c["t0"], True)
        if self1 != exp_self:
            ctx.oracle_fail("diff/self-unchanged", f"diff --include-unchanged against the same tree: {self1[:6]} expected {exp_self[:6]}", small)
            continue
        d0, d1, bc = sigs(r[9]), sigs(r[10]), [(x[0], x[1]) for x in r[11].get("changes", [])]
        e0, e1 = true_diff(c["t0"], c["t1"], False), true_diff(c["t0"], c["t1"], True)
        if d0 != e0:
            ctx.oracle_fail("diff/exact", f"diff reports {d0[:8]} but the real differences are {e0[:8]} (mutations {c['muts']})", small)
            continue
        if d1 != e1:
            ctx.oracle_fail("diff/exact-unchanged", f"diff --include-unchanged reports {d1[:8]}, real {e1[:8]}", small)
            continue
        eb = true_backup_changes(c["t0"], c["t1"])
        if bc != eb:
            ctx.oracle_fail("diff/backup-callback", f"backup change callback reports {bc[:8]} but the real file changes are {eb[:8]} (mutations {c['muts']})", small)
            continue
        if len(r) > 14 and all(r[k].get("result") == "ok" for k in (12, 13, 14)):
            s2, s2u, bc2 = sigs(r[12]), sigs(r[13]), [(x[0], x[1]) for x in r[14].get("changes", [])]
            if s2 != []:
                ctx.oracle_fail("diff/self-nonempty", f"after the second backup, diff of the NEW version against the very tree it was made from reports "
                                                      f"{s2[:6]} (mutations before that backup: {c['muts']})", small)
                continue
            if s2u != true_diff(c["t1"], c["t1"], True):
                ctx.oracle_fail("diff/self-unchanged", f"after the second backup, diff --include-unchanged of the new version against its own tree: {s2u[:6]}", small)
                continue
            eb2 = true_backup_changes(c["t1"], c["t1"])
            if bc2 != eb2:
                ctx.oracle_fail("diff/backup-callback", f"a third backup of the unchanged tree reports {bc2[:8]}, expected {eb2[:8]} (mutations before the second: {c['muts']})", small)
                continue
        elif len(r) > 14:
            ctx.oracle_fail("diff/op-failed", "diff or backup after the second backup failed: " + json.dumps([r[k].get("err") for k in (12, 13, 14)])[:300], small)
            continue
        if e0:
            ctx.nontrivial(json.dumps(c["muts"]) + json.dumps(e0))
        for m in c["muts"]:
            ctx.dist("mutation_" + m[0])
        items.append((c, r, d0, d1, bc))
    # ---- model vs implementation (merge / diff_metadata / copy_file classification)
    shards = 4 if quick else 16
    per = (len(items) + shards - 1) // shards
    jobs = []
    for s in range(shards):
        part = items[s * per:(s + 1) * per]
        if not part:
            continue
        defs = []
        for k, (c, r, d0, d1, bc) in enumerate(part):
            table = coqfmt.hash_table(r[8]["arch"])
            idx = gallina_list([coqfmt.g_entry(e["raw"], table) for e in r[7]["value"]])
            src = gallina_list([coqfmt.g_sentry(e) for e in r[6]["value"]])
            def lst(l):
                return gallina_list(["(" + gallina_str(p) + "," + str(SIG[s_]) + ")" for s_, p in l])
            defs.append(f"(check_case {idx} {src} {lst(d0)} {lst(d1)} {lst(bc)})")
        body = HEADER + """
Definition ch_code (c : change) : N := match c with Unchanged _ => 0 | Added _ => 1 | Deleted _ => 2 | Changed _ _ => 3 end.
Definition codes (r : dres (list (str * change))) : option (list (str * N)) :=
  match r with DOk l => Some (map (fun pc => (fst pc, ch_code (snd pc))) l) | DPanic => None end.
Fixpoint pl_eqb (a b : list (str * N)) : bool :=
  match a, b with [], [] => true | x :: a', y :: b' => str_eqb (fst x) (fst y) && N.eqb (snd x) (snd y) && pl_eqb a' b' | _, _ => false end.
Definition ok (m : option (list (str * N))) (impl : list (str * N)) : bool :=
  match m with Some l => pl_eqb l impl | None => false end.
Definition check_case idx src d0 d1 bc : N :=
  (if ok (codes (diff false idx src)) d0 then 0 else 1) +
  (if ok (codes (diff true idx src)) d1 then 0 else 2) +
  (if ok (codes (backup_changes (fun _ => true) idx src)) bc then 0 else 4).
Definition results : list N := """ + gallina_list(defs) + ".\nEval vm_compute in first_diff results (map (fun _ => 0) results) 0.\n"
        jobs.append((s, part, body))
    agreed = 0
    with concurrent.futures.ThreadPoolExecutor(max_workers=16) as ex:
        futs = {ex.submit(common.coq_eval, f"C18_{s}", body, 1800): (s, part) for s, part, body in jobs}
        for fut in concurrent.futures.as_completed(futs):
            s, part = futs[fut]
            ok, out = fut.result()
            blocks = common.parse_eval_blocks(out)
            if not ok or not blocks:
                ctx.corr_fail("L3", "model evaluation failed: " + out[-600:], {})
            elif blocks[0].strip().startswith("None"):
                agreed += len(part)
            else:
                nums = common.parse_nums(blocks[0])
                c = part[nums[0]][0]
                ctx.corr_fail("L3", f"Diff model and implementation differ (bit 1: diff, 2: diff+unchanged, 4: backup callback): code {nums[1]}",
                              {"t0": c["t0"], "t1": c["t1"], "opts": c["opts"], "muts": c["muts"]})
                agreed += nums[0]
    ctx.layer("L3-diff", agreed, len(items))
    if cases:
        ctx.sample({"mutations": cases[0]["muts"], "diff": true_diff(cases[0]["t0"], cases[0]["t1"], False)[:8]})
    ctx.assumptions += ["a content change always comes with a new mtime or size (the property's proviso)",
                        "owner names are taken from /etc/passwd and /etc/group of this sandbox"]


def replay(ctx, rep):
    r = rep.get("replay", rep)
    ctx.build()
    c = {"id": "r", "steps": [
        {"op": "init"}, {"op": "mktree", "path": "src", "tree": r["t0"]}, {"op": "backup", "opts": r.get("opts", {})},
        {"op": "mktree", "path": "src", "tree": r["t1"]}, {"op": "diff", "band": 0, "include_unchanged": True},
        {"op": "backup", "opts": r.get("opts", {}), "changes": True}]}
    out = ctx.cvh_run([c])["r"]
    print("diff:", [(x[0], x[1]) for x in out[4].get("value", [])])
    print("real:", true_diff(r["t0"], r["t1"], True))
    print("backup callback:", [(x[0], x[1]) for x in out[5].get("changes", [])])
    print("real file changes:", true_backup_changes(r["t0"], r["t1"]))
    return 0
