"""C09 — Validate is accurate: silent on healthy archives, loud on damage."""
import json

from .. import damage, gen, l4, scen


def healthy(ctx, n, nsteps):
    cases = []
    for t in range(n):
        steps, marks = scen.rand_history(ctx.rng, nsteps, crash_kinds=("crash",), min_crash=9)
        out, om = [], []
        for st, mk in zip(steps, marks):
            out.append(st)
            om.append(mk)
            if mk["kind"] in ("backup", "delete"):
                out += [{"op": "validate"}, {"op": "validate", "skip": True}]
                om += [{"kind": "vcheck"}, {"kind": "vcheck"}]
        cases.append({"id": f"v{t}", "steps": out, "marks": om})
    # a backup killed at EVERY early point (before, at and after its band head) on top of a healthy archive: the state is
    # healthy up to a file-less newest band directory (HealthyP.backup_uh); validate must not crash, and must report the
    # head-less band if there is one
    t0 = scen.small_tree(ctx.rng)
    t1, _ = gen.mutate_tree(ctx.rng, t0)
    for k in range(2, 14):
        steps = [{"op": "init"}, {"op": "mktree", "path": "src", "tree": t0}, {"op": "snap", "path": "src"}, {"op": "walk"},
                 {"op": "backup", "opts": {"meph": 2, "mbs": 8, "sfc": 4}}, {"op": "arch"},
                 {"op": "mktree", "path": "src", "tree": t1}, {"op": "snap", "path": "src"}, {"op": "walk"},
                 {"op": "backup", "opts": {"meph": 2, "mbs": 8, "sfc": 4}, "plan": {"crash": k}}, {"op": "arch"}, {"op": "validate"}]
        marks = [{"kind": "init"}, {"kind": "mktree", "tree": t0}, {"kind": "snap"}, {"kind": "walk"},
                 {"kind": "backup", "plan": None, "tree": t0, "snap_at": 2}, {"kind": "arch"},
                 {"kind": "mktree", "tree": t1}, {"kind": "snap"}, {"kind": "walk"},
                 {"kind": "backup", "plan": {"crash": k}, "tree": t1, "snap_at": 7}, {"kind": "arch"}, {"kind": "validate"}]
        cases.append({"id": f"u{k}", "steps": steps, "marks": marks, "uh": True})
    res = ctx.cvh_run(cases)
    hs = []
    for c in cases:
        r = res.get(c["id"])
        ctx.count()
        if r is None:
            ctx.oracle_fail("validate/harness-died", "harness died or hung", {"steps": c["steps"]})
            continue
        bad = False
        header_seen = False
        for i, (st, mk, rs) in enumerate(zip(c["steps"], c["marks"], r)):
            if mk["kind"] == "vcheck":
                if rs.get("panic") or rs.get("result") != "ok" or rs.get("monitor_errors"):
                    ctx.oracle_fail("validate/false-alarm", f"validate reported {json.dumps(rs.get('monitor_errors') or rs.get('err') or rs.get('panic'))[:240]} "
                                                            f"on an archive produced by fault-free operations", {"steps": c["steps"][:i + 1]})
                    bad = True
                    break
        if bad:
            continue
        ctx.nontrivial(json.dumps([m["kind"] + str(m.get("plan") or m.get("ids") or "") for m in c["marks"] if m["kind"] in ("backup", "delete")]))
        names = l4.Names()
        scen.collect_names(names, c["steps"], r)
        h = l4.History(c["id"], names)
        if c.get("uh"):
            h.expect_uh = True
            a = r[10]["arch"]
            headless = [d for d in a["dirs"] if scen.BAND_RE.match(d) and d + "/BANDHEAD" not in a["files"]]
            v = r[11]
            if v.get("panic") or (headless and not (v.get("monitor_errors") or v.get("result") != "ok")):
                ctx.oracle_fail("validate/headless-band-unreported", f"after a backup killed at operation {c['steps'][9]['plan']['crash']} validate "
                                f"{'crashed' if v.get('panic') else 'did not report the band directory without a head'}", {"steps": c["steps"]})
                continue
            if not headless and (v.get("monitor_errors") or v.get("result") != "ok"):
                ctx.oracle_fail("validate/false-alarm", f"after a backup killed at operation {c['steps'][9]['plan']['crash']} (its band has its head) validate "
                                f"reported {json.dumps(v.get('monitor_errors') or v.get('err'))[:200]} on an archive no file of which is damaged", {"steps": c["steps"]})
                continue
            ctx.dist("killed_early_headless" if headless else "killed_early_with_head")
        else:
            h.expect_healthy = True     # kills only from operation 9 on: after the band head is written
        scen.add_model_history(h, c["steps"], c["marks"], r, names)
        hs.append(h)
    out = l4.evaluate(ctx, "C09h", hs, shards=8)
    agreed = total = 0
    for h in hs:
        rr = out.get(h.cid)
        for desc, code in (rr or []):
            total += 1
            if code == 0:
                agreed += 1
            else:
                c = next(x for x in cases if x["id"] == h.cid)
                ctx.corr_fail("L4", f"history {h.cid}: model and implementation differ at {desc}: code {code}", {"steps": c["steps"]})
                break
    ctx.layer("L4-validate-histories", agreed, total)


def big_blocks(ctx):
    """Blocks as large as the writer legitimately makes them: more than the block size of small files combined into one
    block (the combiner cuts a block only AFTER it has passed the limit), and files cut at exactly the limit.  Healthy:
    validation, full and quick, must be silent."""
    cases = []
    for t, (count, size) in enumerate([(30, 900 * 1024), (3, (8 << 20) + 12345)]):
        cases.append({"id": f"big{t}", "steps": [{"op": "init"}, {"op": "mkfiles", "dir": "src", "count": count, "size": size, "seed": ctx.seed + t},
                                                {"op": "backup", "opts": {}}, {"op": "validate"}, {"op": "validate", "skip": True}]})
    res = ctx.cvh_run(cases, timeout=1200)
    for c in cases:
        r = res.get(c["id"])
        ctx.count()
        small = {"steps": c["steps"]}
        if r is None or any(isinstance(x, dict) and (x.get("panic") or x.get("timeout")) for x in r):
            ctx.oracle_fail("validate/panic", "backup or validation of large blocks crashed or hung", small)
            continue
        if r[2].get("result") != "ok" or r[2].get("monitor_errors"):
            ctx.oracle_fail("validate/backup-failed", "the backup of large files failed: " + json.dumps(r[2].get("err") or r[2].get("monitor_errors"))[:200], small)
            continue
        for what, v in (("full", r[3]), ("quick", r[4])):
            if v.get("result") != "ok" or damage.errs(v):
                ctx.oracle_fail("validate/false-alarm", f"{what} validation of a healthy archive holding blocks of the largest size the writer makes reports "
                                                        f"{json.dumps(v.get('monitor_errors') or v.get('err'))[:240]}", small)
                break
        else:
            ctx.dist("healthy_large_block_archives")
            ctx.nontrivial("big:" + c["id"])


def run(ctx):
    quick = ctx.tier == "quick"
    big_blocks(ctx)
    ctx.cov["rule"] = ("healthy side: random histories (backups incl. killed ones, deletes, gc) with validate full/quick after every mutating "
                       "operation: zero errors expected (+ exact L4 trace correspondence of validate_prog), + archives holding blocks of the largest size the writer makes (over 20 MiB of small files combined, files cut at the limit); damage side: every archive file x {delete, "
                       "truncate 0, truncate half, garbage} + bit flips in blocks: if any version no longer restores exactly, full validate must "
                       "report >= 1 error (quick validate for missing files). non-trivial = damage that changes some restore")
    healthy(ctx, 10 if quick else 300, 6 if quick else 14)
    bases, cases, info, res = damage.build_cases(ctx, 2 if quick else 16, 1 if quick else 8)
    for c in cases:
        b, f, cls, kind, dmg = info[c["id"]]
        r = res.get(c["id"])
        ctx.count()
        small = {"base_steps": b["steps"], "damage": dmg}
        if r is None:
            continue            # hangs are C10's business
        nb = len(b["steps"])
        probe = r[nb + 2:]
        idx = damage.probe_index(b["nbands"])
        ref = b["probe_ref"]
        if any(isinstance(p, dict) and p.get("panic") for p in probe[:idx["backup"]]):
            continue            # crashes are C10's business
        harmed = None
        for band in range(b["nbands"]):
            got, want = probe[idx[("restore", band)]], ref[idx[("restore", band)]]
            if want.get("result") != "ok":
                continue
            if got.get("result") != "ok" or scen.first_difference(scen.strip(want.get("tree")), scen.strip(got.get("tree"))):
                harmed = band
                break
        if harmed is None:
            ctx.dist("harmless_" + cls + "_" + kind)
            continue
        after = r[nb + 1]["arch"]["files"].get(f)
        if kind in ("bitflip", "hunkaddr", "tailcount") and cls != "block" and after is not None and after.get("t") in ("hunk", "json"):
            ctx.dist("bitflip_still_decodable_" + cls)      # no checksum on index/metadata files: outside the property
            continue
        v, vq = probe[idx["validate"]], probe[idx["validate_quick"]]
        if kind == "delete" and damage.is_last_hunk_of_open_band(b["arch"], f) and damage.errs(v) == 0:
            ctx.oracle_fail("validate/last-hunk-of-open-band-unreported", f"after deleting {f}, the last index hunk of an interrupted version, "
                            f"b{harmed:04d} no longer restores exactly but validation reports nothing", small)
            continue
        if damage.errs(v) == 0:
            sig = {"hunk": "validate/hunk-unreported", "head": "validate/head-unreported", "block": "validate/block-unreported",
                   "tail": "validate/tail-unreported", "header": "validate/header-unreported"}.get(cls, "validate/unreported")
            ctx.oracle_fail(sig, f"after {kind} of {f} ({cls}) version b{harmed:04d} no longer restores exactly but full validation reports nothing", small)
            continue
        if kind == "delete" and damage.errs(vq) == 0:
            ctx.oracle_fail("validate/quick-missing-file-unreported", f"after deleting {f} ({cls}) version b{harmed:04d} no longer restores exactly "
                                                                      f"but quick validation reports nothing", small)
            continue
        ctx.nontrivial(cls + ":" + kind)
        ctx.dist("detected_" + cls + "_" + kind)
    damage.model_probe(ctx, "C09d", cases, info, res, every=2 if quick else 4)
    # the directed history of the known finding
    k = damage.open_band_last_hunk_case(ctx)
    ctx.count()
    if k is not None:
        steps, dmg, before, after, v, vq = k
        if before.get("result") == "ok" and scen.first_difference(scen.strip(before.get("tree")), scen.strip(after.get("tree"))) \
                and damage.errs(v) == 0:
            ctx.oracle_fail("validate/last-hunk-of-open-band-unreported", "an interrupted version (no BANDTAIL) that loses its LAST index hunk restores "
                            "older contents for the files of that hunk while full and quick validation report nothing", {"base_steps": steps, "damage": dmg})
    if cases:
        ctx.sample({"damaged_file": info[cases[0]["id"]][1], "kind": info[cases[0]["id"]][3]})
    ctx.assumptions += ["removal of a BANDTAIL is excluded: absence of the tail is the format's legal 'incomplete' state; so is its truncation to zero length (what a kill leaves; only a non-empty tail closes a band)",
                        "truncated / garbage payloads are modelled as undecodable; the rare decodable ones are classified by what restore does"]


def replay(ctx, rep):
    from . import c10
    return c10.replay(ctx, rep)
