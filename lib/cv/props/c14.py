"""C14 — Work already stored is never stored again."""
import json

from .. import gen, l4, scen


def block_writes(trace):
    return [it["path"] for it in trace if it["verb"] == "Write" and it["path"].startswith("d/") and (it.get("reply") or {}).get("ok")]


def addresses(arch, band):
    dec = scen.decode(arch)
    return {e["apath"]: e.get("addrs", []) for e in scen.band_entries(dec["bands"][band])} if band in dec["bands"] else None


def run(ctx):
    quick = ctx.tier == "quick"
    ctx.cov["rule"] = ("(a) (tree, options, other options): backing up an unchanged tree again writes no data block and records identical addresses; (a') the same when only recorded metadata differs (owner option toggled, chmod/chown with content, size and mtime untouched); "
                       "(b) random histories: no block file that is present (non-empty) is ever written again; (c) every crash point of an "
                       "interrupted backup, then a resumed backup: no block the interrupted run stored is rewritten, and entries it recorded for "
                       "unchanged files are reused (same addresses); + exact L4. non-trivial = distinct case with at least one non-empty file")
    # (a)
    cases = []
    for t in range(30 if quick else 1500):
        tree = scen.small_tree(ctx.rng, big=True)
        o1, o2 = scen.small_opts(ctx.rng), scen.small_opts(ctx.rng)
        cases.append({"id": f"u{t}", "tree": tree, "o": (o1, o2), "steps": [
            {"op": "init"}, {"op": "mktree", "path": "src", "tree": tree}, {"op": "walk"}, {"op": "backup", "opts": o1}, {"op": "arch"},
            {"op": "backup", "opts": o2}, {"op": "arch"}]})
    # (a') nothing but recorded metadata differs from the previous version -- the owner option toggled, or files chmod-ed /
    # chown-ed with content, size and mtime untouched -- after small files were stored over two versions: no data block is
    # written and every file keeps its addresses
    mcases = []
    for t in range(12 if quick else 300):
        ta = scen.small_tree(ctx.rng, big=True)
        tb = json.loads(json.dumps(ta))
        for k in range(ctx.rng.randrange(2, 5)):
            tb["c"][f"later{k}"] = {"k": "f", "data": gen.rand_bytes(ctx.rng, ctx.rng.choice([2, 5, 9])).hex(), "mode": 0o644, "mtime": 10**18 + 400 + k}
        tc = json.loads(json.dumps(tb))
        o1 = dict(scen.small_opts(ctx.rng), sfc=ctx.rng.choice([16, 1 << 20]), mbs=ctx.rng.choice([8, 64]))
        o3 = dict(o1)
        if t % 2 == 0:
            o3["owner"] = False                      # the two earlier versions recorded owners, this one does not
        else:
            files = [n_ for _p, n_ in gen.tree_paths(tc) if n_["k"] == "f"]
            for n_ in ctx.rng.sample(files, min(len(files), 2)):
                if ctx.rng.random() < 0.5:
                    n_["mode"] = (n_.get("mode", 0o644) ^ 0o111) & 0o7777
                else:
                    n_["uid"], n_["gid"] = ctx.rng.choice([(1, 1), (2, 3), (65534, 65534)])
        mcases.append({"id": f"md{t}", "steps": [
            {"op": "init"}, {"op": "mktree", "path": "src", "tree": ta}, {"op": "backup", "opts": o1},
            {"op": "mktree", "path": "src", "tree": tb}, {"op": "backup", "opts": o1}, {"op": "arch"},
            {"op": "mktree", "path": "src", "tree": tc}, {"op": "backup", "opts": o3}, {"op": "arch"}]})
    mres = ctx.cvh_run(mcases)
    for c in mcases:
        r = mres.get(c["id"])
        ctx.count()
        small = {"steps": c["steps"]}
        if r is None or any(r[k].get("result") != "ok" for k in (2, 4, 7)):
            ctx.oracle_fail("dedup/backup-failed", "backup failed: " + json.dumps(r and [r[k].get("err") or r[k].get("panic") for k in (2, 4, 7)])[:200], small)
            continue
        w = block_writes(r[7]["trace"])
        if w or r[7]["value"]["written_blocks"]:
            ctx.oracle_fail("dedup/unchanged-tree-writes-blocks", f"a backup in which only recorded metadata differs (owner option or chmod/chown, "
                                                                  f"content, size and mtime untouched) wrote {len(w)} data blocks ({w[:2]})", small)
            continue
        a1, a2 = addresses(r[5]["arch"], 1), addresses(r[8]["arch"], 2)
        if a1 != a2:
            diff = [p_ for p_ in a1 if a1.get(p_) != (a2 or {}).get(p_)][:3]
            ctx.oracle_fail("dedup/addresses-differ", f"a version in which only recorded metadata differs records other addresses for {diff}", small)
            continue
        ctx.dist("metadata_only_rebackups")
        ctx.nontrivial("metadata-only:" + c["id"])
    res = ctx.cvh_run(cases)
    hs = []
    for c in cases:
        r = res.get(c["id"])
        ctx.count()
        small = {"tree": c["tree"], "opts": c["o"]}
        if r is None or r[3].get("result") != "ok" or r[5].get("result") != "ok":
            ctx.oracle_fail("dedup/backup-failed", "backup failed: " + json.dumps(r and (r[3].get("err") or r[5].get("err") or r[5].get("panic")))[:200], small)
            continue
        w = block_writes(r[5]["trace"])
        if w or r[5]["value"]["written_blocks"]:
            ctx.oracle_fail("dedup/unchanged-tree-writes-blocks", f"backing up an unchanged tree wrote {len(w)} data blocks ({w[:2]})", small)
            continue
        a0, a1 = addresses(r[4]["arch"], 0), addresses(r[6]["arch"], 1)
        if a0 != a1:
            diff = [p for p in a0 if a0.get(p) != (a1 or {}).get(p)][:3]
            ctx.oracle_fail("dedup/addresses-differ", f"the second version of an unchanged tree records different addresses for {diff}", small)
            continue
        if any(n["k"] == "f" and n["data"] for _, n in gen.tree_paths(c["tree"])):
            ctx.nontrivial(json.dumps(small, sort_keys=True))
        names = l4.Names()
        scen.collect_names(names, c["steps"], r)
        h = l4.History(c["id"], names)
        for st, rs in zip(c["steps"], r):
            h.add(st, rs)
        hs.append(h)
    # (b) + (c)
    hcases = []
    for t in range(12 if quick else 300):
        steps, marks = scen.rand_history(ctx.rng, 7 if quick else 16, deletes=(t % 2 == 0))
        hcases.append({"id": f"h{t}", "steps": steps, "marks": marks})
    hres = ctx.cvh_run(hcases, timeout=3000)
    for c in hcases:
        r = hres.get(c["id"])
        ctx.count()
        if r is None:
            ctx.oracle_fail("dedup/harness-died", "harness died or hung", {"steps": c["steps"]})
            continue
        prev_arch = None
        prev_crashed_band = None
        ok = True
        for i, (st, mk, rs) in enumerate(zip(c["steps"], c["marks"], r)):
            if mk["kind"] == "backup" and prev_arch is not None:
                present = {p.split("/")[-1] for p, v in prev_arch["files"].items() if p.startswith("d/") and v.get("t") != "empty"}
                again = [p for p in block_writes(rs.get("trace", [])) if p.split("/")[-1] in present]
                if again:
                    ctx.oracle_fail("dedup/block-rewritten", f"a block that was already present was written again: {again[0][:30]}", {"steps": c["steps"][:i + 1]})
                    ok = False
                    break
                seen = set()
                for p in block_writes(rs.get("trace", [])):
                    if p in seen:
                        ctx.oracle_fail("dedup/block-written-twice", f"block {p[:30]} written twice in one backup", {"steps": c["steps"][:i + 1]})
                        ok = False
                    seen.add(p)
            if mk["kind"] == "arch":
                # resume clause: entries of an interrupted band are reused by the next backup for unchanged files
                if prev_crashed_band is not None and isinstance(r[i - 1], dict) and c["marks"][i - 1]["kind"] == "backup" and r[i - 1].get("result") == "ok":
                    dec = scen.decode(rs["arch"])
                    old = dec["bands"].get(prev_crashed_band[0])
                    new_id = max(dec["bands"])
                    if old is not None and new_id != prev_crashed_band[0] and c["marks"][i - 1]["tree"] == prev_crashed_band[1]:
                        olde = {e["apath"]: e for e in scen.band_entries(old)}
                        for e in scen.band_entries(dec["bands"][new_id]):
                            o = olde.get(e["apath"])
                            if o and e.get("kind") == "File" and o.get("addrs") != e.get("addrs"):
                                ctx.oracle_fail("dedup/resume-does-not-reuse", f"the resumed backup did not reuse the interrupted run's entry for {e['apath']}", {"steps": c["steps"][:i + 1]})
                                ok = False
                                break
                    prev_crashed_band = None
                if i > 0 and c["marks"][i - 1]["kind"] == "backup" and isinstance(r[i - 1], dict) and r[i - 1].get("crashed"):
                    ids = [int(d[1:]) for d in rs["arch"]["dirs"] if scen.BAND_RE.match(d)]
                    before_ids = [int(d[1:]) for d in (prev_arch or {"dirs": []})["dirs"] if scen.BAND_RE.match(d)]
                    if ids and max(ids) not in before_ids:       # (a backup killed before it created its band recorded nothing)
                        prev_crashed_band = (max(ids), c["marks"][i - 1]["tree"])
                prev_arch = rs["arch"]
            if not ok:
                break
        if ok:
            ctx.nontrivial(json.dumps([m["kind"] + str(m.get("plan") or "") for m in c["marks"] if m["kind"] == "backup"]))
            names = l4.Names()
            scen.collect_names(names, c["steps"], r)
            h = l4.History(c["id"], names)
            scen.add_model_history(h, c["steps"], c["marks"], r, names)
            hs.append(h)
    # (c') every crash point of an interrupted backup of an UNCHANGED tree whose root-level names
    # sort (as bytes) above deeper paths; the resumed backup must write no block at all and record
    # the first version's addresses
    trap = scen.order_trap_tree()
    o0 = {"meph": 3, "mbs": 64, "sfc": 1 << 20}
    tcases = []
    for k in range(9, 46 if quick else 70):
        for meph in ((2,) if quick else (1, 2, 3)):
            o1 = {"meph": meph, "mbs": 64, "sfc": 1 << 20}
            tcases.append({"id": f"t{k}_{meph}", "k": k, "steps": [
                {"op": "init"}, {"op": "mktree", "path": "src", "tree": trap}, {"op": "walk"}, {"op": "backup", "opts": o0}, {"op": "arch"},
                {"op": "backup", "opts": o1, "plan": {"crash": k}}, {"op": "arch"}, {"op": "backup", "opts": o1}, {"op": "arch"}]})
    tres = ctx.cvh_run(tcases)
    for c in tcases:
        r = tres.get(c["id"])
        ctx.count()
        small = {"steps": c["steps"]}
        if r is None or r[7].get("result") != "ok":
            ctx.oracle_fail("dedup/resumed-backup-failed", "the resumed backup failed: " + json.dumps(r and (r[7].get("err") or r[7].get("panic")))[:200], small)
            continue
        w = block_writes(r[7]["trace"])
        if w:
            ctx.oracle_fail("dedup/resume-rewrites-blocks", f"after a kill at operation {c['k']} the resumed backup of an unchanged tree wrote {len(w)} data block(s)", small)
            continue
        dec = scen.decode(r[8]["arch"])
        newest = max(dec["bands"])
        a0 = addresses(r[4]["arch"], 0)
        a1 = {e["apath"]: e.get("addrs", []) for e in scen.band_entries(dec["bands"][newest])}
        if a0 != a1:
            diff = [p for p in a0 if a0.get(p) != a1.get(p)][:3]
            ctx.oracle_fail("dedup/resume-does-not-reuse", f"after a kill at operation {c['k']} the resumed backup records different addresses for {diff}", small)
            continue
        ctx.nontrivial(c["id"])
        names = l4.Names()
        scen.collect_names(names, c["steps"], r)
        h = l4.History(c["id"], names)
        for i, (st, rs) in enumerate(zip(c["steps"], r)):
            if i == 5:
                if rs.get("crashed"):
                    h.add(st, rs, mode=1, crash=(c["k"], False))
                else:
                    h.add(st, rs)
            else:
                h.add(st, rs)
        hs.append(h)
    # (c'') small files whose combined blocks were built up over two versions ([a b] then [c]); a third backup of the
    # UNCHANGED tree is killed at every early point (before, at and after its head); the resumed backup must write no
    # block and record the second version's addresses (its basis is then reached through a band that cannot be opened)
    def sf(d, m):
        return {"k": "f", "data": d.hex(), "mode": 0o644, "mtime": 10**18 + m}
    v0 = {"k": "d", "mode": 0o755, "mtime": 10**18, "c": {"a": sf(b"aaaa", 1), "b": sf(b"bbbbbb", 2)}}
    v1 = {"k": "d", "mode": 0o755, "mtime": 10**18, "c": {"a": sf(b"aaaa", 1), "b": sf(b"bbbbbb", 2), "c": sf(b"ccc", 3)}}
    oc = {"meph": 100000, "mbs": 1000, "sfc": 16}
    icases = []
    for k in range(2, 16 if quick else 30):
        icases.append({"id": f"i{k}", "k": k, "steps": [
            {"op": "init"}, {"op": "mktree", "path": "src", "tree": v0}, {"op": "walk"}, {"op": "backup", "opts": oc},
            {"op": "mktree", "path": "src", "tree": v1}, {"op": "walk"}, {"op": "backup", "opts": oc}, {"op": "arch"},
            {"op": "backup", "opts": oc, "plan": {"crash": k}}, {"op": "arch"}, {"op": "backup", "opts": oc}, {"op": "arch"}]})
    ires = ctx.cvh_run(icases)
    for c in icases:
        r = ires.get(c["id"])
        ctx.count()
        small = {"steps": c["steps"]}
        if r is None or r[10].get("result") != "ok":
            ctx.oracle_fail("dedup/resumed-backup-failed", "the resumed backup failed: " + json.dumps(r and (r[10].get("err") or r[10].get("panic")))[:200], small)
            continue
        w = block_writes(r[10]["trace"])
        if w or r[10]["value"]["written_blocks"]:
            ctx.oracle_fail("dedup/resume-rewrites-blocks", f"after a kill at operation {c['k']} the next backup of an unchanged tree wrote {len(w)} data block(s)", small)
            continue
        dec = scen.decode(r[11]["arch"])
        a1 = addresses(r[7]["arch"], 1)
        an = {e["apath"]: e.get("addrs", []) for e in scen.band_entries(dec["bands"][max(dec["bands"])])}
        if a1 != an:
            diff = [p for p in a1 if a1.get(p) != an.get(p)][:3]
            ctx.oracle_fail("dedup/resume-does-not-reuse", f"after a kill at operation {c['k']} the next backup of an unchanged tree records different addresses for {diff}", small)
            continue
        ctx.nontrivial(c["id"])
        names = l4.Names()
        scen.collect_names(names, c["steps"], r)
        h = l4.History(c["id"], names)
        for i, (st, rs) in enumerate(zip(c["steps"], r)):
            if i == 8 and rs.get("crashed"):
                h.add(st, rs, mode=1, crash=(c["k"], False))
            else:
                h.add(st, rs)
        hs.append(h)
    # (d) the same LARGE block content twice in one run (two copies of a file of several MiB): written once, no error
    import random as _random
    blob = _random.Random(ctx.seed * 7919 + 14).randbytes(4 * 1024 * 1024 + 4096 * ctx.rng.randrange(1, 64)).hex()
    bigtree = {"k": "d", "mode": 0o755, "mtime": 10**18, "c": {
        "copy1": {"k": "f", "data": blob, "mode": 0o644, "mtime": 10**18 + 1},
        "sub": {"k": "d", "mode": 0o755, "mtime": 10**18, "c": {"copy2": {"k": "f", "data": blob, "mode": 0o600, "mtime": 10**18 + 2}}}}}
    bsteps = [{"op": "init"}, {"op": "mktree", "path": "src", "tree": bigtree}, {"op": "backup", "opts": {"meph": 100000, "mbs": 20 << 20, "sfc": 1 << 20}}]
    br = ctx.cvh_run([{"id": "bigdup", "steps": bsteps}]).get("bigdup")
    ctx.count()
    bsmall = {"steps": [bsteps[0], {"op": "mktree", "path": "src", "tree": "two copies of one file of about 4 MiB (copy1, sub/copy2)"}, bsteps[2]]}
    if br is None or br[2].get("result") != "ok":
        ctx.oracle_fail("dedup/backup-failed", "backup of two copies of a large file failed: " + json.dumps(br and (br[2].get("err") or br[2].get("panic")))[:200], bsmall)
    else:
        wr = [it["path"] for it in br[2]["trace"] if it["verb"] == "Write" and it["path"].startswith("d/")]
        if br[2]["value"]["errors"] or len(wr) != len(set(wr)) or br[2]["value"]["written_blocks"] != 1:
            ctx.oracle_fail("dedup/large-block-written-twice", f"two copies of one large file in one backup: {len(wr)} block writes issued for {len(set(wr))} distinct "
                            f"block(s), {br[2]['value']['errors']} error(s), written_blocks={br[2]['value']['written_blocks']}", bsmall)
        else:
            ctx.nontrivial("bigdup")
            ctx.dist("large_duplicate_block")
    out = l4.evaluate(ctx, "C14", hs, shards=8 if quick else 16)
    agreed = total = 0
    allc = {c["id"]: c for c in cases + hcases + tcases + icases}
    for h in hs:
        for desc, code in (out.get(h.cid) or []):
            total += 1
            if code == 0:
                agreed += 1
            else:
                ctx.corr_fail("L4", f"case {h.cid}: model and implementation differ at {desc}: code {code}", {"steps": allc[h.cid]["steps"]})
                break
    ctx.layer("L4", agreed, total)
    if cases:
        ctx.sample({"options_pair": cases[0]["o"], "tree_paths": [p for p, _ in gen.tree_paths(cases[0]["tree"])][:10]})
    ctx.assumptions += ["'unchanged' means same kind, size and mtime (the tool's own heuristic), as the property states"]


def replay(ctx, rep):
    from . import c02
    r = rep.get("replay", rep)
    if "steps" in r:
        return c02.replay(ctx, rep)
    ctx.build()
    steps = [{"op": "init"}, {"op": "mktree", "path": "src", "tree": r["tree"]}, {"op": "backup", "opts": r["opts"][0]}, {"op": "backup", "opts": r["opts"][1]}]
    out = ctx.cvh_run([{"id": "r", "steps": steps}])["r"]
    print("second backup wrote:", block_writes(out[3]["trace"]), out[3].get("value"))
    return 0
