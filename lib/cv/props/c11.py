"""C11 — Paths have one total order, shared by the source walk and every index."""
import itertools
import json

from .. import common, gen
from ..common import gallina_str, gallina_list

HEADER = "From CV Require Import Base.Str Apath Corr.Run.\nLocal Open Scope N_scope.\n"


def pack(codes):
    codes = list(codes) + [0] * ((-len(codes)) % 16)
    out, acc, cnt = [], 0, 0
    for x in codes:
        acc = acc * 8 + x
        if cnt == 15:
            out.append(acc)
            acc, cnt = 0, 0
        else:
            cnt += 1
    if cnt:
        out.append(acc)
    return out


def sub_alphabet(ctx, k_valid, k_invalid):
    """Rotate through the component alphabet by seed; always keep a multi-byte
    name and a pair of names extending one another."""
    names = list(gen.NAMES)
    must = ["ñ", "ñx"] if ctx.seed % 2 else ["a", "ab", "añ"][:2] + ["añ"]
    rest = [n for n in names if n not in must]
    ctx.rng.shuffle(rest)
    valid = (must + rest)[:k_valid]
    inv = list(gen.INVALID)
    ctx.rng.shuffle(inv)
    return valid + inv[:k_invalid]


def enum_paths(alphabet, depth):
    paths = []
    for d in range(depth + 1):
        for ixs in itertools.product(range(len(alphabet)), repeat=d):
            paths.append(list(ixs))
    return paths


def path_str(alphabet, ixs):
    return "/" + "/".join(alphabet[i] for i in ixs)


def matrix_correspondence(ctx, alphabet, depth, shards, mode="cmp"):
    """Implementation vs model on ALL ordered pairs over the alphabet to the depth."""
    ixpaths = enum_paths(alphabet, depth)
    paths = [path_str(alphabet, ix) for ix in ixpaths]
    n = len(paths)
    res = ctx.cvh_eval([{"fn": "matrix", "paths": paths}])[0]
    codes, valid = res["codes"], res["valid"]
    assert len(codes) == n * n
    mcodes = codes if mode == "prefix" else [c // 2 * 2 for c in codes]
    mfun = "matrix" if mode == "prefix" else "matrix_cmp"
    ctx.count(n * n + n)
    ctx.dist("matrix_paths", n)
    ctx.dist("matrix_pairs", n * n)
    # --- model side, sharded by rows
    tab = gallina_list([gallina_str(c) for c in alphabet])
    allp = gallina_list([gallina_list([str(i) for i in ix]) for ix in ixpaths])
    rows_per = (n + shards - 1) // shards
    import concurrent.futures
    jobs = []
    for s in range(shards):
        lo, hi = s * rows_per, min(n, (s + 1) * rows_per)
        if lo >= hi:
            continue
        packed = pack(mcodes[lo * n:hi * n])
        body = HEADER + f"""
Definition tab : list str := {tab}.
Definition ixs : list (list N) := {allp}.
Definition paths : list str := map (mk_path tab) ixs.
Definition rows : list str := firstn {hi - lo} (slice_from {lo} paths).
Definition impl : list N := {gallina_list([str(x) for x in packed])}.
Eval vm_compute in first_diff ({mfun} rows paths) (unpack impl {(hi - lo) * n}) 0.
"""
        if s == 0:
            body += f"Definition implv : list N := {gallina_list([str(x) for x in valid])}.\nEval vm_compute in first_diff (valid_codes paths) implv 0.\n"
        jobs.append((s, lo, hi, body))
    agreed = 0
    with concurrent.futures.ThreadPoolExecutor(max_workers=16) as ex:
        futs = {ex.submit(common.coq_eval, f"{ctx.prop}_mat_{s}", body, 1800): (s, lo, hi) for s, lo, hi, body in jobs}
        for fut in concurrent.futures.as_completed(futs):
            s, lo, hi = futs[fut]
            ok, out = fut.result()
            blocks = common.parse_eval_blocks(out)
            if not ok or not blocks:
                ctx.corr_fail("L1", f"model evaluation failed (shard {s}): {out[-400:]}", {"alphabet": alphabet, "depth": depth})
                continue
            if blocks[0].strip().startswith("None"):
                agreed += (hi - lo) * n
            else:
                nums = common.parse_nums(blocks[0])
                k = lo * n + nums[0]
                a, b = paths[k // n], paths[k % n]
                ctx.corr_fail("L1", f"apath matrix ({mode}): model and implementation differ on ({a!r}, {b!r}): "
                                    f"model code {nums[1]}, implementation code {nums[2]} (cmp*2+prefix; cmp 0=Lt 1=Eq 2=Gt)",
                              {"fn": "cmp", "a": a, "b": b, "model": nums[1], "impl": nums[2]})
            if s == 0 and len(blocks) > 1 and not blocks[1].strip().startswith("None"):
                k = common.parse_nums(blocks[1])[0]
                ctx.corr_fail("L1", f"is_valid: model and implementation differ on {paths[k]!r}", {"path": paths[k]})
    ctx.layer("L1-matrix", agreed, n * n)
    return paths, codes, valid


def direct_order_oracle(ctx, paths, codes, valid, prefix_prop=False, sample=None):
    """The documented rule coded independently, antisymmetry, eq-iff, and (for C12)
    component-wise ancestry, evaluated on the implementation's answers only."""
    n = len(paths)
    idx = range(n * n) if sample is None or sample >= n * n else sorted(ctx.rng.sample(range(n * n), sample))
    for k in idx:
        i, j = divmod(k, n)
        a, b = paths[i], paths[j]
        c, p = divmod(codes[k], 2)
        if not prefix_prop:
            exp = gen.apath_cmp(a, b)
            if c != exp:
                ctx.oracle_fail("order/documented-rule", f"cmp({a!r},{b!r}) = {c} but the documented order gives {exp} (0=Lt 1=Eq 2=Gt)",
                                {"fn": "cmp", "a": a, "b": b, "impl": c, "expected": exp})
                return
            if (c == 1) != (a == b):
                ctx.oracle_fail("order/eq-iff", f"cmp({a!r},{b!r}) = Eq iff equal violated", {"fn": "cmp", "a": a, "b": b, "impl": c})
                return
            if codes[j * n + i] // 2 != 2 - c:
                ctx.oracle_fail("order/antisym", f"cmp({a!r},{b!r}) and cmp(b,a) are not opposite", {"fn": "cmp", "a": a, "b": b})
                return
        else:
            if valid[i] and valid[j]:
                exp = 1 if gen.comp_prefix(a, b) else 0
                if p != exp:
                    ctx.oracle_fail("prefix/component-ancestry",
                                    f"{a!r}.is_prefix_of({b!r}) = {p} but component-wise ancestry is {exp}",
                                    {"fn": "prefix", "a": a, "b": b, "impl": p, "expected": exp})
                    return
    if not prefix_prop:
        for i, pth in enumerate(paths):
            if valid[i] != (1 if gen.is_valid_apath(pth) else 0):
                ctx.oracle_fail("valid/accepts-exactly", f"is_valid({pth!r}) = {valid[i]}", {"fn": "valid", "a": pth, "impl": valid[i]})
                return
        # transitivity on sampled triples
        for _ in range(min(20000, n * n)):
            i, j, k = (ctx.rng.randrange(n) for _ in range(3))
            if codes[i * n + j] // 2 == 0 and codes[j * n + k] // 2 == 0 and codes[i * n + k] // 2 != 0:
                ctx.oracle_fail("order/trans", f"{paths[i]!r} < {paths[j]!r} < {paths[k]!r} but not {paths[i]!r} < {paths[k]!r}",
                                {"fn": "cmp3", "a": paths[i], "b": paths[j], "c": paths[k]})
                return


def random_path(rng, maxdepth=8, invalid=False):
    d = rng.randrange(0, maxdepth + 1)
    comps = []
    for _ in range(d):
        r = rng.random()
        if r < 0.6:
            comps.append(rng.choice(gen.NAMES))
        elif invalid and r < 0.7:
            comps.append(rng.choice(gen.INVALID))
        else:
            comps.append("".join(rng.choice("ab./- ~ñ日\x01z") for _ in range(rng.randrange(1, 6))).replace("/", "_") or "q")
    s = "/" + "/".join(comps)
    if invalid:
        r = rng.random()
        if r < 0.1:
            s = s[1:]
        elif r < 0.2:
            s = s + "/"
        elif r < 0.25:
            s = ""
    return s


def random_pairs_correspondence(ctx, npairs, invalid_frac=0.2, mode="cmp"):
    pairs = []
    for _ in range(npairs):
        inv = ctx.rng.random() < invalid_frac
        a = random_path(ctx.rng, invalid=inv)
        if ctx.rng.random() < 0.3:
            # related paths: extend or truncate
            b = a.rstrip("/") + ctx.rng.choice(["/x", "x", "/ñ", "", "/a/b"]) if ctx.rng.random() < 0.7 else a[:max(1, len(a) // 2)]
        else:
            b = random_path(ctx.rng, invalid=inv)
        try:
            a.encode("utf8"), b.encode("utf8")
        except UnicodeError:
            continue
        pairs.append((a, b))
    queries = []
    for a, b in pairs:
        queries.append({"fn": "cmp", "a": a, "b": b})
        queries.append({"fn": "prefix", "a": a, "b": b})
        queries.append({"fn": "valid", "a": a})
    res = ctx.cvh_eval(queries)
    impl = []
    for k in range(len(pairs)):
        impl.append(res[3 * k] * 4 + (res[3 * k + 1] * 2 if mode == "prefix" else 0) + res[3 * k + 2])
    ctx.count(len(pairs))
    ctx.dist("random_pairs", len(pairs))
    ctx.dist("random_pairs_with_invalid_paths", sum(1 for a, b in pairs if not gen.is_valid_apath(a) or not gen.is_valid_apath(b)))
    body = HEADER + "Definition pairs : list (str * str) := " + gallina_list(
        ["(" + gallina_str(a) + "," + gallina_str(b) + ")" for a, b in pairs]) + ".\n"
    body += "Definition impl : list N := " + gallina_list([str(x) for x in impl]) + ".\n"
    body += ("Eval vm_compute in first_diff (map (fun p => cmp_code (apath_cmp (fst p) (snd p)) * 4 + "
             + ("bool_code (is_prefix_of (fst p) (snd p)) * 2 + " if mode == "prefix" else "")
             + "bool_code (is_valid (fst p))) pairs) impl 0.\n")
    ok, out = common.coq_eval(f"{ctx.prop}_rand", body, 1800)
    blocks = common.parse_eval_blocks(out)
    if not ok or not blocks:
        ctx.corr_fail("L1", "model evaluation failed (random pairs): " + out[-400:], {})
    elif not blocks[0].strip().startswith("None"):
        k = common.parse_nums(blocks[0])[0]
        ctx.corr_fail("L1", f"random pair {pairs[k]!r}: model and implementation differ (cmp*4+prefix*2+valid): {blocks[0]}",
                      {"pair": pairs[k]})
        ctx.layer("L1-random", k, len(pairs))
    else:
        ctx.layer("L1-random", len(pairs), len(pairs))
    return pairs, impl


def strictly_increasing(paths):
    for x, y in zip(paths, paths[1:]):
        if gen.apath_cmp(x, y) != 0:
            return (x, y)
    return None


def walk_and_index_order(ctx, ntrees):
    """Source walk, listing and decoded hunks are strictly increasing and complete."""
    cases = []
    for t in range(ntrees):
        tree = gen.rand_tree(ctx.rng, depth=ctx.rng.choice([2, 3, 3, 4]), fanout=4, neg_frac=False)
        if len(cases) % 3 == 0:
            # sibling directories D and D<c>... with c below '/': path order (D's whole subtree first? no: direct children
            # of the parent first, then each subtree) and string order of the pending directory paths disagree
            def f_(d):
                return {"k": "f", "data": d.hex(), "mode": 0o644, "mtime": 10**18}

            def d_(c):
                return {"k": "d", "mode": 0o755, "mtime": 10**18, "c": c}
            base = ctx.rng.choice(["proj", "docs", "a", "ñ"])
            host = tree
            subs = [v for v in tree["c"].values() if v["k"] == "d"]
            if subs and ctx.rng.random() < 0.5:
                host = ctx.rng.choice(subs)
            host["c"][base] = d_({"src": d_({"main": f_(b"m"), "deep": d_({"x": f_(b"x")})}), "top": f_(b"t")})
            for suf in ctx.rng.sample([".git", "-new", " 2", "(1)", ",v", "+"], 2):
                host["c"][base + suf] = d_({"HEAD": f_(b"h"), "sub": d_({"y": f_(b"y")})})
        opts = gen.rand_opts(ctx.rng)
        cases.append({"id": f"w{t}", "tree": tree, "opts": opts, "steps": [
            {"op": "init"}, {"op": "mktree", "path": "src", "tree": tree},
            {"op": "walk"}, {"op": "backup", "opts": opts}, {"op": "list", "band": 0}, {"op": "arch"}]})
    res = ctx.cvh_run(cases)
    for c in cases:
        r = res.get(c["id"])
        ctx.count()
        if r is None:
            ctx.oracle_fail("walk/harness-died", "harness died or hung on a walk/backup case", c)
            continue
        walk, bk, lst, arch = r[2], r[3], r[4], r[5]
        expect = sorted((p for p, _ in gen.tree_paths(c["tree"])), key=gen.apath_key)
        if walk.get("result") != "ok":
            ctx.oracle_fail("walk/failed", f"source walk failed or panicked: {json.dumps(walk)[:300]}", c)
            continue
        wp = [e["apath"] for e in walk["value"]]
        bad = strictly_increasing(wp)
        if bad:
            ctx.oracle_fail("walk/order", f"source walk not strictly increasing at {bad}", c)
            continue
        if wp != expect:
            ctx.oracle_fail("walk/complete", f"source walk yields {wp[:8]}.. expected {expect[:8]}..", c)
            continue
        if bk.get("result") != "ok" or bk.get("panic"):
            ctx.oracle_fail("index/backup-failed", f"backup failed: {json.dumps({k: bk.get(k) for k in ('result', 'err', 'panic')})[:300]}", c)
            continue
        if lst.get("result") == "ok":
            lp = [e["apath"] for e in lst["value"]]
            bad = strictly_increasing(lp)
            if bad:
                ctx.oracle_fail("listing/order", f"listing not strictly increasing at {bad}", c)
                continue
            if lp != expect:
                ctx.oracle_fail("listing/complete", f"listing {lp[:8]}.. differs from the tree's paths {expect[:8]}..", c)
                continue
        hunks = sorted((k, v) for k, v in arch["arch"]["files"].items() if v.get("t") == "hunk")
        flat = [e["apath"] for _, h in hunks for e in h["v"]]
        bad = strictly_increasing(flat)
        if bad:
            ctx.oracle_fail("hunks/order", f"written index not strictly increasing within/across hunks at {bad}", c)
            continue
        if len(hunks) > 1:
            ctx.nontrivial("tree-multi-hunk:" + json.dumps(wp))
        ctx.dist("trees", 1)
        ctx.dist("tree_entries", len(wp))
    ctx.sample({"tree_paths": expect[:12], "opts": cases[-1]["opts"]} if cases else {})


def stitched_listing_order(ctx, n):
    """The listing of an interrupted version, stitched from an older version one of whose index hunks is unreadable, is still
    strictly increasing (the two versions cut their hunks at different entries, so the resume point falls inside a hunk)."""
    cases = []
    for t in range(n):
        if t % 2 == 0:
            t0 = {"k": "d", "mode": 0o755, "mtime": 10**18, "c": {
                "f%02d" % k: {"k": "f", "data": "%02x" % k, "mode": 0o644, "mtime": 10**18 + k} for k in range(ctx.rng.choice([9, 12, 14]))}}
        else:
            t0 = gen.rand_tree(ctx.rng, depth=3, fanout=4, neg_frac=False)
        t1 = json.loads(json.dumps(t0))
        for _p, nd in gen.tree_paths(t1):
            if nd["k"] == "f":
                nd["mtime"] = nd.get("mtime", 0) + 1000          # every file is written again
        m0, m1 = ctx.rng.choice([(4, 6), (3, 5), (2, 3), (5, 2), (3, 4)])
        hunk = ctx.rng.choice([0, 0, 1])
        kind = ctx.rng.choice(["trunc0", "garbage", "trunchalf"])
        crash = ctx.rng.randrange(8, 40)
        dirs = [p_ for p_, n_ in gen.tree_paths(t0) if n_["k"] == "d" and p_ != "/"]
        sub = ctx.rng.choice(dirs) if dirs else "/f03"
        excl = [ctx.rng.choice(["*1", "*[02468]", "f0?", "a*", "*.b", "?"])]
        if t % 4 >= 2:
            kind = "none"                      # no damage: filtered listings of a plain interrupted version
        steps = [{"op": "init"}, {"op": "mktree", "path": "src", "tree": t0}, {"op": "backup", "opts": {"meph": m0, "mbs": 64, "sfc": 4}},
                 {"op": "mktree", "path": "src", "tree": t1}, {"op": "backup", "opts": {"meph": m1, "mbs": 64, "sfc": 4}, "plan": {"crash": crash}},
                 {"op": "damage", "file": "b0000/i/00000/%09d" % hunk, "kind": kind},
                 {"op": "list", "band": 1}, {"op": "list", "band": 1, "subtree": sub}, {"op": "list", "band": 1, "excludes": excl},
                 {"op": "versions"}]
        cases.append({"id": f"s{t}", "steps": steps, "hunk": hunk, "kind": kind})
    res = ctx.cvh_run(cases)
    for c in cases:
        r = res.get(c["id"])
        ctx.count()
        if r is None:
            ctx.oracle_fail("listing/harness-died", "harness died or hung on a stitched-listing case", {"steps": c["steps"]})
            continue
        lst = r[6]
        pan = [x["panic"] for x in r[6:9] if isinstance(x, dict) and x.get("panic")]
        if pan:
            ctx.oracle_fail("listing/panic", f"listing panicked: {pan[0][:200]}", {"steps": c["steps"]})
            continue
        if lst.get("result") != "ok":
            continue        # the interrupted backup died before it had a version to list
        lp = [e["apath"] for e in lst["value"]]
        bad = None
        for what, one in (("whole", lst), ("under " + repr(c["steps"][7].get("subtree")), r[7]), ("with exclusions " + repr(c["steps"][8].get("excludes")), r[8])):
            if one.get("result") == "ok":
                b2 = strictly_increasing([e["apath"] for e in one["value"]])
                if b2:
                    bad = (what, b2)
                    break
        if bad:
            ctx.oracle_fail("listing/stitched-order", f"the listing ({bad[0]}) of the interrupted version is not strictly increasing at {bad[1]} "
                                                     f"(older hunk {c['hunk']}: {c['kind']})", {"steps": c["steps"]})
            continue
        ctx.dist("stitched_listings_with_unreadable_older_hunk", 1)
        if len(lp) > 3:
            ctx.nontrivial("stitched:" + json.dumps([c["hunk"], c["kind"], lp[:6]]))


def changing_source_order(ctx, n):
    """A small file is emptied between the walk's stat and the backup's read while earlier small files are still waiting in
    the combiner: it is recorded at once, they later; the written hunks and every listing must still be in path order."""
    cases = []
    for t in range(n):
        names_ = ["app.log", "app.log.1", "b", "c.txt", "notes", "zz"][: ctx.rng.choice([4, 5, 6])]
        tree = {"k": "d", "mode": 0o755, "mtime": 10**18, "c": {
            nm: {"k": "f", "data": gen.rand_bytes(ctx.rng, ctx.rng.choice([6, 10, 24])).hex(), "mode": 0o644, "mtime": 10**18 + i}
            for i, nm in enumerate(names_)}}
        srt = sorted(names_, key=lambda x: gen.apath_key("/" + x))
        vi = ctx.rng.randrange(1, len(srt))
        victim, after = srt[vi], "/" + srt[ctx.rng.randrange(0, vi)]
        if t % 2 == 0:
            after = "/" + srt[vi - 1]
        opts = {"meph": ctx.rng.choice([100000, 100000, 3]), "mbs": 1000, "sfc": 1000, "mutate": [{"after": after, "path": victim, "len": 0}]}
        cases.append({"id": f"cs{t}", "steps": [{"op": "init"}, {"op": "mktree", "path": "src", "tree": tree}, {"op": "backup", "opts": opts},
                                                  {"op": "list", "band": 0}, {"op": "arch"}]})
    res = ctx.cvh_run(cases)
    for c in cases:
        r = res.get(c["id"])
        ctx.count()
        if r is None or any(isinstance(x, dict) and x.get("panic") for x in r):
            pan = [x.get("panic") for x in (r or []) if isinstance(x, dict) and x.get("panic")]
            ctx.oracle_fail("index/backup-failed", f"backup of a changing source crashed or hung: {str(pan)[:200]}", {"steps": c["steps"]})
            continue
        lst, arch = r[3], r[4]
        if lst.get("result") == "ok":
            bad = strictly_increasing([e["apath"] for e in lst["value"]])
            if bad:
                ctx.oracle_fail("listing/order", f"listing not strictly increasing at {bad} (a file emptied while the backup ran)", {"steps": c["steps"]})
                continue
        hunks = sorted((k, v) for k, v in arch["arch"]["files"].items() if v.get("t") == "hunk")
        bad = strictly_increasing([e["apath"] for _, h in hunks for e in h["v"]])
        if bad:
            ctx.oracle_fail("hunks/order", f"written index not strictly increasing within/across hunks at {bad} (a file emptied while the backup ran)",
                            {"steps": c["steps"]})
            continue
        ctx.dist("changing_source_backups", 1)
        ctx.nontrivial("changing-source:" + c["id"])


def undecodable_names(ctx, n):
    """Directory entries whose names are not UTF-8 (they cannot be named by an archive path): whatever the walk does with them,
    it emits strictly increasing paths, and so do the written index and the listing."""
    cases = []
    for t in range(n):
        stems = ctx.rng.sample([b"caf", b"na", b"r\xc3\xa9sum", b"x"], 2)
        raw = []
        for st in stems:
            for tail in ctx.rng.sample([b"\xe9", b"\xe8", b"\xff", b"\xc3", b"\xe9s", b"\x80x"], 3):
                raw.append((st + tail).hex())
        tree = {"k": "d", "mode": 0o755, "mtime": 10**18, "c": {
            "menu": {"k": "d", "mode": 0o755, "mtime": 10**18, "c": {"plain": {"k": "f", "data": "70", "mode": 0o644, "mtime": 10**18 + 1}}},
            "z": {"k": "f", "data": "7a", "mode": 0o644, "mtime": 10**18 + 2}}}
        cases.append({"id": f"un{t}", "steps": [{"op": "init"}, {"op": "mktree", "path": "src", "tree": tree},
                                                 {"op": "mkraw", "dir": "src/menu", "names_hex": raw}, {"op": "mkraw", "dir": "src", "names_hex": raw[:2]},
                                                 {"op": "walk"}, {"op": "backup", "opts": {"meph": ctx.rng.choice([2, 100000])}}, {"op": "list", "band": 0}]})
    res = ctx.cvh_run(cases)
    for c in cases:
        r = res.get(c["id"])
        ctx.count()
        small = {"steps": c["steps"]}
        if r is None:
            ctx.oracle_fail("walk/harness-died", "harness died or hung on a tree with undecodable names", small)
            continue
        pan = [x.get("panic") for x in r if isinstance(x, dict) and x.get("panic")]
        if pan:
            ctx.oracle_fail("walk/failed", f"walk or backup of a tree with names that are not UTF-8 crashed: {pan[0][:200]}", small)
            continue
        bad = None
        for what, one in (("source walk", r[4]), ("listing", r[6])):
            if one.get("result") == "ok":
                b2 = strictly_increasing([e["apath"] for e in one["value"]])
                if b2:
                    bad = (what, b2)
                    break
        if bad:
            ctx.oracle_fail("walk/order" if bad[0] == "source walk" else "listing/order",
                            f"{bad[0]} of a tree with names that are not UTF-8 is not strictly increasing at {bad[1]}", small)
            continue
        ctx.dist("trees_with_undecodable_names")
        ctx.nontrivial("undecodable:" + c["id"])


def run(ctx):
    quick = ctx.tier == "quick"
    alphabet = sub_alphabet(ctx, 4 if quick else 5, 2)
    depth = 3 if quick else 4
    ctx.cov["rule"] = ("exhaustive: all ordered pairs of paths over a rotating component sub-alphabet (incl. '', '.', '..', NUL) "
                       "to the given depth, model vs implementation (cmp, is_prefix_of, is_valid) + independent documented-rule oracle; "
                       "random long/invalid paths; generated trees: walk, listing and decoded hunks strictly increasing and complete; listings of interrupted versions stitched from an older version with an unreadable hunk strictly increasing. "
                       "non-trivial = distinct path pair with a != b (matrix) or tree producing more than one hunk")
    paths, codes, valid = matrix_correspondence(ctx, alphabet, depth, 4 if quick else 16)
    direct_order_oracle(ctx, paths, codes, valid, sample=None if quick else 1_500_000)
    for i in range(0, len(paths), max(1, len(paths) // 300)):
        ctx.nontrivial("pair:" + paths[i] + "|" + paths[(i * 7 + 3) % len(paths)])
    ctx.sample({"alphabet": alphabet, "depth": depth, "paths": len(paths), "example_pairs": [[paths[5], paths[-7]], [paths[17 % len(paths)], paths[3]]]})
    pairs, impl = random_pairs_correspondence(ctx, 3000 if quick else 100000)
    for (a, b), code in zip(pairs, impl):
        if gen.apath_cmp(a, b) != code // 4:
            ctx.oracle_fail("order/documented-rule", f"cmp({a!r},{b!r}) = {code // 4}, documented order gives {gen.apath_cmp(a, b)}",
                            {"fn": "cmp", "a": a, "b": b})
            break
        if (code & 1) != (1 if gen.is_valid_apath(a) else 0):
            ctx.oracle_fail("valid/accepts-exactly", f"is_valid({a!r}) = {code & 1}", {"fn": "valid", "a": a})
            break
    ctx.sample({"random_pair": list(pairs[0])})
    walk_and_index_order(ctx, 40 if quick else 600)
    stitched_listing_order(ctx, 40 if quick else 600)
    changing_source_order(ctx, 12 if quick else 200)
    undecodable_names(ctx, 4 if quick else 40)
    ctx.assumptions += ["strings are compared as UTF-8 byte sequences (Rust str::cmp)",
                        "walk/listing/hunk order is checked on generated trees; the walk theorem is in TreeP.v"]


def replay(ctx, rep):
    r = rep.get("replay", rep)
    ctx.build()
    if "fn" in r:
        q = [{"fn": "cmp", "a": r.get("a", "/"), "b": r.get("b", "/")}, {"fn": "prefix", "a": r.get("a", "/"), "b": r.get("b", "/")},
             {"fn": "valid", "a": r.get("a", "/")}]
        print("implementation:", ctx.cvh_eval(q))
        print("documented rule:", gen.apath_cmp(r.get("a", "/"), r.get("b", "/")))
    else:
        print(json.dumps(r)[:2000])
    return 0
