"""C03 — A backup killed at any point leaves a consistent, usable archive."""
import json

from .. import gen, l4, scen


def make_scenarios(ctx, n):
    out = []
    for i in range(n):
        t0 = scen.small_tree(ctx.rng)
        prior = ["one+headless", "one", "two", "one+interrupted", "none", "one+emptyhead"][i % 6] if i < 6 else \
            ctx.rng.choice(["none", "one", "one", "two", "one+interrupted", "one+headless", "one+emptyhead"])
        t1, _ = gen.mutate_tree(ctx.rng, t0)
        t2, _ = gen.mutate_tree(ctx.rng, t1)
        o = [scen.small_opts(ctx.rng) for _ in range(4)]
        if i == 1:
            # path order vs byte order: unchanged tree with root-level names above deeper paths, small hunks
            t0 = t1 = t2 = scen.order_trap_tree()
            prior = "one"
            o = [dict(x, meph=m) for x, m in zip(o, (3, 2, 2, 2))]
        subtree = None
        if i == 2:
            # files deleted from a directory that the interrupted backup has already passed: a subtree listing of the
            # interrupted version must not bring them back
            def f(d, m):
                return {"k": "f", "data": d.hex(), "mode": 0o644, "mtime": 10**18 + m}

            def d(c):
                return {"k": "d", "mode": 0o755, "mtime": 10**18, "c": c}
            t0 = d({"sub": d({"a": f(b"a0", 1), "b": f(b"b0", 2), "old1": f(b"o1", 3), "old2": f(b"o2", 4)}), "tmp2": d({"x": f(b"x0", 5), "y": f(b"y0", 6)})})
            t1 = t2 = d({"sub": d({"a": f(b"a1!", 11), "b": f(b"b0", 2)}), "tmp2": d({"x": f(b"x1!", 15), "y": f(b"y0", 6)})})
            prior = "one"
            o = [dict(x, meph=1) for x in o]
            subtree = "/sub"
        if i == 3:
            # a directory with a nested directory is replaced by a symlink to ANOTHER directory of the tree: restoring the
            # interrupted version must not put the old contents anywhere
            def f3(d, m):
                return {"k": "f", "data": d.hex(), "mode": 0o644, "mtime": 10**18 + m}

            def d3(c):
                return {"k": "d", "mode": 0o755, "mtime": 10**18, "c": c}
            t0 = d3({"d": d3({"g": f3(b"g0", 1), "sub": d3({"f": f3(b"f0", 2)})}), "e": d3({}), "z": f3(b"z0", 3)})
            t1 = t2 = d3({"d": {"k": "l", "target": "e", "mtime": 10**18 + 9}, "e": d3({}), "z": f3(b"z1!", 13)})
            prior = "one"
            o = [dict(x, meph=1) for x in o]
            subtree = "/e"
        if i == 6:
            # a directory holding a nested directory disappears from the source: the interrupted version's listing can
            # continue with the nested directory and its file from the previous version while the directory's own entry
            # (sorting early, among its siblings) is in neither part
            def f6(d, m):
                return {"k": "f", "data": d.hex(), "mode": 0o644, "mtime": 10**18 + m}

            def d6(c):
                return {"k": "d", "mode": 0o755, "mtime": 10**18, "c": c}
            t0 = d6({"a": f6(b"a0", 1), "m": d6({"n": d6({"f": f6(b"f0", 2)})}), "z": f6(b"z0", 3)})
            t1 = t2 = d6({"a": f6(b"a1!", 11), "z": f6(b"z1!", 13)})
            prior = "one"
            o = [dict(x, meph=2) for x in o]
            subtree = "/m/n"
        if i == 7:
            # the previous backup was itself killed, while writing its LAST index hunk (the file is there, empty), after
            # recording more paths than the backup under test will: the listing continues in it, then in the one before
            def f7(d, m):
                return {"k": "f", "data": d.hex(), "mode": 0o644, "mtime": 10**18 + m}
            t0 = {"k": "d", "mode": 0o755, "mtime": 10**18, "c": {"f%02d" % k: f7(b"v0-%d" % k, k) for k in range(9)}}
            t1 = {"k": "d", "mode": 0o755, "mtime": 10**18, "c": {"f%02d" % k: f7(b"v1-%d!" % k, 100 + k) for k in range(9)}}
            t2 = {"k": "d", "mode": 0o755, "mtime": 10**18, "c": {"f%02d" % k: f7(b"v2-%d!!" % k, 200 + k) for k in range(9)}}
            o = [dict(x, meph=3, sfc=0) for x in o]
            probe = ctx.cvh_run([{"id": "p", "steps": [{"op": "init"}, {"op": "mktree", "path": "src", "tree": t0}, {"op": "backup", "opts": o[0]},
                                                       {"op": "mktree", "path": "src", "tree": t1}, {"op": "backup", "opts": o[1]}]}]).get("p")
            kk = None
            if probe and probe[4].get("trace"):
                tr_ = l4.canon_trace(probe[4]["trace"])
                hunks_ = [n_ for n_, it in enumerate(tr_) if it["verb"] == "Write" and "/i/" in it["path"]]
                if len(hunks_) >= 3:
                    kk = hunks_[-1]
            prior = "one+emptyhunk" if kk is not None else "one"
            subtree = "/f05"
        if subtree is None:
            dirs = sorted({p for t in (t0, t2) for p, n in gen.tree_paths(t) if n["k"] == "d" and p != "/"})
            subtree = ctx.rng.choice(dirs) if dirs else "/"
        out.append({"id": f"K{i}", "prior": prior, "t0": t0, "t1": t1, "t2": t2, "o": o, "subtree": subtree, "kk": kk if i == 7 else None})
    return out


def base_steps(sc):
    steps = [{"op": "init"}]
    if sc["prior"] != "none":
        steps += [{"op": "mktree", "path": "src", "tree": sc["t0"]}, {"op": "walk"}, {"op": "backup", "opts": sc["o"][0]}]
    if sc["prior"] == "two":
        steps += [{"op": "mktree", "path": "src", "tree": sc["t1"]}, {"op": "walk"}, {"op": "backup", "opts": sc["o"][1]}]
    if sc["prior"] == "one+headless":
        # a backup killed after creating its directory, before writing its head
        steps += [{"op": "mktree", "path": "src", "tree": sc["t1"]}, {"op": "walk"},
                  {"op": "backup", "opts": sc["o"][1], "plan": {"crash": 6}}]
    if sc["prior"] == "one+emptyhead":
        # a backup killed while writing its head: BANDHEAD exists with no content
        steps += [{"op": "mktree", "path": "src", "tree": sc["t1"]}, {"op": "walk"},
                  {"op": "backup", "opts": sc["o"][1], "plan": {"crash_empty": 6}}]
    if sc["prior"] == "one+emptyhunk":
        steps += [{"op": "mktree", "path": "src", "tree": sc["t1"]}, {"op": "walk"},
                  {"op": "backup", "opts": sc["o"][1], "plan": {"crash_empty": sc["kk"]}}]
    if sc["prior"] == "one+interrupted":
        steps += [{"op": "mktree", "path": "src", "tree": sc["t1"]}, {"op": "walk"},
                  {"op": "backup", "opts": sc["o"][1], "plan": {"crash": 22}}]
    steps += [{"op": "mktree", "path": "src", "tree": sc["t2"]}, {"op": "snap", "path": "src"}, {"op": "walk"}, {"op": "arch"}]
    return steps


def nbands_before(sc):
    return {"none": 0, "one": 1, "two": 2, "one+interrupted": 2, "one+headless": 2, "one+emptyhead": 2, "one+emptyhunk": 2}[sc["prior"]]


def after_steps(sc, nb):
    steps = [{"op": "arch"}, {"op": "versions"}]
    for b in range(nb):
        steps.append({"op": "restore", "band": b, "dest": f"old{b}"})
    steps += [{"op": "restore", "dest": "oldlatest"},
              {"op": "list", "band": nb}, {"op": "restore", "band": nb, "dest": "partial"},
              {"op": "list", "band": nb, "subtree": sc.get("subtree", "/")},
              {"op": "walk"}, {"op": "backup", "opts": sc["o"][3]}, {"op": "arch"},
              {"op": "restore", "band": "latest", "dest": "final"}]
    return steps


def run(ctx):
    quick = ctx.tier == "quick"
    scs = make_scenarios(ctx, 8 if quick else 60)
    ctx.cov["rule"] = ("scenarios (0-2 earlier versions, possibly an interrupted one; a new source tree; options) x EVERY index k of the backup's "
                       "storage trace: stop before operation k, and for every write also stop after creating the file empty; then: the archive "
                       "opens, every previously completed version restores as before (by id and by 'latest complete'), no index entry refers to a "
                       "missing/short block, the interrupted version is listed incomplete and lists/restores as its own entries followed by the "
                       "previous version's after the last recorded path, and a later backup of the same source completes and restores exactly; "
                       "model: backup_prog under Crash/CrashEmpty at k (mutations + final state) and the resumed backup (exact trace). "
                       "non-trivial = distinct (scenario, crash point)")
    ref_cases = []
    for sc in scs:
        nb = nbands_before(sc)
        steps = base_steps(sc)
        for b in range(nb):
            steps.append({"op": "restore", "band": b, "dest": f"ref{b}"})
        steps += [{"op": "restore", "dest": "reflatest"}, {"op": "backup", "opts": sc["o"][2]}]
        ref_cases.append({"id": sc["id"], "steps": steps})
    ref = ctx.cvh_run(ref_cases)
    cases, info = [], {}
    for sc in scs:
        r = ref.get(sc["id"])
        if r is None or r[-1].get("result") != "ok":
            ctx.oracle_fail("crash/reference-run", "the uninterrupted reference backup failed: " + json.dumps(r and r[-1].get("err"))[:200], {"scenario": sc})
            continue
        sc["ref"] = r
        trace = r[-1]["trace"]
        nb = nbands_before(sc)
        n = len(trace)
        ks = range(n) if (not quick or n <= 60) else sorted(set(list(range(0, n, 2)) + [k for k in range(n) if trace[k]["verb"] == "Write"]))
        for k in ks:
            kinds = ["crash"] + (["crash_empty"] if trace[k]["verb"] == "Write" else [])
            for kind in kinds:
                cid = f"{sc['id']}_{k}_{kind}"
                info[cid] = (sc, k, kind)
                cases.append({"id": cid, "steps": base_steps(sc) + [{"op": "backup", "opts": sc["o"][2], "plan": {kind: k}}] + after_steps(sc, nb)})
                ctx.dist("crash_before_" + trace[k]["verb"] + ("_empty" if kind == "crash_empty" else ""))
    res = ctx.cvh_run(cases, shards=16, timeout=3000)
    hs_by_sc = {}
    for c in cases:
        sc, k, kind = info[c["id"]]
        r = res.get(c["id"])
        ctx.count()
        small = {"scenario": {x: sc[x] for x in ("prior", "t0", "t1", "t2", "o")}, "crash": {kind: k}}
        if r is None:
            ctx.oracle_fail("crash/harness-died", f"harness died or hung after {kind} at {k}", small)
            continue
        nbase = len(base_steps(sc))
        nb = nbands_before(sc)
        bk = r[nbase]
        post = r[nbase + 1:]
        arch1, versions = post[0], post[1]
        olds = post[2:2 + nb]
        oldlatest, lst, partial, lstsub, walk, bk2, arch2, final = post[2 + nb:2 + nb + 8]
        pan = [x.get("panic") for x in post if isinstance(x, dict) and x.get("panic")]
        if pan:
            ctx.oracle_fail("crash/panic-after", f"after {kind} at op {k} an operation crashed: {pan[0][:160]}", small)
            continue
        if not bk.get("crashed"):
            ctx.corr_fail("L4", f"the backup was not stopped at {k}", small)
            continue
        if versions.get("result") != "ok":
            ctx.oracle_fail("crash/archive-does-not-open", f"after {kind} at op {k} the archive does not open / list versions: {json.dumps(versions.get('err'))[:160]}", small)
            continue
        bad = False
        for b in range(nb):
            want = sc["ref"][nbase + b]
            if want.get("result") == "ok":
                got = olds[b]
                if got.get("result") != "ok" or len(got.get("monitor_errors") or []) != len(want.get("monitor_errors") or []) or scen.first_difference(scen.strip(want.get("tree")), scen.strip(got.get("tree"))):
                    ctx.oracle_fail("crash/old-version-changed", f"after {kind} at op {k}, completed version b{b:04d} no longer restores as before: "
                                                                 f"{json.dumps(got.get('err') or got.get('monitor_errors'))[:160]}", small)
                    bad = True
                    break
        if bad:
            continue
        wantl = sc["ref"][nbase + nb]
        if wantl.get("result") == "ok":
            if oldlatest.get("result") != "ok" or scen.first_difference(scen.strip(wantl.get("tree")), scen.strip(oldlatest.get("tree"))):
                head_state = None
                ctx.oracle_fail("crash/latest-complete-selection", f"after {kind} at op {k}, restoring the latest complete version fails or differs: "
                                                                   f"{json.dumps(oldlatest.get('err') or oldlatest.get('monitor_errors'))[:200]}", small)
                continue
        dec = scen.decode(arch1["arch"])
        probs = scen.refint_problems(dec)
        if probs:
            ctx.oracle_fail("crash/dangling-reference", f"after {kind} at op {k}: {probs[0]}", small)
            continue
        newband = dec["bands"].get(nb)
        if newband is not None and newband["head"] is not None and newband["head"].get("t") == "json":
            vb = dict((x[0], x[1]) for x in versions["value"]["bands"])
            st = vb.get(f"b{nb:04d}")
            if st is None or st.get("closed") is not False:
                ctx.oracle_fail("crash/not-listed-incomplete", f"after {kind} at op {k} the interrupted version is not listed as incomplete: {st}", small)
                continue
            exp = scen.stitch_expected(dec, nb)
            if lst.get("result") != "ok":
                ctx.oracle_fail("crash/interrupted-version-unlistable", f"after {kind} at op {k} the interrupted version cannot be listed: {json.dumps(lst.get('err'))[:160]}", small)
                continue
            got = [(e["apath"], e["raw"].get("addrs", [])) for e in lst["value"]]
            want = [(e["apath"], e.get("addrs", [])) for e, _ in exp]
            if got != want:
                ctx.oracle_fail("crash/stitched-view", f"after {kind} at op {k} the interrupted version lists {[g[0] for g in got][:8]} but its own entries followed by "
                                                       f"the previous version's after the last recorded path are {[w[0] for w in want][:8]}", small)
                continue
            # the same through a subtree selection: exactly the selected part of that listing
            sub = sc.get("subtree", "/")
            wsub = [w for w in want if gen.comp_prefix(sub, w[0])]
            gsub = [(e["apath"], e["raw"].get("addrs", [])) for e in (lstsub.get("value") or [])]
            if lstsub.get("result") != "ok" or gsub != wsub:
                ctx.oracle_fail("crash/stitched-view-subtree", f"after {kind} at op {k} the interrupted version, listed under {sub!r}, gives {[g[0] for g in gsub][:8]} "
                                                               f"but the selected part of its stitched listing is {[w[0] for w in wsub][:8]}", small)
                continue
            # restoring it: every listed file holds the bytes its entry names
            if partial.get("result") == "ok":
                files = scen.tree_file_bytes(partial["tree"]) if partial.get("tree") else {}
                for e, src_band in exp:
                    if e.get("kind") == "File":
                        c_ = scen.entry_content(e, dec["blocks"])
                        if not isinstance(c_, str) and files.get(e["apath"]) != c_ and not partial.get("monitor_errors"):
                            ctx.oracle_fail("crash/stitched-restore", f"after {kind} at op {k}, restoring the interrupted version gives wrong bytes for {e['apath']}", small)
                            bad = True
                            break
                if bad:
                    continue
                # ... everything listed is restored, except what lies beneath a listed symlink or file (a directory of the
                # previous version that the new one replaced: refused or impossible, with an error)
                if partial.get("tree"):
                    there = {pth for pth, _n in gen.tree_paths(partial["tree"])}
                    links = [e["apath"] for e, _ in exp if e.get("kind") != "Dir"]
                    lost = [e["apath"] for e, _ in exp if e["apath"] not in there
                            and not any(l != e["apath"] and gen.comp_prefix(l, e["apath"]) for l in links)]
                    if lost:
                        ctx.oracle_fail("crash/stitched-restore-missing", f"after {kind} at op {k}, restoring the interrupted version left out {lost[:4]}, "
                                                                          f"which its listing contains: {json.dumps(partial.get('monitor_errors'))[:200]}", small)
                        continue
                # ... and nothing is created that the listing does not name (directories on the way to a listed path aside)
                if partial.get("tree"):
                    listed = {e["apath"] for e, _ in exp}
                    extra = [pth for pth, _n in gen.tree_paths(partial["tree"])
                             if pth != "/" and pth not in listed and not any(gen.comp_prefix(pth, q) for q in listed)]
                    if extra:
                        ctx.oracle_fail("crash/stitched-restore-extra", f"after {kind} at op {k}, restoring the interrupted version created {extra[:4]}, "
                                                                        f"which its listing does not contain", small)
                        continue
        # (the monitor may mention the unopenable leftover band while stitching the basis; that is not a failure)
        if bk2.get("result") != "ok" or bk2["value"]["errors"]:
            ctx.oracle_fail("crash/later-backup-fails", f"after {kind} at op {k} a later backup of the same source does not complete cleanly: "
                                                        f"{json.dumps(bk2.get('err') or bk2.get('monitor_errors'))[:200]}", small)
            continue
        snap = r[nbase - 3]["tree"]
        if final.get("result") != "ok" or final.get("monitor_errors") or scen.first_difference(scen.strip(snap), scen.strip(final.get("tree"))):
            ctx.oracle_fail("crash/later-backup-does-not-restore", f"after {kind} at op {k} the later backup does not restore exactly: "
                                                                   f"{json.dumps(final.get('err') or final.get('monitor_errors'))[:200]}", small)
            continue
        probs = scen.refint_problems(scen.decode(arch2["arch"]))
        if probs:
            ctx.oracle_fail("crash/dangling-reference", f"after {kind} at op {k} and a later backup: {probs[0]}", small)
            continue
        ctx.nontrivial(c["id"])
        hs_by_sc.setdefault(sc["id"], []).append((c, r, k, kind))
    # ---- model
    hs = []
    for sc in scs:
        if "ref" not in sc or sc["id"] not in hs_by_sc:
            continue
        names = l4.Names()
        bs = base_steps(sc)
        scen.collect_names(names, bs, sc["ref"])
        names.add_trace(sc["ref"][-1]["trace"])
        for c, r, k, kind in hs_by_sc[sc["id"]]:
            scen.collect_names(names, c["steps"], r)
        base = l4.History(sc["id"], names)
        nbase = len(bs)
        for st, rs in zip(bs, sc["ref"][:nbase]):
            if st["op"] == "backup" and st.get("plan"):
                if rs.get("crashed"):
                    pl = st["plan"]
                    base.add(st, rs, mode=1, crash=(pl.get("crash", pl.get("crash_empty")), "crash_empty" in pl))
                else:
                    base.add(st, rs)
            elif st["op"] not in ("arch", "snap"):
                base.add(st, rs)
        base.set_base(sc["ref"][-1]["trace"])
        hs.append(base)
        nb = nbands_before(sc)
        sel = hs_by_sc[sc["id"]]
        if quick:
            sel = sel[::3] + [x for x in sel[-2:] if x not in sel[::3]]
        for c, r, k, kind in sel:
            h = base.fork(c["id"])
            h.add(c["steps"][nbase], r[nbase], mode=1, crash=(k, kind == "crash_empty"))
            h.add({"op": "arch"}, r[nbase + 1])
            post0 = nbase + 1 + 2 + nb + 3
            h.add(c["steps"][post0], r[post0])           # walk
            h.add(c["steps"][post0 + 1], r[post0 + 1])   # resumed backup, exact trace
            h.add(c["steps"][post0 + 2], r[post0 + 2])   # arch
            hs.append(h)
    out = l4.evaluate(ctx, "C03", hs, shards=8 if quick else 16)
    agreed = total = 0
    for h in hs:
        rr = out.get(h.cid)
        for desc, code in (rr or []):
            total += 1
            if code == 0:
                agreed += 1
            else:
                i = info.get(h.cid)
                ctx.corr_fail("L4", f"case {h.cid}: model and implementation differ at {desc}: code {code}",
                              {"scenario": {x: i[0][x] for x in ("prior", "t0", "t1", "t2", "o")}, "crash": {i[2]: i[1]}} if i else {"case": h.cid})
                break
    ctx.layer("L4-crash-and-resume", agreed, total)
    if scs and "ref" in scs[0]:
        ctx.sample({"prior": scs[0]["prior"], "trace_length": len(scs[0]["ref"][-1]["trace"]), "opts": scs[0]["o"][2]})
    ctx.assumptions += ["a kill stops the process between two storage operations, or after a local write created its file and before any content "
                        "reached it; torn writes of partial content are outside (the Transport contract asks for atomic visibility)"]


def replay(ctx, rep):
    r = rep.get("replay", rep)
    ctx.build()
    sc = dict(r["scenario"])
    nb = nbands_before(sc)
    steps = base_steps(sc) + [{"op": "backup", "opts": sc["o"][2], "plan": r["crash"]}] + after_steps(sc, nb)
    out = ctx.cvh_run([{"id": "r", "steps": steps}])["r"]
    for st, rs in zip(steps, out):
        if isinstance(rs, dict) and st["op"] not in ("mktree", "snap", "walk", "arch"):
            print(st["op"], st.get("band"), {k: rs.get(k) for k in ("result", "crashed", "panic") if rs.get(k)}, json.dumps(rs.get("err") or rs.get("monitor_errors"))[:200])
    return 0
