"""L4: storage-operation traces.  Canonicalise the implementation's trace into typed
operations, print Gallina terms, evaluate the model programs on the same history with
the same fault rules, and compare traces, outcomes and final archive states."""
import hashlib
import json
import re

from . import coqfmt
from .common import gallina_str, gallina_list, gallina_opt, gallina_bool

HEADER = ("From CV Require Import Base.Str Apath Entry Store Stitch StitchProg Codec Backup Ops Delete Read Inv Conf Valid Truth E2E Healthy History Corr.Run Corr.Trace.\nFrom CV Require Full.\n"
          "Local Open Scope N_scope.\n")

BAND_RE = re.compile(r"^b(\d+)$")


def blake(content):
    return hashlib.blake2b(content, digest_size=64).hexdigest()


class Names:
    """hash hex <-> content; grows as contents are seen."""

    def __init__(self):
        self.by_hash = {}

    def add(self, content):
        self.by_hash[blake(content)] = content

    def add_arch(self, arch):
        for path, v in arch.get("files", {}).items():
            if v.get("t") == "block":
                self.by_hash[v["hash"]] = bytes.fromhex(v["hex"])
                # a corrupt block keeps its file name; remember nothing for the name

    def add_trace(self, trace):
        for it in trace:
            for v in (it.get("payload"), (it.get("reply") or {}).get("content")):
                if isinstance(v, dict) and v.get("t") == "block":
                    self.by_hash[v["hash"]] = bytes.fromhex(v["hex"])

    def add_source(self, walk_entries, tree, opts):
        """contents a backup of this source with these options can produce as blocks: the
        chunks of every large file and every run of consecutive small files (walk order) up to
        the first that reaches max_block_size.  Needed for blocks whose write never happened
        (failed or killed after its sub-directory was made)."""
        data = tree_data(tree)
        mbs = max(1, opts.get("mbs", 20 << 20))
        sfc = opts.get("sfc", 1 << 20)
        files = [data.get(e["apath"], b"") for e in walk_entries if e["kind"] == "File"]
        small = [d for d in files if 0 < len(d) <= sfc]
        for d in files:
            if len(d) > sfc:
                for i in range(0, len(d), mbs):
                    self.add(d[i:i + mbs])
        for i in range(len(small)):
            buf = b""
            for j in range(i, len(small)):
                buf += small[j]
                self.add(buf)
                if len(buf) >= mbs:
                    break

    def add_tree(self, tree, cfgs):
        """Every block content a backup of this tree could produce is not known in advance;
        the single-file chunks are (the model may compute them)."""
        pass

    def block(self, hash_hex):
        c = self.by_hash.get(hash_hex)
        if c is None:
            return gallina_str(("#" + hash_hex[:24]).encode())
        return gallina_str(c)

    def pre_table(self):
        return gallina_list(["(" + gallina_str(c) + "," + str(int(h[:3], 16)) + ")" for h, c in self.by_hash.items()])


def typed_path(path, names):
    """archive-relative path -> ('f'|'d', gallina term) or None for strays."""
    parts = path.split("/") if path else []
    if not parts:
        return ("d", "DRoot")
    if parts == ["CONSERVE"]:
        return ("f", "PHeader")
    if parts == ["GC_LOCK"]:
        return ("f", "PLock")
    if parts[0] == "d":
        if len(parts) == 1:
            return ("d", "DBlocks")
        try:
            sub = int(parts[1], 16)
        except ValueError:
            return None
        if len(parts[1]) != 3:
            return None
        if len(parts) == 2:
            return ("d", f"(DBlockSub {sub})")
        if len(parts) == 3:
            return ("f", f"(PBlock {names.block(parts[2])})")
        return None
    m = BAND_RE.match(parts[0])
    if m:
        b = int(m.group(1))
        if len(parts) == 1:
            return ("d", f"(DBand {b})")
        if parts[1] == "BANDHEAD" and len(parts) == 2:
            return ("f", f"(PHead {b})")
        if parts[1] == "BANDTAIL" and len(parts) == 2:
            return ("f", f"(PTail {b})")
        if parts[1] == "i":
            if len(parts) == 2:
                return ("d", f"(DIndex {b})")
            if parts[2].isdigit():
                if len(parts) == 3:
                    return ("d", f"(DHunkSub {b} {int(parts[2])})")
                if len(parts) == 4 and parts[3].isdigit():
                    return ("f", f"(PHunk {b} {int(parts[3])})")
    return None


def head_ver(v):
    ver = v.get("band_format_version")
    flags = v.get("format_flags") or []
    if flags:
        return "HvBadFlags"
    if ver is None:
        return "HvNone"
    m = re.match(r"^(\d+)\.(\d+)\.(\d+)$", ver)
    if not m:
        return "HvUnparsable"
    t = tuple(int(x) for x in m.groups())
    return "HvOk" if t <= (23, 11, 0) else "HvUnsupported"


def g_payload(path, dec, names):
    """decoded payload dict (harness reader) -> gallina fcontent constructor args."""
    t = dec.get("t")
    if t == "empty":
        return "Empty"
    if t == "garbage":
        return "Garbage"
    if t == "json":
        base = path.split("/")[-1]
        if base == "BANDHEAD":
            if not isinstance(dec["v"], dict) or "start_time" not in dec["v"]:
                return "Garbage"
            return f"(Good (PlHead {head_ver(dec['v'])}))"
        if base == "BANDTAIL":
            if not isinstance(dec["v"], dict) or "end_time" not in dec["v"]:
                return "Garbage"
            return f"(Good (PlTail {gallina_opt(dec['v'].get('index_hunk_count'), str)}))"
        return "(Good PlJson)"
    if t == "hunk":
        return "(Good (PlHunk " + gallina_list([coqfmt.g_entry(e, names.by_hash) for e in dec["v"]]) + "))"
    if t == "block":
        return f"(Good (PlBlock {gallina_str(bytes.fromhex(dec['hex']))}))"
    return "Garbage"


KIND = {"NotFound": "ENotFound", "AlreadyExists": "EAlreadyExists", "PermissionDenied": "EPermissionDenied", "Other": "EOther"}


def g_op(it, names):
    tp = typed_path(it["path"], names)
    if tp is None:
        return None
    kind, term = tp
    verb = it["verb"]
    if verb == "Read" and kind == "f":
        return f"(OpRead {term})"
    if verb == "Metadata" and kind == "f":
        return f"(OpMeta {term})"
    if verb == "RemoveFile" and kind == "f":
        return f"(OpRemoveFile {term})"
    if verb == "Write" and kind == "f":
        pl = g_payload(it["path"], it.get("payload") or {}, names)
        if not pl.startswith("(Good "):
            return None
        return f"(OpWrite {term} {pl[6:-1]} {'CreateNew' if it.get('mode') == 'CreateNew' else 'Overwrite'})"
    if verb == "ListDir" and kind == "d":
        return f"(OpList {term})"
    if verb == "CreateDir" and kind == "d":
        return f"(OpMkdir {term})"
    if verb == "RemoveDirAll" and kind == "d":
        return f"(OpRemoveDirAll {term})"
    return None


def g_reply(it, names):
    r = it.get("reply")
    if r is None:
        return None
    if not r.get("ok"):
        return f"(RErr {KIND.get(r.get('err'), 'EOther')})"
    if "content" in r:
        return f"(RData {g_payload(it['path'], r['content'], names)})"
    if "list" in r:
        ds, fs = [], []
        for name, k, ln in r["list"]:
            tp = typed_path((it["path"] + "/" if it["path"] else "") + name, names)
            if tp is None:
                continue
            if tp[0] == "d" and k == "d":
                ds.append(tp[1])
            elif tp[0] == "f" and k == "f":
                fs.append(f"({tp[1]},{gallina_bool(bool(ln))})")
        return f"(RList {gallina_list(ds)} {gallina_list(fs)})"
    if "meta" in r:
        return f"(RMeta {gallina_bool(r['meta'][1] > 0)})"
    return "ROk"


def is_group_item(it):
    """operations issued concurrently by one actor: listing of block sub-directories,
    block reads of validate"""
    p = it["path"].split("/")
    if it["verb"] == "ListDir" and len(p) == 2 and p[0] == "d":
        return "L"
    return None


def canon_trace(trace):
    """Sort each maximal run of concurrently issued operations by path; drop halted items."""
    out = []
    group = []
    gk = None
    for it in trace:
        if it.get("halt"):
            continue
        k = is_group_item(it)
        if k is not None and (not group or gk == k):
            group.append(it)
            gk = k
        else:
            if group:
                out.extend(sorted(group, key=lambda x: x["path"]))
                group, gk = [], None
            if k is not None:
                group, gk = [it], k
            else:
                out.append(it)
    if group:
        out.extend(sorted(group, key=lambda x: x["path"]))
    return out


def g_trace(trace, names):
    items = []
    for it in canon_trace(trace):
        o, r = g_op(it, names), g_reply(it, names)
        if o is None or r is None:
            items.append(None)
        else:
            items.append(f"({o},{r})")
    return items


def g_arch(arch, names):
    """independent-reader snapshot -> gallina arch"""
    dirs = ["DRoot"]
    for d in arch.get("dirs", []):
        tp = typed_path(d, names)
        if tp and tp[0] == "d":
            dirs.append(tp[1])
    files = []
    for path, v in arch.get("files", {}).items():
        tp = typed_path(path, names)
        if tp and tp[0] == "f":
            files.append(f"({tp[1]},{g_payload(path, v, names)})")
    return "{| dirs := " + gallina_list(dirs) + "; files := " + gallina_list(files) + " |}"


def g_cfg(opts):
    return "{| c_meph := %d; c_mbs := %d; c_sfc := %d; c_owner := %s |}" % (
        opts.get("meph", 100000), opts.get("mbs", 20 << 20), opts.get("sfc", 1 << 20), gallina_bool(opts.get("owner", True)))


def tree_data(tree):
    """apath -> bytes for files"""
    out = {}

    def rec(node, p):
        if node["k"] == "f":
            out[p or "/"] = bytes.fromhex(node.get("data") or "")
        elif node["k"] == "d":
            for n, c in (node.get("c") or {}).items():
                rec(c, p + "/" + n)
    rec(tree, "")
    return out


def tree_as_read(tree, opts):
    """The source as the backup READS it: opts["mutate"] cuts files after they were stat-ed (the walk keeps the old size)."""
    if not opts.get("mutate"):
        return tree
    import copy
    t = copy.deepcopy(tree)
    for m in opts["mutate"]:
        node = t
        for part in m["path"].split("/"):
            node = node["c"][part]
        node["data"] = node["data"][: 2 * m["len"]]
    return t


def g_sitems(walk_entries, tree):
    data = tree_data(tree)
    return gallina_list(["{| si_e := %s; si_data := %s |}" % (coqfmt.g_sentry(e), gallina_str(data.get(e["apath"], b"")))
                         for e in walk_entries])


def rule_from_item(it, nth, fault):
    """(verb, path, n, fault) for the harness and the same rule as a gallina term"""
    return [it["verb"], it["path"], nth, fault]


def g_rules(rules, trace_items_by_key, names):
    """rules: list of (item, nth, fault) -> gallina list of rule"""
    out = []
    for it, nth, fault in rules:
        o = g_op(it, names)
        f = {"crash": "Crash", "crash_empty": "CrashEmpty"}.get(fault) or f"(Fail {KIND.get(fault, 'EOther')})"
        out.append(f"({o},{nth},{f})")
    return gallina_list(out)


def occurrence_index(canon, k):
    """n such that canon[k] is the n-th occurrence of its (verb, path)"""
    key = (canon[k]["verb"], canon[k]["path"])
    return sum(1 for it in canon[:k] if (it["verb"], it["path"]) == key)


# --------------------------------------------------------------------------------------
# Evaluating whole histories in the model

def impl_out(res, kind):
    """The implementation's outcome as the list of numbers `out_code` produces."""
    if res.get("crashed"):
        return [1]
    if res.get("panic"):
        return [2]
    ok = res.get("result") == "ok"
    merr = len(res.get("monitor_errors") or [])
    v = res.get("value") or {}
    if kind == "backup":
        return [0, 1, v.get("errors", 0), merr] if ok else [0, 0, 0, merr]
    if kind == "delete":
        return [0, 1, v["unreferenced_block_count"], v["deleted_band_count"], v["deleted_block_count"], v["deletion_errors"]] if ok else [0, 0]
    if kind == "init":
        return [0, 1 if ok else 0]
    if kind in ("list", "restore"):
        return [0, 1 if ok else 0, merr if ok else 0]
    if kind == "validate":
        return [0, 1 if ok else 0, merr]
    return [0]


def g_policy(band):
    if band is None:
        return "LatestClosed"
    if band == "latest":
        return "Latest"
    return f"(Specified {int(band)})"


def g_keep(step):
    """the yield-time filter of a list / restore step (subtree only; exclusions are C15's)"""
    sub = step.get("subtree")
    if sub and sub != "/":
        return f"(fun e => is_prefix_of {gallina_str(sub)} (e_apath e))"
    return "(fun _ => true)"


def hint_from_trace(trace, names, verb, prefix="d/"):
    """order in which the implementation touched blocks (HashSet iteration order)"""
    seen, out = set(), []
    for it in trace:
        if it["verb"] == verb and it["path"].startswith(prefix) and it["path"].count("/") == 2:
            h = it["path"].split("/")[-1]
            if h not in seen:
                seen.add(h)
                out.append(names.block(h))
    return gallina_list(out)


class History:
    """Builds the Coq text that replays one case in the model."""

    def __init__(self, cid, names, group=None, parent=None):
        self.cid = cid
        self.names = names
        self.group = group or cid
        self.lines = []
        self.checks = []       # (name of N-valued definition, description)
        self.k = 0
        self.src_tree = None
        self.walk = None
        self.base_name = None
        self.base_items = None
        self.check_premises = True     # off for histories that start from a deliberately damaged state
        self.expect_ready = False      # set by a caller whose histories are fault-free: E2E.Ready holds before every backup
        self.expect_uh = False         # set by a caller: kills at any point but no torn write, one backup after healthy states
        self.expect_healthy = False    # set by a caller whose histories have no faults and no kill before a band head
        if parent is None:
            self.state = f"a_{cid}_0"
            self.lines.append(f"Definition {self.state} : Store.arch := Store.arch0.")
        else:
            self.state = parent.state
            self.src_tree = parent.src_tree
            self.walk = parent.walk
            self.base_name = parent.base_name
            self.base_items = parent.base_items
            self.expect_healthy = parent.expect_healthy
            self.expect_ready = parent.expect_ready
            self.expect_uh = parent.expect_uh

    def fork(self, cid):
        return History(cid, self.names, group=self.group, parent=self)

    def set_base(self, trace):
        """remember a reference trace; later traces are written as a prefix of it plus a suffix"""
        self.names.add_trace(trace)
        self.base_items = [t for t in g_trace(trace, self.names) if t is not None]
        self.base_name = f"base_{self.cid}_{self.k}"
        self.lines.append(f"Definition {self.base_name} : list (op * reply) := {gallina_list(self.base_items)}.")

    def g_impl_trace(self, tr):
        if self.base_items:
            k = 0
            while k < len(tr) and k < len(self.base_items) and tr[k] == self.base_items[k]:
                k += 1
            if k > 3:
                return f"(firstn {k} {self.base_name} ++ {gallina_list(tr[k:])})"
        return gallina_list(tr)

    def set_state_from_arch(self, arch):
        self.k += 1
        self.state = f"a_{self.cid}_{self.k}"
        self.lines.append(f"Definition {self.state} : Store.arch := {g_arch(arch, self.names)}.")

    def add(self, step, res, rules=None, mode=0, crash=None, fail=None):
        """Model one executed step.  rules: list of (trace item, nth, fault)."""
        op = step["op"]
        if op == "mktree" and step.get("path", "src") == "src":
            self.src_tree = step["tree"]
            return
        if op == "walk":
            self.walk = res.get("value")
            return
        if op == "arch":
            name = f"c_{self.cid}_{self.k}_arch"
            self.lines.append(f"Definition {name} : N := if arch_eqb {self.state} {g_arch(res['arch'], self.names)} then 0 else 2.")
            self.checks.append((name, f"archive state after step {self.k}"))
            return
        if op == "write_archive" or op == "damage":
            return "resync"
        self.names.add_trace(res.get("trace") or [])
        tr = g_trace(res.get("trace") or [], self.names)
        if any(t is None for t in tr):
            tr = [t for t in tr if t is not None]
        rules_g = g_rules(rules or [], None, self.names)
        if op == "init":
            prog, summ, kind = "init_prog", "isum", "init"
        elif op == "backup":
            if self.walk is None or self.src_tree is None:
                return
            read_tree = tree_as_read(self.src_tree, step.get("opts", {}))
            self.names.add_source(self.walk, read_tree, step.get("opts", {}))
            prog = f"(backup_prog pre {g_cfg(step.get('opts', {}))} {g_sitems(self.walk, read_tree)})"
            summ, kind = "bsum", "backup"
        elif op == "delete":
            hint = hint_from_trace(res.get("trace") or [], self.names, "Metadata")
            ids = gallina_list([str(b) for b in step.get("bands", [])])
            prog = f"(delete_prog {ids} {gallina_bool(step.get('dry', False))} {gallina_bool(step.get('break_lock', False))} {hint})"
            summ, kind = "dsum", "delete"
        elif op == "list":
            prog = f"(list_prog {g_policy(step.get('band'))} {g_keep(step)})"
            summ, kind = "lsum", "list"
        elif op == "restore":
            prog = f"(restore_prog {g_policy(step.get('band'))} {g_keep(step)})"
            summ, kind = "rsum", "restore"
            mode = 3
            # the block cache of the implementation holds 100 blocks (LRU); the model's is unbounded: a block read again
            # after it was evicted is the same successful read once more, and is counted once
            seen_blocks, kept = set(), []
            for it in (res.get("trace") or []):
                rc = ((it.get("reply") or {}).get("content") or {})
                if it.get("verb") == "Read" and str(it.get("path", "")).startswith("d/") and (it.get("reply") or {}).get("ok") \
                        and rc.get("t") == "block" and rc.get("name_ok"):          # a good block (a damaged one is never cached: read again by both)
                    if it["path"] in seen_blocks:
                        continue
                    seen_blocks.add(it["path"])
                kept.append(it)
            if len(kept) != len(res.get("trace") or []):
                res = dict(res, trace=kept)
                tr = g_trace(kept, self.names)
                if any(t is None for t in tr):
                    tr = [t for t in tr if t is not None]
        elif op == "validate":
            hint = hint_from_trace(canon_trace(res.get("trace") or []), self.names, "Read")
            prog = f"(validate_prog {gallina_bool(step.get('skip', False))} {hint})"
            summ, kind = "vsum", "validate"
        else:
            return
        self.k += 1
        s = f"s_{self.cid}_{self.k}"
        if self.expect_ready and op == "backup":
            name5 = f"c_{self.cid}_{self.k}_ready"
            self.lines.append(f"Definition {name5} : N := if ready_b pre {self.state} then 0 else 9.")
            self.checks.append((name5, f"Ready (E2E.ready_b) of the state before step {self.k} (backup)"))
        if crash is not None:
            self.lines.append(f"Definition {s} := run_phi pre {prog} {self.state} (crash_at {crash[0]} {gallina_bool(crash[1])}).")
        elif fail is not None:
            self.lines.append(f"Definition {s} := run_phi pre {prog} {self.state} (fail_at {fail[0]} {KIND.get(fail[1], 'EOther')}).")
        else:
            self.lines.append(f"Definition {s} := run_rules pre {prog} {self.state} {rules_g} [].")
        name = f"c_{self.cid}_{self.k}_{op}"
        self.lines.append(f"Definition {name} : N := check_run {summ} {s} {self.g_impl_trace(tr)} {mode if mode else (2 if any(is_group_item(r[0]) for r in (rules or [])) else 0)} "
                          f"{gallina_list([str(x) for x in impl_out(res, kind)])}.")
        self.checks.append((name, f"step {self.k} ({op})"))
        self.state = f"a_{self.cid}_{self.k}"
        self.lines.append(f"Definition {self.state} : Store.arch := r_arch {s}.")
        if op == "backup" and self.check_premises:
            # the hypotheses of the invariant theorems hold of this run's inputs and of the state it reaches
            name3 = f"c_{self.cid}_{self.k}_premises"
            srcname = f"src_{self.cid}_{self.k}"
            self.lines.append(f"Definition {srcname} := {g_sitems(self.walk, tree_as_read(self.src_tree, step.get('opts', {})))}.")
            self.lines.append(f"Definition {name3} : N := if srcsorted_b {srcname} && srcvalid_b {srcname} && srcwf_b {srcname} "
                              f"&& srcok_b {srcname} && conf_b {self.state} && ainv_b {self.state} && wfparents_b pre {self.state} "
                              f"&& dirswf_b pre {self.state} && rinv_b pre {self.state} then 0 else 7.")
            self.checks.append((name3, f"premises/invariants (SrcSorted, SrcValid, SrcWF, SrcOK, Conf, AInv, WFparents, DirsWF, RInv) at step {self.k}"))
            if getattr(self, "expect_tree", False):
                name7 = f"c_{self.cid}_{self.k}_srctree"
                self.lines.append(f"Definition {name7} : N := if Full.src_treeb {srcname} then 0 else 11.")
                self.checks.append((name7, f"SrcTree (Full.src_treeb) of the source walk at step {self.k}"))
        if self.expect_uh and op == "backup":
            name6 = f"c_{self.cid}_{self.k}_uh"
            self.lines.append(f"Definition {name6} : N := if healthy_uh_b pre {self.state} then 0 else 10.")
            self.checks.append((name6, f"HealthyUH (Healthy.healthy_uh_b) of the state after step {self.k} ({op})"))
        if self.expect_healthy and op in ("init", "backup", "delete") and fail is None and not rules and not (crash is not None and crash[1]):
            name4 = f"c_{self.cid}_{self.k}_healthy"
            self.lines.append(f"Definition {name4} : N := if healthy_b pre {self.state} then 0 else 8.")
            self.checks.append((name4, f"Healthy (Valid.healthy_b) of the state after step {self.k} ({op})"))
        if op == "restore" and res.get("result") == "ok" and res.get("tree") and not step.get("subtree"):
            # what the model says each file restores to == the bytes found in the restored tree
            from . import gen as _gen
            files = sorted(tree_data(res["tree"]).items(), key=lambda kv: _gen.apath_key(kv[0]))
            impl_files = gallina_list(["(" + gallina_str(p) + "," + gallina_str(d) + ")" for p, d in files])
            name2 = f"c_{self.cid}_{self.k}_restored"
            if not self.check_premises:
                # damaged archive: every file the model restores is there with exactly those bytes; anything else in the
                # destination is a file the model reports as not restored (restore may leave it partly written)
                self.lines.append(
                    f"Definition {name2} : N := match r_out {s} with Store.Done r => "
                    f"let some := flat_map (fun f => match f with RFile e (Some c) => match e_kind e with KFile => [(e_apath e, c)] | _ => [] end | _ => [] end) (r_files r) in "
                    f"let none := flat_map (fun f => match f with RFile e None => [e_apath e] | _ => [] end) (r_files r) in "
                    f"let impl := {impl_files} in "
                    f"if forallb (fun x => existsb (fun y => str_eqb (fst x) (fst y) && str_eqb (snd x) (snd y)) impl) some "
                    f"&& forallb (fun y => existsb (fun x => str_eqb (fst x) (fst y)) some || existsb (str_eqb (fst y)) none) impl "
                    f"then 0 else 4 | _ => 4 end.")
                self.checks.append((name2, f"restored file contents at step {self.k} (damaged archive)"))
                return
            self.lines.append(
                f"Definition {name2} : N := match r_out {s} with Store.Done r => "
                f"if list_eqb (fun x y => str_eqb (fst x) (fst y) && str_eqb (snd x) (snd y)) "
                f"(flat_map (fun f => match f with RFile e (Some c) => match e_kind e with KFile => [(e_apath e, c)] | _ => [] end | _ => [] end) (r_files r)) "
                f"{impl_files} then 0 else 4 | _ => 4 end.")
            self.checks.append((name2, f"restored file contents at step {self.k}"))
        if op == "list" and res.get("result") == "ok":
            ents = gallina_list([coqfmt.g_entry(e["raw"], self.names.by_hash) for e in res["value"]])
            name2 = f"c_{self.cid}_{self.k}_entries"
            self.lines.append(f"Definition {name2} : N := match r_out {s} with Store.Done r => if list_eqb entry_eqb (l_entries r) {ents} then 0 else 3 | _ => 3 end.")
            self.checks.append((name2, f"entries listed at step {self.k}"))


def evaluate(ctx, tag, histories, names_list=None, shards=8, timeout=3000):
    """histories: list of History (forks must follow their parent).  Histories of one group share
    the sub-directory table and stay in one file.  Returns {cid: [(description, code)]} (None if
    the model run failed)."""
    import concurrent.futures
    from . import common
    groups = []
    for h in histories:
        if groups and groups[-1][0] == h.group:
            groups[-1][1].append(h)
        else:
            groups.append((h.group, [h]))
    weights = [sum(len(x.lines) for x in g[1]) for g in groups]
    bins = [[] for _ in range(shards)]
    load = [0] * shards
    for g, w in sorted(zip(groups, weights), key=lambda t: -t[1]):
        i = load.index(min(load))
        bins[i].append(g)
        load[i] += w
    jobs = []
    for s, part in enumerate(bins):
        if not part:
            continue
        body = [HEADER]
        hs = []
        for gid, members in part:
            body.append(f"Definition pre_{gid} := pre_of {members[0].names.pre_table()}.")
            for h in members:
                body.append("\n".join(l.replace(" pre ", f" pre_{gid} ") for l in h.lines))
                hs.append(h)
        allchecks = [name for h in hs for name, _ in h.checks]
        body.append("Eval vm_compute in " + gallina_list(allchecks) + ".")
        jobs.append((s, hs, "\n".join(body)))
    out = {}
    with concurrent.futures.ThreadPoolExecutor(max_workers=16) as ex:
        futs = {ex.submit(common.coq_eval, f"{tag}_{s}", body, timeout): (s, part) for s, part, body in jobs}
        for fut in concurrent.futures.as_completed(futs):
            s, part = futs[fut]
            ok, txt = fut.result()
            blocks = common.parse_eval_blocks(txt)
            if not ok or not blocks:
                for h in part:
                    out[h.cid] = None
                ctx.corr_fail("L4", "model evaluation failed: " + txt[-800:], {})
                continue
            nums = common.parse_nums(blocks[0].split("%")[0].split(":")[0])
            i = 0
            for h in part:
                res = []
                for name, desc in h.checks:
                    res.append((desc, nums[i] if i < len(nums) else -1))
                    i += 1
                out[h.cid] = res
    return out
