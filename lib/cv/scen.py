"""Scenario helpers shared by the operational properties: decoding the independent
reader's snapshot, reference integrity, format conformance, snapshot comparison."""
import hashlib
import copy
import json
import re

from . import gen

BAND_RE = re.compile(r"^b(\d+)$")


def strip(node):
    """The comparable part of a snapshot node.  A directory whose time is the present moment (within the hour) was made by
    the operation under test without a time being set on it (restore makes the missing parents of a file whose directory
    has no entry of its own in a stitched or damaged listing): its time reads as None, so two such directories compare
    equal across executions while a directory whose recorded time was NOT applied still differs from its source."""
    import time
    if node is None:
        return None
    out = {k: node.get(k) for k in ("k", "mode", "mtime", "uid", "gid", "data", "target")}
    if node.get("k") == "d":
        if isinstance(out.get("mtime"), int) and abs(out["mtime"] - time.time_ns()) < 3600 * 10**9:
            out["mtime"] = None
        out["c"] = {n: strip(c) for n, c in (node.get("c") or {}).items()}
    return out


def first_difference(a, b, path="/", fields=("k", "data", "target", "mtime", "mode", "uid", "gid")):
    if a is None or b is None:
        return None if a is None and b is None else (path, "missing", a is None, b is None)
    for k in fields:
        if a.get(k) != b.get(k):
            return (path, k, a.get(k), b.get(k))
    if a.get("k") == "d":
        ca, cb = a.get("c") or {}, b.get("c") or {}
        for n in sorted(set(ca) | set(cb)):
            d = first_difference(ca.get(n), cb.get(n), path.rstrip("/") + "/" + n, fields)
            if d:
                return d
    return None


def decode(arch):
    """{'bands': {id: {'head', 'tail', 'hunks': {n: entries|'garbage'|'empty'}}}, 'blocks': {hash: bytes|None},
        'header', 'lock', 'stray': [...]}"""
    out = {"bands": {}, "blocks": {}, "header": None, "lock": False, "stray": [], "block_files": {}}
    for d in arch.get("dirs", []):
        parts = d.split("/")
        m = BAND_RE.match(parts[0])
        if m and len(parts) == 1:
            out["bands"].setdefault(int(m.group(1)), {"head": None, "tail": None, "hunks": {}, "extra": []})
    for path, v in arch.get("files", {}).items():
        parts = path.split("/")
        m = BAND_RE.match(parts[0])
        if path == "CONSERVE":
            out["header"] = v
        elif path == "GC_LOCK":
            out["lock"] = True
        elif m:
            b = out["bands"].setdefault(int(m.group(1)), {"head": None, "tail": None, "hunks": {}, "extra": []})
            if parts[1:] == ["BANDHEAD"]:
                b["head"] = v
            elif parts[1:] == ["BANDTAIL"]:
                b["tail"] = v
            elif len(parts) == 4 and parts[1] == "i" and parts[3].isdigit():
                b["hunks"][int(parts[3])] = v["v"] if v.get("t") == "hunk" else v.get("t")
                if parts[2] != "%05d" % (int(parts[3]) // 10000) or len(parts[3]) != 9:
                    b["extra"].append(path)
            else:
                b["extra"].append(path)
        elif parts[0] == "d" and len(parts) == 3:
            out["block_files"][parts[2]] = (parts[1], v)
            out["blocks"][parts[2]] = bytes.fromhex(v["hex"]) if v.get("t") == "block" and v.get("name_ok") else None
        else:
            out["stray"].append(path)
    return out


def complete(band):
    return band["head"] is not None and band["head"].get("t") == "json" and band["tail"] is not None and band["tail"].get("t") == "json"


def band_entries(band):
    es = []
    for n in sorted(band["hunks"]):
        h = band["hunks"][n]
        if isinstance(h, list):
            es.extend(h)
    return es


def entry_content(e, blocks):
    """bytes of a file entry through its addresses, or a string describing the problem"""
    out = b""
    for a in e.get("addrs", []):
        c = blocks.get(a["hash"])
        if c is None:
            return "missing-or-corrupt block " + a["hash"][:12]
        start, ln = a.get("start", 0), a["len"]
        if start + ln > len(c):
            return "block too short " + a["hash"][:12]
        out += c[start:start + ln]
    return out


def refint_problems(dec):
    """index entries that refer to a missing or too-short block"""
    probs = []
    for bid, band in dec["bands"].items():
        for e in band_entries(band):
            if e.get("kind") == "File":
                c = entry_content(e, dec["blocks"])
                if isinstance(c, str):
                    probs.append(f"b{bid:04d} {e['apath']}: {c}")
    return probs


def conformance_problems(dec, arch):
    """C13's list, evaluated by the independent reader."""
    probs = []
    for bid, band in sorted(dec["bands"].items()):
        nums = sorted(band["hunks"])
        if nums != list(range(len(nums))):
            probs.append(f"b{bid:04d}: hunk numbers {nums} are not consecutive from zero")
        last = None
        for n in nums:
            h = band["hunks"][n]
            if not isinstance(h, list):
                probs.append(f"b{bid:04d} hunk {n}: {h}")
                continue
            if not h:
                probs.append(f"b{bid:04d} hunk {n}: empty")
            for e in h:
                p = e.get("apath", "")
                if not gen.is_valid_apath(p):
                    probs.append(f"b{bid:04d} hunk {n}: invalid apath {p!r}")
                if last is not None and gen.apath_cmp(last, p) != 0:
                    probs.append(f"b{bid:04d} hunk {n}: {p!r} does not sort after {last!r}")
                last = p
                kind = e.get("kind")
                if kind != "File" and e.get("addrs"):
                    probs.append(f"b{bid:04d} {p}: {kind} carries addresses")
                if kind != "Symlink" and e.get("target") is not None:
                    probs.append(f"b{bid:04d} {p}: {kind} carries a target")
                if kind == "Symlink" and e.get("target") is None:
                    probs.append(f"b{bid:04d} {p}: symlink without target")
                for a in e.get("addrs", []):
                    c = dec["blocks"].get(a["hash"])
                    if c is None:
                        probs.append(f"b{bid:04d} {p}: address names a missing/corrupt block")
                    elif a.get("start", 0) + a["len"] > len(c):
                        probs.append(f"b{bid:04d} {p}: address outside its block")
                    if a["len"] == 0:
                        probs.append(f"b{bid:04d} {p}: zero-length address")
        if band["tail"] is not None and band["tail"].get("t") == "json":
            cnt = band["tail"]["v"].get("index_hunk_count")
            if cnt != len(nums):
                probs.append(f"b{bid:04d}: tail states {cnt} hunks, {len(nums)} present")
        if band["extra"]:
            probs.append(f"b{bid:04d}: unexpected files {band['extra'][:3]}")
    for name, (sub, v) in dec["block_files"].items():
        if v.get("t") == "empty":
            continue        # a killed write's leftover: legal, treated as absent
        if v.get("t") != "block":
            probs.append(f"block file {name[:12]}: {v.get('t')}")
        elif not v.get("name_ok"):
            probs.append(f"block file {name[:12]} is not named by the BLAKE2b hash of its content")
        elif not v.get("subdir_ok") or sub != name[:3]:
            probs.append(f"block file {name[:12]} is in sub-directory {sub}")
    if dec["stray"]:
        probs.append(f"unexpected files {dec['stray'][:3]}")
    return probs


def raw_files(arch):
    return {p: v.get("raw_hash") for p, v in arch.get("files", {}).items()}


def tree_file_bytes(tree):
    out = {}

    def rec(node, p):
        if node["k"] == "f":
            out[p or "/"] = bytes.fromhex(node.get("data") or "")
        elif node["k"] == "d":
            for n, c in (node.get("c") or {}).items():
                rec(c, p + "/" + n)
    rec(tree, "")
    return out


def small_tree(rng, big=False):
    """trees sized for operational scenarios (traces of 20-150 operations)"""
    return gen.rand_tree(rng, depth=rng.choice([1, 2, 2, 3]), fanout=rng.choice([3, 4]), neg_frac=True,
                         sizes=[0, 1, 2, 3, 4, 5, 7, 8, 9, 12, 16, 17] + ([33, 40] if big else []))


def small_opts(rng):
    return {"meph": rng.choice([1, 2, 3, 5, 100000]), "mbs": rng.choice([1, 3, 4, 8, 64]), "sfc": rng.choice([0, 1, 4, 16, 1 << 20])}


def stitch_expected(dec, bid):
    """the stitching rule on a decoded conserve-written archive: (entries, source band) list"""
    out = []
    after = None
    n = bid
    while n is not None:
        band = dec["bands"].get(n)
        es = []
        if band is not None and band["head"] is not None and band["head"].get("t") == "json":
            es = band_entries(band)
        taken = [e for e in es if after is None or gen.apath_cmp(e["apath"], after) == 2]
        out.extend((e, n) for e in taken)
        if band is not None and band["tail"] is not None and band["tail"].get("t") != "empty":
            break          # only a non-empty tail closes a band
        if taken:
            after = taken[-1]["apath"]
        nxt = None
        for p in range(n - 1, -1, -1):
            bp = dec["bands"].get(p)
            if bp is not None and bp["head"] is not None:
                nxt = p
                break
        n = nxt
    return out


# --------------------------------------------------------------------------------------
# Random histories

def rand_history(rng, nsteps, crashes=True, deletes=True, crash_kinds=("crash", "crash", "crash_empty"), min_crash=3, faults=False):
    """Return (steps, marks): harness steps, and marks[i] = dict describing step i
    ('kind': src|backup|delete|arch|..., plus bookkeeping)."""
    steps = [{"op": "init"}]
    marks = [{"kind": "init"}]
    tree = small_tree(rng)
    pool = []

    def set_source(t):
        steps.extend([{"op": "mktree", "path": "src", "tree": t}, {"op": "snap", "path": "src"}, {"op": "walk"}])
        marks.extend([{"kind": "mktree", "tree": t}, {"kind": "snap"}, {"kind": "walk"}])

    set_source(tree)
    nb = 0
    backed_up = []
    last_crashed = False
    for _ in range(nsteps):
        r = rng.random()
        if r < 0.35 or nb == 0:
            if rng.random() < 0.8:
                tree, _ = gen.mutate_tree(rng, tree, pool)
            tree = gen.avoid_unseen_edit(copy.deepcopy(tree), backed_up)
            backed_up.append(tree)
            set_source(tree)
            plan = None
            if crashes and rng.random() < 0.3:
                plan = {rng.choice(list(crash_kinds)): rng.randrange(min_crash, 70)}
            if plan is None and faults and rng.random() < 0.3:
                plan = {"faults": [[rng.randrange(2, 60), rng.choice(["NotFound", "AlreadyExists", "PermissionDenied", "Other"])]]}
            st = {"op": "backup", "opts": small_opts(rng)}
            if plan:
                st["plan"] = plan
            steps.append(st)
            marks.append({"kind": "backup", "plan": plan, "tree": tree, "snap_at": len(steps) - 3})
            nb += 1
            last_crashed = plan is not None and "faults" not in plan
        elif r < 0.55 and deletes and nb > 0:
            ids = rng.sample(range(nb), rng.randrange(0, min(nb, 3) + 1))      # in any order
            st = {"op": "delete", "bands": ids, "dry": rng.random() < 0.2}
            steps.append(st)
            marks.append({"kind": "delete", "ids": ids, "dry": st["dry"]})
        elif r < 0.7:
            tree, _ = gen.mutate_tree(rng, tree, pool)
            set_source(tree)
            continue
        else:
            steps.append({"op": "validate", "skip": rng.random() < 0.5})
            marks.append({"kind": "validate"})
        steps.append({"op": "arch"})
        marks.append({"kind": "arch"})
    return steps, marks


def add_model_history(h, steps, marks, results, names, from_index=0):
    """Feed the executed steps of a history into an l4.History (crashed backups by index)."""
    for i in range(from_index, len(steps)):
        st, mk, rs = steps[i], marks[i], results[i]
        if mk["kind"] == "backup" and mk.get("plan") and "faults" in mk["plan"]:
            k, kind = mk["plan"]["faults"][0]
            injected = any(it.get("injected") for it in rs.get("trace", []))
            if injected:
                h.add(st, rs, mode=1, fail=(k, kind))
            else:
                h.add(st, rs)
        elif mk["kind"] == "backup" and mk.get("plan"):
            plan = mk["plan"]
            k = plan.get("crash", plan.get("crash_empty"))
            if rs.get("crashed"):
                h.add(st, rs, mode=1, crash=(k, "crash_empty" in plan))
            else:
                h.add(st, rs)          # the crash index lay beyond the end of the run
        elif mk["kind"] in ("snap",):
            continue
        else:
            h.add(st, rs)


def collect_names(names, steps, results):
    for st, rs in zip(steps, results):
        if not isinstance(rs, dict):
            continue
        if "arch" in rs:
            names.add_arch(rs["arch"])
        if "trace" in rs:
            names.add_trace(rs["trace"])


def order_trap_tree():
    """root-level names that are byte-wise above deeper paths (path order is not byte order)"""
    return {"k": "d", "mode": 0o755, "mtime": 10**18, "c": {
        "a": {"k": "f", "data": "6161", "mode": 0o644, "mtime": 10**18 + 1},
        "m": {"k": "f", "data": "6d6d6d", "mode": 0o644, "mtime": 10**18 + 2},
        "~": {"k": "f", "data": "7e", "mode": 0o644, "mtime": 10**18 + 3},
        "b": {"k": "d", "mode": 0o755, "mtime": 10**18, "c": {"x": {"k": "f", "data": "7878", "mode": 0o600, "mtime": 10**18 + 4},
                                                              "y": {"k": "f", "data": "79", "mode": 0o600, "mtime": 10**18 + 5}}},
        "d": {"k": "d", "mode": 0o755, "mtime": 10**18, "c": {"f": {"k": "f", "data": "6666", "mode": 0o600, "mtime": 10**18 + 6},
                                                              "g": {"k": "f", "data": "676767", "mode": 0o600, "mtime": 10**18 + 7}}}}}
