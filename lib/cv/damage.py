"""Shared by C09 and C10: archives from varied histories, single-file damage, and what
each operation does afterwards."""
import json

from . import gen, scen

DAMAGE_KINDS = ["delete", "trunc0", "trunchalf", "garbage"]


def make_base(ctx):
    """A history giving two or three versions (sometimes an interrupted one in the middle)."""
    t0 = scen.small_tree(ctx.rng)
    t1, _ = gen.mutate_tree(ctx.rng, t0)
    t2, _ = gen.mutate_tree(ctx.rng, t1)
    for t in (t0, t1, t2):
        t["c"].setdefault("keep", {"k": "f", "data": "6b656570", "mode": 0o644, "mtime": 10**18})
    o = [scen.small_opts(ctx.rng) for _ in range(3)]
    steps = [{"op": "init"},
             {"op": "mktree", "path": "src", "tree": t0}, {"op": "backup", "opts": o[0]},
             {"op": "mktree", "path": "src", "tree": t1}]
    interrupted = ctx.rng.random() < 0.4
    if interrupted:
        steps.append({"op": "backup", "opts": o[1], "plan": {"crash": ctx.rng.randrange(12, 40)}})
    else:
        steps.append({"op": "backup", "opts": o[1]})
    steps += [{"op": "mktree", "path": "src", "tree": t2}, {"op": "snap", "path": "src"}, {"op": "backup", "opts": o[2]}]
    return {"steps": steps, "trees": [t0, t1, t2], "opts": o, "interrupted": interrupted}


def probe_steps(nbands, final_opts):
    """every read operation, then a new backup and its restore"""
    steps = [{"op": "versions"}]
    for b in range(nbands):
        steps.append({"op": "list", "band": b})
        steps.append({"op": "restore", "band": b, "dest": f"out{b}"})
    steps += [{"op": "restore", "dest": "outlatest"},
              {"op": "validate"}, {"op": "validate", "skip": True},
              {"op": "backup", "opts": final_opts}, {"op": "restore", "band": "latest", "dest": "outnew"}, {"op": "arch"}]
    return steps


def classify(path):
    parts = path.split("/")
    if path == "CONSERVE":
        return "header"
    if path == "GC_LOCK":
        return "lock"
    if parts[0] == "d":
        return "block"
    if parts[-1] == "BANDHEAD":
        return "head"
    if parts[-1] == "BANDTAIL":
        return "tail"
    return "hunk"


def build_cases(ctx, nbases, flips_per_file, kinds=DAMAGE_KINDS):
    """phase 1: healthy reference per base; phase 2: one case per (file, damage)"""
    bases = [make_base(ctx) for _ in range(nbases)]
    ref_cases = []
    for i, b in enumerate(bases):
        b["id"] = f"B{i}"
        ref_cases.append({"id": b["id"], "steps": b["steps"] + [{"op": "arch"}] + probe_steps(3, b["opts"][2])})
    ref = ctx.cvh_run(ref_cases)
    cases, info = [], {}
    for b in bases:
        r = ref.get(b["id"])
        b["ref"] = r
        if r is None:
            continue
        nb = len(b["steps"])
        arch = r[nb]["arch"]
        b["arch"] = arch
        b["nbands"] = len([d for d in arch["dirs"] if scen.BAND_RE.match(d)])
        b["probe_ref"] = r[nb + 1:]
        files = sorted(arch["files"])
        for f in files:
            cls = classify(f)
            plans = [(k, None, None) for k in kinds]
            for _ in range(flips_per_file):
                plans.append(("bitflip", ctx.rng.randrange(0, 4096), ctx.rng.randrange(8)))
            if cls == "head":
                plans.append(("badversion", None, None))
            for kind, pos, bit in plans:
                if cls == "tail" and kind == "delete":
                    continue          # absence of the tail is the legal 'incomplete' state
                cid = f"{b['id']}_{len(cases)}"
                dmg = {"op": "damage", "file": f, "kind": kind}
                if kind == "badversion":
                    dmg = {"op": "damage", "file": f, "kind": "write",
                           "hex": b'{"start_time":1700000000,"band_format_version":"0.6.x","format_flags":[]}\n'.hex()}
                if pos is not None:
                    dmg.update(pos=pos, bit=bit)
                info[cid] = (b, f, cls, kind, dmg)
                cases.append({"id": cid, "steps": b["steps"] + [dmg, {"op": "arch"}] + probe_steps(b["nbands"], b["opts"][2])})
    res = ctx.cvh_run(cases, shards=16, timeout=3000)
    return bases, cases, info, res


def probe_index(nbands):
    """positions inside probe_steps' results"""
    idx = {"versions": 0}
    for b in range(nbands):
        idx[("list", b)] = 1 + 2 * b
        idx[("restore", b)] = 2 + 2 * b
    base = 1 + 2 * nbands
    idx.update(restore_latest=base, validate=base + 1, validate_quick=base + 2, backup=base + 3, restore_new=base + 4, arch=base + 5)
    return idx


def errs(res):
    """number of errors an operation reported (returned error counts as one)"""
    n = len(res.get("monitor_errors") or [])
    if res.get("result") == "err":
        n += 1
    return n
