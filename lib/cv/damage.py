"""Shared by C09 and C10: archives from varied histories, single-file damage, and what
each operation does afterwards."""
import json

from . import gen, scen

DAMAGE_KINDS = ["delete", "trunc0", "trunchalf", "garbage"]


def make_base(ctx, index=None):
    """A history giving two or three versions (sometimes an interrupted one in the middle)."""
    t0 = scen.small_tree(ctx.rng)
    t1, _ = gen.mutate_tree(ctx.rng, t0)
    t2, _ = gen.mutate_tree(ctx.rng, t1)
    for t in (t0, t1, t2):
        t["c"].setdefault("keep", {"k": "f", "data": "6b656570", "mode": 0o644, "mtime": 10**18})
        # a directory whose own entry and whose children's entries can land in different index hunks
        t["c"].setdefault("dir", {"k": "d", "mode": 0o750, "mtime": 10**18 + 1, "c": {
            "in1": {"k": "f", "data": "696e31", "mode": 0o600, "mtime": 10**18 + 2},
            "in2": {"k": "l", "target": "in1", "mtime": 10**18 + 3}}})
    # a file that sorts first and changes between the first and the second version: when the second backup is interrupted
    # after its first hunks, the first version's entry for it is shadowed in the stitched listing of the second
    for k, t in enumerate((t0, t1, t2)):
        v = min(k, 1)
        t["c"][".0first"] = {"k": "f", "data": (b"first-v%d" % v).hex(), "mode": 0o644, "mtime": 10**18 + 100 * v}
    # a file whose path sorts after every other and that exists in the first version only: if a later version were ever read as incomplete
    # (its tail not taken as closing it), stitching would bring this file back
    last = "\U0010fffd"          # sorts after every other name; path order puts deeper directories after shallower ones
    t0["c"][last] = {"k": "d", "mode": 0o755, "mtime": 10**18, "c": {"sub": {"k": "d", "mode": 0o755, "mtime": 10**18, "c": {
        "last": {"k": "f", "data": "6c617374", "mode": 0o644, "mtime": 10**18 + 7}}}}}
    t1["c"].pop(last, None)
    t2["c"].pop(last, None)
    o = [scen.small_opts(ctx.rng) for _ in range(3)]
    if ctx.rng.random() < 0.6:
        for x in o:
            x["meph"] = ctx.rng.choice([1, 2])
    if index is not None and index % 2 == 0:
        for x in o:              # small files share combined blocks
            x["sfc"], x["mbs"] = 16, 64
        o[1]["meph"] = ctx.rng.choice([1, 2])       # the interrupted backup gets some hunks out before it is killed
    steps = [{"op": "init"},
             {"op": "mktree", "path": "src", "tree": t0}, {"op": "backup", "opts": o[0]},
             {"op": "mktree", "path": "src", "tree": t1}]
    interrupted = ctx.rng.random() < 0.4 if index is None else index % 2 == 0
    if interrupted:
        steps.append({"op": "backup", "opts": o[1], "plan": {"crash": ctx.rng.randrange(12, 40) if index is None else ctx.rng.randrange(24, 44)}})
    else:
        steps.append({"op": "backup", "opts": o[1]})
    steps += [{"op": "mktree", "path": "src", "tree": t2}, {"op": "snap", "path": "src"}, {"op": "walk"}, {"op": "backup", "opts": o[2]}]
    return {"steps": steps, "trees": [t0, t1, t2], "opts": o, "interrupted": interrupted}


def probe_steps(nbands, final_opts):
    """every read operation, then a new backup and its restore"""
    steps = [{"op": "versions"}]
    for b in range(nbands):
        steps.append({"op": "list", "band": b})
        steps.append({"op": "restore", "band": b, "dest": f"out{b}"})
    steps += [{"op": "restore", "dest": "outlatest"},
              {"op": "validate"}, {"op": "validate", "skip": True},
              {"op": "backup", "opts": final_opts}, {"op": "restore", "band": "latest", "dest": "outnew"}, {"op": "arch"}]
    return steps


def classify(path):
    parts = path.split("/")
    if path == "CONSERVE":
        return "header"
    if path == "GC_LOCK":
        return "lock"
    if parts[0] == "d":
        return "block"
    if parts[-1] == "BANDHEAD":
        return "head"
    if parts[-1] == "BANDTAIL":
        return "tail"
    return "hunk"


def build_cases(ctx, nbases, flips_per_file, kinds=DAMAGE_KINDS):
    """phase 1: healthy reference per base; phase 2: one case per (file, damage)"""
    bases = [make_base(ctx, i) for i in range(nbases)]
    ref_cases = []
    for i, b in enumerate(bases):
        b["id"] = f"B{i}"
        ref_cases.append({"id": b["id"], "steps": b["steps"] + [{"op": "arch"}] + probe_steps(3, b["opts"][2])})
    ref = ctx.cvh_run(ref_cases)
    cases, info = [], {}
    for b in bases:
        r = ref.get(b["id"])
        b["ref"] = r
        if r is None:
            continue
        nb = len(b["steps"])
        arch = r[nb]["arch"]
        b["arch"] = arch
        b["nbands"] = len([d for d in arch["dirs"] if scen.BAND_RE.match(d)])
        b["probe_ref"] = r[nb + 1:]
        files = sorted(arch["files"])
        refs = {}
        for path, v in arch["files"].items():
            if classify(path) == "hunk" and v.get("t") == "hunk":
                for e in v["v"]:
                    for a in e.get("addrs") or []:
                        refs.setdefault(a["hash"], set()).add(e["apath"])
        shared = {p for p in files if classify(p) == "block" and len(refs.get(p.split("/")[-1], ())) >= 2}
        for f in files:
            cls = classify(f)
            plans = [(k, None, None) for k in kinds]
            for _ in range(flips_per_file):
                plans.append(("bitflip", ctx.rng.randrange(0, 4096), ctx.rng.randrange(8)))
            if cls == "head":
                plans.append(("badversion", None, None))
            if cls == "hunk" and arch["files"][f].get("t") == "hunk":
                # a hunk that still decodes but whose addresses reach past the end of their blocks
                blen = {p2.split("/")[-1]: len(v2.get("hex", "")) // 2 for p2, v2 in arch["files"].items() if v2.get("t") == "block"}
                ents = arch["files"][f]["v"]
                cands = [(i, j) for i, e in enumerate(ents) for j, a in enumerate(e.get("addrs") or []) if a.get("hash") in blen]
                for (i, j) in cands[:3]:
                    a = ents[i]["addrs"][j]
                    n = blen[a["hash"]]
                    for var, (st, ln) in enumerate([(a.get("start", 0) + n, a["len"]), (a.get("start", 0) + 1, a["len"]), (a.get("start", 0), n + 5),
                                                    (1 << 40, a["len"])]):
                        plans.append(("hunkaddr", (i, j, st, ln), var))
            if cls == "tail" and arch["files"][f].get("t") == "json":
                # a tail that still decodes but states another number of hunks than the band holds
                n = arch["files"][f]["v"].get("index_hunk_count")
                if n is not None:
                    for m in sorted({0, max(n - 1, 0), n + 1, n + 7} - {n}):
                        plans.append(("tailcount", m, None))
            if cls == "block" and f in shared:
                # a block several entries read from: one flipped bit at EVERY byte of the stored file (a flip that leaves
                # the block decompressible alters the bytes of some of those files only)
                for pos in range(min(arch["files"][f].get("raw_len", 48), 96)):
                    plans.append(("bitflip", pos, (pos * 3) % 8))
            for kind, pos, bit in plans:
                if cls == "tail" and kind in ("delete", "trunc0"):
                    continue          # absence of the tail is the legal 'incomplete' state, and so is the zero-length
                                      # tail a kill leaves behind (only a non-empty tail closes a band)
                cid = f"{b['id']}_{len(cases)}"
                dmg = {"op": "damage", "file": f, "kind": kind}
                if kind == "badversion":
                    dmg = {"op": "damage", "file": f, "kind": "write",
                           "hex": b'{"start_time":1700000000,"band_format_version":"0.6.x","format_flags":[]}\n'.hex()}
                if kind == "hunkaddr":
                    i_, j_, st_, ln_ = pos
                    v = json.loads(json.dumps(arch["files"][f]["v"]))
                    v[i_]["addrs"][j_] = dict(v[i_]["addrs"][j_], start=st_, len=ln_)
                    dmg = {"op": "damage", "file": f, "kind": "write_hunk", "json": v}
                elif kind == "tailcount":
                    v = dict(arch["files"][f]["v"], index_hunk_count=pos)
                    dmg = {"op": "damage", "file": f, "kind": "write", "hex": (json.dumps(v, separators=(",", ":")) + "\n").encode().hex()}
                elif pos is not None:
                    dmg.update(pos=pos, bit=bit)
                info[cid] = (b, f, cls, kind, dmg)
                cases.append({"id": cid, "steps": b["steps"] + [dmg, {"op": "arch"}] + probe_steps(b["nbands"], b["opts"][2])})
    res = ctx.cvh_run(cases, shards=16, timeout=3000)
    return bases, cases, info, res


def probe_index(nbands):
    """positions inside probe_steps' results"""
    idx = {"versions": 0}
    for b in range(nbands):
        idx[("list", b)] = 1 + 2 * b
        idx[("restore", b)] = 2 + 2 * b
    base = 1 + 2 * nbands
    idx.update(restore_latest=base, validate=base + 1, validate_quick=base + 2, backup=base + 3, restore_new=base + 4, arch=base + 5)
    return idx


def errs(res):
    """number of errors an operation reported (returned error counts as one)"""
    n = len(res.get("monitor_errors") or [])
    if res.get("result") == "err":
        n += 1
    return n


def is_last_hunk_of_open_band(arch, f):
    """f is the highest-numbered index hunk of a band that has no (non-empty) tail"""
    if classify(f) != "hunk":
        return False
    band = f.split("/")[0]
    tail = arch["files"].get(band + "/BANDTAIL")
    if tail is not None and tail.get("t") != "empty":
        return False
    hunks = sorted(p for p in arch["files"] if p.startswith(band + "/i/"))
    return bool(hunks) and hunks[-1] == f


def open_band_last_hunk_case(ctx):
    """The directed history of the known finding (DESIGN.md F14): an interrupted version loses its last index hunk.
    Returns (steps, damage step, restore-before, restore-after, validate-full, validate-quick) or None."""
    def f(d, m=10**18):
        return {"k": "f", "data": d.hex(), "mode": 0o644, "mtime": m}
    names = ["a", "b", "c", "d", "e", "f"]
    t0 = {"k": "d", "mode": 0o755, "mtime": 10**18, "c": {n: f(b"old-" + n.encode()) for n in names}}
    t1 = {"k": "d", "mode": 0o755, "mtime": 10**18, "c": {n: f(b"new-" + n.encode(), 10**18 + 5) for n in names}}
    opts = {"meph": 2, "mbs": 1000, "sfc": 0}
    base = [{"op": "init"}, {"op": "mktree", "path": "src", "tree": t0}, {"op": "backup", "opts": opts},
            {"op": "mktree", "path": "src", "tree": t1}]
    cands = [{"id": f"k{c}", "steps": base + [{"op": "backup", "opts": opts, "plan": {"crash": c}}, {"op": "arch"}]} for c in range(24, 40)]
    res = ctx.cvh_run(cands)
    for c in cands:
        r = res.get(c["id"])
        if r is None:
            continue
        files = r[5]["arch"]["files"]
        hunks = sorted(p for p in files if p.startswith("b0001/i/"))
        if len(hunks) >= 2 and "b0001/BANDTAIL" not in files:
            steps = c["steps"]
            probe = [{"op": "restore", "band": 1, "dest": "o1"}, {"op": "validate"}, {"op": "validate", "skip": True}]
            dmg = {"op": "damage", "file": hunks[-1], "kind": "delete"}
            rr = ctx.cvh_run([{"id": "ref", "steps": steps + probe}, {"id": "dmg", "steps": steps + [dmg] + probe}])
            if rr.get("ref") is None or rr.get("dmg") is None:
                return None
            return steps, dmg, rr["ref"][6], rr["dmg"][7], rr["dmg"][8], rr["dmg"][9]
    return None


def model_probe(ctx, tag, cases, info, res, every=1):
    """L4 on damaged archives: the model's list / restore / validate / backup programs, started from the damaged state as the
    independent reader decoded it, against the implementation's traces, outcomes, listed entries and restored contents."""
    from . import l4
    hs = []
    for n, c in enumerate(cases):
        if n % every:
            continue
        b, f, cls, kind, dmg = info[c["id"]]
        r = res.get(c["id"])
        if r is None or cls == "lock":
            continue
        if kind in ("bitflip", "badversion") and cls != "block":
            continue            # still-decodable index/metadata with altered fields: outside what the typed model state can express
        if any(isinstance(x, dict) and (x.get("panic") or x.get("timeout")) for x in r):
            continue
        nb = len(b["steps"])
        after = r[nb + 1]["arch"]
        fa = after["files"].get(f)
        if fa is not None and cls != "block" and fa.get("t") in ("json", "hunk") and kind != "delete":
            continue            # a truncated / overwritten file that still decodes
        names = l4.Names()
        scen.collect_names(names, c["steps"], r)
        h = l4.History(c["id"], names)
        h.check_premises = False
        for st, rs in zip(c["steps"][:nb], r[:nb]):
            if st["op"] in ("mktree", "walk"):
                h.add(st, rs)
        h.set_state_from_arch(after)
        for st, rs in zip(c["steps"][nb + 2:], r[nb + 2:]):
            if st["op"] in ("list", "restore", "validate", "backup", "arch"):
                h.add(st, rs)
        hs.append(h)
    out = l4.evaluate(ctx, tag, hs, shards=16)
    agreed = total = 0
    for h in hs:
        for desc, code in (out.get(h.cid) or []):
            total += 1
            if code == 0:
                agreed += 1
            else:
                b, f, cls, kind, dmg = info[h.cid]
                ctx.corr_fail("L4", f"damaged archive ({kind} of {f}): model and implementation differ at {desc}: code {code}",
                              {"base_steps": b["steps"], "damage": dmg})
                break
    ctx.layer("L4-damaged-archives", agreed, total)


def touched_paths(arch, f):
    """apaths whose index entry lies in the damaged hunk file f, or one of whose blocks is the damaged block file f
    (looking at every band: a stitched listing may take the entry from any of them)"""
    cls = classify(f)
    out = set()
    for path, v in arch["files"].items():
        if classify(path) != "hunk" or v.get("t") != "hunk":
            continue
        for e in v["v"]:
            if cls == "hunk" and path == f:
                out.add(e["apath"])
            if cls == "block" and any(f.endswith("/" + a["hash"]) for a in e.get("addrs") or []):
                out.add(e["apath"])
    return out


def tree_node(tree, apath):
    node = tree
    for part in [x for x in apath.split("/") if x]:
        if node is None or node.get("k") != "d":
            return None
        node = (node.get("c") or {}).get(part)
    return node


def deleted_head_case(ctx):
    """The directed history of known finding F16: the BANDHEAD of the version below an interrupted one is deleted.
    Returns (steps, damage step, restore-before, restore-after) or None."""
    def f(d, m=10**18):
        return {"k": "f", "data": d.hex(), "mode": 0o644, "mtime": m}
    t0 = {"k": "d", "mode": 0o755, "mtime": 10**18, "c": {n: f(b"old-" + n.encode()) for n in ["a", "b", "c", "d"]}}
    t1 = {"k": "d", "mode": 0o755, "mtime": 10**18, "c": {n: f(b"new-" + n.encode(), 10**18 + 5) for n in ["a", "b", "c", "d"]}}
    opts = {"meph": 2, "mbs": 1000, "sfc": 0}
    steps = [{"op": "init"}, {"op": "mktree", "path": "src", "tree": t0}, {"op": "backup", "opts": opts},
             {"op": "mktree", "path": "src", "tree": t1}, {"op": "backup", "opts": opts, "plan": {"crash": 26}}, {"op": "arch"}]
    probe = [{"op": "restore", "band": 1, "dest": "o1"}]
    dmg = {"op": "damage", "file": "b0000/BANDHEAD", "kind": "delete"}
    rr = ctx.cvh_run([{"id": "ref", "steps": steps + probe}, {"id": "dmg", "steps": steps + [dmg] + probe}])
    if rr.get("ref") is None or rr.get("dmg") is None:
        return None
    files = rr["ref"][5]["arch"]["files"]
    if "b0001/BANDHEAD" not in files or "b0001/BANDTAIL" in files:
        return None
    return steps, dmg, rr["ref"][6], rr["dmg"][7]
