"""Shared machinery of the checks: proof step, harness build, model evaluation in
Coq, verdicts, evidence.  See DESIGN.md section 2.2."""
import fcntl
import json
import os
import threading
import random
import re
import shutil
import subprocess
import sys
import tempfile
import time

VERIF = os.path.dirname(os.path.dirname(os.path.dirname(os.path.abspath(__file__))))
COQ = os.path.join(VERIF, "coq")
BUILD = os.path.join(VERIF, ".build")
TARGET = os.path.join(BUILD, "target")
HARNESS = os.path.join(VERIF, "harness")
CVH = os.path.join(TARGET, "debug", "cvh")
REPO = "/repo"
# Development aid (bin/try-seed only): check a scratch worktree carrying a seeded change instead of /repo, without
# touching /repo, the regular build output or the committed evidence.  Registered commands never set this.
ALT_REPO = os.environ.get("VERIF_ALT_REPO")
EVIDENCE_DIR = os.path.join(VERIF, "evidence")
if ALT_REPO:
    REPO = ALT_REPO
    TARGET = os.path.join(BUILD, "target-alt")
    CVH = os.path.join(TARGET, "debug", "cvh")
    _alt = os.path.join(BUILD, "alt-harness")
    os.makedirs(_alt, exist_ok=True)
    with open(os.path.join(HARNESS, "Cargo.toml")) as _f:
        _toml = _f.read().replace('path = "/repo"', 'path = "%s"' % ALT_REPO)
    with open(os.path.join(_alt, "Cargo.toml"), "w") as _f:
        _f.write(_toml)
    import shutil as _sh
    _sh.copyfile(os.path.join(HARNESS, "Cargo.lock"), os.path.join(_alt, "Cargo.lock"))
    if not os.path.islink(os.path.join(_alt, "src")):
        os.symlink(os.path.join(HARNESS, "src"), os.path.join(_alt, "src"))
    HARNESS = _alt
    EVIDENCE_DIR = os.path.join(BUILD, "alt-evidence")
KNOWN_FILE = os.path.join(VERIF, "known_findings.txt")

ALLOWED_AXIOMS = set()   # target: every theorem closed under the global context

FORBIDDEN = re.compile(
    r"\b(Admitted|admit|Axiom|Axioms|Parameter|Parameters|Conjecture|Conjectures|Abort)\b|"
    r"Unset\s+Guard|bypass_check|Admit\s+Obligations|-type-in-type|impredicative-set|"
    r"Unset\s+Positivity|Unset\s+Universe")
SECTION_ONLY = re.compile(r"^\s*(Variable|Variables|Hypothesis|Hypotheses|Context)\b")


def log(*a):
    print(*a, file=sys.stderr, flush=True)


def strip_comments(src):
    out, depth, i = [], 0, 0
    while i < len(src):
        if src.startswith("(*", i):
            depth += 1
            i += 2
        elif src.startswith("*)", i) and depth > 0:
            depth -= 1
            i += 2
        else:
            if depth == 0:
                out.append(src[i])
            elif src[i] == "\n":
                out.append("\n")
            i += 1
    return "".join(out)


def scan_sources():
    """Return a list of problems: forbidden vernacular anywhere in coq/."""
    problems = []
    for root, _dirs, files in os.walk(COQ):
        for f in files:
            if not f.endswith(".v"):
                continue
            path = os.path.join(root, f)
            src = strip_comments(open(path).read())
            depth = 0
            for n, line in enumerate(src.split("\n"), 1):
                if re.match(r"^\s*Section\b", line):
                    depth += 1
                elif re.match(r"^\s*End\b", line) and depth > 0:
                    depth -= 1
                m = FORBIDDEN.search(line)
                if m:
                    problems.append(f"{os.path.relpath(path, VERIF)}:{n}: forbidden `{m.group(0)}`")
                if SECTION_ONLY.match(line) and depth == 0:
                    problems.append(f"{os.path.relpath(path, VERIF)}:{n}: `{line.strip()[:40]}` outside a Section")
    return problems


class Lock:
    def __init__(self, name):
        os.makedirs(BUILD, exist_ok=True)
        self.path = os.path.join(BUILD, name + ".lock")

    def __enter__(self):
        self.f = open(self.path, "w")
        fcntl.flock(self.f, fcntl.LOCK_EX)
        return self

    def __exit__(self, *a):
        fcntl.flock(self.f, fcntl.LOCK_UN)
        self.f.close()


def _big_stack():
    import resource
    try:
        resource.setrlimit(resource.RLIMIT_STACK, (resource.RLIM_INFINITY, resource.RLIM_INFINITY))
    except Exception:
        pass


def run(cmd, timeout=None, cwd=None, env=None, input=None):
    e = dict(os.environ)
    e["CARGO_NET_OFFLINE"] = "true"
    e["CARGO_TARGET_DIR"] = TARGET
    if env:
        e.update(env)
    try:
        p = subprocess.run(cmd, cwd=cwd, env=e, capture_output=True, text=True, timeout=timeout, input=input, preexec_fn=_big_stack)
        return p.returncode, p.stdout, p.stderr
    except subprocess.TimeoutExpired as ex:
        return 124, (ex.stdout or b"").decode("utf8", "replace") if isinstance(ex.stdout, bytes) else (ex.stdout or ""), "timeout"


def coq_make(clean=False):
    """Full .vo build of the Coq development (incremental unless clean)."""
    with Lock("coq"):
        if clean:
            run(["make", "-C", COQ, "clean"], timeout=300)
        mk, proj = os.path.join(COQ, "Makefile.conf"), os.path.join(COQ, "_CoqProject")
        if clean or not os.path.exists(os.path.join(COQ, "Makefile")) or not os.path.exists(mk) or os.path.getmtime(mk) < os.path.getmtime(proj):
            rc, out, err = run(["coq_makefile", "-f", "_CoqProject", "-o", "Makefile"], cwd=COQ, timeout=120)
            if rc != 0:
                return False, out + err
        rc, out, err = run(["make", "-C", COQ, "-j16"], timeout=3000)
        return rc == 0, out + err


def build_harness():
    with Lock("cargo"):
        lock_src = os.path.join(REPO, "Cargo.lock")
        rc, out, err = run(["cargo", "build", "--offline"], cwd=HARNESS, timeout=3000)
        return rc == 0, out + err


def gallina_str(s):
    """bytes / str -> Gallina list of N (inside N_scope)."""
    if isinstance(s, str):
        s = s.encode("utf8")
    return "[" + ";".join(str(b) for b in s) + "]"


def gallina_list(items):
    items = list(items)
    if len(items) > 3000:
        # very long list literals overflow Coq's parser stack: concatenate chunks
        return "(" + " ++ ".join("[" + ";".join(items[i:i + 2000]) + "]" for i in range(0, len(items), 2000)) + ")"
    return "[" + ";".join(items) + "]"


def gallina_opt(x, f=lambda v: v):
    return "None" if x is None else "(Some " + f(x) + ")"


def gallina_bool(b):
    return "true" if b else "false"


def gallina_Z(z):
    return f"({z})%Z"


_num_re = re.compile(r"-?\d+")


def _mem_gb(field):
    try:
        for line in open("/proc/meminfo"):
            if line.startswith(field + ":"):
                return int(line.split()[1]) // (1024 * 1024)
    except OSError:
        pass
    return 64


# coqc evaluating a large case file takes several GB: no more of them at once than the machine's memory carries, and none is
# started while little memory is free (other checks may be running beside this one)
_COQC_SLOTS = threading.BoundedSemaphore(max(2, min(16, _mem_gb("MemTotal") // 6)))


def _wait_for_memory(min_gb=7, max_wait=1200):
    t0 = time.time()
    while _mem_gb("MemAvailable") < min_gb and time.time() - t0 < max_wait:
        time.sleep(5)


def coq_eval(name, body, timeout=600):
    """Write .build/cases/<name>.v with `body` and run coqc; return (ok, stdout+stderr)."""
    with _COQC_SLOTS:
        _wait_for_memory()
        return _coq_eval(name, body, timeout)


def _coq_eval(name, body, timeout=600):
    d = os.path.join(BUILD, "cases")
    os.makedirs(d, exist_ok=True)
    path = os.path.join(d, name + ".v")
    with open(path, "w") as f:
        f.write(body)
    rc, out, err = run(["coqc", "-noglob", "-Q", COQ, "CV", "-Q", d, "Cases", path], timeout=timeout, cwd=d)
    return rc == 0, out + err


def parse_eval_blocks(out):
    """Split coqc output into the text of each `= ... : type` block."""
    blocks = []
    cur = None
    for line in out.split("\n"):
        if line.startswith("     = "):
            if cur is not None:
                blocks.append(cur)
            cur = line[7:]
        elif cur is not None:
            if line.startswith("     : "):
                blocks.append(cur)
                cur = None
            else:
                cur += " " + line.strip()
    if cur is not None:
        blocks.append(cur)
    return blocks


def parse_nums(block):
    return [int(x) for x in _num_re.findall(block)]


class Ctx:
    def __init__(self, prop, tier, seed):
        self.prop = prop
        self.tier = tier
        self.seed = seed
        self.rng = random.Random(seed * 1000003 + sum(map(ord, prop)))
        self.t0 = time.time()
        self.violations = []          # (signature, text, replay_obj)
        self.known_hits = []
        self.proof = {"obligations": 0, "discharged": 0, "assumptions": [], "problems": [], "theorems": []}
        self.cov = {"evaluations": 0, "distinct_nontrivial": 0, "rule": "", "samples": [],
                    "corr_layers": {}, "input_distribution": {}}
        self.assumptions = []
        self.corr_failures = []       # correspondence disagreements: (layer, description, replay_obj)
        self.scratch = None
        self.known = load_known(prop)
        self._distinct = set()

    # ---- proof step ------------------------------------------------------
    def proof_step(self):
        ok, out = coq_make(clean=(self.tier == "thorough" and os.environ.get("VERIF_CLEAN", "1") == "1"))
        if not ok:
            self.proof["problems"].append("coq build failed: " + out[-1500:])
            return
        problems = scan_sources()
        self.proof["problems"].extend(problems)
        pfile = os.path.join(COQ, "Props", self.prop + ".v")
        src = strip_comments(open(pfile).read())
        theorems = re.findall(r"^\s*Theorem\s+(\w+)", src, re.M)
        self.proof["theorems"] = theorems
        self.proof["obligations"] = len(theorems)
        rc, out, err = run(["coqc", "-noglob", "-Q", COQ, "CV", pfile], timeout=900, cwd=COQ)
        text = out + err
        if rc != 0:
            self.proof["problems"].append("Props/%s.v does not check: %s" % (self.prop, text[-1500:]))
            return
        closed = text.count("Closed under the global context")
        ax_blocks = re.findall(r"Axioms:\n((?:.+\n)+?)(?=\n|\Z)", text)
        bad = []
        for blk in ax_blocks:
            names = re.findall(r"^(\S+)\s*:", blk, re.M)
            if all(n in ALLOWED_AXIOMS for n in names) and names:
                closed += 1
                self.proof["assumptions"].extend(names)
            else:
                bad.append(blk.strip()[:300])
        if bad:
            self.proof["problems"].append("theorems depend on axioms not on the allow-list: " + " | ".join(bad))
        self.proof["discharged"] = min(closed, len(theorems))
        if closed < len(theorems):
            self.proof["problems"].append(f"{len(theorems)} theorems but only {closed} closed Print Assumptions blocks")
        if self.tier == "thorough":
            vo = os.path.join(COQ, "Props", self.prop + ".vo")
            rc, out, err = run(["coqchk", "-silent", "-o", "-Q", COQ, "CV", "CV.Props." + self.prop], timeout=1800, cwd=COQ)
            txt = out + err
            self.proof["coqchk"] = "ok" if rc == 0 else "FAILED"
            m = re.search(r"\* Axioms:\s*(.*?)(?:\n\s*\*|\Z)", txt, re.S)
            self.proof["coqchk_axioms"] = (m.group(1).strip()[:400] if m else txt[-300:])
            if rc != 0:
                self.proof["problems"].append("coqchk failed: " + txt[-800:])

    def build(self):
        ok, out = build_harness()
        if not ok:
            self.corr_failures.append(("build", "harness / conserve build failed: " + out[-1500:], {"build_log": out[-4000:]}))
        return ok

    # ---- running the implementation -----------------------------------
    def workdir(self):
        if self.scratch is None:
            self.scratch = tempfile.mkdtemp(prefix="cvh-%s-" % self.prop)
        return self.scratch

    def cvh_eval(self, queries):
        d = self.workdir()
        inp = os.path.join(d, "eval_in.jsonl")
        outp = os.path.join(d, "eval_out.jsonl")
        with open(inp, "w") as f:
            for q in queries:
                f.write(json.dumps(q) + "\n")
        rc, out, err = run([CVH, "eval", inp, outp], timeout=1200)
        if rc != 0:
            raise RuntimeError("cvh eval failed: " + err[-500:])
        return [json.loads(l) for l in open(outp)]

    def cvh_run(self, cases, timeout=3000, shards=8):
        """Run cases (list of {"id","steps"}) sharded over processes; returns {id: results}."""
        d = self.workdir()
        shards = max(1, min(shards, len(cases)))
        procs = []
        for k in range(shards):
            part = cases[k::shards]
            inp = os.path.join(d, f"run_in_{k}.json")
            outp = os.path.join(d, f"run_out_{k}.jsonl")
            with open(inp, "w") as f:
                json.dump(part, f)
            e = dict(os.environ)
            p = subprocess.Popen([CVH, "run", inp, outp, os.path.join(d, f"ws{k}")], env=e,
                                 stdout=subprocess.DEVNULL, stderr=subprocess.PIPE)
            procs.append((p, part, outp))
        res = {}
        deadline = time.time() + timeout
        for p, part, outp in procs:
            try:
                p.wait(timeout=max(1, deadline - time.time()))
            except subprocess.TimeoutExpired:
                p.kill()
            got = {}
            if os.path.exists(outp):
                for line in open(outp):
                    try:
                        j = json.loads(line)
                        got[j["id"]] = j["results"]
                    except Exception:
                        pass
            for c in part:
                res[c["id"]] = got.get(c["id"])   # None = the harness died or hung on this case
        return res

    # ---- bookkeeping --------------------------------------------------------
    def count(self, n=1):
        self.cov["evaluations"] += n

    def nontrivial(self, key):
        self._distinct.add(key if isinstance(key, str) else json.dumps(key, sort_keys=True))

    def sample(self, obj, limit=4):
        if len(self.cov["samples"]) < limit:
            self.cov["samples"].append(obj)

    def layer(self, name, agreed, total):
        l = self.cov["corr_layers"].setdefault(name, {"agreed": 0, "total": 0})
        l["agreed"] += agreed
        l["total"] += total

    def dist(self, key, n=1):
        self.cov["input_distribution"][key] = self.cov["input_distribution"].get(key, 0) + n

    def oracle_fail(self, sig, text, replay):
        """A direct-oracle failure on the real implementation."""
        if sig in self.known:
            if sig not in [k[0] for k in self.known_hits]:
                self.known_hits.append((sig, self.known[sig]))
            return
        self.violations.append((sig, text, replay))

    def corr_fail(self, layer, text, replay):
        self.corr_failures.append((layer, text, replay))

    # ---- verdict ----------------------------------------------------------
    def finish(self):
        wall = time.time() - self.t0
        self.cov["distinct_nontrivial"] = len(self._distinct)
        rd = os.path.join(BUILD, "replay")
        os.makedirs(rd, exist_ok=True)
        lines = []
        code = 0
        for sig, text in self.known_hits:
            lines.append(f"KNOWN-FINDING: property={self.prop} sig={sig} {text}")
        if self.violations:
            sig, text, replay = self.violations[0]
            path = os.path.join(rd, f"{self.prop}-{self.tier}-{self.seed}.json")
            with open(path, "w") as f:
                json.dump({"property": self.prop, "kind": "failing-input", "signature": sig, "what": text,
                           "replay": replay, "other_failures": [v[:2] for v in self.violations[1:20]],
                           "proof_problems": self.proof["problems"],
                           "correspondence_failures": [c[:2] for c in self.corr_failures[:20]]}, f, indent=1, default=str)
            lines.append(f"VIOLATION property={self.prop} replay={path}")
            code = 1
        elif self.proof["problems"] or self.corr_failures:
            path = os.path.join(rd, f"{self.prop}-{self.tier}-{self.seed}.json")
            with open(path, "w") as f:
                json.dump({"property": self.prop, "kind": "no-failing-input-found",
                           "broken_theorems_or_proof_step": self.proof["problems"],
                           "theorems": self.proof["theorems"],
                           "broken_correspondence": [{"layer": c[0], "what": c[1], "case": c[2]} for c in self.corr_failures[:20]]},
                          f, indent=1, default=str)
            lines.append(f"VIOLATION property={self.prop} replay={path} no-failing-input-found")
            code = 1
        ev = {
            "property_id": self.prop, "tier": self.tier, "seed": self.seed, "level": "proof",
            "coverage": dict(self.cov, **{
                "obligations": max(1, self.proof["obligations"]),
                "discharged": self.proof["discharged"],
                "theorems": self.proof["theorems"],
                "checker_cmd": f"make -C coq (full .vo build) && coqc -Q coq CV coq/Props/{self.prop}.v"
                               + (" && coqchk -o CV.Props.%s" % self.prop if self.tier == "thorough" else ""),
                "trusted_base": TRUSTED_BASE + ["Print Assumptions (this run): "
                                                + ("Closed under the global context for all theorems" if not self.proof["assumptions"] and not self.proof["problems"] else json.dumps(self.proof["assumptions"] + self.proof["problems"])[:600])],
                "proof_problems": self.proof["problems"],
                "known_findings_hit": [k[0] for k in self.known_hits],
                "correspondence_failures": len(self.corr_failures),
                "coqchk": self.proof.get("coqchk"), "coqchk_axioms": self.proof.get("coqchk_axioms"),
            }),
            "assumptions": self.assumptions,
            "wall_s": round(wall, 2),
            "violations": len(self.violations) + (1 if (code and not self.violations) else 0),
        }
        if not ev["coverage"]["samples"]:
            ev["coverage"]["samples"] = ["(no case ran)"]
        os.makedirs(EVIDENCE_DIR, exist_ok=True)
        with open(os.path.join(EVIDENCE_DIR, self.prop + ".json"), "w") as f:
            json.dump(ev, f, indent=1, default=str)
        if self.scratch:
            subprocess.run(["chmod", "-R", "u+rwx", self.scratch], capture_output=True)
            shutil.rmtree(self.scratch, ignore_errors=True)
        for l in lines:
            print(l, flush=True)
        if code == 0:
            stale = os.path.join(rd, f"{self.prop}-{self.tier}-{self.seed}.json")
            if os.path.exists(stale):
                os.remove(stale)
            print(f"OK property={self.prop} tier={self.tier} evaluations={self.cov['evaluations']} "
                  f"theorems={self.proof['discharged']}/{self.proof['obligations']} wall={wall:.0f}s", flush=True)
        return code


TRUSTED_BASE = [
    "Coq 8.16.1 kernel; vm_compute used for model evaluation and witness lemmas; no native_compute; full .vo builds",
    "no Axiom/Parameter/Admitted in coq/ (scanned every run); allow-list of standard-library axioms: empty",
    "hand-written Gallina model tied to /repo by the correspondence check of this run (cvh harness + transport hook, feature verif_hooks)",
    "harness: independent reader/writer of the 0.6 format (snap, serde_json, blake2-rfc), Python driver printing Gallina terms and parsing coqc output",
    "no extraction (no Extract Constant / Extract Inductive)",
    "modelled, not verified: tokio scheduling, kernel/file-system semantics, snappy/JSON/BLAKE2b codecs, globset parser, jiff/filetime conversions, S3/SFTP transports",
]


def load_known(prop):
    known = {}
    if os.path.exists(KNOWN_FILE):
        for line in open(KNOWN_FILE):
            m = re.match(r"known:\s+property=(\S+)\s+sig=(\S+)\s+(.*)", line.strip())
            if m and m.group(1) == prop:
                known[m.group(2)] = m.group(3)
    return known
