"""Dest.restore_into (coq/Dest.v) against what restore leaves in its destination: shared by C16 and C01."""
import json

from . import common, scen
from .common import gallina_str, gallina_list, gallina_opt

KCODE = {"File": 0, "Dir": 1, "Symlink": 2}


def fs_bindings(tree):
    """snapshot of a directory -> [(components, node)] for everything below it"""
    out = []

    def rec(node, comps):
        for nm in sorted(node.get("c", {})):
            ch = node["c"][nm]
            q = comps + [nm]
            out.append((q, ch))
            if ch["k"] == "d":
                rec(ch, q)
    if tree:
        rec(tree, [])
    return out


def gnode(n):
    if n["k"] == "d":
        return "NDir"
    if n["k"] == "l":
        return "(NLink " + gallina_str(n["target"]) + ")"
    return "(NFile " + gallina_str(bytes.fromhex(n.get("data", ""))) + ")"


def gfs(tree):
    return gallina_list(["(" + gallina_list([gallina_str(c) for c in q]) + "," + gnode(n) + ")" for q, n in fs_bindings(tree)])


def row(overwrite, before_tree, listing, content, after_tree, nerr, refused, want_tree_listing):
    ents = []
    for e in listing:
        k = KCODE.get(e["kind"], 3)
        ents.append("(mk " + gallina_str(e["apath"]) + " " + str(k) + " " + gallina_str(content.get(e["apath"], b"") if k == 0 else b"") + " "
                    + gallina_opt(e.get("target"), gallina_str) + ")")
    b = lambda x: "true" if x else "false"
    return ("(" + b(overwrite) + ", " + gfs(before_tree) + ", " + gallina_list(ents) + ", " + gfs(after_tree) + ", " + str(nerr) + ", " + b(refused)
            + ", " + b(want_tree_listing) + ")")


CODES = ("1 = what the destination holds afterwards, 2 = number of errors reported, 3 = the model resolved a path through a symlink, "
         "4/5 = refusal, 6 = the destination before the restore does not meet the theorems' premise tree_like, "
         "7 = the listing of a complete version does not meet the premise tree_listing")


def evaluate(tag, rows, timeout=1800, chunk=250):
    """-> list of codes (0 = agreement), or (None, text) when the evaluation itself failed; sharded over several coqc runs"""
    if len(rows) > chunk:
        import concurrent.futures
        parts = [rows[i:i + chunk] for i in range(0, len(rows), chunk)]
        with concurrent.futures.ThreadPoolExecutor(max_workers=8) as ex:
            outs = list(ex.map(lambda kp: evaluate(f"{tag}_{kp[0]}", kp[1], timeout, chunk), enumerate(parts)))
        nums = []
        for n_, txt in outs:
            if n_ is None:
                return None, txt
            nums += n_
        return nums, ""
    body = ("From CV Require Import Base.Str Apath Entry Valid Dest DestP DestTreeP.\nLocal Open Scope N_scope.\n"
            "Definition mk (p : str) (k : N) (c : bytes) (t : option str) : entry := {| e_apath := p; e_kind := (if N.eqb k 0 then KFile else if N.eqb k 1 "
            "then KDir else if N.eqb k 2 then KSymlink else KUnknown); e_mtime := 0%Z; e_nanos := 0; e_mode := 420; e_user := None; e_group := None; "
            "e_addrs := [{| a_hash := c; a_start := 0; a_len := 0 |}]; e_target := t |}.\n"
            "Definition cof (e : entry) : bytes := concat (map a_hash (e_addrs e)).\n"
            "Definition node_eqb (a b : node) : bool := match a, b with NDir, NDir => true | NFile x, NFile y => str_eqb x y "
            "| NLink x, NLink y => str_eqb x y | _, _ => false end.\n"
            "Definition fs_sub (f g : fs) : bool := forallb (fun b => match lookup g (fst b) with Some n => node_eqb n (snd b) | None => false end) f.\n"
            "Definition one (c : bool * fs * list entry * fs * N * bool * bool) : N := let '(ow, f0, es, f1, nerr, refused, wtl) := c in "
            "if negb (tree_likeb f0) then 6 else if wtl && negb (tree_listingb es) then 7 else "
            "match restore_into cof ow f0 es with None => if refused then 0 else 4 | Some s => if refused then 5 else "
            "if negb (N.eqb (d_esc s) 0) then 3 else if negb (fs_sub (d_fs s) f1 && fs_sub f1 (d_fs s)) then 1 else if N.eqb (d_errs s) nerr then 0 else 2 end.\n"
            "Definition cs : list (bool * fs * list entry * fs * N * bool * bool) := " + gallina_list(rows) + ".\n"
            "Eval vm_compute in map one cs.\n")
    ok, txt = common.coq_eval(tag, body, timeout)
    blocks = common.parse_eval_blocks(txt)
    if not ok or not blocks:
        return None, txt[-500:]
    return common.parse_nums(blocks[0].split("%")[0].split(":")[0]), ""
