//! Materialise a JSON tree description on disk, and snapshot a directory back
//! into the same form (lstat / readlink / content).
use std::collections::BTreeMap;
use std::fs;
use std::io;
use std::os::unix::fs::{lchown, symlink, MetadataExt, PermissionsExt};
use std::path::Path;

use filetime::FileTime;
use serde::{Deserialize, Serialize};

#[derive(Debug, Clone, Serialize, Deserialize, PartialEq)]
pub struct Node {
    /// "d", "f", "l"
    pub k: String,
    #[serde(default, skip_serializing_if = "Option::is_none")]
    pub mode: Option<u32>,
    /// total nanoseconds since the epoch (may be negative)
    #[serde(default, skip_serializing_if = "Option::is_none")]
    pub mtime: Option<i64>,
    #[serde(default, skip_serializing_if = "Option::is_none")]
    pub uid: Option<u32>,
    #[serde(default, skip_serializing_if = "Option::is_none")]
    pub gid: Option<u32>,
    /// file content, hex
    #[serde(default, skip_serializing_if = "Option::is_none")]
    pub data: Option<String>,
    /// symlink target
    #[serde(default, skip_serializing_if = "Option::is_none")]
    pub target: Option<String>,
    /// children of a directory
    #[serde(default, skip_serializing_if = "Option::is_none")]
    pub c: Option<BTreeMap<String, Node>>,
    /// if set on a directory: put a CACHEDIR.TAG in it
    #[serde(default, skip_serializing_if = "Option::is_none")]
    pub cachetag: Option<bool>,
}

fn ft(ns: i64) -> FileTime {
    let sec = ns.div_euclid(1_000_000_000);
    let nanos = ns.rem_euclid(1_000_000_000) as u32;
    FileTime::from_unix_time(sec, nanos)
}

/// Create `node` at `path` (which must not exist, except that a directory may).
pub fn materialise(path: &Path, node: &Node) -> io::Result<()> {
    match node.k.as_str() {
        "d" => {
            if !path.is_dir() {
                fs::create_dir(path)?;
            }
            if let Some(children) = &node.c {
                for (name, child) in children {
                    materialise(&path.join(name), child)?;
                }
            }
            if node.cachetag == Some(true) {
                fs::write(
                    path.join("CACHEDIR.TAG"),
                    b"Signature: 8a477f597d28d172789f06886806bc55\n",
                )?;
            }
            if node.uid.is_some() || node.gid.is_some() {
                lchown(path, node.uid, node.gid)?;
            }
            if let Some(mode) = node.mode {
                fs::set_permissions(path, fs::Permissions::from_mode(mode))?;
            }
            if let Some(m) = node.mtime {
                filetime::set_file_mtime(path, ft(m))?;
            }
        }
        "f" => {
            let data = hex::decode(node.data.as_deref().unwrap_or(""))
                .map_err(|e| io::Error::new(io::ErrorKind::InvalidData, e))?;
            fs::write(path, data)?;
            if node.uid.is_some() || node.gid.is_some() {
                lchown(path, node.uid, node.gid)?;
            }
            if let Some(mode) = node.mode {
                fs::set_permissions(path, fs::Permissions::from_mode(mode))?;
            }
            if let Some(m) = node.mtime {
                filetime::set_file_mtime(path, ft(m))?;
            }
        }
        "l" => {
            symlink(node.target.as_deref().unwrap_or(""), path)?;
            if node.uid.is_some() || node.gid.is_some() {
                lchown(path, node.uid, node.gid)?;
            }
            if let Some(m) = node.mtime {
                filetime::set_symlink_file_times(path, ft(m), ft(m))?;
            }
        }
        other => {
            return Err(io::Error::new(
                io::ErrorKind::InvalidInput,
                format!("unknown node kind {other:?}"),
            ))
        }
    }
    Ok(())
}

/// Snapshot `path` without following symlinks.
pub fn snapshot(path: &Path) -> io::Result<Option<Node>> {
    let md = match fs::symlink_metadata(path) {
        Ok(md) => md,
        Err(e) if e.kind() == io::ErrorKind::NotFound => return Ok(None),
        Err(e) => return Err(e),
    };
    let mtime = md.mtime() as i128 * 1_000_000_000 + md.mtime_nsec() as i128;
    let mut node = Node {
        k: String::new(),
        mode: Some(md.mode() & 0o7777),
        mtime: Some(mtime as i64),
        uid: Some(md.uid()),
        gid: Some(md.gid()),
        data: None,
        target: None,
        c: None,
        cachetag: None,
    };
    let ft = md.file_type();
    if ft.is_dir() {
        node.k = "d".into();
        let mut children = BTreeMap::new();
        for de in fs::read_dir(path)? {
            let de = de?;
            let name = de.file_name().to_string_lossy().into_owned();
            if let Some(child) = snapshot(&de.path())? {
                children.insert(name, child);
            }
        }
        node.c = Some(children);
    } else if ft.is_file() {
        node.k = "f".into();
        node.data = Some(hex::encode(fs::read(path)?));
    } else if ft.is_symlink() {
        node.k = "l".into();
        node.mode = None;
        node.target = Some(fs::read_link(path)?.to_string_lossy().into_owned());
    } else {
        node.k = "?".into();
    }
    Ok(Some(node))
}

/// Remove a path of any kind, recursively, making directories writable first.
pub fn remove_all(path: &Path) -> io::Result<()> {
    let md = match fs::symlink_metadata(path) {
        Ok(md) => md,
        Err(e) if e.kind() == io::ErrorKind::NotFound => return Ok(()),
        Err(e) => return Err(e),
    };
    if md.file_type().is_dir() {
        let _ = fs::set_permissions(path, fs::Permissions::from_mode(0o700));
        for de in fs::read_dir(path)? {
            remove_all(&de?.path())?;
        }
        fs::remove_dir(path)
    } else {
        fs::remove_file(path)
    }
}
