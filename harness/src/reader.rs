//! Independent reader (and writer) of the conserve 0.6 archive format, built
//! directly on `snap`, `serde_json::Value` and `blake2-rfc` from doc/format.md.
//! It never calls into conserve.
use std::collections::BTreeMap;
use std::fs;
use std::io;
use std::path::Path;

use serde_json::{json, Map, Value};

pub fn blake2b_hex(data: &[u8]) -> String {
    hex::encode(blake2_rfc::blake2b::blake2b(64, &[], data).as_bytes())
}

pub fn snap_decompress(data: &[u8]) -> Option<Vec<u8>> {
    snap::raw::Decoder::new().decompress_vec(data).ok()
}

pub fn snap_compress(data: &[u8]) -> Vec<u8> {
    snap::raw::Encoder::new().compress_vec(data).expect("compress")
}

/// Decode the payload of an archive file given its archive-relative path.
/// Returns a JSON description: {"t": kind, ...}.
pub fn decode_payload(relpath: &str, raw: &[u8]) -> Value {
    let parts: Vec<&str> = relpath.split('/').collect();
    let name = *parts.last().unwrap_or(&"");
    if raw.is_empty() {
        return json!({"t": "empty"});
    }
    let is_band = |s: &str| s.starts_with('b') && s.len() > 1 && s[1..].bytes().all(|c| c.is_ascii_digit());
    if parts.len() == 1 && (name == "CONSERVE" || name == "GC_LOCK") {
        return match serde_json::from_slice::<Value>(raw) {
            Ok(v) => json!({"t": "json", "v": v}),
            Err(_) => json!({"t": "garbage"}),
        };
    }
    if parts.len() == 2 && is_band(parts[0]) && (name == "BANDHEAD" || name == "BANDTAIL") {
        return match serde_json::from_slice::<Value>(raw) {
            Ok(v) => json!({"t": "json", "v": v}),
            Err(_) => json!({"t": "garbage"}),
        };
    }
    if parts.len() == 4 && is_band(parts[0]) && parts[1] == "i" {
        return match snap_decompress(raw) {
            None => json!({"t": "garbage"}),
            Some(bytes) => match serde_json::from_slice::<Value>(&bytes) {
                Ok(v) if v.is_array() => json!({"t": "hunk", "v": v}),
                _ => json!({"t": "garbage"}),
            },
        };
    }
    if parts.len() == 3 && parts[0] == "d" {
        return match snap_decompress(raw) {
            None => json!({"t": "garbage"}),
            Some(bytes) => {
                let h = blake2b_hex(&bytes);
                json!({"t": "block", "hex": hex::encode(&bytes), "hash": h,
                       "name_ok": h == name, "subdir_ok": name.len() >= 3 && parts[1] == &name[..3]})
            }
        };
    }
    json!({"t": "stray", "len": raw.len()})
}

fn walk(root: &Path, rel: &str, files: &mut BTreeMap<String, Vec<u8>>, dirs: &mut Vec<String>) -> io::Result<()> {
    let dir = if rel.is_empty() { root.to_path_buf() } else { root.join(rel) };
    for de in fs::read_dir(&dir)? {
        let de = de?;
        let name = de.file_name().to_string_lossy().into_owned();
        let child_rel = if rel.is_empty() { name.clone() } else { format!("{rel}/{name}") };
        let ft = de.file_type()?;
        if ft.is_dir() {
            dirs.push(child_rel.clone());
            walk(root, &child_rel, files, dirs)?;
        } else if ft.is_file() {
            files.insert(child_rel, fs::read(de.path())?);
        } else {
            files.insert(child_rel, b"<special>".to_vec());
        }
    }
    Ok(())
}

/// Raw snapshot: path -> bytes, plus directory list.
pub fn raw_snapshot(root: &Path) -> io::Result<(BTreeMap<String, Vec<u8>>, Vec<String>)> {
    let mut files = BTreeMap::new();
    let mut dirs = Vec::new();
    if root.exists() {
        walk(root, "", &mut files, &mut dirs)?;
    }
    dirs.sort();
    Ok((files, dirs))
}

/// Full decoded snapshot of an archive directory.
pub fn read_archive(root: &Path) -> io::Result<Value> {
    let (files, dirs) = raw_snapshot(root)?;
    let mut out = Map::new();
    for (path, raw) in &files {
        let mut v = decode_payload(path, raw);
        v["raw_len"] = json!(raw.len());
        v["raw_hash"] = json!(blake2b_hex(raw)[..16].to_string());
        out.insert(path.clone(), v);
    }
    Ok(json!({"files": Value::Object(out), "dirs": dirs}))
}

/// Write an archive from a layout description (independent writer):
/// {"header": true|false,
///  "blocks": [hex content, ...],
///  "bands": {"3": {"head": true|false|"garbage"|"empty"|{json}, "tail": null|true|{json}|count,
///                  "hunks": {"0": [entries] | "garbage" | "empty"}}}}
/// In entries, an address {"block": k, "start": s, "len": l} is rewritten to the
/// hash of blocks[k].
pub fn write_archive(root: &Path, layout: &Value) -> io::Result<()> {
    fs::create_dir_all(root)?;
    fs::create_dir_all(root.join("d"))?;
    if layout.get("header").and_then(Value::as_bool).unwrap_or(true) {
        fs::write(root.join("CONSERVE"), b"{\"conserve_archive_version\":\"0.6\"}\n")?;
    }
    let mut hashes = Vec::new();
    if let Some(blocks) = layout.get("blocks").and_then(Value::as_array) {
        for b in blocks {
            let content = hex::decode(b.as_str().unwrap_or("")).unwrap_or_default();
            let h = blake2b_hex(&content);
            let dir = root.join("d").join(&h[..3]);
            fs::create_dir_all(&dir)?;
            fs::write(dir.join(&h), snap_compress(&content))?;
            hashes.push(h);
        }
    }
    if let Some(bands) = layout.get("bands").and_then(Value::as_object) {
        for (id, band) in bands {
            let n: u32 = id.parse().unwrap_or(0);
            let bdir = root.join(format!("b{n:04}"));
            fs::create_dir_all(bdir.join("i"))?;
            match band.get("head") {
                Some(Value::Bool(false)) | None | Some(Value::Null) => {}
                Some(Value::Bool(true)) => fs::write(
                    bdir.join("BANDHEAD"),
                    b"{\"start_time\":1700000000,\"band_format_version\":\"0.6.3\"}\n",
                )?,
                Some(Value::String(s)) if s == "garbage" => fs::write(bdir.join("BANDHEAD"), b"\x00\xffnot json")?,
                Some(Value::String(_)) => fs::write(bdir.join("BANDHEAD"), b"")?,
                Some(v) => fs::write(bdir.join("BANDHEAD"), format!("{v}\n"))?,
            }
            match band.get("tail") {
                Some(Value::Bool(false)) | None | Some(Value::Null) => {}
                Some(Value::Bool(true)) => {
                    let n = band.get("hunks").and_then(Value::as_object).map(|m| m.len()).unwrap_or(0);
                    fs::write(
                        bdir.join("BANDTAIL"),
                        format!("{{\"end_time\":1700000001,\"index_hunk_count\":{n}}}\n"),
                    )?
                }
                Some(Value::Number(n)) => fs::write(
                    bdir.join("BANDTAIL"),
                    format!("{{\"end_time\":1700000001,\"index_hunk_count\":{n}}}\n"),
                )?,
                Some(Value::String(s)) if s == "garbage" => fs::write(bdir.join("BANDTAIL"), b"\x00\xffnot json")?,
                Some(Value::String(_)) => fs::write(bdir.join("BANDTAIL"), b"")?,
                Some(v) => fs::write(bdir.join("BANDTAIL"), format!("{v}\n"))?,
            }
            if let Some(hunks) = band.get("hunks").and_then(Value::as_object) {
                for (hn, hv) in hunks {
                    let hn: u32 = hn.parse().unwrap_or(0);
                    let sub = bdir.join("i").join(format!("{:05}", hn / 10000));
                    fs::create_dir_all(&sub)?;
                    let path = sub.join(format!("{hn:09}"));
                    match hv {
                        Value::String(s) if s == "garbage" => fs::write(&path, b"\xff\xff\xff\xffgarbage")?,
                        Value::String(_) => fs::write(&path, b"")?,
                        Value::Array(entries) => {
                            let mut es = entries.clone();
                            for e in es.iter_mut() {
                                if let Some(addrs) = e.get_mut("addrs").and_then(Value::as_array_mut) {
                                    for a in addrs.iter_mut() {
                                        if let Some(k) = a.get("block").and_then(Value::as_u64) {
                                            let h = hashes.get(k as usize).cloned().unwrap_or_default();
                                            let obj = a.as_object_mut().unwrap();
                                            obj.remove("block");
                                            obj.insert("hash".into(), json!(h));
                                        }
                                    }
                                }
                            }
                            let js = serde_json::to_vec(&es).unwrap();
                            fs::write(&path, snap_compress(&js))?;
                        }
                        _ => {}
                    }
                }
            }
        }
    }
    Ok(())
}
