//! The step machine: executes conserve operations (through the public API, on
//! a hooked transport) and harness-side utility steps inside a workspace.
use std::cell::RefCell;
use std::panic::{catch_unwind, AssertUnwindSafe};
use std::path::{Path, PathBuf};
use std::rc::Rc;
use std::sync::Arc;
use std::time::Duration;

use conserve::monitor::test::TestMonitor;
use conserve::transport::Transport;
use conserve::*;
use serde_json::{json, Value};

use crate::icept::{kind_from_str, Icept, Plan, Shared};
use crate::reader;
use crate::tree::{self, Node};

pub struct Ws {
    pub root: PathBuf,
}

fn err_class(e: &conserve::Error) -> String {
    let d = format!("{e:?}");
    let end = d.find(|c: char| !(c.is_alphanumeric() || c == '_')).unwrap_or(d.len());
    d[..end].to_string()
}

fn err_json(e: &conserve::Error) -> Value {
    json!({"class": err_class(e), "msg": format!("{e}"), "dbg": format!("{e:?}").chars().take(300).collect::<String>()})
}

fn parse_plan(v: &Value) -> Plan {
    let mut p = Plan::default();
    if let Some(f) = v.get("faults").and_then(Value::as_array) {
        for pair in f {
            if let (Some(k), Some(kind)) = (pair[0].as_u64(), pair[1].as_str()) {
                p.faults.insert(k as usize, kind_from_str(kind));
            }
        }
    }
    p.crash_at = v.get("crash").and_then(Value::as_u64).map(|x| x as usize);
    p.crash_empty_at = v.get("crash_empty").and_then(Value::as_u64).map(|x| x as usize);
    if let Some(f) = v.get("fault_match").and_then(Value::as_array) {
        for t in f {
            p.fault_match.push((
                t[0].as_str().unwrap_or("").to_string(),
                t[1].as_str().unwrap_or("").to_string(),
                kind_from_str(t[2].as_str().unwrap_or("Other")),
            ));
        }
    }
    if let Some(b) = v.get("bernoulli").and_then(Value::as_array) {
        p.bernoulli = Some((b[0].as_u64().unwrap_or(0), b[1].as_u64().unwrap_or(1)));
    }
    if let Some(rs) = v.get("rules").and_then(Value::as_array) {
        for t in rs {
            p.rules.push((
                t[0].as_str().unwrap_or("").to_string(),
                t[1].as_str().unwrap_or("").to_string(),
                t[2].as_u64().unwrap_or(0) as usize,
                t[3].as_str().unwrap_or("Other").to_string(),
            ));
        }
    }
    p.no_quiesce = v.get("no_quiesce").and_then(Value::as_bool).unwrap_or(false);
    if let Some(ds) = v.get("delays").and_then(Value::as_array) {
        for d in ds {
            if let (Some(k), Some(ms)) = (d[0].as_u64(), d[1].as_u64()) {
                p.delays.insert(k as usize, ms);
            }
        }
    }
    if let Some(vs) = v.get("only_verbs").and_then(Value::as_array) {
        p.only_verbs = vs.iter().filter_map(|x| x.as_str().map(String::from)).collect();
    }
    p
}

fn band_policy(v: Option<&Value>) -> BandSelectionPolicy {
    match v {
        Some(Value::Number(n)) => BandSelectionPolicy::Specified(BandId::from(n.as_u64().unwrap_or(0) as u32)),
        Some(Value::String(s)) if s == "latest" => BandSelectionPolicy::Latest,
        _ => BandSelectionPolicy::LatestClosed,
    }
}

fn excludes(v: Option<&Value>) -> std::result::Result<Exclude, conserve::Error> {
    match v.and_then(Value::as_array) {
        Some(a) if !a.is_empty() => Exclude::from_strings(a.iter().filter_map(Value::as_str)),
        _ => Ok(Exclude::nothing()),
    }
}

fn backup_options(v: &Value, changes: Option<Rc<RefCell<Vec<Value>>>>, src: &std::path::Path) -> std::result::Result<BackupOptions, conserve::Error> {
    let mut o = BackupOptions::default();
    if let Some(x) = v.get("meph").and_then(Value::as_u64) {
        o.max_entries_per_hunk = x as usize;
    }
    if let Some(x) = v.get("mbs").and_then(Value::as_u64) {
        o.max_block_size = x as usize;
    }
    if let Some(x) = v.get("sfc").and_then(Value::as_u64) {
        o.small_file_cap = x;
    }
    if let Some(x) = v.get("owner").and_then(Value::as_bool) {
        o.owner = x;
    }
    o.exclude = excludes(v.get("excludes"))?;
    // "mutate": [{"after": apath, "path": relative path, "len": n}]: the source changes WHILE it is backed up: once the
    // entry `after` has been stored, the file `path` (already listed and stat-ed with its directory) is cut to `len` bytes
    let mutate: Vec<(String, std::path::PathBuf, u64)> = v
        .get("mutate")
        .and_then(Value::as_array)
        .map(|a| {
            a.iter()
                .filter_map(|m| {
                    Some((m.get("after")?.as_str()?.to_string(), src.join(m.get("path")?.as_str()?), m.get("len")?.as_u64()?))
                })
                .collect()
        })
        .unwrap_or_default();
    if changes.is_some() || !mutate.is_empty() {
        o.change_callback = Some(Box::new(move |ec: &EntryChange| {
            if let Some(ch) = &changes {
                ch.borrow_mut().push(json!([ec.change.sigil().to_string(), ec.apath.to_string(), serde_json::to_value(ec).unwrap_or(Value::Null)]));
            }
            for (after, path, len) in &mutate {
                if *after == ec.apath.to_string() {
                    if let Ok(f) = std::fs::OpenOptions::new().write(true).open(path) {
                        let _ = f.set_len(*len);
                    }
                }
            }
            Ok(())
        }));
    }
    Ok(o)
}

fn stats_json(s: &BackupStats) -> Value {
    json!({
        "files": s.files, "symlinks": s.symlinks, "directories": s.directories, "unknown_kind": s.unknown_kind,
        "unmodified_files": s.unmodified_files, "modified_files": s.modified_files, "new_files": s.new_files,
        "replaced_damaged_blocks": s.replaced_damaged_blocks,
        "deduplicated_blocks": s.deduplicated_blocks, "written_blocks": s.written_blocks, "combined_blocks": s.combined_blocks,
        "empty_files": s.empty_files, "small_combined_files": s.small_combined_files,
        "single_block_files": s.single_block_files, "multi_block_files": s.multi_block_files,
        "errors": s.errors,
    })
}

enum Outcome<T> {
    Done(T),
    Crashed,
    Timeout,
}

/// Run one conserve operation on a fresh runtime with the plan installed.
/// `f` receives a hooked transport for the archive and a monitor.
fn run_op<T, F, Fut>(ws: &Ws, plan: Plan, runtime: &str, f: F) -> (Value, Option<T>)
where
    F: FnOnce(Transport, Arc<TestMonitor>) -> Fut,
    Fut: std::future::Future<Output = T>,
{
    let no_quiesce = plan.no_quiesce;
    let shared = Shared::new(ws.root.join("archive"), plan, false);
    let icept = Arc::new(Icept { shared: shared.clone(), actor: 0 });
    let transport = Transport::local_hooked(&ws.root.join("archive"), icept);
    let monitor = TestMonitor::arc();
    let rt = match runtime {
        "multi1" => tokio::runtime::Builder::new_multi_thread().worker_threads(1).enable_all().build(),
        "multi2" => tokio::runtime::Builder::new_multi_thread().worker_threads(2).enable_all().build(),
        "multi8" => tokio::runtime::Builder::new_multi_thread().worker_threads(8).enable_all().build(),
        // virtual time: timers fire as soon as the runtime is idle, so a plan's `delays` cost nothing
        "paused" => tokio::runtime::Builder::new_current_thread().enable_all().start_paused(true).build(),
        _ => tokio::runtime::Builder::new_current_thread().enable_all().build(),
    }
    .expect("runtime");
    let sh2 = shared.clone();
    let mon2 = monitor.clone();
    let paused = runtime == "paused";
    let res = catch_unwind(AssertUnwindSafe(|| {
        rt.block_on(async move {
            let fut = f(transport, mon2);
            let out = if paused {
                // no watchdog timer here: with a paused clock it would fire the moment the runtime waits for file I/O
                tokio::select! {
                    r = fut => Outcome::Done(r),
                    _ = sh2.halt_notify.notified() => Outcome::Crashed,
                }
            } else {
                tokio::select! {
                    r = fut => Outcome::Done(r),
                    _ = sh2.halt_notify.notified() => Outcome::Crashed,
                    _ = tokio::time::sleep(Duration::from_secs(60)) => Outcome::Timeout,
                }
            };
            if let (Outcome::Done(_), false) = (&out, no_quiesce) {
                sh2.quiesce().await;
            }
            out
        })
    }));
    rt.shutdown_background();
    let trace = std::mem::take(&mut *shared.trace.lock().unwrap());
    let merrs: Vec<Value> = monitor.take_errors().iter().map(err_json).collect();
    let mut out = json!({"trace": trace, "monitor_errors": merrs, "crashed": false, "timeout": false, "panic": Value::Null});
    match res {
        Ok(Outcome::Done(t)) => (out, Some(t)),
        Ok(Outcome::Crashed) => {
            out["crashed"] = json!(true);
            (out, None)
        }
        Ok(Outcome::Timeout) => {
            out["timeout"] = json!(true);
            (out, None)
        }
        Err(p) => {
            let msg = p
                .downcast_ref::<String>()
                .cloned()
                .or_else(|| p.downcast_ref::<&str>().map(|s| s.to_string()))
                .unwrap_or_else(|| "panic".into());
            out["panic"] = json!(msg);
            (out, None)
        }
    }
}

fn res_json<T>(out: &mut Value, r: Option<std::result::Result<T, conserve::Error>>, okf: impl FnOnce(T) -> Value) {
    match r {
        Some(Ok(t)) => {
            out["result"] = json!("ok");
            out["value"] = okf(t);
        }
        Some(Err(e)) => {
            out["result"] = json!("err");
            out["err"] = err_json(&e);
        }
        None => {
            out["result"] = json!("none");
        }
    }
}

async fn do_backup(transport: Transport, monitor: Arc<TestMonitor>, src: PathBuf, optv: Value, changes: Option<Rc<RefCell<Vec<Value>>>>) -> std::result::Result<BackupStats, conserve::Error> {
    let archive = Archive::open(transport).await?;
    let options = backup_options(&optv, changes, &src)?;
    backup(&archive, &src, &options, monitor).await
}

async fn do_delete(transport: Transport, monitor: Arc<TestMonitor>, step: Value) -> std::result::Result<Value, conserve::Error> {
    let archive = Archive::open(transport).await?;
    let ids: Vec<BandId> = step
        .get("bands")
        .and_then(Value::as_array)
        .map(|a| a.iter().filter_map(Value::as_u64).map(|n| BandId::from(n as u32)).collect())
        .unwrap_or_default();
    let options = DeleteOptions {
        dry_run: step.get("dry").and_then(Value::as_bool).unwrap_or(false),
        break_lock: step.get("break_lock").and_then(Value::as_bool).unwrap_or(false),
    };
    let s = archive.delete_bands(&ids, &options, monitor).await?;
    Ok(json!({
        "unreferenced_block_count": s.unreferenced_block_count,
        "unreferenced_block_bytes": s.unreferenced_block_bytes,
        "deletion_errors": s.deletion_errors,
        "deleted_band_count": s.deleted_band_count,
        "deleted_block_count": s.deleted_block_count,
    }))
}

fn entry_json<E: EntryTrait>(e: &E) -> Value {
    let ts = e.mtime();
    let ns: i128 = ts.as_nanosecond();
    json!({
        "apath": e.apath().to_string(),
        "kind": format!("{:?}", e.kind()),
        "size": e.size(),
        "mtime_ns": ns as i64,
        "mode": serde_json::to_value(e.unix_mode()).unwrap_or(Value::Null),
        "user": e.owner().user, "group": e.owner().group,
        "target": e.symlink_target(),
    })
}

pub fn run_step(ws: &Ws, step: &Value) -> Value {
    let op = step.get("op").and_then(Value::as_str).unwrap_or("");
    let plan = step.get("plan").map(parse_plan).unwrap_or_default();
    let runtime = step.get("runtime").and_then(Value::as_str).unwrap_or("current").to_string();
    let p = |name: &str| -> PathBuf { ws.root.join(step.get(name).and_then(Value::as_str).unwrap_or(name)) };
    match op {
        "init" => {
            let (mut out, r) = run_op(ws, plan, &runtime, |t, _m| async move { Archive::create(t).await.map(|_| ()) });
            res_json(&mut out, r, |_| Value::Null);
            out
        }
        "mktree" => {
            let path = p("path");
            // "@WS@" in symlink targets stands for the absolute path of this workspace
            let tree_json = serde_json::to_string(&step["tree"]).unwrap_or_default().replace("@WS@", &ws.root.to_string_lossy());
            let node: Node = match serde_json::from_str(&tree_json) {
                Ok(n) => n,
                Err(e) => return json!({"result": "harness_error", "msg": format!("{e}")}),
            };
            if step.get("replace").and_then(Value::as_bool).unwrap_or(true) {
                if let Err(e) = tree::remove_all(&path) {
                    return json!({"result": "harness_error", "msg": format!("remove: {e}")});
                }
            }
            match tree::materialise(&path, &node) {
                Ok(()) => json!({"result": "ok"}),
                Err(e) => json!({"result": "harness_error", "msg": format!("materialise: {e}")}),
            }
        }
        "mkraw" => {
            // entries whose names are raw bytes (given in hex: not necessarily UTF-8) in an existing directory of the workspace
            use std::os::unix::ffi::OsStringExt;
            let dir = p("dir");
            let r: std::io::Result<()> = (|| {
                std::fs::create_dir_all(&dir)?;
                for n in step.get("names_hex").and_then(Value::as_array).cloned().unwrap_or_default() {
                    let bytes = hex::decode(n.as_str().unwrap_or("")).unwrap_or_default();
                    let name = std::ffi::OsString::from_vec(bytes);
                    let empty = step.get("empty").and_then(Value::as_bool).unwrap_or(false);
                    std::fs::write(dir.join(name), if empty { &b""[..] } else { &b"raw"[..] })?;
                }
                Ok(())
            })();
            match r {
                Ok(()) => json!({"result": "ok"}),
                Err(e) => json!({"result": "harness_error", "msg": format!("{e}")}),
            }
        }
        "mkfiles" => {
            // many larger files with pseudo-random contents, too big to travel as JSON: count files of size bytes each
            let dir = p("dir");
            let count = step.get("count").and_then(Value::as_u64).unwrap_or(1);
            let size = step.get("size").and_then(Value::as_u64).unwrap_or(1) as usize;
            let mut x = step.get("seed").and_then(Value::as_u64).unwrap_or(1).wrapping_mul(0x9E3779B97F4A7C15) | 1;
            let r: std::io::Result<()> = (|| {
                std::fs::create_dir_all(&dir)?;
                for i in 0..count {
                    let mut buf = vec![0u8; size];
                    for chunk in buf.chunks_mut(8) {
                        x ^= x << 13;
                        x ^= x >> 7;
                        x ^= x << 17;
                        let b = x.to_le_bytes();
                        let n = chunk.len();
                        chunk.copy_from_slice(&b[..n]);
                    }
                    std::fs::write(dir.join(format!("big{i:03}")), &buf)?;
                }
                Ok(())
            })();
            match r {
                Ok(()) => json!({"result": "ok"}),
                Err(e) => json!({"result": "harness_error", "msg": format!("{e}")}),
            }
        }
        "sleep" => {
            std::thread::sleep(std::time::Duration::from_millis(step.get("ms").and_then(Value::as_u64).unwrap_or(0)));
            json!({"result": "ok"})
        }
        "snap" => match tree::snapshot(&p("path")) {
            Ok(n) => json!({"result": "ok", "tree": n}),
            Err(e) => json!({"result": "harness_error", "msg": format!("{e}")}),
        },
        "rm" => match tree::remove_all(&p("path")) {
            Ok(()) => json!({"result": "ok"}),
            Err(e) => json!({"result": "harness_error", "msg": format!("{e}")}),
        },
        "backup" => {
            let changes = if step.get("changes").and_then(Value::as_bool).unwrap_or(false) {
                Some(Rc::new(RefCell::new(Vec::new())))
            } else {
                None
            };
            let src = ws.root.join(step.get("src").and_then(Value::as_str).unwrap_or("src"));
            let optv = step.get("opts").cloned().unwrap_or(json!({}));
            let ch2 = changes.clone();
            let (mut out, r) = run_op(ws, plan, &runtime, |t, m| do_backup(t, m, src, optv, ch2));
            res_json(&mut out, r, |s| stats_json(&s));
            if let Some(ch) = changes {
                out["changes"] = Value::Array(ch.borrow().clone());
            }
            out
        }
        "session" => {
            // several operations through ONE long-lived Archive handle (as a service using the library would), with
            // operations of another client ("other": true -> a handle opened for that operation alone) and source changes
            // in between.  Result: one entry per sub-operation.
            let ops = step.get("ops").and_then(Value::as_array).cloned().unwrap_or_default();
            let root = ws.root.clone();
            let (mut out, r) = run_op(ws, plan, &runtime, |t, m| async move {
                let held = Archive::open(t.clone()).await?;
                let mut res = Vec::new();
                for o in ops {
                    let other = o.get("other").and_then(Value::as_bool).unwrap_or(false);
                    let one = match o.get("op").and_then(Value::as_str).unwrap_or("") {
                        "mktree" => {
                            let path = root.join(o.get("path").and_then(Value::as_str).unwrap_or("src"));
                            let node: std::result::Result<Node, _> = serde_json::from_value(o["tree"].clone());
                            match node {
                                Ok(n) => match tree::remove_all(&path).and_then(|_| tree::materialise(&path, &n)) {
                                    Ok(()) => json!({"result": "ok"}),
                                    Err(e) => json!({"result": "harness_error", "msg": format!("{e}")}),
                                },
                                Err(e) => json!({"result": "harness_error", "msg": format!("{e}")}),
                            }
                        }
                        "backup" => {
                            let src = root.join(o.get("src").and_then(Value::as_str).unwrap_or("src"));
                            let optv = o.get("opts").cloned().unwrap_or(json!({}));
                            let r = if other {
                                do_backup(t.clone(), m.clone(), src, optv, None).await
                            } else {
                                match backup_options(&optv, None, &src) {
                                    Ok(options) => backup(&held, &src, &options, m.clone()).await,
                                    Err(e) => Err(e),
                                }
                            };
                            match r {
                                Ok(s) => json!({"result": "ok", "value": stats_json(&s)}),
                                Err(e) => json!({"result": "err", "err": err_json(&e)}),
                            }
                        }
                        "delete" => {
                            let r = if other {
                                do_delete(t.clone(), m.clone(), o.clone()).await
                            } else {
                                let ids: Vec<BandId> = o.get("bands").and_then(Value::as_array)
                                    .map(|a| a.iter().filter_map(Value::as_u64).map(|n| BandId::from(n as u32)).collect()).unwrap_or_default();
                                held.delete_bands(&ids, &DeleteOptions { dry_run: false, break_lock: false }, m.clone()).await.map(|s| json!({"deleted_block_count": s.deleted_block_count}))
                            };
                            match r {
                                Ok(v) => json!({"result": "ok", "value": v}),
                                Err(e) => json!({"result": "err", "err": err_json(&e)}),
                            }
                        }
                        other_op => json!({"result": "harness_error", "msg": format!("unknown session op {other_op:?}")}),
                    };
                    res.push(one);
                }
                Ok::<Value, conserve::Error>(Value::Array(res))
            });
            res_json(&mut out, r, |v| v);
            out
        }
        "delete" => {
            let st = step.clone();
            let (mut out, r) = run_op(ws, plan, &runtime, |t, m| do_delete(t, m, st));
            res_json(&mut out, r, |v| v);
            out
        }
        "restore" => {
            let dest = ws.root.join(step.get("dest").and_then(Value::as_str).unwrap_or("dest"));
            let st = step.clone();
            let dest2 = dest.clone();
            let (mut out, r) = run_op(ws, plan, &runtime, |t, m| async move {
                let archive = Archive::open(t).await?;
                let options = RestoreOptions {
                    exclude: excludes(st.get("excludes"))?,
                    only_subtree: st.get("subtree").and_then(Value::as_str).map(|s| s.parse::<Apath>()).transpose().map_err(|_| conserve::Error::InvalidVersion { version: "bad apath".into() })?,
                    overwrite: st.get("overwrite").and_then(Value::as_bool).unwrap_or(false),
                    band_selection: band_policy(st.get("band")),
                    ..RestoreOptions::default()
                };
                restore(&archive, &dest2, options, m).await
            });
            res_json(&mut out, r, |_| Value::Null);
            out["tree"] = match tree::snapshot(&dest) {
                Ok(n) => serde_json::to_value(n).unwrap_or(Value::Null),
                Err(e) => json!({"snapshot_error": format!("{e}")}),
            };
            out
        }
        "list" => {
            let st = step.clone();
            let (mut out, r) = run_op(ws, plan, &runtime, |t, m| async move {
                let archive = Archive::open(t).await?;
                let subtree: Apath = st.get("subtree").and_then(Value::as_str).unwrap_or("/").parse().map_err(|_| conserve::Error::InvalidVersion { version: "bad apath".into() })?;
                let mut stitch = archive.iter_entries(band_policy(st.get("band")), subtree, excludes(st.get("excludes"))?, m).await?;
                let mut v = Vec::new();
                while let Some(e) = stitch.next().await {
                    let mut j = entry_json(&e);
                    j["raw"] = serde_json::to_value(&e).unwrap_or(Value::Null);
                    v.push(j);
                }
                Ok(Value::Array(v))
            });
            res_json(&mut out, r, |v| v);
            out
        }
        "versions" => {
            let (mut out, r) = run_op(ws, plan, &runtime, |t, _m| async move {
                let archive = Archive::open(t).await?;
                let ids = archive.list_band_ids().await?;
                let mut v = Vec::new();
                for id in ids {
                    let st = match Band::open(&archive, id).await {
                        Ok(b) => match b.get_info().await {
                            Ok(info) => json!({"closed": info.is_closed, "hunks": info.index_hunk_count}),
                            Err(e) => json!({"err": err_class(&e)}),
                        },
                        Err(e) => json!({"err": err_class(&e)}),
                    };
                    v.push(json!([id.to_string(), st]));
                }
                let last_complete = match archive.last_complete_band().await {
                    Ok(b) => json!(b.map(|b| b.id().to_string())),
                    Err(e) => json!({"err": err_class(&e)}),
                };
                Ok(json!({"bands": v, "last_complete": last_complete}))
            });
            res_json(&mut out, r, |v| v);
            out
        }
        "validate" => {
            let skip = step.get("skip").and_then(Value::as_bool).unwrap_or(false);
            let (mut out, r) = run_op(ws, plan, &runtime, |t, m| async move {
                let archive = Archive::open(t).await?;
                archive.validate(&ValidateOptions { skip_block_hashes: skip }, m).await
            });
            res_json(&mut out, r, |_| Value::Null);
            out
        }
        "diff" => {
            let st = step.clone();
            let src = ws.root.join(step.get("src").and_then(Value::as_str).unwrap_or("src"));
            let (mut out, r) = run_op(ws, plan, &runtime, |t, m| async move {
                let archive = Archive::open(t).await?;
                let stored = archive.open_stored_tree(band_policy(st.get("band"))).await?;
                let source = SourceTree::open(&src)?;
                let options = DiffOptions {
                    exclude: excludes(st.get("excludes"))?,
                    include_unchanged: st.get("include_unchanged").and_then(Value::as_bool).unwrap_or(false),
                };
                let mut d = diff(&stored, &source, options, m).await?;
                let mut v = Vec::new();
                while let Some(ec) = d.next().await {
                    v.push(json!([ec.change.sigil().to_string(), ec.apath.to_string(), serde_json::to_value(&ec).unwrap_or(Value::Null)]));
                }
                Ok(Value::Array(v))
            });
            res_json(&mut out, r, |v| v);
            out
        }
        "walk" => {
            let src = ws.root.join(step.get("src").and_then(Value::as_str).unwrap_or("src"));
            let st = step.clone();
            let r = catch_unwind(AssertUnwindSafe(|| -> std::result::Result<Value, conserve::Error> {
                let source = SourceTree::open(&src)?;
                let subtree: Apath = st.get("subtree").and_then(Value::as_str).unwrap_or("/").parse().map_err(|_| conserve::Error::InvalidVersion { version: "bad apath".into() })?;
                let it = source.iter_entries(subtree, excludes(st.get("excludes"))?, TestMonitor::arc())?;
                Ok(Value::Array(it.map(|e| entry_json(&e)).collect()))
            }));
            match r {
                Ok(Ok(v)) => json!({"result": "ok", "value": v}),
                Ok(Err(e)) => json!({"result": "err", "err": err_json(&e)}),
                Err(_) => json!({"result": "none", "panic": "panic in walk"}),
            }
        }
        "arch" => match reader::read_archive(&ws.root.join("archive")) {
            Ok(v) => json!({"result": "ok", "arch": v}),
            Err(e) => json!({"result": "harness_error", "msg": format!("{e}")}),
        },
        "write_archive" => {
            let root = ws.root.join("archive");
            let _ = tree::remove_all(&root);
            match reader::write_archive(&root, &step["layout"]) {
                Ok(()) => json!({"result": "ok"}),
                Err(e) => json!({"result": "harness_error", "msg": format!("{e}")}),
            }
        }
        "damage" => damage(&ws.root.join("archive"), step),
        "rename" => {
            // renumber a version: band directories carry their id only in their name
            let root = ws.root.join("archive");
            let name = |k: &str| step.get(k).and_then(Value::as_str).unwrap_or("").to_string();
            match std::fs::rename(root.join(name("from")), root.join(name("to"))) {
                Ok(()) => json!({"result": "ok"}),
                Err(e) => json!({"result": "harness_error", "msg": format!("{e}")}),
            }
        }
        "transport" => {
            let calls = step.get("calls").and_then(Value::as_array).cloned().unwrap_or_default();
            let (mut out, r) = run_op(ws, plan, &runtime, |t, _m| async move {
                let mut v = Vec::new();
                for c in calls {
                    let path = c.get("path").and_then(Value::as_str).unwrap_or("");
                    let r: std::result::Result<Value, conserve::transport::Error> = match c.get("verb").and_then(Value::as_str).unwrap_or("") {
                        "write" => {
                            let data = hex::decode(c.get("hex").and_then(Value::as_str).unwrap_or("")).unwrap_or_default();
                            let mode = if c.get("mode").and_then(Value::as_str) == Some("Overwrite") {
                                conserve::transport::WriteMode::Overwrite
                            } else {
                                conserve::transport::WriteMode::CreateNew
                            };
                            t.write(path, &data, mode).await.map(|_| Value::Null)
                        }
                        "read" => t.read(path).await.map(|b| json!(hex::encode(&b))),
                        "create_dir" => t.create_dir(path).await.map(|_| Value::Null),
                        "remove_file" => t.remove_file(path).await.map(|_| Value::Null),
                        "remove_dir_all" => t.remove_dir_all(path).await.map(|_| Value::Null),
                        "metadata" => t.metadata(path).await.map(|m| json!([format!("{:?}", m.kind), m.len])),
                        "list_dir" => t.list_dir(path).await.map(|l| {
                            let mut names: Vec<Value> = l.iter().map(|e| json!([e.name, if e.is_dir() { "d" } else { "f" }, e.len])).collect();
                            names.sort_by(|a, b| a[0].as_str().cmp(&b[0].as_str()));
                            Value::Array(names)
                        }),
                        _ => Ok(json!("unknown verb")),
                    };
                    v.push(match r {
                        Ok(x) => json!({"ok": true, "v": x}),
                        Err(e) => json!({"ok": false, "err": crate::icept::kind_str(e.kind())}),
                    });
                }
                Ok::<Value, conserve::Error>(Value::Array(v))
            });
            res_json(&mut out, r, |v| v);
            out
        }
        "race" => race(ws, step),
        "write_race" => write_race(ws, step),
        other => json!({"result": "harness_error", "msg": format!("unknown op {other:?}")}),
    }
}

fn damage(root: &Path, step: &Value) -> Value {
    let rel = step.get("file").and_then(Value::as_str).unwrap_or("");
    let path = root.join(rel);
    let kind = step.get("kind").and_then(Value::as_str).unwrap_or("");
    let r: std::io::Result<()> = (|| {
        match kind {
            "delete" => std::fs::remove_file(&path)?,
            "trunc0" => std::fs::write(&path, b"")?,
            "trunc0_if_exists" => {
                if path.is_file() {
                    std::fs::write(&path, b"")?
                }
            }
            "trunchalf" => {
                let d = std::fs::read(&path)?;
                std::fs::write(&path, &d[..d.len() / 2])?
            }
            "garbage" => {
                let d = std::fs::read(&path)?;
                let seed = step.get("seed").and_then(Value::as_u64).unwrap_or(7);
                let mut x = seed.wrapping_mul(0x9E3779B97F4A7C15) | 1;
                let g: Vec<u8> = (0..d.len().max(8))
                    .map(|_| {
                        x ^= x << 13;
                        x ^= x >> 7;
                        x ^= x << 17;
                        (x >> 24) as u8
                    })
                    .collect();
                std::fs::write(&path, g)?
            }
            "bitflip" => {
                let mut d = std::fs::read(&path)?;
                if !d.is_empty() {
                    let pos = step.get("pos").and_then(Value::as_u64).unwrap_or(0) as usize % d.len();
                    let bit = step.get("bit").and_then(Value::as_u64).unwrap_or(0) as u8 % 8;
                    d[pos] ^= 1 << bit;
                }
                std::fs::write(&path, d)?
            }
            "write" => {
                let d = hex::decode(step.get("hex").and_then(Value::as_str).unwrap_or("")).unwrap_or_default();
                std::fs::write(&path, d)?
            }
            "write_hunk" => {
                // an index hunk holding the given JSON (entries as the format stores them), Snappy-compressed
                let v = step.get("json").cloned().unwrap_or(Value::Array(vec![]));
                let d = serde_json::to_vec(&v).unwrap_or_default();
                std::fs::write(&path, crate::reader::snap_compress(&d))?
            }
            "rmdir" => std::fs::remove_dir_all(&path)?,
            _ => {}
        }
        Ok(())
    })();
    match r {
        Ok(()) => json!({"result": "ok"}),
        Err(e) => json!({"result": "harness_error", "msg": format!("{e}")}),
    }
}

/// Two operations interleaved at storage-operation granularity.
fn race(ws: &Ws, step: &Value) -> Value {
    let schedule: Vec<usize> = step
        .get("schedule")
        .and_then(Value::as_array)
        .map(|a| a.iter().filter_map(Value::as_u64).map(|x| x as usize % 2).collect())
        .unwrap_or_default();
    let shared = Shared::new(ws.root.join("archive"), Plan::default(), true);
    let mons = [TestMonitor::arc(), TestMonitor::arc()];
    let rt = tokio::runtime::Builder::new_current_thread().enable_all().build().expect("runtime");
    let steps = [step["a"].clone(), step["b"].clone()];
    let wsroot = ws.root.clone();
    let sh = shared.clone();
    let mons2 = mons.clone();
    let res = catch_unwind(AssertUnwindSafe(|| {
        rt.block_on(async move {
            let sched = tokio::spawn(sh.clone().run_scheduler(schedule));
            let mk = |actor: usize| {
                let st = steps[actor].clone();
                let sh = sh.clone();
                let mon = mons2[actor].clone();
                let wsroot = wsroot.clone();
                async move {
                    let icept = Arc::new(Icept { shared: sh.clone(), actor });
                    let t = Transport::local_hooked(&wsroot.join("archive"), icept);
                    let r: Value = match st.get("op").and_then(Value::as_str).unwrap_or("") {
                        "backup" => {
                            let src = wsroot.join(st.get("src").and_then(Value::as_str).unwrap_or("src"));
                            match do_backup(t, mon, src, st.get("opts").cloned().unwrap_or(json!({})), None).await {
                                Ok(s) => json!({"result": "ok", "value": stats_json(&s)}),
                                Err(e) => json!({"result": "err", "err": err_json(&e)}),
                            }
                        }
                        "delete" => match do_delete(t, mon, st.clone()).await {
                            Ok(v) => json!({"result": "ok", "value": v}),
                            Err(e) => json!({"result": "err", "err": err_json(&e)}),
                        },
                        _ => json!({"result": "harness_error"}),
                    };
                    sh.mark_done(actor);
                    r
                }
            };
            let both = async { tokio::join!(mk(0), mk(1)) };
            let out = tokio::select! {
                r = both => Some(r),
                _ = tokio::time::sleep(Duration::from_secs(60)) => None,
            };
            if out.is_some() {
                let _ = tokio::time::timeout(Duration::from_secs(20), sched).await;
            }
            out
        })
    }));
    rt.shutdown_background();
    let trace = std::mem::take(&mut *shared.trace.lock().unwrap());
    let merrs: Vec<Value> = mons.iter().map(|m| Value::Array(m.take_errors().iter().map(err_json).collect())).collect();
    match res {
        Ok(Some((a, b))) => json!({"a": a, "b": b, "trace": trace, "monitor_errors": merrs, "timeout": false, "panic": Value::Null}),
        Ok(None) => json!({"trace": trace, "monitor_errors": merrs, "timeout": true, "panic": Value::Null}),
        Err(_) => json!({"trace": trace, "monitor_errors": merrs, "timeout": false, "panic": "panic in race"}),
    }
}


/// Exclusive creation under contention: `writers` threads, each with its own runtime and its own plain local transport on
/// the archive directory, write DIFFERENT contents to the same fresh path with WriteMode::CreateNew, released together by a
/// barrier; `n` rounds, each on a new path.  Reports the rounds in which more than one write returned Ok, and the rounds
/// in which the file does not hold exactly the content of a successful writer.
fn write_race(ws: &Ws, step: &Value) -> Value {
    use std::sync::{Arc, Barrier};
    let n = step.get("n").and_then(Value::as_u64).unwrap_or(1000) as usize;
    let writers = step.get("writers").and_then(Value::as_u64).unwrap_or(2) as usize;
    let dir = ws.root.join("wr");
    let _ = std::fs::create_dir_all(&dir);
    let barrier = Arc::new(Barrier::new(writers));
    let mut handles = Vec::new();
    for w in 0..writers {
        let dir = dir.clone();
        let barrier = barrier.clone();
        handles.push(std::thread::spawn(move || {
            let rt = tokio::runtime::Builder::new_current_thread().enable_all().build().unwrap();
            let t = Transport::local(&dir);
            let mut oks = Vec::with_capacity(n);
            for i in 0..n {
                let content = format!("writer-{w}-round-{i}-{}", "x".repeat(64 + w)).into_bytes();
                barrier.wait();
                let r = rt.block_on(t.write(&format!("f{i}"), &content, conserve::transport::WriteMode::CreateNew));
                oks.push(r.is_ok());
            }
            oks
        }));
    }
    let results: Vec<Vec<bool>> = handles.into_iter().map(|h| h.join().unwrap_or_default()).collect();
    let mut both = 0usize;
    let mut none = 0usize;
    let mut bad_content = 0usize;
    for i in 0..n {
        let winners: Vec<usize> = (0..writers).filter(|w| results[*w].get(i).copied().unwrap_or(false)).collect();
        if winners.len() > 1 {
            both += 1;
        }
        if winners.is_empty() {
            none += 1;
        }
        let got = std::fs::read(dir.join(format!("f{i}"))).unwrap_or_default();
        let fits = winners.iter().any(|w| got == format!("writer-{w}-round-{i}-{}", "x".repeat(64 + w)).into_bytes());
        if !fits {
            bad_content += 1;
        }
    }
    let _ = std::fs::remove_dir_all(&dir);
    json!({"result": "ok", "value": {"rounds": n, "writers": writers, "more_than_one_ok": both, "no_writer_ok": none, "content_not_a_winners": bad_content}})
}
